#!/usr/bin/env python3
"""scratch: build the harness inside a seed worktree (overlay) and run suites through the model driver, without touching /repo.
usage: wtrun.py <worktree> <SUITE[:n[:extra]]>...   (harness sources from $HSRC or /verif/harness)"""
import sys, os, json, glob, subprocess, re, shutil
wt = sys.argv[1]
HS = os.environ.get('HSRC', '/verif/harness')
tag = os.path.basename(wt.rstrip('/'))
work = '/tmp/hwork/run_' + tag
os.makedirs(work, exist_ok=True)
rep = {}
for f in glob.glob(os.path.join(HS, 'verifh', '*.go')):
    rep[os.path.join(wt, 'internal', 'verifh', os.path.basename(f))] = f
base = os.path.join(HS, 'overlay')
for root, _, files in os.walk(base):
    for f in files:
        p = os.path.join(root, f)
        rep[os.path.join(wt, os.path.relpath(p, base))] = p
ov = os.path.join(work, 'overlay.json')
json.dump({'Replace': rep}, open(ov, 'w'))
env = dict(os.environ, GOFLAGS='-mod=mod', GOPROXY='off')
race = os.environ.get('RACE') == '1'
exe = os.path.join(work, 'verifh.test')
if os.environ.get('NOBUILD') != '1':
    # move the agent's demonstration tests out of the way? not needed: only ./internal/verifh is compiled
    cmd = ['go', 'test', '-c', '-vet=off', '-tags', 'sqlite verif', '-overlay', ov, '-o', exe] + (['-race'] if race else []) + ['./internal/verifh/']
    r = subprocess.run(cmd, cwd=wt, env=env, capture_output=True, text=True)
    if r.returncode != 0:
        print('BUILD FAILED', r.stdout[-2000:], r.stderr[-2000:]); sys.exit(2)
for spec in sys.argv[2:]:
    parts = spec.split(':')
    suite = parts[0]; n = parts[1] if len(parts) > 1 else '800'; extra = parts[2] if len(parts) > 2 else ''
    out = os.path.join(work, suite); shutil.rmtree(out, ignore_errors=True); os.makedirs(out)
    e2 = dict(env, GORACE='halt_on_error=0', VERIFH_SUITE=suite, VERIFH_SEED=os.environ.get('SEED', '1'), VERIFH_N=n, VERIFH_OUT=out, VERIFH_TIER='quick', VERIFH_EXTRA=extra)
    r = subprocess.run([exe, '-test.run', '^TestVerif$', '-test.timeout', '30m'], cwd='/verif', env=e2, capture_output=True, text=True)
    log = r.stdout + r.stderr
    open(os.path.join(out, 'harness.log'), 'w').write(log)
    cases = [l.rstrip('\n') for l in open(os.path.join(out, 'cases.txt'))] if os.path.exists(os.path.join(out, 'cases.txt')) else []
    m = subprocess.run([os.environ.get('MODELDRV', '/verif/build/modeldrv'), suite], input='\n'.join(cases) + '\n', capture_output=True, text=True)
    model = m.stdout.split('\n')[:-1]
    mism, fails = [], []
    for i, (c, mm) in enumerate(zip(cases, model)):
        inp, _, obs = c.partition(' => ')
        mo, _, verdict = mm.rpartition(' | ')
        same = (mo == obs) or mo.startswith('SKIP') or obs == 'SKIPOBS'
        if not same: mism.append((i, inp[:200], obs[:150], mo[:150]))
        if verdict.startswith('fail'): fails.append((i, inp[:200], obs[:150], verdict))
    races = len(re.findall(r'WARNING: DATA RACE', log))
    print('%s %s: rc=%d cases=%d model=%d mismatches=%d oracle_fail=%d races=%d' % (tag, suite, r.returncode, len(cases), len(model), len(mism), len(fails), races))
    if r.returncode != 0 and not cases: print(log[-1500:])
    for x in mism[:3]: print('  MISMATCH', x)
    kinds = {}
    for x in fails: kinds.setdefault(x[3].split(' ')[0], []).append(x)
    for k, v in kinds.items(): print('  FAIL x%d' % len(v), v[0])
    if len(model) != len(cases): print('  DRIVER:', m.stderr[-500:], model[-2:])
