#!/bin/bash
# usage: tools/seedimport.sh <seed-id> <worktree> : stores the seeded change of a scratch worktree under /verif/seeded/<id>/ (no checks are run)
set -u
id=$1; wt=$2; d=/verif/seeded/$id
mkdir -p $d/demonstration
(cd $wt && git add -N . >/dev/null 2>&1; git diff -- . ':!*zz_seeded*' ':!SEEDED.md' > $d/patch.diff)
(cd $wt && for f in $(git ls-files --others --exclude-standard; git diff --name-only) ; do case $f in *zz_seeded*) mkdir -p $d/demonstration/$(dirname $f); cp $f $d/demonstration/$f;; esac; done)
[ -f $wt/SEEDED.md ] && cp $wt/SEEDED.md $d/SEEDED.md
ls $d
