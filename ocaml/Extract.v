(* Extraction of the executable model. ExtrOcamlBasic only: bool, option, unit, list, prod,
   sumbool, sumor are mapped to OCaml's own; everything else (nat, N, byte) stays inductive. *)
Require Extraction.
Require Import ExtrOcamlBasic.
From Keto Require Import Base.Bytes Api.Codec Api.CodecProofs Store.Sql Store.Mapping Store.Api Store.Spec Store.MappingProofs Engine.Ast Engine.Engine Engine.RefSem Engine.Expand Api.Transports Opl.Lexer Opl.Parser Opl.SrcPos Opl.Typecheck Conf.Watcher.
Extraction Blacklist List String Bytes.
Separate Extraction
  Codec.tuple_from_string Codec.tuple_string Codec.dom_string Codec.parse_file Codec.print_file CodecProofs.dom_line
  Codec.query_from_url Codec.query_to_url Codec.tuple_from_url Codec.tuple_to_url
  Codec.tuple_to_proto Codec.tuple_from_proto Codec.tuple_from_data_provider
  Codec.query_to_proto Codec.query_from_data_provider
  Codec.tuple_to_json Codec.query_to_json Codec.tuple_from_json Codec.query_from_json
  CodecProofs.d13_class Codec.one_subject Codec.atmost_one_subject
  Bytes.bytes_eqb Bytes.noparen_ends
  Sql.empty_db Sql.no_faults Api.step Api.run Spec.spec_insert Spec.spec_delete Spec.spec_delete_q Spec.spec_transact Spec.spec_list
  Sql.GetRelationTuples Sql.TraverseSubjectSetExpansion Sql.exists_relation_in Sql.ExistsRelationTuples Mapping.ToTuple Mapping.FromTuple Mapping.ToTree Sql.write_stmts Sql.transact_stmts MappingProofs.direct Sql.defaultPageSize Spec.matches_api Spec.tuple_eqb Spec.norm Sql.exec_stmt Api.status_of Api.store_statuses
  Engine.CheckRelationTuple Engine.allowed_of RefSem.ref Ast.config_has_not Ast.config_has_rewrites Transports.observe Transports.observe_batch Transports.decision Transports.reported
  Expand.BuildTree Expand.reach_within Expand.closure Expand.members Expand.height Expand.subjects Expand.unions Expand.edges
  Lexer.lex_all Lexer.tokens Parser.Parse SrcPos.to_src_pos SrcPos.newlines Typecheck.welltyped Typecheck.row_conforms Watcher.legacy_step Watcher.opl_step Watcher.visible Watcher.last_good.
