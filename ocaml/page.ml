(* PAGE suite: keyset pagination against explicit table snapshots (C07) *)
open Common
open Codec
open Sql
open Api

type snapshot = (string * string) list   (* (shard uuid hex, canonical tuple string) in shard order *)
type st = {
  mutable db : Sql.db; mutable names : Byte.byte list list;
  mutable q : Codec.values; mutable size : int;
  mutable snaps : snapshot list; mutable pages : (string list * string) list;
  mutable bad : string list;
}
let state = { db = Sql.empty_db; names = []; q = []; size = 0; snaps = []; pages = []; bad = [] }
let nid = n_of_int 1

let ituple_of (t : tuple) : Sql.ituple = MappingProofs.direct nid t

let run (input : string) (obs : string) : string * string =
  let t = { l = words input } in
  match next t with
  | "reset" ->
    ignore (int_tok t);
    let rec go acc = if peek t = "." then List.rev acc else go (bytes_tok t :: acc) in
    state.names <- go []; state.db <- Sql.empty_db; ("-", "na")
  | "iterstart" ->
    state.q <- C18.p_values t; state.size <- int_tok t; state.snaps <- []; state.pages <- []; state.bad <- [];
    ("-", "na")
  | "table" ->
    let n = int_tok t in
    let rows = List.init n (fun i ->
        let id = next t in
        let tu = C18.p_tuple t in
        (id, tu, i)) in
    let mk (id, tu, i) =
      let it = ituple_of tu in
      match it.i_sub with
      | Some s -> { r_shard = n_of_int (2 * (i + 1)); r_nid = nid; r_ns = it.i_ns; r_obj = it.i_obj; r_rel = it.i_rel; r_sub = s }
      | None -> failwith "table row without subject" in
    let strs = List.concat_map (fun (_, tu, _) ->
        [tu.t_obj] @ (match tu.t_sid, tu.t_sset with Some s, _ -> [s] | None, Some ss -> [ss.ss_obj] | _ -> [])) rows in
    let maps = List.sort_uniq compare (List.map (fun s -> ((nid, s), s)) strs) in
    state.db <- { rows = List.map mk rows; maps = maps; next = n_of_int 1 };
    state.snaps <- List.map (fun (id, tu, _) -> (id, C18.f_tuple tu)) rows :: state.snaps;
    ("-", "na")
  | "page" ->
    let v = C18.p_values t in
    let size = int_tok t in
    let tok = (match next t with
        | "-" -> TokEmpty
        | x when String.length x > 5 && String.sub x 0 5 = "after" -> TokId (n_of_int (2 * int_of_string (String.sub x 5 (String.length x - 5)) + 1))
        | x -> TokId (n_of_int (2 * int_of_string x))) in
    let (_, resp) = Api.step state.names nid Sql.no_faults state.db (OpListREST (v, SizeVal (z_of_int size), tok)) in
    let code = int_of_nat resp.status in
    let ts = List.map C18.f_tuple resp.listed in
    let nx = (match resp.next_tok with TokEmpty -> "-" | TokId n -> string_of_int (int_of_n n / 2) | TokMalformed -> "!") in
    let model = Printf.sprintf "%d %d %s %s" code (List.length ts) (String.concat " " ts) nx in
    (* record the implementation's page for the iteration oracle *)
    (try
       let o = { l = words obs } in
       let icode = int_tok o in
       let n = int_tok o in
       let its = List.init n (fun _ -> C18.f_tuple (C18.p_tuple o)) in
       let inx = next o in
       if icode <> 200 then state.bad <- (Printf.sprintf "page-status-%d" icode) :: state.bad;
       let lim = if state.size = 0 then int_of_nat Sql.defaultPageSize else state.size in
       if n > lim then state.bad <- "page-larger-than-page-size" :: state.bad;
       if inx = "?" then state.bad <- "next-token-is-not-the-id-of-a-row" :: state.bad;
       state.pages <- (its, inx) :: state.pages
     with _ -> state.bad <- "unparsable-page" :: state.bad);
    (model, "na")
  | "iterend" ->
    let verdict =
      if state.bad <> [] then "fail:" ^ String.concat "," (List.sort_uniq compare state.bad)
      else begin
        let q = (match query_from_url state.q with Ok q -> Some q | _ -> None) in
        match q with
        | None -> "na"
        | Some q ->
          let matches c = Spec.matches_api q (C18.p_tuple { l = words c }) in
          let snaps = state.snaps in
          let all_ids = List.sort_uniq compare (List.concat snaps) in
          let stable = List.filter (fun x -> List.for_all (fun s -> List.mem x s) snaps) all_ids in
          let got = List.concat_map fst state.pages in
          let count c l = List.length (List.filter (fun x -> x = c) l) in
          let contents = List.sort_uniq compare (List.map snd all_ids @ got) in
          let problems = List.filter_map (fun c ->
              let lo = if matches c then count c (List.map snd stable) else 0 in
              let hi = if matches c then count c (List.map snd all_ids) else 0 in
              let k = count c got in
              if k < lo then Some "stable-matching-row-missing"
              else if k > hi then Some (if hi = 0 then "non-matching-row-returned" else "row-returned-more-than-once")
              else None) contents in
          if problems = [] then "pass" else "fail:" ^ String.concat "," (List.sort_uniq compare problems)
      end in
    ("-", verdict)
  | "pinternal" ->
    (* an internal consumer of keyset pagination (the traverser pages through subject sets 1000 at a time): the harness
       compares what it returned with the stored rows; every row exactly once *)
    ("SKIP", if obs = "complete" then "pass" else "fail:internal-pagination-lost-or-duplicated-rows")
  | x -> failwith ("PAGE: unknown op " ^ x)
