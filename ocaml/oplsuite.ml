(* OPL suite: lexer, parser, type checks, source positions (C10, C11, C12) *)
open Common
open Lexer
open Parser
open Ast

let ityp_int (t : Lexer.ityp) : int = Obj.magic t

let rec f_child = function
  | CComputed r -> "C " ^ hx r
  | CTuple (r, cr) -> "T " ^ hx r ^ " " ^ hx cr
  | CInvert c -> "I " ^ f_child c
  | CRewrite (op, cs) ->
    Printf.sprintf "W %s %d %s" (match op with OpAnd -> "and" | OpOr -> "or") (List.length cs) (String.concat " " (List.map f_child cs))
let f_cfg (nss : Ast.config) =
  let b = Buffer.create 256 in
  Buffer.add_string b (string_of_int (List.length nss));
  List.iter (fun ns ->
      Buffer.add_string b (Printf.sprintf " N %s %d" (hx ns.ns_name) (List.length ns.ns_rels));
      List.iter (fun r ->
          Buffer.add_string b (Printf.sprintf " R %s %d" (hx r.rel_name) (List.length r.rel_types));
          List.iter (fun t -> Buffer.add_string b (Printf.sprintf " Y %s %s" (hx t.ty_ns) (hx t.ty_rel))) r.rel_types;
          (match r.rel_rewrite with
           | None -> Buffer.add_string b " -"
           | Some w -> Buffer.add_string b (" " ^ f_child (CRewrite (w.rw_op, w.rw_children))))) ns.ns_rels) nss;
  Buffer.contents b

let model_parse (s : Byte.byte list) : string =
  let (nss, errs) = Parser.coq_Parse s in
  let es = List.map (fun (it : Lexer.item) ->
      let a = int_of_nat it.i_start and b = int_of_nat it.i_end in
      let (l1, c1) = SrcPos.to_src_pos s it.i_start in
      let (l2, c2) = SrcPos.to_src_pos s it.i_end in
      Printf.sprintf "%d %d %d:%d-%d:%d" a b (int_of_nat l1) (int_of_nat c1) (int_of_nat l2) (int_of_nat c2)) errs in
  Printf.sprintf "ok E %d %s ; NS %s" (List.length errs) (String.concat " " es) (if errs = [] then f_cfg nss else "-")

(* truth table of a rewrite over its atoms *)
let rec atoms = function
  | CComputed r -> ["C" ^ hx r]
  | CTuple (r, cr) -> ["T" ^ hx r ^ hx cr]
  | CInvert c -> atoms c
  | CRewrite (_, cs) -> List.concat_map atoms cs
let rec eval v = function
  | CComputed r -> List.assoc ("C" ^ hx r) v
  | CTuple (r, cr) -> List.assoc ("T" ^ hx r ^ hx cr) v
  | CInvert c -> not (eval v c)
  | CRewrite (OpOr, cs) -> List.exists (eval v) cs
  | CRewrite (OpAnd, cs) -> cs <> [] && List.for_all (eval v) cs
let same_truth_table (a : Ast.child) (b : Ast.child) : bool =
  let ats = List.sort_uniq compare (atoms a @ atoms b) in
  let n = List.length ats in
  if n > 12 then true else
  let rec go k = if k >= (1 lsl n) then true
    else let v = List.mapi (fun i x -> (x, (k lsr i) land 1 = 1)) ats in
      if eval v a <> eval v b then false else go (k + 1) in
  go 0

let run (input : string) (obs : string) : string * string =
  let t = { l = words input } in
  match next t with
  | "lex" ->
    let s = bytes_tok t in
    let items = Lexer.lex_all s in
    let f (it : Lexer.item) = Printf.sprintf "%d %d %d %s" (ityp_int it.i_typ) (int_of_nat it.i_start) (int_of_nat it.i_end)
        (if it.i_typ = IError then "h" else hx it.i_val) in
    (Printf.sprintf "%d %s" (List.length items) (String.concat " " (List.map f items)),
     (* C12: the lexer ends with EOF or one error, items lie inside the input in order *)
     (try
        let o = { l = words obs } in
        let n = int_tok o in
        let len = List.length s in
        let prev = ref 0 and ok = ref true and last = ref (-1) in
        for _ = 1 to n do
          let ty = int_tok o in let a = int_tok o in let b = int_tok o in ignore (next o);
          if not (0 <= a && a <= b && b <= len && !prev <= a) then ok := false;
          prev := a; last := ty
        done;
        if not !ok then "fail:item-positions-outside-input-or-out-of-order"
        else if !last <> 0 && !last <> 1 then "fail:lexer-did-not-end-with-eof-or-error"
        else if n > len + 1 then "fail:more-items-than-bytes"
        else "pass"
      with _ -> "fail:unparsable-observation"))
  | "parse" ->
    let s = bytes_tok t in
    (model_parse s,
     if obs = "panic" then "fail:parser-panicked"
     else if obs = "timeout" then "fail:parser-did-not-return"
     else if (let n = String.length obs in n >= 6 && String.sub obs (n - 6) 6 = "BADPOS") then "fail:error-position-outside-input"
     else (match words obs with
         | "ok" :: "E" :: "0" :: ";" :: "NS" :: _ -> "pass"
         | "ok" :: "E" :: _ -> "pass"
         | _ -> "fail:neither-errors-nor-namespaces"))
  | "render" ->
    (* tokens: cfg ... SRC <hex> *)
    let rec split acc = function
      | "SRC" :: [h] -> (List.rev acc, h)
      | x :: r -> split (x :: acc) r
      | [] -> failwith "render: no SRC" in
    let (cfgtoks, h) = split [] t.l in
    let src_cfg = Enginesuite.p_config { l = cfgtoks } in
    let s = unhx h in
    let model = model_parse s in
    let verdict =
      (match words obs with
       | "ok" :: "E" :: "0" :: ";" :: "NS" :: rest ->
         (try
            let got = Enginesuite.p_config { l = rest } in
            if List.length got <> List.length src_cfg then "fail:namespace-count-differs"
            else if List.exists2 (fun (a : Ast.namespace) (b : Ast.namespace) ->
                a.ns_name <> b.ns_name || List.length a.ns_rels <> List.length b.ns_rels ||
                (* relations appear as 'related' first, then 'permits', in source order *)
                (let key (r : Ast.relation) = (r.rel_name, r.rel_types) in
                 List.sort compare (List.map key a.ns_rels) <> List.sort compare (List.map key b.ns_rels))) got src_cfg
            then "fail:relations-or-types-differ-from-source"
            else if List.exists2 (fun (a : Ast.namespace) (b : Ast.namespace) ->
                List.exists (fun (ra : Ast.relation) ->
                    match ra.rel_rewrite, (List.find_opt (fun (rb : Ast.relation) -> rb.rel_name = ra.rel_name) b.ns_rels) with
                    | Some wa, Some { rel_rewrite = Some wb; _ } ->
                      not (same_truth_table (CRewrite (wa.rw_op, wa.rw_children)) (CRewrite (wb.rw_op, wb.rw_children)))
                    | None, Some { rel_rewrite = None; _ } -> false
                    | _ -> true) a.ns_rels) got src_cfg
            then "fail:permission-means-something-else-than-the-typescript-expression"
            else "pass"
          with e -> "fail:unparsable-ast " ^ Printexc.to_string e)
       | "ok" :: "E" :: _ -> "fail:documented-spelling-rejected"
       | _ -> "fail:parser-panicked-or-hung") in
    (model, verdict)
  | "tcaccept" ->
    let rec split acc = function
      | "SRC" :: [h] -> (List.rev acc, h)
      | x :: r -> split (x :: acc) r
      | [] -> failwith "tcaccept: no SRC" in
    let (_, h) = split [] t.l in
    let s = unhx h in
    let model = model_parse s in
    let verdict =
      (match words obs with
       | "ok" :: "E" :: "0" :: ";" :: "NS" :: rest ->
         (try let got = Enginesuite.p_config { l = rest } in
            if Typecheck.welltyped got then "pass" else "fail:accepted-document-is-not-well-typed"
          with e -> "fail:unparsable-ast " ^ Printexc.to_string e)
       | _ -> "fail:well-typed-document-rejected") in
    (model, verdict)
  | "econf" | "table" -> Enginesuite.run input obs
  | "oplbig" ->
    (* linear time (C12): the document with 4k repetitions may take 4x the time of the one with k; a factor above 12
       together with more than 0.8 s is superlinear beyond any measurement noise.  The class names the construct. *)
    let shape = next t in
    (match words obs with
     | [t1; t2; _bytes] ->
       let t1 = float_of_string t1 and t2 = float_of_string t2 in
       if t2 > 12.0 *. (max t1 1000.0) && t2 > 800000.0
       then ("SKIP", "fail:parse-time-superlinear class=D20-" ^ shape)
       else ("SKIP", "pass")
     | _ -> ("SKIP", "na"))
  | "tcheck" ->
    (* a check on a declared relation of an accepted document over conforming relationships: never a schema error (C11) *)
    let (m, _) = Enginesuite.run ("echeck " ^ String.concat " " t.l) obs in
    (m, (match words obs with
         | [_; "1"] -> "fail:schema-error-at-check-time-for-an-accepted-document"
         | ["maperr"] -> "fail:declared-namespace-not-found"
         | _ -> "pass"))
  | "tcmutant" ->
    let kind = next t in
    let a = int_tok t in let b = int_tok t in
    expect t "SRC";
    let s = unhx (next t) in
    let (_, errs) = Parser.coq_Parse s in
    let model = Printf.sprintf "E %d%s" (List.length errs)
        (String.concat "" (List.map (fun (it : Lexer.item) -> Printf.sprintf " %d %d" (int_of_nat it.i_start) (int_of_nat it.i_end)) errs)) in
    let verdict =
      (match words obs with
       | "E" :: "0" :: _ -> "fail:undeclared-reference-accepted"
       | "E" :: _ :: x :: y :: _ ->
         if int_of_string x = a && int_of_string y = b then "pass"
         else if kind = "traverse-target" then "fail:error-does-not-point-at-the-offending-token class=D18"
         else "fail:error-does-not-point-at-the-offending-token"
       | _ -> "fail:shape") in
    (model, verdict)
  | x -> failwith ("OPL: unknown op " ^ x)
