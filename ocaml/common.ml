(* Trusted glue: exchange-format parsing/printing shared by all suites. *)
open Datatypes

let byte_of_int (i : int) : Byte.byte = Obj.magic i   (* constant constructors x00..xff are 0..255 *)
let int_of_byte (b : Byte.byte) : int = Obj.magic b
let () = assert (byte_of_int 0x3a = Bytes0.coq_COLON && byte_of_int 0 = Byte.Coq_x00 && byte_of_int 255 = Byte.Coq_xff)

let hexval c = match c with
  | '0'..'9' -> Char.code c - 48 | 'a'..'f' -> Char.code c - 87 | 'A'..'F' -> Char.code c - 55
  | _ -> failwith "hex"
(* token "h<hex>" -> byte list *)
let unhx (tok : string) : Byte.byte list =
  if String.length tok = 0 || tok.[0] <> 'h' then failwith ("bad bytes token " ^ tok);
  let n = (String.length tok - 1) / 2 in
  List.init n (fun i -> byte_of_int (hexval tok.[1 + 2*i] * 16 + hexval tok.[2 + 2*i]))
let hx (b : Byte.byte list) : string =
  let buf = Buffer.create 16 in
  Buffer.add_char buf 'h';
  List.iter (fun x -> Buffer.add_string buf (Printf.sprintf "%02x" (int_of_byte x))) b;
  Buffer.contents buf
let hxo = function None -> "-" | Some b -> hx b

let rec nat_of_int n = if n <= 0 then O else S (nat_of_int (n - 1))
let rec int_of_nat = function O -> 0 | S n -> 1 + int_of_nat n

(* token stream *)
type toks = { mutable l : string list }
let next t = match t.l with x :: r -> t.l <- r; x | [] -> failwith "unexpected end of tokens"
let peek t = match t.l with x :: _ -> x | [] -> ""
let expect t s = let x = next t in if x <> s then failwith ("expected " ^ s ^ " got " ^ x)
let bytes_tok t = unhx (next t)
let obytes_tok t = let x = next t in if x = "-" then None else Some (unhx x)
let int_tok t = int_of_string (next t)

let split_case (line : string) : string * string =
  (* "<input> => <obs>" *)
  let sep = " => " in
  let n = String.length line and m = String.length sep in
  let rec find i = if i + m > n then -1 else if String.sub line i m = sep then i else find (i + 1) in
  let i = find 0 in
  if i < 0 then (line, "") else (String.sub line 0 i, String.sub line (i + m) (n - i - m))
let words s = List.filter (fun x -> x <> "") (String.split_on_char ' ' s)

(* binary numbers *)
let rec pos_of_int n = if n <= 1 then BinNums.Coq_xH else if n land 1 = 0 then BinNums.Coq_xO (pos_of_int (n / 2)) else BinNums.Coq_xI (pos_of_int (n / 2))
let n_of_int n = if n <= 0 then BinNums.N0 else BinNums.Npos (pos_of_int n)
let z_of_int n = if n = 0 then BinNums.Z0 else if n > 0 then BinNums.Zpos (pos_of_int n) else BinNums.Zneg (pos_of_int (-n))
let rec int_of_pos = function BinNums.Coq_xH -> 1 | BinNums.Coq_xO p -> 2 * int_of_pos p | BinNums.Coq_xI p -> 2 * int_of_pos p + 1
let int_of_n = function BinNums.N0 -> 0 | BinNums.Npos p -> int_of_pos p
let sorted_strings l = List.sort compare l
