(* Trusted glue: exchange-format parsing/printing shared by all suites. *)
open Datatypes

let byte_of_int (i : int) : Byte.byte = Obj.magic i   (* constant constructors x00..xff are 0..255 *)
let int_of_byte (b : Byte.byte) : int = Obj.magic b
let () = assert (byte_of_int 0x3a = Bytes0.coq_COLON && byte_of_int 0 = Byte.Coq_x00 && byte_of_int 255 = Byte.Coq_xff)

let hexval c = match c with
  | '0'..'9' -> Char.code c - 48 | 'a'..'f' -> Char.code c - 87 | 'A'..'F' -> Char.code c - 55
  | _ -> failwith "hex"
(* token "h<hex>" -> byte list *)
let unhx (tok : string) : Byte.byte list =
  if String.length tok = 0 || tok.[0] <> 'h' then failwith ("bad bytes token " ^ tok);
  let n = (String.length tok - 1) / 2 in
  List.init n (fun i -> byte_of_int (hexval tok.[1 + 2*i] * 16 + hexval tok.[2 + 2*i]))
let hx (b : Byte.byte list) : string =
  let buf = Buffer.create 16 in
  Buffer.add_char buf 'h';
  List.iter (fun x -> Buffer.add_string buf (Printf.sprintf "%02x" (int_of_byte x))) b;
  Buffer.contents buf
let hxo = function None -> "-" | Some b -> hx b

let rec nat_of_int n = if n <= 0 then O else S (nat_of_int (n - 1))
let rec int_of_nat = function O -> 0 | S n -> 1 + int_of_nat n

(* token stream *)
type toks = { mutable l : string list }
let next t = match t.l with x :: r -> t.l <- r; x | [] -> failwith "unexpected end of tokens"
let peek t = match t.l with x :: _ -> x | [] -> ""
let expect t s = let x = next t in if x <> s then failwith ("expected " ^ s ^ " got " ^ x)
let bytes_tok t = unhx (next t)
let obytes_tok t = let x = next t in if x = "-" then None else Some (unhx x)
let int_tok t = int_of_string (next t)

let split_case (line : string) : string * string =
  (* "<input> => <obs>" *)
  let sep = " => " in
  let n = String.length line and m = String.length sep in
  let rec find i = if i + m > n then -1 else if String.sub line i m = sep then i else find (i + 1) in
  let i = find 0 in
  if i < 0 then (line, "") else (String.sub line 0 i, String.sub line (i + m) (n - i - m))
let words s = List.filter (fun x -> x <> "") (String.split_on_char ' ' s)
