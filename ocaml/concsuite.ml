(* CONC suite (C14): econf/table/echeck lines are ENGINE lines whose observation was obtained concurrently;
   "conc ..." lines compare alone with concurrent answers in the harness. *)
let starts s p = String.length s >= String.length p && String.sub s 0 (String.length p) = p

(* a check whose model run was cut short by a limit AND reached a subject set twice legitimately depends on the goroutine
   schedule (whichever path marks the set visited first decides whether its expansion still has depth left): its answers
   are not compared, here as in the ENGINE suite *)
let unlicensed (echeck_input : string) : bool =
  try let (m, _) = Enginesuite.run echeck_input "unknown 0" in starts m "SKIP" with _ -> false

let run (input : string) (obs : string) : string * string =
  if starts input "conc stress " then begin
    let rest = String.sub input 12 (String.length input - 12) in
    if obs = "same" then ("SKIP", "pass")
    else if unlicensed ("echeck " ^ rest) then ("SKIP", "na")
    else ("SKIP", "fail:concurrent-answer-differs-from-the-answer-alone")
  end
  else if starts input "conc " then
    ("SKIP", if obs = "same" then "pass" else "fail:concurrent-answer-differs-from-the-answer-alone")
  else if starts obs "diverged" then
    (if unlicensed input then ("SKIP", "na") else ("SKIP", "fail:concurrent-answer-differs-from-the-answer-alone"))
  else Enginesuite.run input obs
