(* CONC suite (C14): econf/table/echeck lines are ENGINE lines whose observation was obtained concurrently;
   "conc ..." lines compare alone with concurrent answers in the harness. *)
let starts s p = String.length s >= String.length p && String.sub s 0 (String.length p) = p

let run (input : string) (obs : string) : string * string =
  if starts input "conc " then
    ("SKIP", if obs = "same" then "pass" else "fail:concurrent-answer-differs-from-the-answer-alone")
  else if starts obs "diverged" then
    ("SKIP", "fail:concurrent-answer-differs-from-the-answer-alone")
  else Enginesuite.run input obs
