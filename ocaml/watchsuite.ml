(* WATCH suite: namespace file watchers (C19) *)
open Common
open Watcher

type st = { mutable s : Watcher.wstate; mutable opl : bool; mutable prev : string }
let state = { s = []; opl = false; prev = "" }

let f_visible (s : Watcher.wstate) : string =
  match List.sort compare (List.map hx (Watcher.visible s)) with [] -> "{}" | l -> String.concat "," l

(* a namespace as the harness prints it (cfgTok of one namespace): a version is identified by the CONTENT of its
   namespaces, not only by their names - a reload that changes one permission body must become visible *)
let rec f_child (c : Ast.child) : string =
  match c with
  | Ast.CComputed r -> "C " ^ hx r
  | Ast.CTuple (r, cr) -> "T " ^ hx r ^ " " ^ hx cr
  | Ast.CInvert c' -> "I " ^ f_child c'
  | Ast.CRewrite (op, cs) ->
    Printf.sprintf "W %s %d %s" (match op with Ast.OpAnd -> "and" | Ast.OpOr -> "or") (List.length cs) (String.concat " " (List.map f_child cs))
let canon (n : Ast.namespace) : string =
  let rel (r : Ast.relation) =
    Printf.sprintf " R %s %d%s %s" (hx r.Ast.rel_name) (List.length r.Ast.rel_types)
      (String.concat "" (List.map (fun (t : Ast.rtype) -> Printf.sprintf " Y %s %s" (hx t.Ast.ty_ns) (hx t.Ast.ty_rel)) r.Ast.rel_types))
      (match r.Ast.rel_rewrite with None -> "-" | Some w -> f_child (Ast.CRewrite (w.Ast.rw_op, w.Ast.rw_children))) in
  Printf.sprintf "N %s %d%s" (hx n.Ast.ns_name) (List.length n.Ast.ns_rels) (String.concat "" (List.map rel n.Ast.ns_rels))
let bytes_of_string (s : string) : Byte.byte list = List.init (String.length s) (fun i -> byte_of_int (Char.code s.[i]))
let version_of_opl (content : Byte.byte list) : Watcher.version =
  let (nss, errs) = Parser.coq_Parse content in
  if errs = [] then Some (List.map (fun (n : Ast.namespace) -> bytes_of_string (canon n)) nss) else None

let run (input : string) (obs : string) : string * string =
  let t = { l = words input } in
  match next t with
  | "wreset" -> state.opl <- (next t = "opl"); state.s <- []; state.prev <- ""; ("-", "na")
  | ("wchange" | "wremove" | "wtouch") as k ->
    let f = if k = "wtouch" then (ignore (next t); []) else bytes_tok t in
    let e = if k = "wtouch" then WTouch
      else if k = "wremove" then WRemove f
      else if state.opl then WChange (f, version_of_opl (bytes_tok t))
      else (match next t with
          | "valid" -> WChange (f, Some [bytes_tok t])
          | _ -> WChange (f, None)) in
    let before = f_visible state.s in
    state.s <- (if state.opl then Watcher.opl_step state.s e else Watcher.legacy_step state.s e);
    let after = f_visible state.s in
    if obs = "SKIPOBS" then ("SKIPOBS", "na") else begin
      (* the implementation's final view must be the model's; every sampled view must be the view before or after *)
      let parts = String.split_on_char ';' obs in
      let final = String.trim (List.hd parts) in
      let seen = (match parts with
          | [_; s] -> let s = String.trim s in
            let s = if String.length s >= 4 && String.sub s 0 4 = "seen" then String.sub s 4 (String.length s - 4) else s in
            List.filter (fun x -> x <> "") (List.map String.trim (String.split_on_char '|' s))
          | _ -> []) in
      let seen = List.map (fun x -> if x = "" then "" else x) seen in
      let verdict =
        if final <> after then "fail:visible-namespaces-differ-from-last-valid-versions"
        else if List.exists (fun v -> v <> before && v <> after) seen then "fail:observed-a-state-that-is-neither-the-old-nor-the-new-version"
        else "pass" in
      (after ^ " ;" ^ (let s = String.trim (String.concat ";" (List.tl parts)) in if s = "" then "" else " " ^ s), verdict)
    end
  | x -> failwith ("WATCH: unknown op " ^ x)
