open Common
open Codec

let p_sset t : sset option =
  let x = next t in
  if x = "-" then None else begin
    if x <> "S" then failwith "sset";
    let n = bytes_tok t in let o = bytes_tok t in let r = bytes_tok t in
    Some { ss_ns = n; ss_obj = o; ss_rel = r } end
let p_tuple t : tuple =
  expect t "T";
  let n = bytes_tok t in let o = bytes_tok t in let r = bytes_tok t in
  let sid = obytes_tok t in let ss = p_sset t in
  { t_ns = n; t_obj = o; t_rel = r; t_sid = sid; t_sset = ss }
let p_query t : query =
  expect t "Q";
  let n = obytes_tok t in let o = obytes_tok t in let r = obytes_tok t in
  let sid = obytes_tok t in let ss = p_sset t in
  { q_ns = n; q_obj = o; q_rel = r; q_sid = sid; q_sset = ss }
let f_sset = function None -> "-" | Some s -> Printf.sprintf "S %s %s %s" (hx s.ss_ns) (hx s.ss_obj) (hx s.ss_rel)
let f_tuple (x : tuple) = Printf.sprintf "T %s %s %s %s %s" (hx x.t_ns) (hx x.t_obj) (hx x.t_rel) (hxo x.t_sid) (f_sset x.t_sset)
let f_query (x : query) = Printf.sprintf "Q %s %s %s %s %s" (hxo x.q_ns) (hxo x.q_obj) (hxo x.q_rel) (hxo x.q_sid) (f_sset x.q_sset)
let f_outcome f = function Ok a -> "ok " ^ f a | Err c -> Printf.sprintf "err %d" (int_of_nat c) | Panic -> "panic"

let p_values t : values =
  expect t "V";
  let rec go acc = if peek t = "." then (ignore (next t); List.rev acc)
    else let k = bytes_tok t in let v = bytes_tok t in go ((k, v) :: acc) in
  go []
let f_values (v : values) =
  (* canonical: stable sort by key bytes (Go's Values.Encode order) *)
  let key (k, _) = hx k in
  let cmp a b = compare (String.concat "" [key a]) (String.concat "" [key b]) in
  let s = List.stable_sort (fun a b -> compare (List.map int_of_byte (fst a)) (List.map int_of_byte (fst b))) v in
  ignore cmp;
  "V" ^ String.concat "" (List.map (fun (k, x) -> " " ^ hx k ^ " " ^ hx x) s) ^ " ."

let f_pref = function
  | None -> "-" | Some None -> "0"
  | Some (Some (PId s)) -> "I " ^ hx s
  | Some (Some (PSet (n, o, r))) -> Printf.sprintf "S %s %s %s" (hx n) (hx o) (hx r)
let p_psub t = match next t with
  | "-" -> None | "0" -> Some None
  | "I" -> Some (Some (PId (bytes_tok t)))
  | "S" -> let n = bytes_tok t in let o = bytes_tok t in let r = bytes_tok t in Some (Some (PSet (n, o, r)))
  | x -> failwith ("psub " ^ x)
let p_ptuple t : ptuple =
  expect t "P";
  let n = bytes_tok t in let o = bytes_tok t in let r = bytes_tok t in
  { p_ns = n; p_obj = o; p_rel = r; p_sub = p_psub t }
let f_ptuple (p : ptuple) = Printf.sprintf "P %s %s %s %s" (hx p.p_ns) (hx p.p_obj) (hx p.p_rel) (f_pref p.p_sub)

let rec p_jv t : jv =
  let x = next t in
  if x = "N" then JNull else if x = "O" then JOther
  else if x = "{" then begin
    let rec go acc = if peek t = "}" then (ignore (next t); List.rev acc)
      else let k = bytes_tok t in let v = p_jv t in go ((k, v) :: acc) in
    JObj (go []) end
  else if x.[0] = 's' then JStr (unhx ("h" ^ String.sub x 1 (String.length x - 1)))
  else failwith ("jv " ^ x)

(* returns (model observation, oracle verdict) ; verdict: "pass" | "na" | "fail:<why>" *)
let run (input : string) (obs : string) : string * string =
  let t = { l = words input } in
  match next t with
  | "fs" ->
    let s = bytes_tok t in
    let o1 = tuple_from_string s in
    let rest, verdict = match o1 with
      | Ok t1 ->
        let p = tuple_string t1 in
        let o2 = tuple_from_string p in
        hx p ^ " " ^ f_outcome f_tuple o2, ()
      | _ -> "- -", () in
    ignore verdict;
    (* oracle on the implementation's own observation: FromString(s) errors, or print/re-parse gives the same value *)
    let v =
      match String.split_on_char ';' obs with
      | [a; b] ->
        let a = String.trim a and b = words b in
        if String.length a >= 3 && String.sub a 0 3 = "err" then "pass"
        else if a = "panic" then "fail:panic"
        else (match b with
            | _ :: restw -> if String.concat " " restw = a then "pass"
              else (match o1 with
                  | Ok t1 when CodecProofs.d13_class t1 -> "fail:print-parse-not-idempotent class=D13"
                  | _ -> "fail:print-parse-not-idempotent")
            | [] -> "fail:shape")
      | _ -> "fail:shape" in
    (f_outcome f_tuple o1 ^ " ; " ^ rest, v)
  | "pf" ->
    let s = bytes_tok t in
    let o = parse_file s in
    (f_outcome (fun l -> Printf.sprintf "%d %s" (List.length l) (String.concat " " (List.map f_tuple l))) o,
     (* oracle: a file that consists of printed in-domain relationships, one per line, parses back to them *)
     "na")
  | "pfr" ->
    let n = int_tok t in
    let ts = List.init n (fun _ -> p_tuple t) in
    let o = parse_file (print_file ts) in
    let fl l = Printf.sprintf "%d %s" (List.length l) (String.concat " " (List.map f_tuple l)) in
    let v = if List.for_all CodecProofs.dom_line ts then
        (if obs = "ok " ^ fl ts then "pass" else "fail:file-roundtrip-on-domain")
      else "na" in
    (f_outcome fl o, v)
  | "rts" ->
    let tu = p_tuple t in
    let s = tuple_string tu in
    let o = tuple_from_string s in
    let v = if dom_string tu then
        (match words obs with
         | _ :: restw -> if String.concat " " restw = "ok " ^ f_tuple tu then "pass" else "fail:string-roundtrip-on-domain"
         | [] -> "fail:shape")
      else "na" in
    (hx s ^ " " ^ f_outcome f_tuple o, v)
  | "url" ->
    let v = p_values t in
    (f_outcome f_query (query_from_url v) ^ " ; " ^ f_outcome f_tuple (tuple_from_url v), "na")
  | "rtuq" ->
    let q = p_query t in
    let v = query_to_url q in
    let verdict = if atmost_one_subject q then
        (let exp = "ok " ^ f_query q in
         let n = String.length exp and m = String.length obs in
         if m >= n && String.sub obs (m - n) n = exp then "pass" else "fail:url-query-roundtrip")
      else "na" in
    (f_values v ^ " " ^ f_outcome f_query (query_from_url v), verdict)
  | "rtut" ->
    let tu = p_tuple t in
    let v = tuple_to_url tu in
    let verdict = if one_subject tu then
        (let exp = "ok " ^ f_tuple tu in
         let n = String.length exp and m = String.length obs in
         if m >= n && String.sub obs (m - n) n = exp then "pass" else "fail:url-tuple-roundtrip")
      else "na" in
    (f_values v ^ " " ^ f_outcome f_tuple (tuple_from_url v), verdict)
  | "rtpt" ->
    let tu = p_tuple t in
    let o1 = tuple_to_proto tu in
    let o2, o3 = match o1 with
      | Ok p -> f_outcome f_tuple (tuple_from_proto p), f_outcome f_tuple (tuple_from_data_provider p)
      | _ -> "-", "-" in
    let verdict = if one_subject tu then
        (match List.map String.trim (String.split_on_char ';' obs) with
         | [_; b; c] -> if b = "ok " ^ f_tuple tu && c = b then "pass" else "fail:proto-tuple-roundtrip"
         | _ -> "fail:shape")
      else "na" in
    (f_outcome f_ptuple o1 ^ " ; " ^ o2 ^ " ; " ^ o3, verdict)
  | "pfrom" ->
    let p = p_ptuple t in
    (f_outcome f_tuple (tuple_from_proto p) ^ " ; " ^ f_outcome f_tuple (tuple_from_data_provider p),
     "na" (* decoder behaviour on absent subjects is C13's concern *))
  | "rtpq" ->
    let q = p_query t in
    let q2 = query_from_data_provider (query_to_proto q) in
    (f_query q2, if atmost_one_subject q then (if obs = f_query q then "pass" else "fail:proto-query-roundtrip") else "na")
  | "rtjt" ->
    let tu = p_tuple t in
    (f_outcome f_tuple (tuple_from_json (tuple_to_json tu)),
     if obs = "ok " ^ f_tuple tu then "pass" else "fail:json-tuple-roundtrip")
  | "rtjq" ->
    let q = p_query t in
    (f_outcome f_query (query_from_json (query_to_json q)),
     if obs = "ok " ^ f_query q then "pass" else "fail:json-query-roundtrip")
  | "jt" ->
    let j = p_jv t in
    (f_outcome f_tuple (tuple_from_json j), "na")
  | op -> failwith ("C18: unknown op " ^ op)
