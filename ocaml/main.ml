(* driver <suite> : reads "input => obs" lines on stdin, prints "<model obs> | <oracle verdict>" per line *)
let () =
  let suite = Sys.argv.(1) in
  let run = match suite with
    | "C18" -> C18.run
    | "STORE" | "NET" | "READ" | "ATOM" -> Store.run
    | "PAGE" -> Page.run
    | "MAP" -> Mapsuite.run
    | "ENGINE" | "FAULT" | "TERM" -> Enginesuite.run
    | "TRANSPORT" -> Transportsuite.run
    | "EXPAND" -> Expandsuite.run
    | "OPL" | "TYPECHK" -> Oplsuite.run
    | "WATCH" -> Watchsuite.run
    | "ROBUST" -> Robustsuite.run
    | "CONC" -> Concsuite.run
    | s -> failwith ("unknown suite " ^ s) in
  try
    while true do
      let line = input_line stdin in
      if String.length line > 0 then begin
        let (input, obs) = Common.split_case line in
        let (m, v) = try run input obs with e -> ("EXC " ^ Printexc.to_string e, "na") in
        print_string m; print_string " | "; print_endline v
      end
    done
  with End_of_file -> ()
