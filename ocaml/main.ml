(* driver <suite> : reads "input => obs" lines on stdin, prints "<model obs> | <oracle verdict>" per line *)
let () =
  let suite = Sys.argv.(1) in
  let run = match suite with
    | "C18" -> C18.run
    | "STORE" | "NET" | "READ" | "ATOM" -> Store.run
    | "PAGE" -> Page.run
    | "MAP" -> Mapsuite.run
    | "ENGINE" | "FAULT" | "TERM" -> Enginesuite.run
    | "NETENG" ->
      (* the question here is isolation only: the model evaluates the rows of network A alone; the implementation
         runs with a shadow network present.  A different answer means the other network influenced it. *)
      (fun i o -> let (m, v) = Enginesuite.run i o in
        if String.length i >= 5 && String.sub i 0 5 = "enet " then (m, v) else
        if m = "-" || (String.length m >= 4 && String.sub m 0 4 = "SKIP") then (m, "na")
        else (m, if m = o then "pass" else "fail:answer-differs-from-the-answer-computed-on-this-network's-rows-alone"))
    | "TRANSPORT" -> Transportsuite.run
    | "EXPAND" -> Expandsuite.run
    | "OPL" | "TYPECHK" -> Oplsuite.run
    | "WATCH" -> Watchsuite.run
    | "ROBUST" -> Robustsuite.run
    | "CONC" -> Concsuite.run
    | s -> failwith ("unknown suite " ^ s) in
  try
    while true do
      let line = input_line stdin in
      if String.length line > 0 then begin
        let (input, obs) = Common.split_case line in
        let (m, v) = try run input obs with e -> ("EXC " ^ Printexc.to_string e, "na") in
        print_string m; print_string " | "; print_endline v
      end
    done
  with End_of_file -> ()
