(* MAP suite: Mapper.FromTuple then ToTuple (C16) *)
open Common
open Codec
open Sql

type st = { mutable db : Sql.db; mutable names : Byte.byte list list }
let state = { db = Sql.empty_db; names = [] }
let nid = n_of_int 1

let rec apply_all stmts d = match stmts with
  | [] -> d
  | s :: r -> (match Sql.exec_stmt s d with ROk d' -> apply_all r d' | RErr _ -> d)

let run (input : string) (obs : string) : string * string =
  let t = { l = words input } in
  match next t with
  | "reset" ->
    ignore (int_tok t);
    let rec go acc = if peek t = "." then List.rev acc else go (bytes_tok t :: acc) in
    state.names <- go []; state.db <- Sql.empty_db; ("-", "na")
  | "maprt" ->
    let n = int_tok t in
    let ts = List.init n (fun _ -> C18.p_tuple t) in
    let model, expect =
      (match Mapping.coq_FromTuple state.names false nid ts with
       | RErr e -> Printf.sprintf "err %d" (int_of_nat (Api.status_of e)), None
       | ROk (its, stmts) ->
         state.db <- apply_all stmts state.db;
         (match Mapping.coq_ToTuple its state.db with
          | None -> "panic", None
          | Some back ->
            let o = List.map C18.f_tuple back in
            Printf.sprintf "ok %d %s alias=1" (List.length o) (String.concat " " o), Some (List.map (fun tu -> C18.f_tuple (Spec.norm tu)) ts))) in
    let verdict = (match expect with
        | None -> if obs = "panic" then "fail:mapper-panicked" else "na"
        | Some exp ->
          let want = Printf.sprintf "ok %d %s alias=1" (List.length exp) (String.concat " " exp) in
          if obs = want then "pass"
          else if String.length obs >= 2 && String.sub obs 0 2 = "ok" then
            (if (try String.sub obs (String.length obs - 7) 7 = "alias=0" with _ -> false) then "fail:two-strings-share-an-id-or-one-string-has-two-ids"
             else "fail:names-not-returned-position-by-position")
          else "fail:valid-batch-rejected") in
    (model, verdict)
  | x -> failwith ("MAP: unknown op " ^ x)
