(* MAP suite: Mapper.FromTuple then ToTuple (C16) *)
open Common
open Codec
open Sql

type st = { mutable db : Sql.db; mutable names : Byte.byte list list }
let state = { db = Sql.empty_db; names = [] }
let nid = n_of_int 1

let rec apply_all stmts d = match stmts with
  | [] -> d
  | s :: r -> (match Sql.exec_stmt s d with ROk d' -> apply_all r d' | RErr _ -> d)

let run (input : string) (obs : string) : string * string =
  let t = { l = words input } in
  match next t with
  | "reset" ->
    ignore (int_tok t);
    let rec go acc = if peek t = "." then List.rev acc else go (bytes_tok t :: acc) in
    state.names <- go []; state.db <- Sql.empty_db; ("-", "na")
  | "maprt" ->
    let n = int_tok t in
    let ts = List.init n (fun _ -> C18.p_tuple t) in
    let model, expect =
      (match Mapping.coq_FromTuple state.names false nid ts with
       | RErr e -> Printf.sprintf "err %d" (int_of_nat (Api.status_of e)), None
       | ROk (its, stmts) ->
         state.db <- apply_all stmts state.db;
         (match Mapping.coq_ToTuple its state.db with
          | None -> "panic", None
          | Some back ->
            let o = List.map C18.f_tuple back in
            Printf.sprintf "ok %d %s alias=1" (List.length o) (String.concat " " o), Some (List.map (fun tu -> C18.f_tuple (Spec.norm tu)) ts))) in
    let verdict = (match expect with
        | None -> if obs = "panic" then "fail:mapper-panicked" else "na"
        | Some exp ->
          let want = Printf.sprintf "ok %d %s alias=1" (List.length exp) (String.concat " " exp) in
          if obs = want then "pass"
          else if String.length obs >= 2 && String.sub obs 0 2 = "ok" then
            (if (try String.sub obs (String.length obs - 7) 7 = "alias=0" with _ -> false) then "fail:two-strings-share-an-id-or-one-string-has-two-ids"
             else "fail:names-not-returned-position-by-position")
          else "fail:valid-batch-rejected") in
    (model, verdict)
  | "maptree" ->
    let known = ref true in
    let p_sub () = match next t with
      | "I" -> let s = bytes_tok t in Some (Sql.ISid (nid, s)), "I " ^ hx s
      | "S" -> let n = bytes_tok t in let o = bytes_tok t in let r = bytes_tok t in
        if not (List.mem n state.names) then known := false;
        Some (Sql.ISet (n, (nid, o), r)), Printf.sprintf "S %s %s %s" (hx n) (hx o) (hx r)
      | "-" -> None, "-"
      | x -> failwith ("maptree subject " ^ x) in
    let rec p_tree () =
      expect t "T";
      let ty = int_tok t in
      let s, _ = p_sub () in
      let nc = int_tok t in
      let cs = List.init nc (fun _ -> p_tree ()) in
      Mapping.INode (n_of_int ty, s, cs) in
    let it = p_tree () in
    let f_asub = function
      | None -> "-"
      | Some (Mapping.ASid s) -> "I " ^ hx s
      | Some (Mapping.ASet (n, o, r)) -> Printf.sprintf "S %s %s %s" (hx n) (hx o) (hx r) in
    let rec f_tree = function Mapping.ANode (ty, s, cs) ->
      String.concat " " (Printf.sprintf "T %d %s %d" (int_of_n ty) (f_asub s) (List.length cs) :: List.map f_tree cs) in
    let model = (match Mapping.coq_ToTree state.names state.db it with
        | RErr e -> Printf.sprintf "err %d" (int_of_nat (Api.status_of e))
        | ROk a -> "ok " ^ f_tree a) in
    (* oracle, independent of the model: the tree in names that went in is the tree that comes out; names that were
       never written have no string to return, so only trees over written names are judged *)
    let written = not (List.exists (fun w -> String.length w > 30 && String.sub w 0 29 = "h6e657665722d7772697474656e2d") (words input)) in
    let verdict =
      if not !known then (if obs = "panic" then "fail:mapper-panicked" else "na")
      else if not written then (if obs = "panic" then "fail:mapper-panicked" else "na")
      else
        let want = "ok " ^ String.concat " " (List.tl (words input)) in
        if obs = want then "pass"
        else if String.length obs >= 2 && String.sub obs 0 2 = "ok" then "fail:tree-names-not-returned-node-by-node"
        else if obs = "panic" then "fail:mapper-panicked"
        else "fail:valid-tree-rejected" in
    (model, verdict)
  | x -> failwith ("MAP: unknown op " ^ x)
