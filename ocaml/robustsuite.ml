(* ROBUST suite (C13): mutated REST / gRPC requests.  input: <R|G> m=<0|1> <route> <hex request>;
   obs: <status> <changed> <wellformed>.  The oracle is the property; for the relationship routes the status
   must additionally lie in the set the handler model is proved to answer with (Store/Robust.step_status). *)
open Common

let store_set = List.map int_of_nat Api.store_statuses
let store_routes = ["put"; "delete"; "patch"; "list"; "Transact"; "Delete"; "List"]
let write_routes = ["put"; "delete"; "patch"; "Transact"; "Delete"; "miscw"]
let check_routes = ["check"; "postcheck"; "Check"]

let run (input : string) (obs : string) : string * string =
  match String.split_on_char ' ' input, String.split_on_char ' ' obs with
  | kind :: m :: route :: _, [code; changed; wf] ->
    let code = int_of_string code and changed = (changed = "1") and wf = (wf = "1") in
    let mal = (m = "m=1") in
    let verdict =
      if code = 0 then "fail:handler-panicked"
      else if code >= 500 then "fail:server-error-without-storage-failure"
      else if mal && not (code >= 400 && code < 500) then "fail:invalid-request-not-answered-with-a-client-error"
      else if code >= 400 && changed then "fail:refused-request-changed-the-stored-state"
      else if changed && not (List.mem route write_routes) then "fail:read-route-changed-the-stored-state"
      else if not wf then "fail:response-not-well-formed"
      else if List.mem route store_routes && not (List.mem code store_set) then "fail:status-outside-the-model's-set"
      else if List.mem route check_routes && not (List.mem code [200; 400; 403; 404]) then "fail:status-outside-the-transports-model's-set"
      else "pass" in
    ignore kind;
    ("SKIP", verdict)
  | _ -> ("SKIP", "na")
