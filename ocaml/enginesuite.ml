(* ENGINE suite: the check engine model (Engine/Engine.v) and the reference semantics (Engine/RefSem.v) *)
open Common
open Codec
open Sql
open Ast
open Engine

type st = {
  mutable last_q : string; mutable last_impl : string;
  mutable cfg : Ast.config; mutable strict : bool; mutable width : int; mutable gdepth : int;
  mutable db : Sql.db; mutable has_not : bool;
}
let state = { last_q = ""; last_impl = ""; cfg = []; strict = false; width = 100; gdepth = 100; db = Sql.empty_db; has_not = false }
let nid = n_of_int 1
let gas = nat_of_int 6000
let safe_depth = 50

let rec p_child t : Ast.child =
  match next t with
  | "C" -> CComputed (bytes_tok t)
  | "T" -> let r = bytes_tok t in let cr = bytes_tok t in CTuple (r, cr)
  | "I" -> CInvert (p_child t)
  | "W" -> let op = (match next t with "and" -> OpAnd | _ -> OpOr) in
    let n = int_tok t in
    let cs = List.init n (fun _ -> p_child t) in CRewrite (op, cs)
  | x -> failwith ("child " ^ x)
let p_config t : Ast.config =
  let n = int_tok t in
  List.init n (fun _ ->
      expect t "N";
      let name = bytes_tok t in
      let nr = int_tok t in
      let rels = List.init nr (fun _ ->
          expect t "R";
          let rn = bytes_tok t in
          let nt = int_tok t in
          let tys = List.init nt (fun _ -> expect t "Y"; let a = bytes_tok t in let b = bytes_tok t in { ty_ns = a; ty_rel = b }) in
          let rw = if peek t = "-" then (ignore (next t); None)
            else (match p_child t with
                | CRewrite (op, cs) -> Some { rw_op = op; rw_children = cs }
                | c -> Some { rw_op = OpOr; rw_children = [c] }) in
          { rel_name = rn; rel_types = tys; rel_rewrite = rw }) in
      { ns_name = name; ns_rels = rels })

let isub_of (tu : tuple) : Sql.isub option =
  match tu.t_sid, tu.t_sset with
  | Some s, _ -> Some (ISid (nid, s))
  | None, Some ss -> Some (ISet (ss.ss_ns, (nid, ss.ss_obj), ss.ss_rel))
  | None, None -> None

let set_table t =
  let n = int_tok t in
  let rows = List.init n (fun i ->
      let _id = next t in
      let tu = C18.p_tuple t in
      match isub_of tu with
      | Some s -> { r_shard = n_of_int (2 * (i + 1)); r_nid = nid; r_ns = tu.t_ns; r_obj = (nid, tu.t_obj); r_rel = tu.t_rel; r_sub = s }
      | None -> failwith "row without subject") in
  state.db <- { rows = rows; maps = []; next = n_of_int 1 }

let f_mem = function IsMember -> "is" | NotMember -> "not" | Unknown -> "unknown"

let run_check (tu : tuple) (rd : int) (faults : Datatypes.nat -> bool) : Engine.outcome option =
  match isub_of tu with
  | None -> None
  | Some s ->
    Engine.coq_CheckRelationTuple gas state.cfg state.strict nid state.db (nat_of_int state.width) faults
      tu.t_ns (nid, tu.t_obj) tu.t_rel s (z_of_int rd) (z_of_int state.gdepth)

let known_ns n = List.exists (fun x -> x.ns_name = n) state.cfg

let run (input : string) (obs : string) : string * string =
  let t = { l = words input } in
  match next t with
  | "econf" ->
    state.strict <- (int_tok t = 1); state.width <- int_tok t; state.gdepth <- int_tok t;
    state.cfg <- p_config t; state.has_not <- Ast.config_has_not state.cfg; state.db <- Sql.empty_db;
    ("-", "na")
  | "table" -> set_table t; ("-", "na")
  | "efault" ->
    (* a storage operation failed: the answer must be an error or the fault-free answer, never allowed when that denied,
       and never allowed together with an error (C03). The model is not compared value for value: which operation is
       the k-th depends on the engine's internal order. *)
    let tu = C18.p_tuple t in
    let q = C18.f_tuple tu in
    let v =
      if q <> state.last_q then "na"
      else (match words obs, words state.last_impl with
          | ["hang"], _ -> "fail:check-did-not-return-after-a-storage-failure"
          | [im; ie], [bm; be] ->
            if ie = "1" && im = "is" then "fail:error-and-allowed-together"
            else if ie = "1" then "pass"
            else if be = "0" && bm <> "is" && im = "is" then "fail:storage-failure-turned-denied-into-allowed"
            else if be = "0" && (im <> bm) && not (im = "unknown" || bm = "unknown") then "fail:storage-failure-changed-the-answer-without-an-error"
            else "pass"
          | _ -> "na") in
    ("SKIP", v)
  | "eterm" ->
    let get k = (try List.assoc k (List.filter_map (fun w -> match String.index_opt w '=' with Some i -> Some (String.sub w 0 i, String.sub w (i+1) (String.length w - i - 1)) | None -> None) (words obs)) with Not_found -> "?") in
    let v = if get "returned" <> "1" then "fail:check-did-not-return"
      else if get "prompt" <> "1" then "fail:cancelled-check-did-not-return-promptly"
      else if get "goroutines" <> "1" then "fail:goroutines-left-behind"
      else if get "result" = "is/1" then "fail:error-and-allowed-together"
      else "pass" in
    ("SKIP", v)
  | "enet" ->
    (* ONE registry serving two networks through the request context answers, for each network, what a registry of its
       own answers on the same rows (C06) *)
    ("SKIP", if obs = "same" then "pass" else "fail:registry-serving-two-networks-answers-differently-from-a-registry-of-that-network")
  | "estress" ->
    if obs = "same" then ("SKIP", "pass") else begin
      (* unlicensed requests (cut short AND a subject set reached twice) legitimately depend on the schedule *)
      let tu = C18.p_tuple t in
      let rd = int_tok t in
      match run_check tu rd (fun _ -> false) with
      | Some o when o.o_cut && o.o_revisit -> ("SKIP", "na")
      | _ -> ("SKIP", "fail:answer-depends-on-the-goroutine-schedule")
    end
  | "eeff" ->
    (* the request depth only lowers the limit: (r, g) answers what (0, eff(r,g)) answers, on the same state *)
    (match words obs with
     | [a; b] -> ("SKIP", if a = b then "pass" else "fail:request-depth-r-under-global-g-differs-from-global-eff")
     | _ -> ("SKIP", "na"))
  | "echeck" ->
    let tu = C18.p_tuple t in
    let rd = int_tok t in
    state.last_q <- C18.f_tuple tu; state.last_impl <- obs;
    (* the read-only mapper rejects unknown namespaces and missing subjects before the engine runs *)
    let unmappable = (not (known_ns tu.t_ns)) || (tu.t_sid = None && tu.t_sset = None)
                     || (match tu.t_sid, tu.t_sset with None, Some ss -> not (known_ns ss.ss_ns) | _ -> false) in
    if obs = "hang" then ("SKIP", "fail:check-did-not-return") else
    (* the harness measured more storage operations than its budget for one check (exponentially many sub-checks under
       a deep limit): bounded, but neither side evaluates it *)
    if obs = "costly" then ("SKIP", "na") else
    if unmappable then ("maperr", if obs = "maperr" then "pass" else "na") else begin
      match run_check tu rd (fun _ -> false) with
      | None -> ("OUTOFGAS", "na")
      | Some o ->
        let m = Printf.sprintf "%s %d" (f_mem o.o_res.r_m) (if o.o_res.r_err then 1 else 0) in
        let licensed = (not o.o_cut) || (not o.o_revisit) in
        let model = if licensed then m else "SKIP " ^ m in
        let eff = (let g = state.gdepth in if rd <= 0 || g < rd then g else rd) in
        let sub = (match isub_of tu with Some s -> s | None -> assert false) in
        (* strict mode: a relation that has a permission expression IS that expression; relationships stored directly on it
           do not count (checkIsAllowed is mode-dependent), so the reference semantics is taken over the other rows *)
        let sem_db =
          if not state.strict then state.db else
            { state.db with Sql.rows = List.filter (fun (r : Sql.row) ->
                  match Ast.ast_relation_for state.cfg r.Sql.r_ns r.Sql.r_rel with
                  | Datatypes.Coq_inl (Some x) -> (match x.Ast.rel_rewrite with Some _ -> false | None -> true)
                  | _ -> true) state.db.Sql.rows } in
        let sem = RefSem.ref state.cfg nid sem_db sub gas [] ((tu.t_ns, (nid, tu.t_obj)), tu.t_rel) in
        let verdict =
          (match words obs, sem with
           | [im; ie], Some b ->
             let allowed = (im = "is" && ie = "0") in
             if allowed && not b then
               (if state.has_not && (o.o_cut || eff < safe_depth || state.width < safe_depth)
                then "fail:allowed-but-denied-by-the-semantics class=D2"
                else if state.strict && RefSem.ref state.cfg nid state.db sub gas [] ((tu.t_ns, (nid, tu.t_obj)), tu.t_rel) = Some true
                then "fail:allowed-but-denied-by-the-semantics class=D23"   (* allowed only because a row stored on a permission was counted *)
                else "fail:allowed-but-denied-by-the-semantics")
             else if (not o.o_cut) && eff >= safe_depth && state.width >= safe_depth && ie = "0" && allowed <> b
             then "fail:denied-but-allowed-by-the-semantics-with-limits-not-binding"
             else if ie = "1" && im = "is" then "fail:error-and-allowed-together"
             else "pass"
           | [im; ie], None -> if ie = "1" && im = "is" then "fail:error-and-allowed-together" else "na"
           | _ -> "na") in
        (model, verdict)
    end
  | x -> failwith ("ENGINE: unknown op " ^ x)
