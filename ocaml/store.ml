(* STORE suite: stateful replay of API histories through the model (Store/Api.v) and the multiset spec (Store/Spec.v) *)
open Common
open Codec
open Sql
open Api

type st = { mutable db : Sql.db; mutable spec : Codec.tuple list; mutable names : Byte.byte list list; mutable nid : int;
            specs : (int, Codec.tuple list) Hashtbl.t; mutable last_rows : string list; mutable last_dump : string; mutable digest : bool }
let state = { db = Sql.empty_db; spec = []; names = []; nid = 1; specs = Hashtbl.create 4; last_rows = []; last_dump = ""; digest = false }

let p_action t = match unhx (next t) with
  | b when hx b = "h696e73657274" -> AInsert
  | b when hx b = "h64656c657465" -> ADelete
  | _ -> AOther
let p_pquery t : pquery option =
  let x = next t in
  if x = "-" then None else begin
    if x <> "PQ" then failwith "pquery";
    let n = obytes_tok t in let o = obytes_tok t in let r = obytes_tok t in
    Some { pq_ns = n; pq_obj = o; pq_rel = r; pq_sub = C18.p_psub t } end
let p_tok t = match next t with "-" -> TokEmpty | "bad" -> TokMalformed | x -> TokId (n_of_int (int_of_string x))

let f_uid ((n, s) : Sql.uid) = string_of_int (int_of_n n) ^ " " ^ hx s
let f_row (r : Sql.row) =
  Printf.sprintf "R %d %s %s %s %s" (int_of_n r.r_nid) (hx r.r_ns) (f_uid r.r_obj) (hx r.r_rel)
    (match r.r_sub with ISid u -> "I " ^ f_uid u | ISet (n, o, rl) -> Printf.sprintf "S %s %s %s" (hx n) (f_uid o) (hx rl))
let f_dump (d : Sql.db) =
  let rs = sorted_strings (List.map f_row d.rows) in
  let ms = sorted_strings (List.map (fun ((n, s), str) ->
      if s = str then Printf.sprintf "M %d %s" (int_of_n n) (hx str) else Printf.sprintf "M? %s %s" (f_uid (n, s)) (hx str)) d.maps) in
  Printf.sprintf "D %d %s %d %s" (List.length rs) (String.concat " " rs) (List.length ms) (String.concat " " ms)
let md5 (l : string list) = Digest.to_hex (Digest.string (String.concat "\n" l))
let f_dump_digest (d : Sql.db) =
  let rs = sorted_strings (List.map f_row d.rows) in
  let ms = sorted_strings (List.map (fun ((n, s), str) ->
      if s = str then Printf.sprintf "M %d %s" (int_of_n n) (hx str) else Printf.sprintf "M? %s %s" (f_uid (n, s)) (hx str)) d.maps) in
  Printf.sprintf "X %d %s %d %s" (List.length rs) (md5 rs) (List.length ms) (md5 ms)
let poison_ins = unhx "h5f5f6661696c5f696e73"   (* __fail_ins *)
let poison_del = unhx "h5f5f6661696c5f64656c"   (* __fail_del *)
let poison_map = unhx "h5f5f6661696c5f6d6170"   (* __fail_map *)
let stmt_poisoned (st : Sql.stmt) : bool = match st with
  | SInsert rows -> List.exists (fun (r : Sql.row) -> r.r_rel = poison_ins) rows
  | SDelete (_, ts) -> List.exists (fun (t : Sql.ituple) -> t.i_rel = poison_del) ts
  | SDeleteQ (_, q) -> q.iq_rel = Some poison_del
  | SMapInsert ms -> List.exists (fun (_, str) -> str = poison_map) ms
  | SFailBuild _ -> false
(* the fault plan of the ATOM suite: statement k of the request's transaction fails iff it touches a poison row *)
let plan_for (names) (nid) (db : Sql.db) (op : Api.op) : Sql.faults =
  let of_stmts stmts = (fun k -> (try stmt_poisoned (List.nth stmts (int_of_nat k)) with _ -> false)) in
  let tx ins del mk =
    (match Mapping.coq_FromTuple names false nid (ins @ del) with
     | ROk (its, mst) -> of_stmts (mst @ mk its)
     | RErr _ -> Sql.no_faults) in
  let rec take n l = if n = 0 then [] else (match l with [] -> [] | x :: r -> x :: take (n - 1) r) in
  let rec drop n l = if n = 0 then l else (match l with [] -> [] | _ :: r -> drop (n - 1) r) in
  match op with
  | OpCreate tu -> tx [tu] [] (fun its -> Sql.write_stmts nid db.next its)
  | OpPatch items ->
    let ins = List.filter_map (function Some (AInsert, Some tu) -> Some tu | _ -> None) items in
    let del = List.filter_map (function Some (ADelete, Some tu) -> Some tu | _ -> None) items in
    tx ins del (fun its -> Sql.transact_stmts nid db.next (take (List.length ins) its) (drop (List.length ins) its))
  | OpTransact items ->
    let conv a = List.filter_map (fun (a', p) -> if a' = a then (match tuple_from_data_provider p with Ok tu -> Some tu | _ -> None) else None) items in
    let ins = conv AInsert and del = conv ADelete in
    tx ins del (fun its -> Sql.transact_stmts nid db.next (take (List.length ins) its) (drop (List.length ins) its))
  | OpDeleteREST (v, _) -> (match query_from_url v with Ok q when q.q_rel = Some poison_del -> (fun _ -> true) | _ -> Sql.no_faults)
  | OpDeleteGRPC (Some pq) when pq.pq_rel = Some poison_del -> (fun _ -> true)
  | _ -> Sql.no_faults

let f_list (ts : tuple list) (tokempty : bool) =
  let ss = sorted_strings (List.map C18.f_tuple ts) in
  Printf.sprintf "L %d %s %d" (List.length ss) (String.concat " " ss) (if tokempty then 1 else 0)

(* ---- parsing the implementation's observation (for the oracle) ---- *)
type iobs = { code : int; ilist : (string list * bool) option; irows : string list; imaps : string list; raw_dump : string }
let parse_obs (obs : string) : iobs =
  let t = { l = words obs } in
  let code = int_tok t in
  let rd_tuple () = (* re-read a T-tuple as its canonical string *)
    let tu = C18.p_tuple t in C18.f_tuple tu in
  let ilist = if peek t = "L" then begin
      ignore (next t); let n = int_tok t in
      let l = List.init n (fun _ -> rd_tuple ()) in
      let te = int_tok t in Some (l, te = 1) end else None in
  let rest = String.concat " " t.l in
  expect t "D";
  let n = int_tok t in
  let rd_uid () = let a = next t in let b = next t in a ^ " " ^ b in
  let rows = List.init n (fun _ ->
      expect t "R";
      let net = next t in let ns = next t in let obj = rd_uid () in let rel = next t in
      let sub = match next t with
        | "I" -> "I " ^ rd_uid ()
        | "S" -> let a = next t in let u = rd_uid () in let c = next t in "S " ^ a ^ " " ^ u ^ " " ^ c
        | x -> failwith ("row sub " ^ x) in
      String.concat " " ["R"; net; ns; obj; rel; sub]) in
  let m = int_tok t in
  let maps = List.init m (fun _ -> let a = next t in let b = next t in let c = next t in a ^ " " ^ b ^ " " ^ c) in
  { code; ilist; irows = rows; imaps = maps; raw_dump = rest }

(* API view of an implementation row of network [nid]: "R net ns net obj rel I net s" -> canonical T string *)
let row_to_api (nid : int) (r : string) : string option =
  match words r with
  | ["R"; net; ns; onet; obj; rel; "I"; snet; s] when int_of_string net = nid ->
    if onet <> net || snet <> net then Some ("FOREIGN " ^ r) else Some (Printf.sprintf "T %s %s %s %s -" ns obj rel s)
  | ["R"; net; ns; onet; obj; rel; "S"; sns; snet; sobj; srel] when int_of_string net = nid ->
    if onet <> net || snet <> net then Some ("FOREIGN " ^ r) else Some (Printf.sprintf "T %s %s %s - S %s %s %s" ns obj rel sns sobj srel)
  | "R" :: net :: _ when (try int_of_string net <> nid with _ -> false) -> None
  | _ -> Some ("BAD " ^ r)

let known n = List.mem n state.names
let tuple_bad (t : tuple) =
  (not (known t.t_ns)) || (t.t_sid = None && t.t_sset = None) ||
  (match t.t_sid, t.t_sset with None, Some ss -> not (known ss.ss_ns) | _ -> false)

let run (input : string) (obs : string) : string * string =
  let t = { l = words input } in
  let opname = next t in
  if opname = "reset" then begin
    state.nid <- int_tok t;
    let rec go acc = if peek t = "." then List.rev acc else go (bytes_tok t :: acc) in
    state.names <- go [];
    state.db <- Sql.empty_db; state.spec <- []; Hashtbl.reset state.specs; state.last_rows <- []; state.last_dump <- "";
    state.digest <- false;
    ("-", "na")
  end else if opname = "mode" then begin
    state.digest <- (next t = "digest"); ("-", "na")
  end else if opname = "use" then begin
    Hashtbl.replace state.specs state.nid state.spec;
    state.nid <- int_tok t;
    state.spec <- (try Hashtbl.find state.specs state.nid with Not_found -> []);
    ("-", "na")
  end else if opname = "ro" then begin
    (* a read / syntax request: the model state is untouched by construction (theorems C17); oracle: implementation dump unchanged *)
    let d = String.concat " " (words obs) in
    let v = if state.last_dump = "" || d = state.last_dump then "pass" else "fail:read-request-changed-stored-state" in
    (f_dump state.db, v)
  end else begin
    let nid = n_of_int state.nid in
    (* parse op; also compute what the spec needs *)
    let op, spec_eff, must_reject, list_q =
      match opname with
      | "create" ->
        let tu = C18.p_tuple t in
        OpCreate tu, (fun s -> Spec.spec_insert [tu] s), tuple_bad tu, None
      | "delrest" ->
        let v = C18.p_values t in
        let be = int_tok t = 1 in
        let eff = (match query_from_url v with Ok q -> (fun s -> Spec.spec_delete_q q s) | _ -> (fun s -> s)) in
        let bad = (match query_from_url v with
            | Ok q -> (match q.q_ns with Some n -> not (known n) | None -> false) || (match q.q_sset with Some ss -> not (known ss.ss_ns) | None -> false)
            | _ -> true) in
        OpDeleteREST (v, be), eff, bad, None
      | "patch" ->
        let n = int_tok t in
        let items = List.init n (fun _ ->
            match next t with
            | "null" -> None
            | "A" -> let a = p_action t in
              if peek t = "-" then (ignore (next t); Some (a, None)) else Some (a, Some (C18.p_tuple t))
            | x -> failwith ("patch item " ^ x)) in
        let ins = List.filter_map (function Some (AInsert, Some tu) -> Some tu | _ -> None) items in
        let del = List.filter_map (function Some (ADelete, Some tu) -> Some tu | _ -> None) items in
        let bad = List.exists (function None | Some (_, None) | Some (AOther, _) -> true | Some (_, Some tu) -> tuple_bad tu) items in
        OpPatch items, (fun s -> Spec.spec_transact ins del s), bad, None
      | "transact" ->
        let n = int_tok t in
        let items = List.init n (fun _ -> expect t "A"; let a = p_action t in let p = C18.p_ptuple t in (a, p)) in
        let conv a = List.filter_map (fun (a', p) -> if a' = a then (match tuple_from_data_provider p with Ok tu -> Some (Some tu) | _ -> Some None) else None) items in
        let ins = conv AInsert and del = conv ADelete in
        let bad = List.exists (function None -> true | Some tu -> tuple_bad tu) (ins @ del) in
        let unopt l = List.filter_map (fun x -> x) l in
        OpTransact items, (fun s -> Spec.spec_transact (unopt ins) (unopt del) s), bad, None
      | "delgrpc" ->
        let q = p_pquery t in
        let eff, bad = (match q with
            | Some pq -> let q' = query_from_data_provider pq in
              (fun s -> Spec.spec_delete_q q' s),
              ((match q'.q_ns with Some n -> not (known n) | None -> false) || (match q'.q_sset with Some ss -> not (known ss.ss_ns) | None -> false))
            | None -> (fun s -> s), true) in
        OpDeleteGRPC q, eff, bad, None
      | "listrest" ->
        let v = C18.p_values t in
        let size = (match next t with "-" -> SizeAbsent | "bad" -> SizeBad | x -> SizeVal (z_of_int (int_of_string x))) in
        let tok = p_tok t in
        OpListREST (v, size, tok), (fun s -> s), false, (match query_from_url v with Ok q -> Some q | _ -> None)
      | "listgrpc" ->
        let q = p_pquery t in
        let size = z_of_int (int_tok t) in
        let tok = p_tok t in
        OpListGRPC (q, size, tok), (fun s -> s), false, (match q with Some pq -> Some (query_from_data_provider pq) | None -> None)
      | x -> failwith ("STORE: unknown op " ^ x) in
    let plan = if state.digest then plan_for state.names nid state.db op else Sql.no_faults in
    let db0 = state.db in
    let (db', resp) = Api.step state.names nid plan state.db op in
    state.db <- db';
    let code = int_of_nat resp.status in
    let is_list = (match op with OpListREST _ | OpListGRPC _ -> true | _ -> false) in
    let model_obs =
      if is_list && code = 200 then Printf.sprintf "%d %s %s" code (f_list resp.listed (resp.next_tok = TokEmpty)) (f_dump db')
      else if state.digest then Printf.sprintf "%d %s" code (f_dump_digest db')
      else Printf.sprintf "%d %s" code (f_dump db') in
    (* ---- oracle on the implementation's observation ---- *)
    let verdict =
      if state.digest then begin
        (* atomicity oracle (C05): a request that was not answered 2xx leaves both tables exactly as they were *)
        match words obs with
        | codes :: "X" :: rest ->
          let icode = int_of_string codes in
          let d = String.concat " " rest in
          let prev = state.last_dump in
          state.last_dump <- d;
          (* all or nothing: the tables are either exactly as before, or exactly as after the WHOLE request *)
          let (dbfull, _) = Api.step state.names nid Sql.no_faults db0 op in
          let full = (match words (f_dump_digest dbfull) with "X" :: r -> String.concat " " r | r -> String.concat " " r) in
          let ok2xx = icode >= 200 && icode < 300 in
          if icode = 0 then "fail:handler-panicked"
          else if (not ok2xx) && prev <> "" && prev <> d then "fail:failed-request-changed-stored-state"
          else if ok2xx && d <> full then "fail:request-answered-success-but-only-part-of-it-is-stored"
          else "pass"
        | _ -> "fail:unparsable-observation"
      end else
      try
        let io = parse_obs obs in
        state.last_dump <- "D " ^ (let w = words io.raw_dump in String.concat " " (List.tl w));
        let ok2xx = io.code >= 200 && io.code < 300 in
        let spec' = if ok2xx then spec_eff state.spec else state.spec in
        state.spec <- spec';
        let impl_api = sorted_strings (List.filter_map (row_to_api state.nid) io.irows) in
        let spec_api = sorted_strings (List.map C18.f_tuple spec') in
        let other l = sorted_strings (List.filter (fun r -> match words r with "R" :: net :: _ -> (try int_of_string net <> state.nid with _ -> true) | _ -> true) l) in
        let frame_broken = other io.irows <> other state.last_rows in
        state.last_rows <- io.irows;
        if io.code = 0 then "fail:handler-panicked"
        else if frame_broken then "fail:operation-changed-rows-of-another-network"
        else if impl_api <> spec_api then
          "fail:store-differs-from-multiset-spec" ^ (if ok2xx then "" else "(rejected-request-had-effect)")
        else if must_reject && ok2xx then "fail:invalid-write-accepted"
        else (match io.ilist, list_q with
            | Some (l, _), Some q when io.code = 200 ->
              let exp = sorted_strings (List.map C18.f_tuple (Spec.spec_list q spec')) in
              if sorted_strings l <> exp then "fail:list-differs-from-spec" else "pass"
            | _ -> "pass")
      with e -> "fail:unparsable-observation " ^ Printexc.to_string e in
    (model_obs, verdict)
  end
