(* TRANSPORT suite: all check transports against the engine's own answer (C08) *)
open Common
open Engine
open Transports

let p_eres (s : string) : eres =
  match s with
  | "unknownns" -> EUnknownNs
  | "nosubject" -> ENoSubject
  | _ ->
    (match String.split_on_char '/' s with
     | [m; e] ->
       let mem = (match m with "is" -> IsMember | "not" -> NotMember | _ -> Unknown) in
       let err = String.length e > 0 && e.[0] = '1' in
       let bad = e = "1b" in
       ERes ({ r_m = mem; r_err = err }, bad)
     | _ -> failwith ("eres " ^ s))
let f_allowed = function None -> "-" | Some true -> "1" | Some false -> "0"
let f_single (o : tobs) = Printf.sprintf "%d/%s" (int_of_nat o.t_status) (f_allowed o.t_allowed)
let f_entry (o : tobs) = Printf.sprintf "%s/%s" (f_allowed o.t_allowed) (if o.t_error then "1" else "0")

let run (input : string) (obs : string) : string * string =
  let t = { l = words input } in
  match next t with
  | "econf" | "table" -> ("-", "na")
  | "etrans" ->
    let ow = words obs in
    let get k = (try let w = List.find (fun w -> String.length w > String.length k && String.sub w 0 (String.length k + 1) = k ^ "=") ow in
                   String.sub w (String.length k + 1) (String.length w - String.length k - 1) with Not_found -> "?") in
    let e = p_eres (get "E") in
    let skip k = get k = "skip" in
    let model = String.concat " " [
        "E=" ^ get "E";
        (if skip "G1" then "G1=skip" else "G1=" ^ f_single (observe GetMirror e));
        (if skip "G2" then "G2=skip" else "G2=" ^ f_single (observe GetOpenAPI e));
        "P1=" ^ f_single (observe PostMirror e);
        "P2=" ^ f_single (observe PostOpenAPI e);
        "C=" ^ f_single (observe GrpcCheck e) ] in
    (* oracle on the implementation alone: every transport reports the engine's decision; unknown namespace never allowed;
       the mirror endpoints answer 200 iff allowed and 403 iff denied *)
    let dec = decision e in
    let rep k = (match String.split_on_char '/' (get k) with [st; a] -> Some (st, a) | _ -> None) in
    let bad = List.filter_map (fun k ->
        match rep k with
        | None -> None
        | Some (st, a) ->
          let reported = (a = "1") in
          if reported <> dec && not (a = "-" && not dec) then Some (k ^ "-disagrees-with-engine")
          else if (k = "G1" || k = "P1") && ((st = "200") <> dec) then Some (k ^ "-status-does-not-mirror-decision")
          else None) ["G1"; "G2"; "P1"; "P2"; "C"] in
    (model, if bad = [] then "pass" else "fail:" ^ String.concat "," bad)
  | "ebatch" ->
    let n = int_tok t in
    let es = List.init n (fun _ -> p_eres (next t)) in
    let f rt = String.concat "" (List.map (fun o -> " " ^ f_entry o) (observe_batch rt es)) in
    let model = "RB=200" ^ f RestBatchEntry ^ " ; GB=200" ^ f GrpcBatchEntry in
    let verdict =
      (match String.split_on_char ';' obs with
       | [rb; gb] ->
         let chk part =
           (match words part with
            | _ :: entries ->
              if List.length entries <> n then Some "batch-result-count-differs-from-request"
              else if List.exists2 (fun ent e -> (match String.split_on_char '/' ent with [a; _] -> (a = "1") <> decision e | _ -> true)) entries es
              then Some "batch-entry-disagrees-with-engine"
              else if List.exists (fun ent -> ent = "1/1") entries then Some "batch-entry-allowed-with-error"
              else None
            | [] -> Some "shape") in
         (match chk rb, chk gb with None, None -> "pass" | Some x, _ | _, Some x -> "fail:" ^ x)
       | _ -> "fail:shape") in
    (model, verdict)
  | x -> failwith ("TRANSPORT: unknown op " ^ x)
