(* EXPAND suite: the expand engine (C09) *)
open Common
open Codec
open Sql
open Expand

let nid = n_of_int 1
type st = { mutable db : Sql.db; mutable gdepth : int; mutable names : string list }
let state = { db = Sql.empty_db; gdepth = 5; names = [] }

let f_isub = function
  | ISid (_, s) -> "I " ^ hx s
  | ISet (n, (_, o), r) -> Printf.sprintf "S %s %s %s" (hx n) (hx o) (hx r)
let rec f_tree = function
  | Leaf s -> "L " ^ f_isub s
  | Union (s, cs) -> String.concat " " ((Printf.sprintf "U %s %d" (f_isub s) (List.length cs)) :: List.map f_tree cs)

(* parse the implementation's tree *)
let p_isub t = match next t with
  | "I" -> ISid (nid, bytes_tok t)
  | "S" -> let n = bytes_tok t in let o = bytes_tok t in let r = bytes_tok t in ISet (n, (nid, o), r)
  | x -> failwith ("isub " ^ x)
let rec p_tree t = match next t with
  | "L" -> Leaf (p_isub t)
  | "U" -> let s = p_isub t in let n = int_tok t in Union (s, List.init n (fun _ -> p_tree t))
  | x -> failwith ("tree " ^ x)

let gas () = nat_of_int (state.gdepth + 2)

let run (input : string) (obs : string) : string * string =
  let t = { l = words input } in
  match next t with
  | "econf" ->
    ignore (int_tok t); ignore (int_tok t); state.gdepth <- int_tok t;
    (* namespace names: tokens after "N" *)
    let rec names acc = match t.l with
      | "N" :: n :: rest -> t.l <- rest; names (n :: acc)
      | _ :: rest -> t.l <- rest; names acc
      | [] -> acc in
    state.names <- names [];
    ("-", "na")
  | "table" ->
    let n = int_tok t in
    let rows = List.init n (fun i ->
        let _ = next t in
        let tu = C18.p_tuple t in
        let s = (match tu.t_sid, tu.t_sset with
            | Some s, _ -> ISid (nid, s)
            | None, Some ss -> ISet (ss.ss_ns, (nid, ss.ss_obj), ss.ss_rel)
            | _ -> failwith "row") in
        { r_shard = n_of_int (2 * (i + 1)); r_nid = nid; r_ns = tu.t_ns; r_obj = (nid, tu.t_obj); r_rel = tu.t_rel; r_sub = s }) in
    state.db <- { rows = rows; maps = []; next = n_of_int 1 };
    ("-", "na")
  | "expand" ->
    expect t "S";
    let nstok = List.hd t.l in
    let ns = bytes_tok t in let o = bytes_tok t in let r = bytes_tok t in
    let rd = int_tok t in
    let known = List.mem nstok state.names in
    let g = z_of_int state.gdepth in
    let root = ISet (ns, (nid, o), r) in
    let model_tree = if not known then None else Expand.coq_BuildTree nid state.db g (gas ()) root (z_of_int rd) in
    let mt = (match model_tree with
        | None -> if known then "OUTOFGAS" else "-"
        | Some None -> "nil"
        | Some (Some tr) -> f_tree tr) in
    let model = if not known then "404 - ; 404 -" else Printf.sprintf "200 %s ; 200 %s" mt mt in
    (* oracle on the implementation's REST tree *)
    let eff = if rd <= 0 || state.gdepth < rd then state.gdepth else rd in
    let verdict =
      (match String.split_on_char ';' obs with
       | [a; b] ->
         let wa = words a and wb = words b in
         (match wa, wb with
          | code :: "nil" :: [], _ | code :: "-" :: [], _ -> ignore code; "na"
          | _ :: toks, _ :: gtoks ->
            if toks <> gtoks then "fail:rest-and-grpc-trees-differ"
            else (try
                    let tr = p_tree { l = toks } in
                    let mem n o r = Expand.members nid state.db n o r in
                    let edge_ok (p, c) = (match p with ISet (n, o, r) -> List.mem c (mem n o r) | ISid _ -> false) in
                    let us = Expand.unions tr in
                    let rec nodup = function [] -> true | x :: l -> not (List.mem x l) && nodup l in
                    let subs = Expand.subjects tr in
                    let all = Expand.closure nid state.db (nat_of_int 2000) [root] [] in
                    let within = if eff > 8 then List.filter (fun s -> s <> root) all else Expand.reach_within nid state.db (nat_of_int (eff - 1)) root in
                    if not (List.for_all edge_ok (Expand.edges tr)) then "fail:edge-is-not-a-stored-relationship"
                    else if not (nodup us) then "fail:subject-set-expanded-twice"
                    else if int_of_nat (Expand.height tr) > eff then "fail:tree-deeper-than-max-depth"
                    else if not (List.for_all (fun s -> List.mem s all) subs) then "fail:subject-not-reachable"
                    else if not (List.for_all (fun s -> List.mem s subs) within) then
                      (if Some (Some tr) = model_tree then "fail:reachable-subject-missing-within-depth class=D7" else "fail:reachable-subject-missing-within-depth")
                    else "pass"
                  with e -> "fail:unparsable-tree " ^ Printexc.to_string e)
          | _ -> "na")
       | _ -> "fail:shape") in
    (model, verdict)
  | x -> failwith ("EXPAND: unknown op " ^ x)
