# per-property configuration of bin/check
PROPS = {
 'C18': {
  'coq_files': ['Base/Bytes.v', 'Api/CodecProofs.v', 'Properties/C18.v'],
  'theorems': ['C18_url_query_roundtrip', 'C18_url_tuple_roundtrip', 'C18_proto_tuple_roundtrip', 'C18_proto_query_roundtrip',
               'C18_proto_subject_kind', 'C18_proto_decoders_total', 'C18_json_tuple_roundtrip', 'C18_json_query_roundtrip', 'C18_string_roundtrip',
               'C18_malformed_rejected', 'C18_parsed_has_one_subject', 'C18_print_parse_idempotent_refuted', 'C18_print_parse_idempotent_partial'],
  'suites': [{'name': 'C18', 'n_quick': 6000, 'n_thorough': 200000, 'shards_thorough': 4}],
  'rule': 'seeded generator: raw tuple text biased to the separators : # @ ( ), structured tuples/queries (valid, no-subject, both-subjects), arbitrary url.Values incl. duplicate/unknown keys, proto messages incl. absent subject, JSON documents incl. nulls/wrong types/case-folded keys; distinct = distinct input lines; non-trivial = every case exercises a real encode or decode function of ketoapi',
  'trusted_base': ['net/url Encode/ParseQuery, encoding/json, protobuf marshal/unmarshal are exercised by the harness but not modelled (JSON restricted to valid UTF-8, proto strings to valid UTF-8, their documented domains)'],
  'assumptions': ['JSON key matching is modelled for ASCII case folding only'],
  'level_text': 'Machine-checked theorems (no axioms) for all byte strings: decode(encode x)=x for URL/proto/JSON-field codecs, FromString(String x)=x on an explicit boolean domain, malformed text rejected, and print/parse idempotence proved outside the exact class of known finding D13 (refuted inside it by a vm_compute witness). Model tied to ketoapi by differential runs of the real functions.',
  'level_note': 'Trusted: Coq kernel, extraction, OCaml/Go glue; net/url, encoding/json, protobuf wire codecs exercised but not modelled; JSON/proto restricted to valid UTF-8.',
  'explanation': 'Theorems over all byte strings for String/FromString, URL, proto and JSON(field level) codecs; correspondence runs the real ketoapi functions',
 },
}

ALL = ['C%02d' % i for i in range(1, 20)]
NOT_APPLICABLE = [{'property_id': p, 'reason': 'not yet built in this session (work in progress; see DESIGN.md section 6 order of work)'} for p in ALL if p not in PROPS]
