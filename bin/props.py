# per-property configuration of bin/check
PROPS = {
 'C18': {
  'coq_files': ['Base/Bytes.v', 'Api/CodecProofs.v', 'Properties/C18.v'],
  'theorems': ['C18_url_query_roundtrip', 'C18_url_tuple_roundtrip', 'C18_proto_tuple_roundtrip', 'C18_proto_query_roundtrip',
               'C18_proto_subject_kind', 'C18_proto_decoders_total', 'C18_json_tuple_roundtrip', 'C18_json_query_roundtrip', 'C18_string_roundtrip',
               'C18_malformed_rejected', 'C18_parsed_has_one_subject', 'C18_print_parse_idempotent_refuted', 'C18_print_parse_idempotent_partial'],
  'suites': [{'name': 'C18', 'n_quick': 6000, 'n_thorough': 200000, 'shards_thorough': 4}],
  'rule': 'seeded generator: raw tuple text biased to the separators : # @ ( ), structured tuples/queries (valid, no-subject, both-subjects), arbitrary url.Values incl. duplicate/unknown keys, proto messages incl. absent subject, JSON documents incl. nulls/wrong types/case-folded keys; distinct = distinct input lines; non-trivial = every case exercises a real encode or decode function of ketoapi',
  'trusted_base': ['net/url Encode/ParseQuery, encoding/json, protobuf marshal/unmarshal are exercised by the harness but not modelled (JSON restricted to valid UTF-8, proto strings to valid UTF-8, their documented domains)'],
  'assumptions': ['JSON key matching is modelled for ASCII case folding only'],
  'level_text': 'Machine-checked theorems (no axioms) for all byte strings: decode(encode x)=x for URL/proto/JSON-field codecs, FromString(String x)=x on an explicit boolean domain, malformed text rejected, and print/parse idempotence proved outside the exact class of known finding D13 (refuted inside it by a vm_compute witness). Model tied to ketoapi by differential runs of the real functions.',
  'level_note': 'Trusted: Coq kernel, extraction, OCaml/Go glue; net/url, encoding/json, protobuf wire codecs exercised but not modelled; JSON/proto restricted to valid UTF-8.',
  'explanation': 'Theorems over all byte strings for String/FromString, URL, proto and JSON(field level) codecs; correspondence runs the real ketoapi functions',
 },
}

STORE_TB = ['SQL engine: one statement is atomic, a transaction is all-or-nothing and isolated (assumed, modelled by Sql.transaction); SQLite stands in for Postgres/MySQL/CockroachDB',
            'uuid.NewV5 is injective (modelled as the pair (network id, string)); uuid.NewV4 shard ids are distinct',
            'translator harness/translator/main.go (go/ast): chunk sizes, default page size and the route table in Gen/Generated.v']
STORE_FILES = ['Base/ListX.v', 'Store/SqlProofs.v', 'Store/PagingProofs.v', 'Store/MappingProofs.v', 'Store/ApiProofs.v']
PROPS.update({
 'C04': {
  'coq_files': STORE_FILES + ['Properties/C04.v'],
  'theorems': ['C04_refines_multiset', 'C04_step', 'C04_invalid_rejected', 'C04_delete_exact', 'C04_list', 'C04_nonvacuous'],
  'suites': [{'name': 'STORE', 'n_quick': 2500, 'n_thorough': 40000, 'shards_thorough': 4}],
  'rule': 'random histories (6-21 steps each, fresh server per history) of REST create / delete-by-query / patch and gRPC transact / delete / list with valid and invalid arguments drawn from small pools so that duplicates, overlapping deletes and unknown namespaces occur; after EVERY step: full dump of both tables + a list; distinct = distinct (history position, request) lines; every case runs a real handler against SQLite',
  'trusted_base': STORE_TB,
  'assumptions': ['list requests in this suite use one page of 10000 (pagination is C07)'],
  'level_text': 'Theorem run_refines: for every history of write/list operations the handlers+SQL model refines a per-network multiset (abs d = spec_run), rejected requests change nothing (both tables), invalid tuples are never accepted, deletes are exact, lists return the written strings (via C16) — by induction over histories, no axioms. Model tied to the real handlers and the real SQL persister by step-wise differential histories with full table dumps, and the multiset oracle is evaluated on the implementation directly.',
  'level_note': 'Proved over the handler model at the level of decoded requests; JSON/proto decoding is C18/C13. Check/expand read-your-writes is covered through the engine suites (C01/C09) which write through the same API.',
  'explanation': 'refinement proof + differential histories',
 },
 'C05': {
  'coq_files': ['Base/ListX.v', 'Store/SqlProofs.v', 'Properties/C05.v'],
  'theorems': ['C05_all_or_nothing', 'C05_fault_anywhere_fails', 'C05_delete_chunks_exact', 'C05_chunk_sizes_positive'],
  'suites': [{'name': 'ATOM', 'n_quick': 90, 'n_thorough': 1500, 'shards_thorough': 4}],
  'rule': 'patch/transact requests with |I| in {0,1,2,3,99,100,101,250,2999,3000,3001,6001} and |D| in {0,1,99,100,101,150}; statement failures injected by SQLite triggers on poison rows at a random or last position of the INSERT chunks, DELETE chunks or the mapping INSERT; invalid tuple (unknown namespace / no subject) at first, middle or last position; dump digest (count + MD5 of both sorted tables) after every request; distinct = distinct request lines',
  'trusted_base': STORE_TB,
  'assumptions': ['PARTIAL: that the SQL engine hides uncommitted rows from concurrent readers and survives crashes is assumed, not proved; the check decides whether keto issues every statement of a request inside ONE transaction'],
  'level_text': 'Theorems: transaction is all-or-nothing for every fault plan and every statement list; a fault at any statement position fails the request; chunked DELETE equals one exact delete; chunk sizes from the source are positive. Correspondence: real handlers on SQLite with trigger-injected statement failures at every kind of statement (mapping, 1st/2nd/3rd INSERT chunk, DELETE chunks) and invalid tuples at any position; the oracle requires a non-2xx request to leave both tables unchanged.',
  'level_note': 'partial: snapshot isolation / crash atomicity of the database are runtime guarantees of the SQL engine and are assumed.',
  'explanation': 'atomicity theorem + trigger-based fault injection',
 },
 'C06': {
  'coq_files': STORE_FILES + ['Properties/C06.v'],
  'theorems': ['C06_frame', 'C06_statements_frame', 'C06_built_statements', 'C06_exists_own_rows', 'C06_list_own_rows'],
  'suites': [{'name': 'NET', 'n_quick': 1500, 'n_thorough': 30000, 'shards_thorough': 4}],
  'rule': 'two complete server stacks (registry, routers, gRPC servers) on ONE SQLite database under different network ids (the second through a Contextualizer); random histories alternate between the networks using the SAME object/subject strings; after every step the full dump of all networks; oracle: rows of the other network unchanged and each network equals its own multiset spec',
  'trusted_base': STORE_TB,
  'assumptions': [],
  'level_text': 'Theorems: any API history in network A leaves the rows of every other network untouched (frame, by induction over histories); every statement keto builds for A is a statement of A; list/exists in B are functions of B rows only. Correspondence on two real stacks over one database.',
  'level_note': 'check/expand isolation follows from the traversal predicates sharing in_net (see Engine model) and is exercised by the engine suites with a second network present.',
  'explanation': 'frame theorem + two-network differential histories',
 },
 'C07': {
  'coq_files': ['Base/ListX.v', 'Store/SqlProofs.v', 'Store/PagingProofs.v', 'Properties/C07.v'],
  'theorems': ['C07_all_once', 'C07_matching_is_the_filter', 'C07_page', 'C07_bad_token', 'C07_default_page_size_positive'],
  'suites': [{'name': 'PAGE', 'n_quick': 700, 'n_thorough': 20000, 'shards_thorough': 4}],
  'rule': 'tables of n in {0,1,2,5,30,99,100,101,150,201,250} rows; query shapes over namespace/object/relation/subject; page sizes {0,1,2,3,7,33,99,100,101,250,n-1,n,n+1,n/2,n/3,n/4}; REST and gRPC; a third of the iterations interleave inserts/deletes of other rows between page fetches; before every fetch the table snapshot in database order is given to the model; distinct = distinct page requests',
  'trusted_base': STORE_TB,
  'assumptions': ['shard ids are distinct and greater than uuid.Nil'],
  'level_text': 'Theorem C07_all_once (any table, any query, any size >= 0): following the tokens yields exactly the matching rows in shard order, each once, pages <= page size, iteration ends at the first empty token; closed form of one page; malformed token is E_BadToken (400 after fix D12). Correspondence: every real page (REST and gRPC) equals the model page on the same snapshot, and the iteration oracle (stable rows exactly once, nothing foreign, nothing twice) is evaluated on the implementation.',
  'level_note': 'stability under interleaved writes is checked by the oracle on the implementation and follows from C07_page (each page is an interval of shard ids); it is not yet stated as a separate Coq theorem.',
  'explanation': 'keyset pagination theorem + differential pages',
 },
 'C16': {
  'coq_files': ['Base/ListX.v', 'Store/SqlProofs.v', 'Store/MappingProofs.v', 'Properties/C16.v'],
  'theorems': ['C16_injective', 'C16_batch_lookup', 'C16_roundtrip', 'C16_from_tuple_positionwise'],
  'suites': [{'name': 'MAP', 'n_quick': 90, 'n_thorough': 3000, 'shards_thorough': 4}, {'name': 'STORE', 'n_quick': 600, 'n_thorough': 5000}],
  'rule': 'batches of 1..350 tuples through the real read-write Mapper.FromTuple and back through ToTuple; names: empty, 4-byte UTF-8, invalid UTF-8, NUL, 64 KiB, SQL-looking, bidi, same string as object and subject, heavy repeats and >100 distinct; invalid batches (unknown namespace / no subject at a random position); plus STORE histories (write then list)',
  'trusted_base': STORE_TB,
  'assumptions': [],
  'level_text': 'Theorems: uuid5 injective (by representation), batchFromUUIDs = position-wise lookup for every batch size, page size >= 1 and repeats; FromTuple then ToTuple returns the written strings position by position for every valid batch (index arithmetic u[2i], u[2i+1] modelled literally). Correspondence against the real mappers on SQLite.',
  'level_note': 'SHA-1 collision freeness of UUIDv5 is assumed.',
  'explanation': 'mapping round trip',
 },
 'C17': {
  'coq_files': ['Store/MappingProofs.v', 'Store/ApiProofs.v', 'Gen/Generated.v', 'Properties/C17.v'],
  'theorems': ['C17_read_routes_use_ro', 'C17_table_nonvacuous', 'C17_ro_mapper_no_statements', 'C17_list_no_effect'],
  'suites': [{'name': 'READ', 'n_quick': 900, 'n_thorough': 20000, 'shards_thorough': 4}],
  'rule': 'after some writes, 25 random read/syntax requests per server (REST GET/POST check, openapi variants, batch check, expand, list, namespaces, gRPC Check/BatchCheck/Expand/List/ListNamespaces, REST and gRPC OPL syntax check), half of the names never seen by the server, valid and invalid; full dump of both tables after each; oracle: dump unchanged',
  'trusted_base': STORE_TB,
  'assumptions': [],
  'level_text': 'Theorem C17_read_routes_use_ro is re-proved on every run over the route table the translator regenerates from the source (every handler reachable from a read/syntax route, REST or gRPC, never calls the writing Mapper()); the read-only mapper issues no statement; list steps return the state unchanged. Correspondence: real read and syntax routers/servers, dump of both tables unchanged after every request.',
  'level_note': 'the call-graph in the translator is intra-package and name-based (over-approximate for same-named methods)',
  'explanation': 'route table theorem + dumps',
 },
})

ALL = ['C%02d' % i for i in range(1, 20)]
NOT_APPLICABLE = [{'property_id': p, 'reason': 'not yet built in this session (work in progress; see DESIGN.md section 6 order of work)'} for p in ALL if p not in PROPS]
