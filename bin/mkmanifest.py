#!/usr/bin/env python3
"""regenerates MANIFEST.json from bin/props.py (single source of truth)"""
import json, os, sys
V = os.path.dirname(os.path.dirname(os.path.abspath(__file__)))
sys.path.insert(0, os.path.join(V, 'bin'))
from props import PROPS, NOT_APPLICABLE
checks = []
for pid in sorted(PROPS):
    c = PROPS[pid]
    checks.append({
        'property_id': pid,
        'quick_cmd': 'bin/check %s --tier quick' % pid,
        'thorough_cmd': 'bin/check %s --tier thorough' % pid,
        'evidence_file': 'evidence/%s.json' % pid,
        'replay_cmd_template': 'bin/check %s --replay {path}' % pid,
        'engine': 'coq-model+correspondence',
        'level_claimed': {'category': 'proof', 'text': c['level_text'], 'design_ref': c.get('design_ref', 'DESIGN.md section 5, ' + pid)},
        'level_note': c['level_note'],
        'technique': c.get('technique', 'Coq 8.16 theorems over an executable Gallina model; model tied to the Go code by extraction-based differential correspondence on every run'),
    })
m = {
    'version': 1,
    'setup_cmd': 'bin/check --setup',
    'hooks': {
        'guard': 'verif',
        'enable': "cd /repo && go test -c -vet=off -tags 'sqlite verif' -overlay /verif/build/overlay.json -o /verif/build/verifh.test ./internal/verifh/   (the harness and a few //go:build verif export files live under /verif/harness and are added by -overlay; /repo is not modified)",
        'baseline_off_cmd': 'for m in . proto; do (cd /repo/$m && GOFLAGS=-mod=mod go test -json -vet=off -count=1 -timeout 25m ./...); done',
        'source_commits': [],
        'add_only': True,
    },
    'engines': [
        {'name': 'coq-model+correspondence', 'path': 'coq/ ocaml/ harness/ bin/check', 'serves_properties': sorted(PROPS),
         'kind_free_text': 'Coq 8.16.1 development (theorems) + model extracted to OCaml + Go harness compiled into /repo via -overlay; bin/check diffs projected observables and evaluates property oracles'}],
    'checks': checks,
    'notes': 'See DESIGN.md. known_findings.json lists recorded genuine defects. All checks rebuild from /repo working tree.',
    'not_applicable': NOT_APPLICABLE,
}
json.dump(m, open(os.path.join(V, 'MANIFEST.json'), 'w'), indent=1)
print('MANIFEST.json: %d checks, %d not_applicable' % (len(checks), len(NOT_APPLICABLE)))
