(* Namespace configuration as the engines see it (internal/namespace/ast, internal/namespace/definitions.go). *)
From Coq Require Import List Bool Arith NArith ZArith Lia.
From Keto Require Import Base.Bytes.
Import ListNotations.

Inductive operator := OpOr | OpAnd.

Inductive child :=
| CComputed (rel : bytes)                      (* this.related.rel.includes(ctx.subject) / this.permits.rel(ctx) *)
| CTuple (rel : bytes) (crel : bytes)          (* this.related.rel.traverse(x => x.{related,permits}.crel...) *)
| CRewrite (op : operator) (cs : list child)   (* nested (a || b), (a && b) *)
| CInvert (c : child).                         (* !c *)

Record rewrite := { rw_op : operator; rw_children : list child }.
Record rtype := { ty_ns : bytes; ty_rel : bytes }.      (* ty_rel = [] : plain namespace type *)
Record relation := { rel_name : bytes; rel_types : list rtype; rel_rewrite : option rewrite }.
Record namespace := { ns_name : bytes; ns_rels : list relation }.
Definition config := list namespace.

Fixpoint find_ns (c : config) (n : bytes) : option namespace :=
  match c with [] => None | x :: r => if bytes_eqb (ns_name x) n then Some x else find_ns r n end.
Fixpoint find_rel (rs : list relation) (r : bytes) : option relation :=
  match rs with [] => None | x :: l => if bytes_eqb (rel_name x) r then Some x else find_rel l r end.

(* namespace.ASTRelationFor: inl None = no configuration to apply; inr tt = "relation does not exist" (400) *)
Definition ast_relation_for (c : config) (n r : bytes) : (option relation) + unit :=
  match r with
  | [] => inl None
  | _ =>
    match find_ns c n with
    | None => inl None
    | Some ns =>
      match ns_rels ns with
      | [] => inl None
      | rs => match find_rel rs r with Some x => inl (Some x) | None => inr tt end
      end
    end
  end.

Definition contains_subject_set_expand (r : relation) : bool :=
  existsb (fun t => match ty_rel t with [] => false | _ => true end) (rel_types r).

(* size measures used for gas bounds *)
Fixpoint child_size (c : child) : nat :=
  match c with
  | CComputed _ | CTuple _ _ => 1
  | CRewrite _ cs => S ((fix sum (l : list child) := match l with [] => 0 | x :: r => child_size x + sum r end) cs)
  | CInvert c => S (child_size c)
  end.
Definition children_size (cs : list child) : nat := fold_right (fun c n => child_size c + n) 0 cs.

Fixpoint child_has_not (c : child) : bool :=
  match c with
  | CComputed _ | CTuple _ _ => false
  | CRewrite _ cs => (fix any (l : list child) := match l with [] => false | x :: r => child_has_not x || any r end) cs
  | CInvert _ => true
  end.
Definition rewrite_has_not (rw : rewrite) : bool := existsb child_has_not (rw_children rw).
Definition config_has_not (c : config) : bool :=
  existsb (fun n => existsb (fun r => match rel_rewrite r with Some rw => rewrite_has_not rw | None => false end) (ns_rels n)) c.
Definition config_has_rewrites (c : config) : bool :=
  existsb (fun n => existsb (fun r => match rel_rewrite r with Some _ => true | None => false end) (ns_rels n)) c.
