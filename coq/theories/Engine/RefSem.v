(* Reference semantics of a check ("Zanzibar semantics" of a configuration over a set of relationships).
   (i) Holds: the declarative least fixed point, for configurations without '!'.
   (ii) ref: an executable evaluator for all configurations (the oracle of the correspondence check). *)
From Coq Require Import List Bool Arith NArith ZArith Lia.
From Keto Require Import Base.Bytes Base.ListX Store.Sql Engine.Ast.
Import ListNotations.

Definition goal := (bytes * uid * bytes)%type.           (* namespace : object # relation *)
Definition goal_eqb (a b : goal) : bool :=
  let '(n, o, r) := a in let '(n', o', r') := b in bytes_eqb n n' && uid_eqb o o' && bytes_eqb r r'.

Section Sem.
Variable cfg : config.
Variable nid : N.
Variable d : db.
Variable sub : isub.

(* stored relationship ns:obj#rel@sub *)
Definition direct (g : goal) : bool :=
  let '(n, o, r) := g in
  existsb (fun x => in_net nid x && bytes_eqb (r_ns x) n && uid_eqb (r_obj x) o && bytes_eqb (r_rel x) r && isub_eqb (r_sub x) sub) (rows d).
(* subject sets stored under ns:obj#rel *)
Definition set_rows (g : goal) : list goal :=
  let '(n, o, r) := g in
  flat_map (fun x => if in_net nid x && bytes_eqb (r_ns x) n && uid_eqb (r_obj x) o && bytes_eqb (r_rel x) r
                     then match r_sub x with ISet sn so sr => [(sn, so, sr)] | ISid _ => [] end else []) (rows d).
Definition rewrite_of (g : goal) : option rewrite :=
  let '(n, o, r) := g in
  match ast_relation_for cfg n r with inl (Some x) => rel_rewrite x | _ => None end.

(* ---- (i) declarative semantics, '!'-free ---- *)
Inductive Holds : goal -> Prop :=
| H_direct g : direct g = true -> Holds g
| H_set g s : In s (set_rows g) -> Holds s -> Holds g
| H_rewrite g rw : rewrite_of g = Some rw -> HoldsOp g (rw_op rw) (rw_children rw) -> Holds g
with HoldsOp : goal -> operator -> list child -> Prop :=
| H_or g cs c : In c cs -> HoldsChild g c -> HoldsOp g OpOr cs
| H_and g cs : cs <> [] -> HoldsAll g cs -> HoldsOp g OpAnd cs
with HoldsAll : goal -> list child -> Prop :=
| H_all_nil g : HoldsAll g []
| H_all_cons g c cs : HoldsChild g c -> HoldsAll g cs -> HoldsAll g (c :: cs)
with HoldsChild : goal -> child -> Prop :=
| H_computed n o r r' : Holds (n, o, r') -> HoldsChild (n, o, r) (CComputed r')
| H_tuple n o r r' cr sn so sr : In (sn, so, sr) (set_rows (n, o, r')) -> Holds (sn, so, cr) -> HoldsChild (n, o, r) (CTuple r' cr)
| H_nested g op cs : HoldsOp g op cs -> HoldsChild g (CRewrite op cs).

(* ---- (ii) executable reference ---- *)
(* Inside a union region a goal that is already on the evaluation path contributes false (least fixed point of
   a monotone system = reachability); every operand of '&&' and '!' is the root of a new region.
   None = out of gas (recursion through '&&'/'!' on cyclic data has no finite unfolding) or a schema error. *)
Definition obind {A B} (o : option A) (f : A -> option B) : option B := match o with Some a => f a | None => None end.
Fixpoint any_opt {A} (f : A -> option bool) (l : list A) : option bool :=
  match l with
  | [] => Some false
  | x :: r => match f x with Some true => Some true | Some false => any_opt f r | None => None end
  end.
Fixpoint all_opt {A} (f : A -> option bool) (l : list A) : option bool :=
  match l with
  | [] => Some true
  | x :: r => match f x with Some false => Some false | Some true => all_opt f r | None => None end
  end.

Fixpoint ref (gas : nat) (path : list goal) (g : goal) {struct gas} : option bool :=
  match gas with
  | 0 => None
  | S k =>
    if existsb (goal_eqb g) path then Some false else
    let '(n, o, r) := g in
    match ast_relation_for cfg n r with
    | inr _ => None
    | inl relation =>
      if direct g then Some true else
      let path' := g :: path in
      match any_opt (ref k path') (set_rows g) with
      | Some true => Some true
      | None => None
      | Some false =>
        match match relation with Some x => rel_rewrite x | None => None end with
        | None => Some false
        | Some rw => ref_op k path' g (rw_op rw) (rw_children rw)
        end
      end
    end
  end
with ref_op (gas : nat) (path : list goal) (g : goal) (op : operator) (cs : list child) {struct gas} : option bool :=
  match gas with
  | 0 => None
  | S k =>
    match op with
    | OpOr => any_opt (ref_child k path g) cs
    | OpAnd => match cs with [] => Some false | _ => all_opt (ref_child k [] g) cs end
    end
  end
with ref_child (gas : nat) (path : list goal) (g : goal) (c : child) {struct gas} : option bool :=
  match gas with
  | 0 => None
  | S k =>
    let '(n, o, r) := g in
    match c with
    | CComputed r' => ref k path (n, o, r')
    | CTuple r' cr => any_opt (fun s => let '(sn, so, _) := s in ref k path (sn, so, cr)) (set_rows (n, o, r'))
    | CRewrite op cs => ref_op k path g op cs
    | CInvert c' => option_map negb (ref_child k [] g c')
    end
  end.

End Sem.
