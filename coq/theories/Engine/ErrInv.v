(* For EVERY configuration (with '&&', '!' ...), depth, width and fault plan: a result that carries an error
   never says IsMember (C03: "an answer that carries an error never also says allowed"). *)
From Coq Require Import List Bool Arith NArith ZArith Lia.
From Keto Require Import Base.Bytes Base.ListX Store.Sql Engine.Ast Engine.Engine.
Import ListNotations.

Section ErrInv.
Variable cfg : config.
Variable strict : bool.
Variable nid : N.
Variable d : db.
Variable maxWidth : nat.
Variable F : nat -> bool.
Variable sub : isub.

Definition ErrM (m : Engine.M) : Prop := forall s r s', m s = Some (r, s') -> r_err r = true -> r_m r <> IsMember.

Lemma err_unknown c : ErrM (unknown c). Proof. intros s r s' E. inversion E; subst. cbn. congruence. Qed.
Lemma err_ret r0 : (r_err r0 = true -> r_m r0 <> IsMember) -> ErrM (ret r0). Proof. intros H s r s' E. inversion E; subst. exact H. Qed.
Lemma err_seq_or checks : Forall ErrM checks -> ErrM (seq_or checks).
Proof.
  induction 1 as [|c cs Hc Hcs IH]; intros s r s' E; cbn in E.
  - inversion E; subst. cbn. congruence.
  - destruct (c s) as [[res s1]|] eqn:Ec; [|discriminate].
    destruct (r_err res || match r_m res with IsMember => true | _ => false end); [inversion E; subst; eapply Hc; eauto|eapply IH; eauto].
Qed.
Lemma err_seq_and checks : Forall ErrM checks -> ErrM (seq_and checks).
Proof.
  intros H. unfold seq_and. destruct checks as [|c0 cs0]; [apply err_ret; cbn; congruence|].
  revert H. generalize (c0 :: cs0). induction l as [|c cs IH]; intros H s r s' E; cbn in E.
  - inversion E; subst. cbn. congruence.
  - inversion H; subst. destruct (c s) as [[res s1]|] eqn:Ec; [|discriminate].
    destruct (r_err res || negb match r_m res with IsMember => true | _ => false end).
    + inversion E; subst. cbn. congruence.
    + eapply IH; eauto.
Qed.
Lemma err_expand_loop ca l : forall ic, (forall ic' n o r, ErrM (ca ic' n o r)) -> ErrM (expand_loop ca l ic).
Proof.
  induction l as [|t l IH]; intros ic Hca s r s' E; cbn in E.
  - inversion E; subst. cbn. congruence.
  - destruct (check_and_add ic _ s) as [[ic' seen] s1]. destruct seen; [eapply IH; eauto|].
    destruct (ca ic' (tv_ns t) (tv_obj t) (tv_rel t) s1) as [[res s2]|] eqn:Eca; [|discriminate].
    destruct (r_err res || match r_m res with IsMember => true | _ => false end); [inversion E; subst; eapply Hca; eauto|eapply IH; eauto].
Qed.
Lemma err_ttu_loop ca ps : (forall n o, ErrM (ca n o)) -> ErrM (ttu_loop F ca ps).
Proof.
  induction ps as [|p ps IH]; intros Hca s r s' E; cbn in E.
  - inversion E; subst. cbn. congruence.
  - unfold storage in E. destruct (F (calls s)); [inversion E; subst; cbn; congruence|].
    match type of E with context [seq_or ?cs ?st] => destruct (seq_or cs st) as [[res s2]|] eqn:Es end; [|discriminate].
    assert (Hs : ErrM (seq_or (flat_map (fun x => match r_sub x with ISet n o _ => [ca n o] | ISid _ => [] end) p))).
    { apply err_seq_or. apply Forall_forall. intros m Hm. apply in_flat_map in Hm as [x [_ Hm]].
      destruct (r_sub x); [contradiction|]. destruct Hm as [<-|[]]. apply Hca. }
    destruct (r_err res || match r_m res with IsMember => true | _ => false end); [inversion E; subst; eapply Hs; eauto|eapply IH; eauto].
Qed.

Notation ca := (check_allowed cfg strict nid d maxWidth F sub).
Notation ce := (check_expand cfg strict nid d maxWidth F sub).
Notation cr := (check_rewrite cfg strict nid d maxWidth F sub).
Notation cc := (check_child cfg strict nid d maxWidth F sub).
Notation ci := (check_inverted cfg strict nid d maxWidth F sub).
Notation ct := (check_ttu cfg strict nid d maxWidth F sub).

Definition EA gas := forall c ns obj rel depth skip, ErrM (ca gas c ns obj rel depth skip).
Definition EE gas := forall c ns obj rel depth, ErrM (ce gas c ns obj rel depth).
Definition ER gas := forall c ns obj rel op cs depth, ErrM (cr gas c ns obj rel op cs depth).
Definition EC gas := forall c ns obj rel ch depth, ErrM (cc gas c ns obj rel ch depth).
Definition EI gas := forall c ns obj rel ch depth, ErrM (ci gas c ns obj rel ch depth).
Definition ET gas := forall c ns obj r cr0 depth, ErrM (ct gas c ns obj r cr0 depth).

Lemma err_direct c ns obj rel depth : ErrM (check_direct nid d F sub c ns obj rel depth).
Proof.
  unfold check_direct. destruct (depth <=? 0)%Z; [apply err_unknown|]. intros s r s' E. unfold storage in E.
  destruct (F (calls s)); [inversion E; subst; cbn; congruence|].
  destruct (ExistsRelationTuples nid _ d); inversion E; subst; cbn; congruence.
Qed.

Lemma err_step g : EA g /\ EE g /\ ER g /\ EC g /\ EI g /\ ET g -> EA (S g) /\ EE (S g) /\ ER (S g) /\ EC (S g) /\ EI (S g) /\ ET (S g).
Proof.
  intros (HA & HE & HR & HC & HI & HT). split; [|split; [|split; [|split; [|split]]]].
  - intros c ns obj rel depth skip. cbn [check_allowed]. destruct (depth <=? 0)%Z; [apply err_unknown|].
    destruct (ast_relation_for cfg ns rel) as [relation|]; [|apply err_ret; cbn; congruence].
    apply err_seq_or. apply Forall_app. split; [|apply Forall_app; split].
    + destruct (match relation with Some x => rel_rewrite x | None => None end); repeat constructor. apply HR.
    + destruct (_ && negb skip); repeat constructor. apply err_direct.
    + destruct (negb strict || _); repeat constructor. apply HE.
  - intros c ns obj rel depth. cbn [check_expand]. destruct (depth <=? 0)%Z; [apply err_unknown|].
    intros s r s' E. destruct (init_visited c s) as [ic s1]. unfold storage in E.
    destruct (F (calls s1)); [inversion E; subst; cbn; congruence|].
    destruct (existsb tv_found _); [inversion E; subst; cbn; congruence|].
    match type of E with context [if ?b then _ else _] => destruct b end.
    all: eapply err_expand_loop; [|exact E]; intros; apply HA.
  - intros c ns obj rel op cs depth. cbn [check_rewrite]. destruct (depth <=? 0)%Z; [apply err_unknown|].
    destruct op.
    + apply err_seq_or. apply Forall_app. split.
      * destruct (computed_rels cs) as [|r0 rels0]; [constructor|]. constructor; [|constructor].
        intros s r s' E.
        match type of E with (match ?scrut with _ => _ end) = _ => destruct scrut as [[[]|] s1] end.
        -- inversion E; subst. cbn. congruence.
        -- revert E. apply err_seq_or. apply Forall_forall. intros m Hm. apply in_map_iff in Hm as [r1 [<- _]]. apply HA.
        -- inversion E; subst. cbn. congruence.
      * apply Forall_forall. intros m Hm. apply in_map_iff in Hm as [ch [<- _]]. apply HC.
    + apply err_seq_and. apply Forall_forall. intros m Hm. apply in_map_iff in Hm as [ch [<- _]]. apply HC.
  - intros c ns obj rel ch depth. cbn [check_child]. destruct ch as [r1|r1 cr1|op cs|inner].
    + destruct (depth <? 0)%Z; [apply err_unknown|apply HA].
    + apply HT.
    + apply HR.
    + apply HI.
  - intros c ns obj rel ch depth. cbn [check_inverted]. destruct (depth <? 0)%Z; [apply err_unknown|].
    intros s r s' E.
    match type of E with (match ?m s with _ => _ end) = _ => destruct (m s) as [[res s1]|] eqn:Em end; [|discriminate].
    assert (Hin : r_err res = true -> r_m res <> IsMember).
    { destruct ch as [r1|r1 cr1|op cs|inner].
      - eapply HA; exact Em.
      - eapply HT; eauto.
      - eapply HR; eauto.
      - eapply HI; eauto. }
    destruct (r_err res) eqn:Ee; inversion E; subst; auto. cbn. discriminate.
  - intros c ns obj r1 cr1 depth. cbn [check_ttu]. destruct (depth <? 0)%Z; [apply err_unknown|].
    intros s r s' E. eapply err_ttu_loop; [|exact E]. intros; apply HA.
Qed.

Theorem err_all : forall gas, EA gas /\ EE gas /\ ER gas /\ EC gas /\ EI gas /\ ET gas.
Proof.
  induction gas as [|g IH]; [|apply err_step; exact IH].
  split; [|split; [|split; [|split; [|split]]]]; repeat intro; match goal with H : _ = Some _ |- _ => cbn in H; discriminate H end.
Qed.
End ErrInv.
