(* C09, two more clauses on the expand model:
   (1) every Union node lists, in order, exactly the members of its subject set (all pages, nothing dropped);
   (2) each subject set is expanded (appears as a Union node) at most once in the whole tree - the visited set. *)
From Coq Require Import List Bool Arith NArith ZArith Lia.
From Coq Require Import Strings.Byte.
From Keto Require Import Base.Bytes Base.ListX Store.Sql Engine.Engine Engine.Expand Engine.ExpandProofs.
Import ListNotations.

Section More.
Variable nid : N.
Variable d : db.
Variable global : Z.
Notation build := (build nid d global).
Notation members := (members nid d).

Definition key (s : isub) : vnode := match s with ISet n o r => unique_id n o r | ISid u => unique_id [] u [] end.
Definition inV (v : vnode) (V : list vnode) : Prop := existsb (vnode_eqb v) V = true.

(* all Union nodes of a tree *)
Fixpoint union_nodes (t : tree) : list (isub * list tree) :=
  match t with Leaf _ => [] | Union s cs => (s, cs) :: flat_map union_nodes cs end.

Definition level_ok (u : isub * list tree) : Prop :=
  match fst u with ISet n o r => map root (snd u) = members n o r | ISid _ => False end.

Lemma children_roots b l : forall V cs V',
  (forall V0 m t V1, In m l -> b V0 m = Some (Some t, V1) -> root t = m) ->
  build_children b l V = Some (cs, V') -> map root cs = l.
Proof.
  induction l as [|m l IH]; intros V cs V' Hb E; cbn in E; [inversion E; reflexivity|].
  destruct (b V m) as [[c V1]|] eqn:Eb; [|discriminate].
  destruct (build_children b l V1) as [[cs0 V2]|] eqn:Ec; [|discriminate]. inversion E; subst. cbn.
  rewrite (IH V1 cs0 V' (fun V0 m0 t V3 Hin => Hb V0 m0 t V3 (or_intror Hin)) Ec).
  destruct c as [t|]; [now rewrite (Hb V m t V1 (or_introl eq_refl) Eb)|reflexivity].
Qed.

Lemma build_root gas : forall V s depth t V', build gas V s depth = Some (Some t, V') -> root t = s.
Proof.
  destruct gas as [|g]; intros V s depth t V' E; [discriminate|]. cbn [Expand.build] in E.
  destruct s as [u|n o r]; [inversion E; reflexivity|].
  destruct (existsb _ V); [discriminate|]. destruct (members n o r) as [|m0 ms0]; [discriminate|].
  destruct (_ <=? 1)%Z; [inversion E; reflexivity|].
  destruct (build_children _ _ _) as [[cs V1]|]; [|discriminate]. inversion E; reflexivity.
Qed.

(* (1) every level is complete *)
Theorem levels_complete gas : forall V s depth t V',
  build gas V s depth = Some (Some t, V') -> Forall level_ok (union_nodes t).
Proof.
  induction gas as [|g IH]; intros V s depth t V' E; [discriminate|]. cbn [Expand.build] in E.
  destruct s as [u|n o r]; [inversion E; subst; constructor|].
  destruct (existsb _ V); [discriminate|]. destruct (members n o r) as [|m0 ms0] eqn:Em; [discriminate|].
  destruct (_ <=? 1)%Z; [inversion E; subst; constructor|].
  destruct (build_children _ (m0 :: ms0) _) as [[cs V1]|] eqn:Ec; [|discriminate]. inversion E; subst. cbn [union_nodes].
  constructor.
  - unfold level_ok. cbn [fst snd]. rewrite Em. eapply children_roots; [|exact Ec]. intros V0 m t0 V2 _ Hb. exact (build_root g _ _ _ _ _ Hb).
  - apply Forall_forall. intros u Hu. apply in_flat_map in Hu as [c [Hc Hu]].
    (* every child is either a Leaf (no union nodes) or was built by a recursive call *)
    assert (Hch : forall l V0 cs0 V2, build_children (fun V3 m => build g V3 m (Expand.clamp global depth - 1)) l V0 = Some (cs0, V2) ->
                  forall c0, In c0 cs0 -> Forall level_ok (union_nodes c0)).
    { induction l as [|m l IHl]; intros V0 cs0 V2 E0 c0 Hc0; cbn in E0; [inversion E0; subst; contradiction|].
      destruct (build g V0 m _) as [[c1 V3]|] eqn:Eb; [|discriminate].
      destruct (build_children _ l V3) as [[cs1 V4]|] eqn:Ec1; [|discriminate]. inversion E0; subst.
      destruct Hc0 as [<-|Hin]; [|eapply IHl; eauto].
      destruct c1 as [t1|]; [eapply IH; eauto|constructor]. }
    specialize (Hch _ _ _ _ Ec c Hc). rewrite Forall_forall in Hch. auto.
Qed.

(* (2) expanded once.  Invariant: the visited set only grows; every Union node of the result was NOT visited before
   the call and IS visited after it; and no two Union nodes of the result have the same subject set. *)
Definition fresh_in (V V' : list vnode) (us : list isub) : Prop :=
  forall u, In u us -> ~ inV (key u) V /\ inV (key u) V'.
Lemma inV_cons v w V : inV v (w :: V) <-> vnode_eqb v w = true \/ inV v V.
Proof. unfold inV. cbn. rewrite orb_true_iff. tauto. Qed.

Lemma vnode_eqb_refl v : vnode_eqb v v = true.
Proof. destruct v as [[o n] r]. cbn. now rewrite uid_eqb_refl, !bytes_eqb_refl. Qed.
Lemma vnode_eqb_eq a b : vnode_eqb a b = true -> a = b.
Proof. destruct a as [[o n] r], b as [[o' n'] r']. cbn. rewrite !andb_true_iff. intros [[H1 H2] H3].
  apply uid_eqb_eq in H1. apply bytes_eqb_eq in H2. apply bytes_eqb_eq in H3. congruence. Qed.
Lemma inV_In v V : inV v V <-> In v V.
Proof. unfold inV. rewrite existsb_exists. split.
  - intros [x [Hx He]]. apply vnode_eqb_eq in He. now subst.
  - intros H. exists v. split; [exact H|apply vnode_eqb_refl]. Qed.

Lemma NoDup_app_intro' {A} (l1 l2 : list A) : NoDup l1 -> NoDup l2 -> (forall x, In x l1 -> In x l2 -> False) -> NoDup (l1 ++ l2).
Proof. induction l1 as [|a l1 IH]; cbn; intros H1 H2 H3; [exact H2|]. inversion H1; subst. constructor.
  - intros Hin. apply in_app_or in Hin as [Hin|Hin]; [contradiction|]. eapply H3; [now left|exact Hin].
  - apply IH; auto. intros x Hx1 Hx2. eapply H3; [right; exact Hx1|exact Hx2]. Qed.

Theorem build_once gas : forall V s depth t V',
  build gas V s depth = Some (t, V') ->
  incl V V' /\
  match t with
  | Some tr => fresh_in V V' (unions tr) /\ NoDup (map key (unions tr))
  | None => True
  end.
Proof.
  induction gas as [|g IH]; intros V s depth t V' E; [discriminate|]. cbn [Expand.build] in E.
  destruct s as [u|n o r].
  - inversion E; subst. split; [apply incl_refl|]. cbn. split; [intros u0 []|constructor].
  - destruct (existsb (vnode_eqb (unique_id n o r)) V) eqn:Ev; [inversion E; subst; split; [apply incl_refl|exact I]|].
    destruct (members n o r) as [|m0 ms0] eqn:Em; [inversion E; subst; split; [apply incl_tl, incl_refl|exact I]|].
    destruct (_ <=? 1)%Z.
    + inversion E; subst. split; [apply incl_tl, incl_refl|]. cbn. split; [intros u0 []|constructor].
    + destruct (build_children _ (m0 :: ms0) _) as [[cs V1]|] eqn:Ec; [|discriminate]. inversion E; subst.
      (* the children, left to right *)
      assert (Hch : forall l V0 cs0 V2, build_children (fun V3 m => build g V3 m (Expand.clamp global depth - 1)) l V0 = Some (cs0, V2) ->
                    incl V0 V2 /\ fresh_in V0 V2 (flat_map unions cs0) /\ NoDup (map key (flat_map unions cs0))).
      { induction l as [|m l IHl]; intros V0 cs0 V2 E0; cbn in E0.
        - inversion E0; subst. split; [apply incl_refl|]. split; [intros u0 []|constructor].
        - destruct (build g V0 m _) as [[c1 V3]|] eqn:Eb; [|discriminate].
          destruct (build_children _ l V3) as [[cs1 V4]|] eqn:Ec1; [|discriminate]. inversion E0; subst.
          destruct (IH _ _ _ _ _ Eb) as [I1 H1]. destruct (IHl _ _ _ Ec1) as (I2 & F2 & N2).
          split; [eapply incl_tran; eauto|].
          assert (Hu1 : fresh_in V0 V3 (unions (match c1 with Some t1 => t1 | None => Leaf m end)) /\
                        NoDup (map key (unions (match c1 with Some t1 => t1 | None => Leaf m end)))).
          { destruct c1 as [t1|]; [exact H1|]. cbn. split; [intros u0 []|constructor]. }
          destruct Hu1 as [F1 N1]. cbn [flat_map]. split.
          + intros u0 Hu0. apply in_app_or in Hu0 as [Hu0|Hu0].
            * destruct (F1 u0 Hu0) as [A B]. split; [exact A|]. apply inV_In. apply I2. apply inV_In. exact B.
            * destruct (F2 u0 Hu0) as [A B]. split; [|exact B]. intros Hc. apply A. apply inV_In. apply I1. apply inV_In. exact Hc.
          + rewrite map_app. apply NoDup_app_intro'; [exact N1|exact N2|].
            intros k Hk1 Hk2. apply in_map_iff in Hk1 as [u1 [<- Hu1]]. apply in_map_iff in Hk2 as [u2 [Ek Hu2]].
            destruct (F1 u1 Hu1) as [_ B]. destruct (F2 u2 Hu2) as [A _]. apply A. rewrite Ek. exact B. }
      destruct (Hch _ _ _ _ Ec) as (I1 & F1 & N1).
      split; [intros x Hx; apply I1; now right|]. cbn [unions]. split.
      * intros u0 [<-|Hu0].
        -- cbn [key]. split; [unfold inV; now rewrite Ev|]. apply inV_In. apply I1. now left.
        -- destruct (F1 u0 Hu0) as [A B]. split; [|exact B]. intros Hc. apply A. apply inV_cons. now right.
      * cbn [map]. constructor; [|exact N1]. intros Hin. apply in_map_iff in Hin as [u1 [Ek Hu1]].
        destruct (F1 u1 Hu1) as [A _]. apply A. rewrite Ek. apply inV_cons. left. apply vnode_eqb_refl.
Qed.

Corollary expanded_once gas s depth t : BuildTree nid d global gas s depth = Some (Some t) -> NoDup (map key (unions t)).
Proof. unfold BuildTree. destruct (build gas [] s depth) as [[t0 V']|] eqn:E; [|discriminate]. intros H; inversion H; subst.
  destruct (build_once _ _ _ _ _ _ E) as [_ [_ N]]. exact N. Qed.
End More.
