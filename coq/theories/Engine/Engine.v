(* Model of the check engine: internal/check/engine.go, rewrites.go, binop.go, the result rule of
   checkgroup/concurrent_checkgroup.go and the visited set of internal/x/graph/graph_utils.go.
   Sequential, in program order (a checkgroup runs one sub-check at a time); see DESIGN.md 2.4 for
   what remains concurrent in the implementation. *)
From Coq Require Import List Bool Arith NArith ZArith Lia.
From Keto Require Import Base.Bytes Base.ListX Store.Sql Engine.Ast.
Import ListNotations.

Inductive mem := IsMember | NotMember | Unknown.
(* checkgroup.Result without the proof tree: membership + "Err != nil" *)
Record result := { r_m : mem; r_err : bool }.
Definition R_is := {| r_m := IsMember; r_err := false |}.
Definition R_not := {| r_m := NotMember; r_err := false |}.
Definition R_unknown := {| r_m := Unknown; r_err := false |}.
Definition R_err := {| r_m := Unknown; r_err := true |}.          (* ErrorFunc: Result{Err: err} *)

(* relationtuple.SubjectSet.UniqueID(): after fix D16 uuid.NewV5(object, len(namespace) + "-" + namespace + "-" + relation),
   an injective name of (object, namespace, relation); modelled by the triple itself (UUIDv5 collision freeness assumed).
   Before the fix the name was namespace + "-" + relation, which identified a-b:o#c with a:o#b-c. *)
Definition vnode := (uid * bytes * bytes)%type.
Definition unique_id (n : bytes) (o : uid) (r : bytes) : vnode := (o, n, r).
Definition vnode_eqb (a b : vnode) : bool :=
  let '(o, n, r) := a in let '(o', n', r') := b in uid_eqb o o' && bytes_eqb n n' && bytes_eqb r r'.

(* evaluation state: the visited sets that live in contexts (a heap addressed by handle), counters, flags *)
Record est := {
  heap : list (list vnode);
  calls : nat;             (* storage operations issued so far *)
  cut : bool;              (* some sub-check was cut short by max-depth or max-width *)
  cut_neg : bool;          (* ... while evaluating below a '!' *)
  revisit : bool           (* some subject set was skipped because it was already visited *)
}.
Definition est0 := {| heap := []; calls := 0; cut := false; cut_neg := false; revisit := false |}.

(* the part of context.Context the engine uses: the visited-set handle, and whether we are below a '!' *)
Record ectx := { vh : option nat; neg : bool }.
Definition ctx0 := {| vh := None; neg := false |}.

Definition set_cut (c : ectx) (s : est) : est :=
  {| heap := heap s; calls := calls s; cut := true; cut_neg := cut_neg s || neg c; revisit := revisit s |}.
Definition tick (s : est) : est :=
  {| heap := heap s; calls := S (calls s); cut := cut s; cut_neg := cut_neg s; revisit := revisit s |}.
Definition set_revisit (s : est) : est :=
  {| heap := heap s; calls := calls s; cut := cut s; cut_neg := cut_neg s; revisit := true |}.

(* graph.InitVisited *)
Definition init_visited (c : ectx) (s : est) : ectx * est :=
  match vh c with
  | Some _ => (c, s)
  | None => ({| vh := Some (length (heap s)); neg := neg c |},
             {| heap := heap s ++ [[]]; calls := calls s; cut := cut s; cut_neg := cut_neg s; revisit := revisit s |})
  end.
(* graph.ResetVisited (fix D1) *)
Definition reset_visited (c : ectx) : ectx := {| vh := None; neg := neg c |}.
Definition enter_neg (c : ectx) : ectx := {| vh := None; neg := true |}.

Fixpoint heap_update (h : list (list vnode)) (i : nat) (f : list vnode -> list vnode) : list (list vnode) :=
  match h, i with
  | [], _ => []
  | x :: r, 0 => f x :: r
  | x :: r, S j => x :: heap_update r j f
  end.
(* graph.CheckAndAddVisited: returns (already visited?) *)
Definition check_and_add (c : ectx) (v : vnode) (s : est) : ectx * bool * est :=
  let '(c', s') := init_visited c s in
  match vh c' with
  | None => (c', false, s')     (* unreachable *)
  | Some h =>
    let cur := nth h (heap s') [] in
    if existsb (vnode_eqb v) cur then (c', true, set_revisit s')
    else (c', false, {| heap := heap_update (heap s') h (fun l => v :: l); calls := calls s'; cut := cut s';
                        cut_neg := cut_neg s'; revisit := revisit s' |})
  end.

Section Engine.
Variable cfg : config.
Variable strict : bool.
Variable nid : N.
Variable d : db.
Variable maxWidth : nat.
Variable F : nat -> bool.        (* fault plan: the k-th storage operation fails *)
Variable sub : isub.             (* the requested subject, constant during one check *)

(* one storage operation: counted, possibly failing *)
Definition storage {A} (op : A) (s : est) : option A * est :=
  let s' := tick s in if F (calls s) then (None, s') else (Some op, s').

Definition M := est -> option (result * est).      (* None: out of gas (never for gas >= bound) *)
Definition ret (r : result) : M := fun s => Some (r, s).

(* checkgroup result rule, `or`: first error or IsMember wins, otherwise NotMember (Unknown collapses) *)
Fixpoint seq_or (checks : list M) : M :=
  fun s =>
  match checks with
  | [] => Some (R_not, s)
  | c :: r =>
    match c s with
    | None => None
    | Some (res, s') =>
      if r_err res || match r_m res with IsMember => true | _ => false end then Some (res, s')
      else seq_or r s'
    end
  end.
(* `and`: an error or the first non-member ends it as {NotMember, Err} *)
Fixpoint seq_and_go (checks : list M) : M :=
  fun s =>
  match checks with
  | [] => Some (R_is, s)
  | c :: r =>
    match c s with
    | None => None
    | Some (res, s') =>
      if r_err res || negb (match r_m res with IsMember => true | _ => false end)
      then Some ({| r_m := NotMember; r_err := r_err res |}, s')
      else seq_and_go r s'
    end
  end.
Definition seq_and (checks : list M) : M :=
  match checks with [] => ret R_not | _ => seq_and_go checks end.

Definition unknown (c : ectx) : M := fun s => Some (R_unknown, set_cut c s).

Definition check_direct (c : ectx) (ns : bytes) (obj : uid) (rel : bytes) (depth : Z) : M :=
  if (depth <=? 0)%Z then unknown c else
  fun s =>
  match storage (ExistsRelationTuples nid {| iq_ns := Some ns; iq_obj := Some obj; iq_rel := Some rel; iq_sub := Some sub |} d) s with
  | (None, s') => Some (R_err, s')                      (* after fix D3: the error is reported *)
  | (Some true, s') => Some (R_is, s')
  | (Some false, s') => Some (R_not, s')
  end.

Definition computed_rels (cs : list child) : list bytes :=
  flat_map (fun c => match c with CComputed r => [r] | _ => [] end) cs.
Definition is_computed (c : child) : bool := match c with CComputed _ => true | _ => false end.

(* TraverseSubjectSetRewrite, strict mode: relations that have a rewrite are not queried *)
Definition queried_rels (ns : bytes) (rels : list bytes) : list bytes :=
  filter (fun r => negb (strict && match ast_relation_for cfg ns r with
                                   | inl (Some x) => match rel_rewrite x with Some _ => true | None => false end
                                   | _ => false end)) rels.

(* the claim loop of checkExpandSubject, over the (possibly truncated) traversal results *)
Definition expand_loop (ca : ectx -> bytes -> uid -> bytes -> M) : list trav -> ectx -> M :=
  fix loop (l : list trav) (ic : ectx) : M :=
    fun s =>
    match l with
    | [] => Some (R_not, s)
    | t :: r =>
      let '(ic', seen, s') := check_and_add ic (unique_id (tv_ns t) (tv_obj t) (tv_rel t)) s in
      if seen then loop r ic' s' else
      match ca ic' (tv_ns t) (tv_obj t) (tv_rel t) s' with
      | None => None
      | Some (res, s'') =>
        if r_err res || match r_m res with IsMember => true | _ => false end then Some (res, s'')
        else loop r ic' s''
      end
    end.
(* the page loop of checkTupleToSubjectSet: one storage operation per page, then the subject sets of that page *)
Definition ttu_loop (ca : bytes -> uid -> M) : list (list row) -> M :=
  fix ploop (ps : list (list row)) : M :=
    fun s =>
    match ps with
    | [] => Some (R_not, s)
    | p :: rest =>
      match storage tt s with
      | (None, s') => Some (R_err, s')                   (* fix D5: the error is answered *)
      | (Some _, s') =>
        match seq_or (flat_map (fun x => match r_sub x with
                                         | ISet n o _ => [ca n o]
                                         | ISid _ => [] end) p) s' with
        | None => None
        | Some (res, s'') =>
          if r_err res || match r_m res with IsMember => true | _ => false end then Some (res, s'')
          else ploop rest s''
        end
      end
    end.

Fixpoint check_allowed (gas : nat) (c : ectx) (ns : bytes) (obj : uid) (rel : bytes) (depth : Z) (skip : bool) {struct gas} : M :=
  match gas with
  | 0 => fun _ => None
  | S g =>
    if (depth <=? 0)%Z then unknown c else
    match ast_relation_for cfg ns rel with
    | inr _ => ret R_err                                 (* "relation does not exist" *)
    | inl relation =>
      let rw := match relation with Some x => rel_rewrite x | None => None end in
      let has_rw := match rw with Some _ => true | None => false end in
      let can_sets := negb strict || match relation with None => true | Some x => contains_subject_set_expand x end in
      seq_or (
        (match rw with Some w => [check_rewrite g c ns obj rel (rw_op w) (rw_children w) depth] | None => [] end) ++
        (if (negb strict || negb has_rw) && negb skip then [check_direct c ns obj rel (depth - 1)] else []) ++
        (if can_sets then [check_expand g c ns obj rel (depth - 1)] else []))
    end
  end

with check_expand (gas : nat) (c : ectx) (ns : bytes) (obj : uid) (rel : bytes) (depth : Z) {struct gas} : M :=
  match gas with
  | 0 => fun _ => None
  | S g =>
    if (depth <=? 0)%Z then unknown c else
    fun s =>
    let '(ic, s1) := init_visited c s in
    match storage (TraverseSubjectSetExpansion nid ns obj rel sub d) s1 with
    | (None, s2) => Some (R_err, s2)
    | (Some results, s2) =>
      if existsb tv_found results then Some (R_is, s2) else
      let '(results', s3) :=
        if maxWidth <? length results then (firstn (maxWidth - 1) results, set_cut c s2) else (results, s2) in
      expand_loop (fun ic' n o r => check_allowed g ic' n o r depth true) results' ic s3
    end
  end

with check_rewrite (gas : nat) (c : ectx) (ns : bytes) (obj : uid) (rel : bytes) (op : operator) (cs : list child) (depth : Z) {struct gas} : M :=
  match gas with
  | 0 => fun _ => None
  | S g =>
    if (depth <=? 0)%Z then unknown c else
    match op with
    | OpOr =>
      let rels := computed_rels cs in
      let shortcut : list M :=
        match rels with
        | [] => []
        | _ => [fun s =>
                match (match queried_rels ns rels with
                       | [] => (Some false, s)              (* no relation left to query: no statement is issued *)
                       | q => storage (exists_relation_in nid ns obj sub q d) s end) with
                | (None, s') => Some (R_err, s')
                | (Some true, s') => Some (R_is, s')
                | (Some false, s') =>
                  seq_or (map (fun r => check_allowed g c ns obj r (depth - 1) true) rels) s'
                end]
        end in
      seq_or (shortcut ++ map (fun ch => check_child g c ns obj rel ch depth) (filter (fun ch => negb (is_computed ch)) cs))
    | OpAnd =>
      let c' := reset_visited c in                         (* fix D1 *)
      seq_and (map (fun ch => check_child g c' ns obj rel ch depth) cs)
    end
  end

(* one child of a rewrite that is not handled by the union shortcut *)
with check_child (gas : nat) (c : ectx) (ns : bytes) (obj : uid) (rel : bytes) (ch : child) (depth : Z) {struct gas} : M :=
  match gas with
  | 0 => fun _ => None
  | S g =>
    match ch with
    | CTuple r cr => check_ttu g c ns obj r cr depth
    | CComputed r =>
      if (depth <? 0)%Z then unknown c else check_allowed g c ns obj r (depth - 1) false     (* fix D6: depth - 1 *)
    | CRewrite op cs => check_rewrite g c ns obj rel op cs (depth - 1)
    | CInvert inner => check_inverted g c ns obj rel inner depth
    end
  end

with check_inverted (gas : nat) (c : ectx) (ns : bytes) (obj : uid) (rel : bytes) (inner : child) (depth : Z) {struct gas} : M :=
  match gas with
  | 0 => fun _ => None
  | S g =>
    if (depth <? 0)%Z then unknown c else
    let c' := enter_neg c in                               (* fix D1: own visited set *)
    let inner_check : M :=
      match inner with
      | CTuple r cr => check_ttu g c' ns obj r cr depth
      | CComputed r => if (depth <? 0)%Z then unknown c' else check_allowed g c' ns obj r (depth - 1) false
      | CRewrite op cs => check_rewrite g c' ns obj rel op cs depth
      | CInvert i2 => check_inverted g c' ns obj rel i2 depth
      end in
    fun s =>
    match inner_check s with
    | None => None
    | Some (res, s') =>
      if r_err res then Some (res, s')                     (* fix D4: a failed check is not inverted *)
      else Some ({| r_m := match r_m res with IsMember => NotMember | NotMember => IsMember | Unknown => Unknown end;
                    r_err := false |}, s')
    end
  end

with check_ttu (gas : nat) (c : ectx) (ns : bytes) (obj : uid) (r cr : bytes) (depth : Z) {struct gas} : M :=
  match gas with
  | 0 => fun _ => None
  | S g =>
    if (depth <? 0)%Z then unknown c else
    fun s =>
    (* all pages of GetRelationTuples(ns, obj, r): rows in shard order (C07); one storage operation per page *)
    let rows := matching nid {| iq_ns := Some ns; iq_obj := Some obj; iq_rel := Some r; iq_sub := None |} d in
    let pages := match rows with [] => [[]] | _ => chunk defaultPageSize rows end in
    ttu_loop (fun n o => check_allowed g c n o cr (depth - 1) false) pages s
  end.

End Engine.

(* Engine.CheckRelationTuple: the effective depth, then checkIsAllowed *)
Definition eff_depth (request global : Z) : Z :=
  if (request <=? 0)%Z || (global <? request)%Z then global else request.

Record outcome := { o_res : result; o_cut : bool; o_cut_neg : bool; o_revisit : bool; o_calls : nat }.

Definition CheckRelationTuple (gas : nat) (cfg : config) (strict : bool) (nid : N) (d : db) (maxWidth : nat) (F : nat -> bool)
           (ns : bytes) (obj : uid) (rel : bytes) (sub : isub) (request global : Z) : option outcome :=
  match check_allowed cfg strict nid d maxWidth F sub gas ctx0 ns obj rel (eff_depth request global) false est0 with
  | None => None
  | Some (r, s) => Some {| o_res := r; o_cut := cut s; o_cut_neg := cut_neg s; o_revisit := revisit s; o_calls := calls s |}
  end.
(* CheckIsMember / the handlers: allowed iff no error and IsMember *)
Definition allowed_of (r : result) : bool := negb (r_err r) && match r_m r with IsMember => true | _ => false end.
