(* Top-level corollaries about Engine.CheckRelationTuple. *)
From Coq Require Import List Bool Arith NArith ZArith Lia Permutation.
From Coq Require Import Strings.Byte.
From Keto Require Import Base.Bytes Base.ListX Store.Sql Engine.Ast Engine.Engine Engine.RefSem Engine.Soundness Engine.Complete Engine.CompleteClean Engine.ErrInv.
Import ListNotations.

Lemma find_ns_in c n x : find_ns c n = Some x -> In x c.
Proof. induction c as [|y c IH]; cbn; [discriminate|]. destruct (bytes_eqb (ns_name y) n); [intros H; inversion H; now left|auto]. Qed.
Lemma find_rel_in rs r x : find_rel rs r = Some x -> In x rs.
Proof. induction rs as [|y rs IH]; cbn; [discriminate|]. destruct (bytes_eqb (rel_name y) r); [intros H; inversion H; now left|auto]. Qed.
Lemma ast_relation_in cfg n r x : ast_relation_for cfg n r = inl (Some x) -> exists ns, In ns cfg /\ In x (ns_rels ns).
Proof.
  unfold ast_relation_for. destruct r; [discriminate|]. destruct (find_ns cfg n) as [ns|] eqn:En; [|discriminate].
  destruct (ns_rels ns) as [|r0 rs] eqn:Er; [discriminate|]. destruct (find_rel (r0 :: rs) (b :: r)) as [y|] eqn:Ef; [|discriminate].
  intros H; inversion H; subst. exists ns. split; [eapply find_ns_in; eauto|]. rewrite Er. eapply find_rel_in; eauto.
Qed.

(* boolean, checkable forms of the two hypotheses *)
Definition config_nf (cfg : config) : bool :=
  forallb (fun n => forallb (fun r => match rel_rewrite r with Some rw => children_nf (rw_children rw) | None => true end) (ns_rels n)) cfg.
Lemma config_nf_spec cfg : config_nf cfg = true ->
  forall n r x rw, ast_relation_for cfg n r = inl (Some x) -> rel_rewrite x = Some rw -> children_nf (rw_children rw) = true.
Proof.
  intros H n r x rw Ha Hr. apply ast_relation_in in Ha as [ns [Hns Hx]]. unfold config_nf in H.
  rewrite forallb_forall in H. specialize (H ns Hns). rewrite forallb_forall in H. specialize (H x Hx). now rewrite Hr in H.
Qed.
Lemma no_rewrites_spec cfg : config_has_rewrites cfg = false ->
  forall n r x, ast_relation_for cfg n r = inl (Some x) -> rel_rewrite x = None.
Proof.
  intros H n r x Ha. apply ast_relation_in in Ha as [ns [Hns Hx]]. unfold config_has_rewrites in H.
  destruct (rel_rewrite x) eqn:E; auto. exfalso.
  assert (existsb (fun n0 => existsb (fun r0 => match rel_rewrite r0 with Some _ => true | None => false end) (ns_rels n0)) cfg = true); [|congruence].
  apply existsb_exists. exists ns. split; auto. apply existsb_exists. exists x. split; auto. now rewrite E.
Qed.
Lemma no_rewrites_nf cfg : config_has_rewrites cfg = false -> config_nf cfg = true.
Proof.
  intros H. unfold config_nf. apply forallb_forall. intros ns Hns. apply forallb_forall. intros x Hx.
  destruct (rel_rewrite x) eqn:E; auto. exfalso. unfold config_has_rewrites in H.
  assert (existsb (fun n0 => existsb (fun r0 => match rel_rewrite r0 with Some _ => true | None => false end) (ns_rels n0)) cfg = true); [|congruence].
  apply existsb_exists. exists ns. split; auto. apply existsb_exists. exists x. split; auto. now rewrite E.
Qed.

(* ---- soundness at the top: any mode, depth, width, fault plan ---- *)
Theorem check_sound gas cfg strict nid d maxWidth F ns obj rel sub request global o :
  config_nf cfg = true ->
  CheckRelationTuple gas cfg strict nid d maxWidth F ns obj rel sub request global = Some o ->
  allowed_of (o_res o) = true -> Holds cfg nid d sub (ns, obj, rel).
Proof.
  intros Hnf H Ha. unfold CheckRelationTuple in H.
  destruct (check_allowed _ _ _ _ _ _ _ gas ctx0 ns obj rel _ false est0) as [[r s]|] eqn:E; [|discriminate].
  inversion H; subst o; clear H. cbn in Ha. apply andb_true_iff in Ha as [_ Hm].
  destruct (sound_all cfg strict nid d maxWidth F sub (config_nf_spec cfg Hnf) gas) as (HA & _).
  destruct (HA ctx0 ns obj rel _ false est0 r s E) as [H1 _]. apply H1. destruct (r_m r); try discriminate; reflexivity.
Qed.

(* ---- exactness with rewrites: a clean run (nothing cut by a limit, nothing skipped as visited) of a '!'-free
        configuration with unions, intersections and traversals answers exactly the semantics ---- *)
Theorem check_exact_clean gas cfg nid d maxWidth ns obj rel sub request global o :
  config_nf cfg = true ->
  CheckRelationTuple gas cfg false nid d maxWidth (fun _ => false) ns obj rel sub request global = Some o ->
  o_cut o = false -> o_revisit o = false -> r_err (o_res o) = false ->
  (r_m (o_res o) = IsMember <-> Holds cfg nid d sub (ns, obj, rel)).
Proof.
  intros Hnf H Hc Hr He. pose proof H as H0. unfold CheckRelationTuple in H.
  destruct (check_allowed _ _ _ _ _ _ _ gas ctx0 ns obj rel _ false est0) as [[r s]|] eqn:E; [|discriminate].
  inversion H; subst o; clear H. cbn in *. split.
  - intros Hm. eapply check_sound; [exact Hnf|exact H0|]. cbn. unfold allowed_of. rewrite He, Hm. reflexivity.
  - intros Hh. destruct (comp_all cfg nid d maxWidth sub (config_nf_spec cfg Hnf) gas) as (HA & _).
    assert (Hskip : false = true -> direct nid d sub (ns, obj, rel) = false) by discriminate.
    destruct (HA ctx0 ns obj rel _ false Hskip est0 r s E (conj Hc Hr) He) as [_ Hg]. exact (Hg Hh).
Qed.

(* ---- an error never comes with IsMember: every configuration ---- *)
Theorem check_err_not_member gas cfg strict nid d maxWidth F ns obj rel sub request global o :
  CheckRelationTuple gas cfg strict nid d maxWidth F ns obj rel sub request global = Some o ->
  r_err (o_res o) = true -> r_m (o_res o) <> IsMember.
Proof.
  intros H. unfold CheckRelationTuple in H.
  destruct (check_allowed _ _ _ _ _ _ _ gas ctx0 ns obj rel _ false est0) as [[r s]|] eqn:E; [|discriminate].
  inversion H; subst o; clear H. cbn.
  destruct (err_all cfg strict nid d maxWidth F sub gas) as (HA & _). eapply HA; eauto.
Qed.

(* ---- completeness at the top: configurations without rewrites, default mode, no faults ---- *)
Definition no_faults : nat -> bool := fun _ => false.
Theorem check_complete_plain gas cfg nid d maxWidth ns obj rel sub request global o :
  config_has_rewrites cfg = false ->
  CheckRelationTuple gas cfg false nid d maxWidth no_faults ns obj rel sub request global = Some o ->
  o_cut o = false -> r_err (o_res o) = false -> r_m (o_res o) = NotMember -> ~ Holds cfg nid d sub (ns, obj, rel).
Proof.
  intros Hnr H Hc He Hm. unfold CheckRelationTuple in H.
  destruct (check_allowed _ _ _ _ _ _ _ gas ctx0 ns obj rel _ false est0) as [[r s]|] eqn:E; [|discriminate].
  inversion H; subst o; clear H. cbn in *.
  eapply (complete_no_rewrites cfg nid d maxWidth sub (no_rewrites_spec cfg Hnr)); eauto.
Qed.

(* without a cut and without an error the answer is definite *)
Lemma seq_or_result ms : forall s r s', seq_or ms s = Some (r, s') -> stops r = true \/ r = R_not.
Proof.
  induction ms as [|m ms IH]; intros s r s' E; cbn in E; [inversion E; auto|].
  destruct (m s) as [[res s1]|]; [|discriminate]. fold (stops res) in E. destruct (stops res) eqn:Es; [inversion E; subst; auto|eauto].
Qed.
Theorem check_definite gas cfg strict nid d maxWidth F ns obj rel sub request global o :
  CheckRelationTuple gas cfg strict nid d maxWidth F ns obj rel sub request global = Some o ->
  o_cut o = false -> r_err (o_res o) = false -> r_m (o_res o) <> Unknown.
Proof.
  intros H Hc He. unfold CheckRelationTuple in H.
  destruct (check_allowed _ _ _ _ _ _ _ gas ctx0 ns obj rel _ false est0) as [[r s]|] eqn:E; [|discriminate].
  inversion H; subst o; clear H. cbn in *.
  destruct gas as [|g]; [cbn in E; discriminate|]. cbn [check_allowed] in E.
  destruct (eff_depth request global <=? 0)%Z. { inversion E; subst. discriminate. }
  destruct (ast_relation_for cfg ns rel). 2:{ inversion E; subst. discriminate. }
  apply seq_or_result in E as [Hs| ->]; [|cbn; discriminate].
  unfold stops in Hs. rewrite He in Hs. cbn in Hs. destruct (r_m r); try discriminate.
Qed.

(* C01 for plain-relation configurations: allowed exactly when the subject is in the subject set *)
Theorem check_correct_plain gas cfg nid d maxWidth ns obj rel sub request global o :
  config_has_rewrites cfg = false ->
  CheckRelationTuple gas cfg false nid d maxWidth no_faults ns obj rel sub request global = Some o ->
  o_cut o = false -> r_err (o_res o) = false ->
  (allowed_of (o_res o) = true <-> Holds cfg nid d sub (ns, obj, rel)).
Proof.
  intros Hnr H Hc He. split.
  - eapply check_sound; eauto. now apply no_rewrites_nf.
  - intros Hh. unfold allowed_of. rewrite He. cbn.
    pose proof (check_definite _ _ _ _ _ _ _ _ _ _ _ _ _ _ H Hc He) as Hd.
    destruct (r_m (o_res o)) eqn:Em; auto; try congruence.
    exfalso. eapply check_complete_plain; eauto.
Qed.

(* the semantics, and hence the answer, does not depend on storage order *)
Lemma holds_perm cfg nid d d' sub : config_has_rewrites cfg = false -> Permutation (rows d) (rows d') ->
  forall g, Holds cfg nid d sub g -> Holds cfg nid d' sub g.
Proof.
  intros Hnr Hp g H. induction H as [g Hd|g s0 Hin Hs IH|g rw Hrw Hop].
  - apply H_direct. unfold RefSem.direct in *. destruct g as [[n o] r].
    apply existsb_exists in Hd as [x [Hx Hpx]]. apply existsb_exists. exists x. split; auto. eapply Permutation_in; eauto.
  - eapply H_set; [|exact IH]. unfold RefSem.set_rows in *. destruct g as [[n o] r].
    apply in_flat_map in Hin as [x [Hx Hc]]. apply in_flat_map. exists x. split; auto. eapply Permutation_in; eauto.
  - destruct g as [[n o] r]. unfold rewrite_of in Hrw. destruct (ast_relation_for cfg n r) as [[x|]|] eqn:E; try discriminate.
    rewrite (no_rewrites_spec cfg Hnr n r x E) in Hrw. discriminate.
Qed.
Theorem check_order_independent gas gas' cfg nid d d' maxWidth ns obj rel sub request global o o' :
  config_has_rewrites cfg = false -> Permutation (rows d) (rows d') ->
  CheckRelationTuple gas cfg false nid d maxWidth no_faults ns obj rel sub request global = Some o ->
  CheckRelationTuple gas' cfg false nid d' maxWidth no_faults ns obj rel sub request global = Some o' ->
  o_cut o = false -> o_cut o' = false -> r_err (o_res o) = false -> r_err (o_res o') = false ->
  allowed_of (o_res o) = allowed_of (o_res o').
Proof.
  intros Hnr Hp H H' Hc Hc' He He'.
  pose proof (check_correct_plain _ _ _ _ _ _ _ _ _ _ _ _ Hnr H Hc He) as A.
  pose proof (check_correct_plain _ _ _ _ _ _ _ _ _ _ _ _ Hnr H' Hc' He') as B.
  destruct (allowed_of (o_res o)) eqn:E1, (allowed_of (o_res o')) eqn:E2; auto.
  - assert (Holds cfg nid d' sub (ns, obj, rel)) by (eapply holds_perm; eauto; apply A; auto). apply B in H0. congruence.
  - assert (Holds cfg nid d sub (ns, obj, rel)) by (eapply holds_perm; [eauto|symmetry; eauto|apply B; auto]). apply A in H0. congruence.
Qed.

(* C02: a request depth only selects the effective depth *)
Theorem eff_depth_idem r g : eff_depth 0 (eff_depth r g) = eff_depth r g.
Proof. unfold eff_depth at 1. cbn. reflexivity. Qed.
Theorem check_eff_depth gas cfg strict nid d maxWidth F ns obj rel sub request global :
  CheckRelationTuple gas cfg strict nid d maxWidth F ns obj rel sub request global =
  CheckRelationTuple gas cfg strict nid d maxWidth F ns obj rel sub 0 (eff_depth request global).
Proof. unfold CheckRelationTuple. now rewrite eff_depth_idem. Qed.
Theorem eff_depth_spec r g : (1 <= g)%Z ->
  (eff_depth r g = if (r <=? 0)%Z || (g <? r)%Z then g else r) /\ (1 <= eff_depth r g <= g)%Z.
Proof. intros Hg. unfold eff_depth. split; [reflexivity|]. destruct (Z.leb_spec r 0); cbn; [lia|]. destruct (Z.ltb_spec g r); lia. Qed.

(* ---- witnesses ---- *)
Definition b (s : list Byte.byte) := s.
Definition wU : bytes := [x55]. Definition wDoc : bytes := [x44]. Definition wa : bytes := [x61]. Definition wnota : bytes := [x6e].
Definition wz : uid := (1%N, [x7a]). Definition wbob : isub := ISid (1%N, [x62]).
(* D2 (known finding): nota = !a, stored z#a@bob *)
Definition d2_cfg : config :=
  [ {| ns_name := wU; ns_rels := [] |};
    {| ns_name := wDoc; ns_rels := [ {| rel_name := wa; rel_types := []; rel_rewrite := None |};
                                     {| rel_name := wnota; rel_types := []; rel_rewrite := Some {| rw_op := OpOr; rw_children := [CInvert (CComputed wa)] |} |} ] |} ].
Definition d2_db : db := {| rows := [ {| r_shard := 2; r_nid := 1; r_ns := wDoc; r_obj := wz; r_rel := wa; r_sub := wbob |} ]; maps := []; next := 1 |}.
(* fail-closed is false under '!' at a binding depth: allowed at depth 2, denied by the unbounded check and by the reference *)
Lemma fail_closed_refuted :
  exists depth o o',
    CheckRelationTuple 100 d2_cfg false 1%N d2_db 100 no_faults wDoc wz wnota wbob depth 50 = Some o /\ allowed_of (o_res o) = true /\ o_cut_neg o = true /\
    CheckRelationTuple 100 d2_cfg false 1%N d2_db 100 no_faults wDoc wz wnota wbob 0 50 = Some o' /\ allowed_of (o_res o') = false /\ o_cut o' = false /\
    ref d2_cfg 1%N d2_db wbob 100 [] (wDoc, wz, wnota) = Some false.
Proof. exists 2%Z. eexists. eexists. repeat split; vm_compute; reflexivity. Qed.

(* non-vacuity of the plain theorem: a two-hop membership with a cycle is found, and absence is reported *)
Definition wG : bytes := [x47]. Definition wm : bytes := [x6d].
Definition wg1 : uid := (1%N, [x31]). Definition wg2 : uid := (1%N, [x32]).
Definition plain_cfg : config := [ {| ns_name := wG; ns_rels := [ {| rel_name := wm; rel_types := []; rel_rewrite := None |} ] |} ].
Definition plain_db : db := {| rows := [
   {| r_shard := 2; r_nid := 1; r_ns := wG; r_obj := wg1; r_rel := wm; r_sub := ISet wG wg2 wm |};
   {| r_shard := 4; r_nid := 1; r_ns := wG; r_obj := wg2; r_rel := wm; r_sub := ISet wG wg1 wm |};
   {| r_shard := 6; r_nid := 1; r_ns := wG; r_obj := wg2; r_rel := wm; r_sub := wbob |} ]; maps := []; next := 1 |}.
Example plain_example :
  config_has_rewrites plain_cfg = false /\
  (exists o, CheckRelationTuple 100 plain_cfg false 1%N plain_db 100 no_faults wG wg1 wm wbob 0 5 = Some o /\ o_cut o = false /\ allowed_of (o_res o) = true) /\
  (exists o, CheckRelationTuple 100 plain_cfg false 1%N plain_db 100 no_faults wG wg1 wm (ISid (1%N, [x63])) 0 5 = Some o /\ o_cut o = false /\ r_err (o_res o) = false /\ allowed_of (o_res o) = false).
Proof. split; [reflexivity|]. split; eexists; repeat split; vm_compute; reflexivity. Qed.
