(* C09: properties of the expand tree. *)
From Coq Require Import List Bool Arith NArith ZArith Lia.
From Coq Require Import Strings.Byte.
From Keto Require Import Base.Bytes Base.ListX Store.Sql Engine.Engine Engine.Expand Engine.Complete.
Import ListNotations.

Section Proofs.
Variable nid : N.
Variable d : db.
Variable global : Z.
Hypothesis global_pos : (1 <= global)%Z.

Notation build := (build nid d global).
Notation members := (members nid d).
Notation clamp := (clamp global).

Lemma clamp_range depth : (1 <= clamp depth <= global)%Z.
Proof. unfold Expand.clamp. destruct (Z.leb_spec depth 0); cbn; [lia|]. destruct (Z.ltb_spec global depth); lia. Qed.
Lemma clamp_idem depth : clamp (clamp depth) = clamp depth.
Proof. pose proof (clamp_range depth). unfold Expand.clamp at 1. destruct (Z.leb_spec (clamp depth) 0); [lia|]. destruct (Z.ltb_spec global (clamp depth)); [lia|reflexivity]. Qed.

(* an edge of the tree is a stored relationship of the parent subject set *)
Definition edge_ok (e : isub * isub) : Prop := exists n o r, fst e = ISet n o r /\ In (snd e) (members n o r).

Lemma children_spec (P : tree -> Prop) b l : forall V cs V',
  (forall V0 m t V1, In m l -> b V0 m = Some (Some t, V1) -> P t /\ root t = m) ->
  (forall m, P (Leaf m)) ->
  build_children b l V = Some (cs, V') -> Forall P cs /\ map root cs = l.
Proof.
  induction l as [|m l IH]; intros V cs V' Hb Hl E; cbn in E.
  - inversion E; subst. split; constructor.
  - destruct (b V m) as [[c V1]|] eqn:Eb; [|discriminate].
    destruct (build_children b l V1) as [[cs0 V2]|] eqn:Ec; [|discriminate]. inversion E; subst.
    destruct (IH V1 cs0 V' (fun V0 m0 t V3 Hin => Hb V0 m0 t V3 (or_intror Hin)) Hl Ec) as [H1 H2].
    destruct c as [t|].
    + destruct (Hb V m t V1 (or_introl eq_refl) Eb) as [Pt Rt]. split; [constructor; auto|cbn; now rewrite Rt, H2].
    + split; [constructor; auto|cbn; now rewrite H2].
Qed.

Lemma clamp_pred depth : (1 < clamp depth)%Z -> clamp (clamp depth - 1) = (clamp depth - 1)%Z.
Proof. intros H. pose proof (clamp_range depth). unfold Expand.clamp at 1.
  destruct (Z.leb_spec (clamp depth - 1) 0); [lia|]. destruct (Z.ltb_spec global (clamp depth - 1)); [lia|reflexivity]. Qed.

Lemma max_height_le cs k : Forall (fun c => height c <= k) cs -> fold_right (fun c m => Nat.max (height c) m) 0 cs <= k.
Proof. induction 1; cbn; lia. Qed.

Theorem build_sound gas : forall V s depth t V',
  build gas V s depth = Some (Some t, V') ->
  root t = s /\ Forall edge_ok (edges t) /\ (Z.of_nat (height t) <= clamp depth)%Z.
Proof.
  induction gas as [|g IH]; intros V s depth t V' E; [discriminate|]. cbn [Expand.build] in E.
  pose proof (clamp_range depth) as Hr.
  destruct s as [u|n o r].
  - inversion E; subst. cbn. split; [reflexivity|]. split; [constructor|lia].
  - destruct (existsb _ V); [discriminate|].
    destruct (members n o r) as [|m0 ms0] eqn:Em; [discriminate|].
    destruct (clamp depth <=? 1)%Z eqn:Ed.
    + inversion E; subst. cbn. split; [reflexivity|]. split; [constructor|lia].
    + apply Z.leb_gt in Ed.
      destruct (build_children _ (m0 :: ms0) _) as [[cs V1]|] eqn:Ec; [|discriminate]. inversion E; subst.
      set (P := fun t0 : tree => Forall edge_ok (edges t0) /\ height t0 <= Z.to_nat (clamp depth - 1)).
      assert (HPl : forall m, P (Leaf m)) by (intros m; split; [constructor|cbn; lia]).
      assert (HPb : forall V0 m t0 V2, In m (m0 :: ms0) -> build g V0 m (clamp depth - 1)%Z = Some (Some t0, V2) -> P t0 /\ root t0 = m).
      { intros V0 m t0 V2 _ Hb. destruct (IH _ _ _ _ _ Hb) as (R & A & B). rewrite clamp_pred in B by lia. split; [split; [exact A|lia]|exact R]. }
      destruct (children_spec P _ _ _ _ _ HPb HPl Ec) as [HP Hroots].
      split; [reflexivity|]. split.
      * cbn [edges]. apply Forall_app. split.
        -- apply Forall_forall. intros e He. apply in_map_iff in He as [c [<- Hc]]. exists n, o, r. cbn. split; [reflexivity|].
           rewrite Em, <- Hroots. now apply in_map.
        -- apply Forall_forall. intros e He. apply in_flat_map in He as [c [Hc He]]. rewrite Forall_forall in HP.
           destruct (HP c Hc) as [Hedges _]. rewrite Forall_forall in Hedges. auto.
      * cbn [height].
        assert (Hm : fold_right (fun c m => Nat.max (height c) m) 0 cs <= Z.to_nat (clamp depth - 1)).
        { apply max_height_le. eapply Forall_impl; [|exact HP]. cbn. intros c [_ Hh]. exact Hh. }
        lia.
Qed.

(* expand terminates on every store (cycles included): the depth strictly decreases, so gas = max depth + 1 is enough *)
Lemma children_total b l : (forall V0 m, In m l -> b V0 m <> None) -> forall V, build_children b l V <> None.
Proof.
  induction l as [|m l IH]; intros Hb V; cbn; [discriminate|].
  destruct (b V m) as [[c V1]|] eqn:Eb; [|exfalso; eapply Hb; eauto; now left].
  specialize (IH (fun V0 m0 Hin => Hb V0 m0 (or_intror Hin)) V1).
  destruct (build_children b l V1) as [[cs V2]|]; [discriminate|contradiction].
Qed.
Theorem build_total gas : forall V s depth, Z.to_nat (clamp depth) <= gas -> 1 <= gas -> build gas V s depth <> None.
Proof.
  induction gas as [|g IH]; intros V s depth Hg H1; [lia|]. cbn [Expand.build].
  pose proof (clamp_range depth) as Hr.
  destruct s as [u|n o r]; [discriminate|].
  destruct (existsb _ V); [discriminate|].
  destruct (members n o r) as [|m0 ms0]; [discriminate|].
  destruct (clamp depth <=? 1)%Z eqn:Ed; [discriminate|]. apply Z.leb_gt in Ed.
  match goal with |- context [build_children ?b ?l ?V0] => pose proof (children_total b l) as Ht end.
  match type of Ht with ?A -> _ => assert (HA : A) end.
  { intros V0 m _. apply IH; [rewrite clamp_pred by lia; lia|lia]. }
  specialize (Ht HA (unique_id n o r :: V)).
  match goal with |- context [build_children ?b ?l ?V0] => destruct (build_children b l V0) as [[cs V1]|] end; [discriminate|contradiction].
Qed.
Corollary BuildTree_total s depth : BuildTree nid d global (S (Z.to_nat global)) s depth <> None.
Proof.
  unfold BuildTree. pose proof (clamp_range depth).
  destruct (Expand.build nid d global (S (Z.to_nat global)) [] s depth) as [[t V]|] eqn:E; [discriminate|].
  exfalso. eapply build_total; [| |exact E]; lia.
Qed.
End Proofs.

(* ---- D7 (known finding): a subject within the depth can be missing, depending on storage order ---- *)
Definition e_ns : bytes := [x47].
Definition e_m : bytes := [x6d].
Definition e_o (c : Byte.byte) : uid := (1%N, [c]).
Definition e_set (c : Byte.byte) : isub := ISet e_ns (e_o c) e_m.
Definition e_row (sh : N) (c : Byte.byte) (s : isub) : row := {| r_shard := sh; r_nid := 1; r_ns := e_ns; r_obj := e_o c; r_rel := e_m; r_sub := s |}.
(* r#m@(a#m), r#m@(s#m), a#m@(s#m), s#m@u1 ; storage order lists a before s *)
Definition d7_db : db := {| rows := [e_row 2 x72 (e_set x61); e_row 4 x72 (e_set x73); e_row 6 x61 (e_set x73); e_row 8 x73 (ISid (1%N, [x75]))]; maps := []; next := 1 |}.
Lemma expand_complete_within_depth_refuted :
  exists t, BuildTree 1%N d7_db 3 10 (e_set x72) 0 = Some (Some t) /\
            In (ISid (1%N, [x75])) (reach_within 1%N d7_db 2 (e_set x72)) /\
            ~ In (ISid (1%N, [x75])) (subjects t).
Proof.
  eexists. split; [vm_compute; reflexivity|]. split; [vm_compute; auto 10|].
  vm_compute. intros H. repeat (destruct H as [H|H]; [discriminate|]). exact H.
Qed.
