(* C15, logical core: the check engine model never runs out of gas when the gas is at least
   1 + depth * (2 * H + 3), H the height of the deepest rewrite of the configuration - for EVERY configuration
   (recursive permissions, '&&', '!', traversals), store (cycles included), width, fault plan and request.
   The measure: every re-entry of checkIsAllowed has consumed one unit of depth (fix D6 made that true for computed
   subject sets), and between two re-entries the engine only descends the finite syntax tree of one rewrite. *)
From Coq Require Import List Bool Arith NArith ZArith Lia.
From Keto Require Import Base.Bytes Base.ListX Store.Sql Engine.Ast Engine.Engine.
Import ListNotations.

Fixpoint ch_height (c : child) : nat :=
  match c with
  | CComputed _ | CTuple _ _ => 1
  | CRewrite _ cs => S ((fix mx (l : list child) := match l with [] => 0 | x :: r => Nat.max (ch_height x) (mx r) end) cs)
  | CInvert c => S (ch_height c)
  end.
Definition max_height (cs : list child) : nat := fold_right (fun c n => Nat.max (ch_height c) n) 0 cs.
Lemma ch_height_rewrite op cs : ch_height (CRewrite op cs) = S (max_height cs).
Proof. reflexivity. Qed.
Lemma max_height_in cs ch : In ch cs -> ch_height ch <= max_height cs.
Proof. unfold max_height. induction cs as [|x r IH]; cbn [fold_right In]; [tauto|]. intros [->|H]; [lia|]. specialize (IH H). lia. Qed.

Definition rel_height (r : relation) : nat := match rel_rewrite r with Some w => max_height (rw_children w) | None => 0 end.
Definition ns_height (n : namespace) : nat := fold_right (fun r m => Nat.max (rel_height r) m) 0 (ns_rels n).
Definition cfg_height (c : config) : nat := fold_right (fun n m => Nat.max (ns_height n) m) 0 c.

Lemma find_ns_in c n x : find_ns c n = Some x -> In x c.
Proof. induction c as [|y c IH]; cbn; [discriminate|]. destruct (bytes_eqb (ns_name y) n); [intros H; inversion H; auto|auto]. Qed.
Lemma find_rel_in rs r x : find_rel rs r = Some x -> In x rs.
Proof. induction rs as [|y rs IH]; cbn; [discriminate|]. destruct (bytes_eqb (rel_name y) r); [intros H; inversion H; auto|auto]. Qed.
Lemma ast_relation_height c n r x : ast_relation_for c n r = inl (Some x) -> rel_height x <= cfg_height c.
Proof.
  unfold ast_relation_for. destruct r; [discriminate|]. destruct (find_ns c n) as [ns|] eqn:En; [|discriminate].
  destruct (ns_rels ns) as [|r0 rs] eqn:Er; [discriminate|]. destruct (find_rel (r0 :: rs) (b :: r)) as [y|] eqn:Ef; [|discriminate].
  intros H; inversion H; subst y. apply find_ns_in in En. apply find_rel_in in Ef. rewrite <- Er in Ef.
  assert (H1 : rel_height x <= ns_height ns).
  { unfold ns_height. clear - Ef. induction (ns_rels ns) as [|y l IH]; cbn; [contradiction|]. destruct Ef as [->|Hin]; [lia|]. specialize (IH Hin). lia. }
  assert (H2 : ns_height ns <= cfg_height c).
  { unfold cfg_height. clear - En. induction c as [|y l IH]; cbn; [contradiction|]. destruct En as [->|Hin]; [lia|]. specialize (IH Hin). lia. }
  lia.
Qed.

Section Termination.
Variable cfg : config.
Variable strict : bool.
Variable nid : N.
Variable d : db.
Variable maxWidth : nat.
Variable F : nat -> bool.
Variable sub : isub.

Definition TotM (m : Engine.M) : Prop := forall s, m s <> None.

Lemma tot_unknown c : TotM (unknown c). Proof. intros s; discriminate. Qed.
Lemma tot_ret r : TotM (ret r). Proof. intros s; discriminate. Qed.
Lemma tot_seq_or checks : Forall TotM checks -> TotM (seq_or checks).
Proof.
  induction 1 as [|c cs Hc Hcs IH]; intros s; cbn; [discriminate|].
  specialize (Hc s). destruct (c s) as [[res s1]|]; [|contradiction].
  destruct (r_err res || _); [discriminate|apply IH].
Qed.
Lemma tot_seq_and checks : Forall TotM checks -> TotM (seq_and checks).
Proof.
  intros H. unfold seq_and. destruct checks as [|c0 cs0]; [apply tot_ret|].
  revert H. generalize (c0 :: cs0). induction l as [|c cs IH]; intros H s; cbn; [discriminate|].
  inversion H as [|? ? Hc Hcs]; subst. specialize (Hc s). destruct (c s) as [[res s1]|]; [|contradiction].
  destruct (r_err res || _); [discriminate|apply IH; exact Hcs].
Qed.
Lemma tot_expand_loop ca l : (forall ic' n o r, TotM (ca ic' n o r)) -> forall ic, TotM (expand_loop ca l ic).
Proof.
  intros Hca. induction l as [|t l IH]; intros ic s; cbn; [discriminate|].
  destruct (check_and_add ic _ s) as [[ic' seen] s1]. destruct seen; [apply IH|].
  pose proof (Hca ic' (tv_ns t) (tv_obj t) (tv_rel t) s1) as H1.
  destruct (ca ic' (tv_ns t) (tv_obj t) (tv_rel t) s1) as [[res s2]|]; [|contradiction].
  destruct (r_err res || _); [discriminate|apply IH].
Qed.
Lemma tot_ttu_loop ca ps : (forall n o, TotM (ca n o)) -> TotM (ttu_loop F ca ps).
Proof.
  intros Hca. induction ps as [|p ps IH]; intros s; cbn; [discriminate|].
  unfold storage. destruct (F (calls s)); [discriminate|].
  assert (Hs : TotM (seq_or (flat_map (fun x => match r_sub x with ISet n o _ => [ca n o] | ISid _ => [] end) p))).
  { apply tot_seq_or. apply Forall_forall. intros m Hm. apply in_flat_map in Hm as [x [_ Hm]].
    destruct (r_sub x); [contradiction|]. destruct Hm as [<-|[]]. apply Hca. }
  match goal with |- context [seq_or ?cs ?st] => pose proof (Hs st) as H1; destruct (seq_or cs st) as [[res s2]|] end; [|contradiction].
  destruct (r_err res || _); [discriminate|apply IH].
Qed.
Lemma tot_direct c ns obj rel depth : TotM (check_direct nid d F sub c ns obj rel depth).
Proof.
  unfold check_direct. destruct (depth <=? 0)%Z; [apply tot_unknown|]. intros s. unfold storage.
  destruct (F (calls s)); [discriminate|]. destruct (ExistsRelationTuples nid _ d); discriminate.
Qed.

Notation ca := (check_allowed cfg strict nid d maxWidth F sub).
Notation ce := (check_expand cfg strict nid d maxWidth F sub).
Notation cr := (check_rewrite cfg strict nid d maxWidth F sub).
Notation cc := (check_child cfg strict nid d maxWidth F sub).
Notation ci := (check_inverted cfg strict nid d maxWidth F sub).
Notation ct := (check_ttu cfg strict nid d maxWidth F sub).

Definition H := cfg_height cfg.
Definition K := 2 * H + 3.
Definition need (n : nat) : nat := 1 + n * K.       (* gas that suffices for checkIsAllowed at depth <= n *)

(* PA a n: checkIsAllowed with gas >= a is total at every depth <= n *)
Definition PA (a : nat) (n : Z) := forall gas c ns obj rel depth skip, a <= gas -> (depth <= n)%Z -> TotM (ca gas c ns obj rel depth skip).

Section Level.
(* one depth level: assuming checkIsAllowed is total below (depth <= n - 1, gas >= a), the functions that walk one
   rewrite are total at depth <= n with a gas that only depends on the height of what is left to walk *)
Variable a : nat.
Variable n : Z.
Hypothesis Ha : 1 <= a.
Hypothesis HA : PA a (n - 1).

Definition PR g := forall c ns obj rel op cs depth, (depth <= n)%Z -> 2 * max_height cs + 2 + a <= g -> TotM (cr g c ns obj rel op cs depth).
Definition PC g := forall c ns obj rel ch depth, (depth <= n)%Z -> 2 * ch_height ch + 1 + a <= g -> TotM (cc g c ns obj rel ch depth).
Definition PI g := forall c ns obj rel ch depth, (depth <= n)%Z -> 2 * ch_height ch + 1 + a <= g -> TotM (ci g c ns obj rel ch depth).
Definition PT g := forall c ns obj r cr0 depth, (depth <= n)%Z -> 1 + a <= g -> TotM (ct g c ns obj r cr0 depth).

Lemma level_step g : PR g /\ PC g /\ PI g /\ PT g -> PR (S g) /\ PC (S g) /\ PI (S g) /\ PT (S g).
Proof.
  intros (HR & HC & HI & HT). split; [|split; [|split]].
  - intros c ns obj rel op cs depth Hd Hg. cbn [check_rewrite]. destruct (depth <=? 0)%Z; [apply tot_unknown|].
    destruct op.
    + apply tot_seq_or. apply Forall_app. split.
      * destruct (computed_rels cs) as [|r0 rels0]; [constructor|]. constructor; [|constructor].
        intros s.
        match goal with |- (match ?scrut with _ => _ end) <> None => destruct scrut as [[[]|] s1] end; try discriminate.
        apply tot_seq_or. apply Forall_forall. intros m Hm. apply in_map_iff in Hm as [r1 [<- _]]. apply HA; lia.
      * apply Forall_forall. intros m Hm. apply in_map_iff in Hm as [ch [<- Hin]]. apply filter_In in Hin as [Hin _].
        apply HC; [exact Hd|]. pose proof (max_height_in cs ch Hin). lia.
    + apply tot_seq_and. apply Forall_forall. intros m Hm. apply in_map_iff in Hm as [ch [<- Hin]].
      apply HC; [exact Hd|]. pose proof (max_height_in cs ch Hin). lia.
  - intros c ns obj rel ch depth Hd Hg. cbn [check_child]. destruct ch as [r1|r1 cr1|op cs|inner].
    + destruct (depth <? 0)%Z; [apply tot_unknown|]. apply HA; cbn in Hg; lia.
    + apply HT; [exact Hd|]. cbn in Hg; lia.
    + apply HR; [lia|]. rewrite ch_height_rewrite in Hg. lia.
    + apply HI; [exact Hd|]. cbn [ch_height] in Hg. lia.
  - intros c ns obj rel ch depth Hd Hg. cbn [check_inverted]. destruct (depth <? 0)%Z eqn:Ed; [apply tot_unknown|].
    intros s.
    match goal with |- (match ?m s with _ => _ end) <> None => assert (Hm : TotM m); [|specialize (Hm s); destruct (m s) as [[res s1]|]; [|contradiction]] end.
    { destruct ch as [r1|r1 cr1|op cs|inner].
      - apply HA; cbn in Hg; lia.
      - apply HT; [exact Hd|]. cbn in Hg; lia.
      - apply HR; [exact Hd|]. rewrite ch_height_rewrite in Hg. lia.
      - apply HI; [exact Hd|]. cbn [ch_height] in Hg. lia. }
    destruct (r_err res); discriminate.
  - intros c ns obj r1 cr1 depth Hd Hg. cbn [check_ttu]. destruct (depth <? 0)%Z; [apply tot_unknown|].
    intros s. apply tot_ttu_loop. intros n0 o. apply HA; lia.
Qed.
Lemma level_all : forall g, PR g /\ PC g /\ PI g /\ PT g.
Proof.
  induction g as [|g IH]; [|apply level_step; exact IH].
  split; [|split; [|split]]; repeat intro; lia.
Qed.
End Level.

Lemma need_S n : need (S n) = need n + K.
Proof. unfold need. lia. Qed.

(* by induction on the depth bound *)
Lemma allowed_total : forall n : nat, PA (need n) (Z.of_nat n).
Proof.
  induction n as [|n IH].
  - intros gas c ns obj rel depth skip Hg Hd. unfold need in Hg. destruct gas as [|g]; [lia|]. cbn [check_allowed].
    assert (E : (depth <=? 0)%Z = true) by (apply Z.leb_le; lia). rewrite E. apply tot_unknown.
  - intros gas c ns obj rel depth skip Hg Hd. rewrite need_S in Hg. destruct gas as [|g]; [unfold need, K in Hg; lia|].
    cbn [check_allowed]. destruct (depth <=? 0)%Z eqn:Ed; [apply tot_unknown|].
    assert (IH' : PA (need n) (Z.of_nat (S n) - 1)) by (replace (Z.of_nat (S n) - 1)%Z with (Z.of_nat n) by lia; exact IH).
    assert (Hn1 : 1 <= need n) by (unfold need; lia).
    destruct (level_all (need n) (Z.of_nat (S n)) Hn1 IH' g) as (HR & _ & _ & _).
    destruct (ast_relation_for cfg ns rel) as [relation|] eqn:Er; [|apply tot_ret].
    apply tot_seq_or. apply Forall_app. split; [|apply Forall_app; split].
    + destruct relation as [x|]; [|constructor]. destruct (rel_rewrite x) as [w|] eqn:Ew; [|constructor].
      constructor; [|constructor]. apply HR; [exact Hd|].
      pose proof (ast_relation_height cfg ns rel x Er) as Hh. unfold rel_height in Hh. rewrite Ew in Hh. fold H in Hh. unfold K in Hg. lia.
    + destruct (_ && negb skip); repeat constructor. apply tot_direct.
    + destruct (negb strict || _); repeat constructor.
      (* checkExpandSubject *)
      destruct g as [|g']; [unfold K in Hg; unfold need in *; lia|]. cbn [check_expand].
      destruct (depth - 1 <=? 0)%Z; [apply tot_unknown|]. intros s.
      destruct (init_visited c s) as [ic s1]. unfold storage. destruct (F (calls s1)); [discriminate|].
      destruct (existsb tv_found _); [discriminate|].
      match goal with |- context [if ?b then _ else _] => destruct b end.
      all: apply tot_expand_loop; intros; apply IH; [unfold K in Hg; lia|lia].
Qed.

(* the statement for a whole request *)
Theorem check_terminates : forall ns obj rel request global gas,
  need (Z.to_nat (eff_depth request global)) <= gas ->
  CheckRelationTuple gas cfg strict nid d maxWidth F ns obj rel sub request global <> None.
Proof.
  intros ns obj rel request global gas Hg. unfold CheckRelationTuple.
  pose proof (allowed_total (Z.to_nat (eff_depth request global)) gas ctx0 ns obj rel (eff_depth request global) false Hg) as Ht.
  assert (Hd : (eff_depth request global <= Z.of_nat (Z.to_nat (eff_depth request global)))%Z) by lia.
  specialize (Ht Hd est0).
  destruct (check_allowed cfg strict nid d maxWidth F sub gas ctx0 ns obj rel (eff_depth request global) false est0) as [[r s]|]; [discriminate|contradiction].
Qed.
End Termination.
