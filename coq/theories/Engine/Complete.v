(* Completeness of the check engine for configurations without rewrites (plain relations, subject-set
   indirection, cycles, duplicates): if no limit was hit, "not a member" is the truth.
   The invariant is the closure property of the shared visited set (every claimed subject set was evaluated,
   has no direct member, and all its subject sets are claimed). *)
From Coq Require Import List Bool Arith NArith ZArith Lia Permutation.
From Keto Require Import Base.Bytes Base.ListX Store.Sql Store.PagingProofs Engine.Ast Engine.Engine Engine.RefSem Engine.Soundness.
Import ListNotations.

Definition vg (g : goal) : vnode := let '(n, o, r) := g in (o, n, r).
Lemma vnode_eqb_eq a b : vnode_eqb a b = true <-> a = b.
Proof. destruct a as [[o n] r], b as [[o' n'] r']. unfold vnode_eqb. rewrite !andb_true_iff, uid_eqb_eq, !bytes_eqb_eq.
  split; [intros [[-> ->] ->]; reflexivity|intros H; inversion H; auto]. Qed.
Lemma mem_vnode v l : existsb (vnode_eqb v) l = true <-> In v l.
Proof. rewrite existsb_exists. split; [intros [x [Hx E]]; apply vnode_eqb_eq in E; now subst|intros H; exists v; split; auto; now apply vnode_eqb_eq]. Qed.
Lemma vg_inj a b : vg a = vg b -> a = b.
Proof. destruct a as [[n o] r], b as [[n' o'] r']. cbn. intros H; inversion H; reflexivity. Qed.

Lemma heap_update_length H h f : length (heap_update H h f) = length H.
Proof. revert h; induction H as [|x H IH]; intros [|h]; cbn; auto. Qed.
Lemma heap_update_nth H h f : h < length H -> nth h (heap_update H h f) [] = f (nth h H []).
Proof. revert h; induction H as [|x H IH]; intros [|h] Hl; cbn in *; try lia; auto. apply IH. lia. Qed.

Lemma check_and_add_some ic v s h : vh ic = Some h ->
  check_and_add ic v s =
    if existsb (vnode_eqb v) (nth h (heap s) []) then (ic, true, set_revisit s)
    else (ic, false, {| heap := heap_update (heap s) h (fun l => v :: l); calls := calls s; cut := cut s;
                        cut_neg := cut_neg s; revisit := revisit s |}).
Proof. intros H. unfold check_and_add, init_visited. rewrite H. cbn. rewrite H. reflexivity. Qed.

Section Complete.
Variable cfg : config.
Variable nid : N.
Variable d : db.
Variable maxWidth : nat.
Variable sub : isub.
Let strict := false.
Let F : nat -> bool := fun _ => false.

Hypothesis no_rewrites : forall n r x, ast_relation_for cfg n r = inl (Some x) -> rel_rewrite x = None.

Notation direct := (direct nid d sub).
Notation set_rows := (set_rows nid d).
Notation ca := (check_allowed cfg strict nid d maxWidth F sub).
Notation ce := (check_expand cfg strict nid d maxWidth F sub).
Notation Holds := (Holds cfg nid d sub).

Definition V (h : nat) (s : est) : list vnode := nth h (heap s) [].
Definition closed_from (W W' : list vnode) : Prop :=
  forall y, In (vg y) W' -> ~ In (vg y) W -> forall t, In t (set_rows y) -> direct t = false /\ In (vg t) W'.

(* what every run guarantees, and what a clean "not a member" guarantees *)
Definition Post (h : nat) (g : goal) (with_direct : bool) (s : est) (r : result) (s' : est) : Prop :=
  length (heap s') = length (heap s) /\ (cut s = true -> cut s' = true) /\ incl (V h s) (V h s') /\
  (r_err r = false -> r_m r = Unknown -> cut s' = true) /\
  (cut s' = false -> r_err r = false -> r_m r = NotMember ->
     (with_direct = true -> direct g = false) /\
     (forall t, In t (set_rows g) -> direct t = false /\ In (vg t) (V h s')) /\ closed_from (V h s) (V h s')).

Definition QA (gas : nat) : Prop := forall c ns obj rel depth skip s r s' h,
  vh c = Some h -> h < length (heap s) -> ca gas c ns obj rel depth skip s = Some (r, s') ->
  Post h (ns, obj, rel) (negb skip) s r s'.
Definition QE (gas : nat) : Prop := forall c ns obj rel depth s r s' h,
  vh c = Some h -> h < length (heap s) -> ce gas c ns obj rel depth s = Some (r, s') ->
  Post h (ns, obj, rel) false s r s'.

Lemma in_dec_vnode (v : vnode) l : {In v l} + {~ In v l}.
Proof. destruct (existsb (vnode_eqb v) l) eqn:E; [left; now apply mem_vnode|right; intros H; apply mem_vnode in H; congruence]. Qed.
Lemma vnode_eq_dec (a b : vnode) : {a = b} + {a <> b}.
Proof. destruct (vnode_eqb a b) eqn:E; [left; now apply vnode_eqb_eq|right; intros H; apply vnode_eqb_eq in H; congruence]. Qed.

Lemma take_until_none l : existsb tv_found (take_until_found l) = false -> take_until_found l = l.
Proof. induction l as [|x l IH]; cbn; auto. destruct (tv_found x) eqn:E; cbn; [rewrite E; discriminate|]. rewrite E. cbn. intros H. f_equal. auto. Qed.

(* the traversal lists exactly the subject sets stored under the goal, with found = direct *)
Lemma trav_complete ns obj rel :
  existsb tv_found (TraverseSubjectSetExpansion nid ns obj rel sub d) = false ->
  forall t, In t (set_rows (ns, obj, rel)) ->
    exists x, In x (TraverseSubjectSetExpansion nid ns obj rel sub d) /\ (tv_ns x, tv_obj x, tv_rel x) = t /\ direct t = false.
Proof.
  unfold TraverseSubjectSetExpansion. intros Hnf t Ht. apply take_until_none in Hnf as Heq. rewrite Heq in *.
  unfold RefSem.set_rows in Ht. apply in_flat_map in Ht as [r [Hr Hc]].
  destruct (in_net nid r && bytes_eqb (r_ns r) ns && uid_eqb (r_obj r) obj && bytes_eqb (r_rel r) rel) eqn:Ep; [|contradiction].
  destruct (r_sub r) as [u|n o rl] eqn:Es; [contradiction|]. destruct Hc as [<-|[]].
  set (f := fun r0 : row => match r_sub r0 with
              | ISet n0 o0 rl0 => {| tv_ns := n0; tv_obj := o0; tv_rel := rl0;
                   tv_found := existsb (fun x => in_net nid x && bytes_eqb (r_ns x) n0 && uid_eqb (r_obj x) o0 && bytes_eqb (r_rel x) rl0 && isub_eqb (r_sub x) sub) (rows d) |}
              | ISid _ => {| tv_ns := []; tv_obj := (0%N, []); tv_rel := []; tv_found := false |} end) in *.
  exists (f r). split; [|split].
  - apply in_map. eapply Permutation_in; [symmetry; apply sort_perm|]. apply filter_In. split; auto. rewrite Ep, Es. reflexivity.
  - unfold f. rewrite Es. reflexivity.
  - assert (Hin : In (f r) (map f (sort_rows (filter (fun r0 => in_net nid r0 && bytes_eqb (r_ns r0) ns && uid_eqb (r_obj r0) obj && bytes_eqb (r_rel r0) rel && is_set (r_sub r0)) (rows d))))).
    { apply in_map. eapply Permutation_in; [symmetry; apply sort_perm|]. apply filter_In. split; auto. rewrite Ep, Es. reflexivity. }
    rewrite <- Heq in Hnf.
    assert (tv_found (f r) = false).
    { destruct (tv_found (f r)) eqn:E; auto. assert (existsb tv_found (map f (sort_rows (filter (fun r0 => in_net nid r0 && bytes_eqb (r_ns r0) ns && uid_eqb (r_obj r0) obj && bytes_eqb (r_rel r0) rel && is_set (r_sub r0)) (rows d)))) = true) by (apply existsb_exists; eauto).
      rewrite Heq in Hnf. congruence. }
    unfold f in H. rewrite Es in H. cbn in H. exact H.
Qed.

(* the claim loop *)
Lemma loop_post h gas (HA : QA gas) depth l : forall ic s r s',
  vh ic = Some h -> h < length (heap s) ->
  expand_loop (fun ic' n o r0 => ca gas ic' n o r0 depth true) l ic s = Some (r, s') ->
  length (heap s') = length (heap s) /\ (cut s = true -> cut s' = true) /\ incl (V h s) (V h s') /\
  (r_err r = false -> r_m r = Unknown -> cut s' = true) /\
  (cut s' = false -> r_err r = false -> r_m r = NotMember ->
     (forall t, In t l -> In (vg (tv_ns t, tv_obj t, tv_rel t)) (V h s')) /\
     (forall y, In (vg y) (V h s') -> ~ In (vg y) (V h s) ->
        (exists t, In t l /\ vg y = vg (tv_ns t, tv_obj t, tv_rel t)) \/
        forall t, In t (set_rows y) -> direct t = false /\ In (vg t) (V h s')) /\
     (forall t, In t l -> ~ In (vg (tv_ns t, tv_obj t, tv_rel t)) (V h s) ->
        forall u, In u (set_rows (tv_ns t, tv_obj t, tv_rel t)) -> direct u = false /\ In (vg u) (V h s'))).
Proof.
  induction l as [|t l IH]; intros ic s r s' Hic Hh E; cbn in E.
  - inversion E; subst. split; [reflexivity|]. split; [auto|]. split; [apply incl_refl|]. split; [cbn; discriminate|]. intros _ _ _.
    split; [intros ? []|]. split; [|intros ? []]. intros y Hy Hn. contradiction.
  - rewrite (check_and_add_some _ _ _ _ Hic) in E.
    set (v := unique_id (tv_ns t) (tv_obj t) (tv_rel t)) in *.
    destruct (existsb (vnode_eqb v) (nth h (heap s) [])) eqn:Eseen.
    + (* already visited: skipped *)
      apply mem_vnode in Eseen.
      specialize (IH ic (set_revisit s) r s' Hic Hh E). change (V h (set_revisit s)) with (V h s) in IH. change (heap (set_revisit s)) with (heap s) in IH. change (cut (set_revisit s)) with (cut s) in IH. destruct IH as (H1 & H2 & H3 & HU & H4).
      split; [exact H1|]. split; [exact H2|]. split; [exact H3|]. split; [exact HU|]. intros Hc He Hm. destruct (H4 Hc He Hm) as (G1 & G2 & G3).
      split; [|split].
      * intros t0 [<-|Ht0]; [apply H3; exact Eseen|auto].
      * intros y Hy Hn. destruct (G2 y Hy Hn) as [[t0 [Ht0 Ey]]|Hcl]; [left; exists t0; split; [now right|auto]|now right].
      * intros t0 [<-|Ht0] Hn; [contradiction|apply G3; auto].
    + (* claimed and evaluated *)
      set (s1 := {| heap := heap_update (heap s) h (fun l0 => v :: l0); calls := calls s; cut := cut s; cut_neg := cut_neg s; revisit := revisit s |}) in *.
      destruct (ca gas ic (tv_ns t) (tv_obj t) (tv_rel t) depth true s1) as [[res s2]|] eqn:Eca; [|discriminate].
      assert (Hh1 : h < length (heap s1)) by (cbn; now rewrite heap_update_length).
      destruct (HA _ _ _ _ _ _ _ _ _ h Hic Hh1 Eca) as (A1 & A2 & A3 & AU & A4).
      assert (HV1 : V h s1 = v :: V h s) by (unfold V; cbn; now rewrite heap_update_nth).
      assert (Hnot : ~ In v (V h s)) by (intros Hin; apply mem_vnode in Hin; unfold V in Hin; congruence).
      destruct (r_err res || match r_m res with IsMember => true | _ => false end) eqn:Eb.
      * inversion E; subst. split; [rewrite A1; cbn; apply heap_update_length|]. split; [auto|].
        split; [intros x Hx; apply A3; rewrite HV1; now right|]. split; [exact AU|].
        intros Hc He Hm. exfalso. rewrite He in Eb. cbn in Eb. rewrite Hm in Eb. discriminate.
      * apply orb_false_iff in Eb as [Ee Em].
        assert (Hh2 : h < length (heap s2)) by (rewrite A1; exact Hh1).
        specialize (IH ic s2 r s' Hic Hh2 E). destruct IH as (H1 & H2 & H3 & HU & H4).
        split; [rewrite H1, A1; cbn; apply heap_update_length|]. split; [auto|].
        split; [intros x Hx; apply H3, A3; rewrite HV1; now right|]. split; [exact HU|].
        intros Hc He Hm.
        assert (Hc2 : cut s2 = false) by (destruct (cut s2) eqn:Ec2; auto; rewrite H2 in Hc; auto; discriminate).
        assert (Hres : r_m res = NotMember).
        { destruct (r_m res) eqn:Erm; auto; try discriminate. rewrite AU in Hc2; auto; discriminate. }
        destruct (A4 Hc2 Ee Hres) as (_ & B2 & B3).
        destruct (H4 Hc He Hm) as (G1 & G2 & G3).
        split; [|split].
        -- intros t0 [<-|Ht0]; [apply H3, A3; rewrite HV1; now left|auto].
        -- intros y Hy Hn.
           destruct (in_dec_vnode (vg y) (V h s2)) as [Hy2|Hy2].
           ++ destruct (vnode_eq_dec (vg y) v) as [Ev|Ev].
              ** left. exists t. split; [now left|exact Ev].
              ** right. intros u Hu. assert (Hny : ~ In (vg y) (V h s1)) by (rewrite HV1; intros [E1|E1]; [congruence|contradiction]).
                 destruct (B3 y Hy2 Hny u Hu) as [D1 D2]. split; auto.
           ++ destruct (G2 y Hy Hy2) as [[t0 [Ht0 Ey]]|Hcl]; [left; exists t0; split; [now right|auto]|now right].
        -- intros t0 [<-|Ht0] Hn u Hu.
           ++ destruct (B2 u Hu) as [D1 D2]. split; auto.
           ++ destruct (in_dec_vnode (vg (tv_ns t0, tv_obj t0, tv_rel t0)) (V h s2)) as [Hy2|Hy2].
              ** destruct (vnode_eq_dec (vg (tv_ns t0, tv_obj t0, tv_rel t0)) v) as [Ev|Ev].
                 --- apply (vg_inj (tv_ns t0, tv_obj t0, tv_rel t0) (tv_ns t, tv_obj t, tv_rel t)) in Ev. rewrite Ev in Hu. destruct (B2 u Hu) as [D1 D2]. split; auto.
                 --- assert (Hny : ~ In (vg (tv_ns t0, tv_obj t0, tv_rel t0)) (V h s1)) by (rewrite HV1; intros [E1|E1]; [congruence|contradiction]).
                     destruct (B3 _ Hy2 Hny u Hu) as [D1 D2]. split; auto.
              ** apply (G3 t0 Ht0 Hy2 u Hu).
Qed.

Lemma V_tick h s : V h (tick s) = V h s. Proof. reflexivity. Qed.
Lemma V_set_cut h c s : V h (set_cut c s) = V h s. Proof. reflexivity. Qed.

Lemma post_unknown h g wd c s : Post h g wd s R_unknown (set_cut c s).
Proof. split; [reflexivity|]. split; [reflexivity|]. split; [apply incl_refl|]. split; [reflexivity|]. cbn. intros; discriminate. Qed.
Lemma post_noclean h g wd s r s' :
  length (heap s') = length (heap s) -> (cut s = true -> cut s' = true) -> V h s' = V h s ->
  (r_err r = true \/ r_m r = IsMember) -> Post h g wd s r s'.
Proof.
  intros H1 H2 H3 H4. split; [exact H1|]. split; [exact H2|]. split; [rewrite H3; apply incl_refl|].
  split; [intros He Hu; destruct H4 as [H4|H4]; congruence|]. intros _ He Hm. destruct H4 as [H4|H4]; congruence.
Qed.

Lemma QE_step g : QA g -> QE (S g).
Proof.
  intros HA c ns obj rel depth s r s' h Hc Hh E. cbn [check_expand] in E.
  destruct (depth <=? 0)%Z.
  { inversion E; subst. apply post_unknown. }
  unfold init_visited in E. rewrite Hc in E. unfold storage, F in E.
  set (results := TraverseSubjectSetExpansion nid ns obj rel sub d) in *.
  destruct (existsb tv_found results) eqn:Ef.
  { inversion E; subst. apply post_noclean; auto. }
  destruct (maxWidth <? length results) eqn:Ew.
  - (* truncated: the cut flag is set, nothing is claimed about a NotMember *)
    destruct (loop_post h g HA depth _ _ _ _ _ Hc (Hh : h < length (heap (set_cut c (tick s)))) E) as (H1 & H2 & H3 & HU & _).
    split; [exact H1|]. split; [intros _; apply H2; reflexivity|]. split; [exact H3|]. split; [exact HU|].
    intros Hcut. rewrite H2 in Hcut; [discriminate|reflexivity].
  - destruct (loop_post h g HA depth _ _ _ _ _ Hc (Hh : h < length (heap (tick s))) E) as (H1 & H2 & H3 & HU & H4).
    split; [exact H1|]. split; [exact H2|]. split; [exact H3|]. split; [exact HU|].
    intros Hcut He Hm. destruct (H4 Hcut He Hm) as (G1 & G2 & G3). split; [discriminate|]. split.
    + intros t Ht. destruct (trav_complete ns obj rel Ef t Ht) as [x [Hx [Ex Hd]]]. split; [exact Hd|]. rewrite <- Ex. apply G1. exact Hx.
    + intros y Hy Hn u Hu. change (V h (tick s)) with (V h s) in G2, G3.
      destruct (G2 y Hy Hn) as [[t [Ht Ey]]|Hcl]; [|auto].
      apply vg_inj in Ey. subst y. apply (G3 t Ht Hn u Hu).
Qed.

Definition stops (res : result) : bool := r_err res || match r_m res with IsMember => true | _ => false end.
Lemma seq_or_single (m : Engine.M) s r s' : seq_or [m] s = Some (r, s') ->
  exists res s1, m s = Some (res, s1) /\ s' = s1 /\ ((stops res = true /\ r = res) \/ (stops res = false /\ r = R_not)).
Proof.
  cbn. destruct (m s) as [[res s1]|]; [|discriminate]. fold (stops res). destruct (stops res) eqn:Eb; intros E; inversion E; subst; eauto 8.
Qed.
Lemma seq_or_cons (m : Engine.M) ms s r s' : seq_or (m :: ms) s = Some (r, s') ->
  exists res s1, m s = Some (res, s1) /\ ((stops res = true /\ r = res /\ s' = s1) \/ (stops res = false /\ seq_or ms s1 = Some (r, s'))).
Proof.
  cbn. destruct (m s) as [[res s1]|]; [|discriminate]. fold (stops res). destruct (stops res) eqn:Eb; intros E; [inversion E; subst|]; eauto 8.
Qed.

Lemma post_collapse h g wd s res s1 :
  stops res = false ->
  (length (heap s1) = length (heap s) /\ (cut s = true -> cut s1 = true) /\ incl (V h s) (V h s1) /\
   (r_err res = false -> r_m res = Unknown -> cut s1 = true) /\
   (cut s1 = false -> r_err res = false -> r_m res = NotMember ->
      (wd = true -> direct g = false) /\ (forall t, In t (set_rows g) -> direct t = false /\ In (vg t) (V h s1)) /\ closed_from (V h s) (V h s1))) ->
  Post h g wd s R_not s1.
Proof.
  intros Hs (H1 & H2 & H3 & HU & H4). unfold stops in Hs. apply orb_false_iff in Hs as [Ee Em].
  split; [exact H1|]. split; [exact H2|]. split; [exact H3|]. split; [cbn; discriminate|].
  intros Hcut _ _.
  assert (Hres : r_m res = NotMember).
  { destruct (r_m res) eqn:Erm; auto; try discriminate. rewrite HU in Hcut; auto; discriminate. }
  exact (H4 Hcut Ee Hres).
Qed.

Lemma QA_step g : QA g -> QE g -> QA (S g).
Proof.
  intros HA HE c ns obj rel depth skip s r s' h Hc Hh E. cbn [check_allowed] in E.
  destruct (depth <=? 0)%Z.
  { inversion E; subst. apply post_unknown. }
  destruct (ast_relation_for cfg ns rel) as [relation|] eqn:Ea.
  2:{ inversion E; subst. apply post_noclean; auto. }
  assert (Hrw : match relation with Some x => rel_rewrite x | None => None end = None).
  { destruct relation as [x|]; [eapply no_rewrites; eauto|reflexivity]. }
  rewrite Hrw in E. unfold strict in E. cbn [negb orb andb app] in E.
  destruct skip; cbn [negb app] in E.
  - (* only the expansion *)
    apply seq_or_single in E as (res & s1 & Ee & -> & Hcase).
    pose proof (HE _ _ _ _ _ _ _ _ h Hc Hh Ee) as HP.
    destruct Hcase as [[Hs ->]|[Hs ->]].
    + destruct HP as (H1 & H2 & H3 & HU & H4). split; [exact H1|]. split; [exact H2|]. split; [exact H3|]. split; [exact HU|].
      intros Hcut He Hm. unfold stops in Hs. rewrite He, Hm in Hs. discriminate.
    + apply (post_collapse h (ns, obj, rel) false s res s1 Hs). exact HP.
  - (* direct check, then the expansion *)
    apply seq_or_cons in E as (res0 & s0 & Ed & Hcase0).
    unfold check_direct in Ed.
    destruct (depth - 1 <=? 0)%Z eqn:Edp.
    + (* the direct check is cut *)
      inversion Ed; subst res0 s0. destruct Hcase0 as [[Hs _]|[_ E]]; [cbn in Hs; discriminate|].
      apply seq_or_single in E as (res & s1 & Ee & -> & Hcase).
      destruct (HE _ _ _ _ _ _ _ _ h Hc (Hh : h < length (heap (set_cut c s))) Ee) as (H1 & H2 & H3 & HU & H4).
      assert (Hcut1 : cut s1 = true) by (apply H2; reflexivity).
      split; [exact H1|]. split; [auto|]. split; [exact H3|]. split; [auto|]. intros Hx; congruence.
    + unfold storage, F in Ed.
      destruct (ExistsRelationTuples nid _ d) eqn:Ex; inversion Ed; subst res0 s0.
      * destruct Hcase0 as [[_ [-> ->]]|[Hs _]]; [|cbn in Hs; discriminate]. apply post_noclean; auto.
      * destruct Hcase0 as [[Hs _]|[_ E]]; [cbn in Hs; discriminate|].
        apply seq_or_single in E as (res & s1 & Ee & -> & Hcase).
        pose proof (HE _ _ _ _ _ _ _ _ h Hc (Hh : h < length (heap (tick s))) Ee) as HP.
        rewrite exists_is_direct in Ex.
        destruct Hcase as [[Hs ->]|[Hs ->]].
        -- destruct HP as (H1 & H2 & H3 & HU & H4). split; [exact H1|]. split; [exact H2|]. split; [exact H3|]. split; [exact HU|].
           intros Hcut He Hm. unfold stops in Hs. rewrite He, Hm in Hs. discriminate.
        -- apply (post_collapse h (ns, obj, rel) true s res s1 Hs).
           destruct HP as (H1 & H2 & H3 & HU & H4). split; [exact H1|]. split; [exact H2|]. split; [exact H3|]. split; [exact HU|].
           intros Hcut He Hm. destruct (H4 Hcut He Hm) as (_ & B2 & B3). split; [intros _; exact Ex|]. split; assumption.
Qed.

Lemma Q_all : forall gas, QA gas /\ QE gas.
Proof.
  induction gas as [|g [IA IE]].
  - split.
    + intros c ns obj rel depth skip s r s' h Hc Hh E. cbn in E. discriminate.
    + intros c ns obj rel depth s r s' h Hc Hh E. cbn in E. discriminate.
  - split; [apply QA_step; assumption|apply QE_step; assumption].
Qed.

(* ---- from the closure invariant to the declarative semantics ---- *)
Lemma rewrite_of_none g : rewrite_of cfg g = None.
Proof. destruct g as [[n o] r]. unfold rewrite_of. destruct (ast_relation_for cfg n r) as [[x|]|] eqn:E; auto. eapply no_rewrites; eauto. Qed.

Lemma closed_not_holds W : closed_from [] W ->
  forall t, Holds t -> direct t = false -> In (vg t) W -> False.
Proof.
  intros Hcl t Ht. induction Ht as [g Hd|g s0 Hin Hs IH|g rw Hrw Hop]; intros Hdf HW.
  - congruence.
  - destruct (Hcl g HW (fun x => x) s0 Hin) as [D1 D2]. auto.
  - rewrite rewrite_of_none in Hrw. discriminate.
Qed.

(* the first expansion of a request creates the visited set *)
Lemma top_expand g : QA g -> forall c ns obj rel depth s r s',
  vh c = None -> ce (S g) c ns obj rel depth s = Some (r, s') ->
  cut s' = false -> r_err r = false -> r_m r = NotMember ->
  exists W, (forall t, In t (set_rows (ns, obj, rel)) -> direct t = false /\ In (vg t) W) /\ closed_from [] W.
Proof.
  intros HA c ns obj rel depth s r s' Hc E Hcut He Hm. cbn [check_expand] in E.
  destruct (depth <=? 0)%Z.
  { inversion E; subst. discriminate. }
  unfold init_visited in E. rewrite Hc in E. unfold storage, F in E.
  set (results := TraverseSubjectSetExpansion nid ns obj rel sub d) in *.
  destruct (existsb tv_found results) eqn:Ef.
  { inversion E; subst. discriminate. }
  set (h := length (heap s)) in *.
  set (ic := {| vh := Some h; neg := neg c |}) in *.
  assert (Hic : vh ic = Some h) by reflexivity.
  destruct (maxWidth <? length results) eqn:Ew.
  - match type of E with expand_loop _ _ _ ?st = _ => assert (Hh : h < length (heap st)) by (cbn; rewrite app_length; cbn; unfold h; lia) end.
    destruct (loop_post h g HA depth _ _ _ _ _ Hic Hh E) as (_ & H2 & _). rewrite H2 in Hcut; [discriminate|reflexivity].
  - match type of E with expand_loop _ _ _ ?st = _ => assert (Hh : h < length (heap st)) by (cbn; rewrite app_length; cbn; unfold h; lia);
      assert (HV0 : V h st = []) by (unfold V, h; cbn; rewrite app_nth2 by lia; now rewrite Nat.sub_diag) end.
    destruct (loop_post h g HA depth _ _ _ _ _ Hic Hh E) as (_ & _ & _ & _ & H4).
    destruct (H4 Hcut He Hm) as (G1 & G2 & G3). rewrite HV0 in G2, G3.
    exists (V h s'). split.
    + intros t Ht. destruct (trav_complete ns obj rel Ef t Ht) as [x [Hx [Ex Hd]]]. split; [exact Hd|]. rewrite <- Ex. apply G1. exact Hx.
    + intros y Hy Hn u Hu. destruct (G2 y Hy Hn) as [[t [Ht Ey]]|Hcl]; [|auto].
      apply vg_inj in Ey. subst y. apply (G3 t Ht Hn u Hu).
Qed.

(* C01, "not a member" direction, for configurations without rewrites (default mode, no faults):
   a check that ran into no limit and answered NotMember is right. Any depth, width, storage order. *)
Theorem complete_no_rewrites gas ns obj rel depth r s' :
  ca gas ctx0 ns obj rel depth false est0 = Some (r, s') ->
  cut s' = false -> r_err r = false -> r_m r = NotMember -> ~ Holds (ns, obj, rel).
Proof.
  intros E Hcut He Hm Hh.
  destruct gas as [|g]; [cbn in E; discriminate|]. cbn [check_allowed] in E.
  destruct (depth <=? 0)%Z. { inversion E; subst. discriminate. }
  destruct (ast_relation_for cfg ns rel) as [relation|] eqn:Ea. 2:{ inversion E; subst. discriminate. }
  assert (Hrw : match relation with Some x => rel_rewrite x | None => None end = None).
  { destruct relation as [x|]; [eapply no_rewrites; eauto|reflexivity]. }
  rewrite Hrw in E. unfold strict in E. cbn [negb orb andb app] in E.
  apply seq_or_cons in E as (res0 & s0 & Ed & Hcase0).
  unfold check_direct in Ed.
  destruct (depth - 1 <=? 0)%Z eqn:Edp.
  { inversion Ed; subst res0 s0. destruct Hcase0 as [[Hs _]|[_ E]]; [cbn in Hs; discriminate|].
    apply seq_or_single in E as (res & s1 & Ee & -> & _).
    destruct g as [|g']; [cbn in Ee; discriminate|].
    (* the cut flag was set by the direct check and never resets *)
    exfalso. cbn [check_expand] in Ee. rewrite Edp in Ee. inversion Ee; subst. discriminate. }
  unfold storage, F in Ed.
  destruct (ExistsRelationTuples nid _ d) eqn:Ex; inversion Ed; subst res0 s0.
  { destruct Hcase0 as [[_ [-> ->]]|[Hs _]]; [discriminate|cbn in Hs; discriminate]. }
  destruct Hcase0 as [[Hs _]|[_ E]]; [cbn in Hs; discriminate|].
  apply seq_or_single in E as (res & s1 & Ee & -> & Hcase).
  rewrite exists_is_direct in Ex.
  destruct g as [|g']; [cbn in Ee; discriminate|].
  assert (Hres : r_err res = false /\ r_m res = NotMember).
  { destruct Hcase as [[Hs ->]|[Hs ->]]; [auto|].
    unfold stops in Hs. apply orb_false_iff in Hs as [H1 H2]. split; auto.
    destruct (r_m res) eqn:Erm; auto; try discriminate.
    (* Unknown from the expansion means a cut *)
    exfalso. cbn [check_expand] in Ee. destruct (depth - 1 <=? 0)%Z; [discriminate|].
    unfold init_visited in Ee. cbn [vh ctx0] in Ee. unfold storage, F in Ee.
    destruct (existsb tv_found _); [inversion Ee; subst; discriminate|].
    destruct (maxWidth <? _).
    all: match type of Ee with expand_loop _ _ ?ic0 ?st = _ =>
           assert (Hh0 : 0 < length (heap st)) by (cbn; lia);
           destruct (loop_post 0 g' (proj1 (Q_all g')) _ _ ic0 st _ _ eq_refl Hh0 Ee) as (_ & _ & _ & HU & _) end.
    all: rewrite HU in Hcut; auto; discriminate. }
  destruct Hres as [He' Hm'].
  destruct (top_expand g' (proj1 (Q_all g')) ctx0 ns obj rel (depth - 1)%Z (tick est0) res s1 eq_refl Ee Hcut He' Hm') as (W & HW1 & HW2).
  (* Holds (ns,obj,rel): not direct, so through a subject set, all of which are safe *)
  inversion Hh as [g0 Hd|g0 s0 Hin Hs0|g0 rw Hrw0 Hop]; subst.
  - congruence.
  - destruct (HW1 s0 Hin) as [D1 D2]. exact (closed_not_holds W HW2 s0 Hs0 D1 D2).
  - rewrite rewrite_of_none in Hrw0. discriminate.
Qed.
End Complete.
