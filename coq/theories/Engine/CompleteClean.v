(* Completeness of the check engine WITH rewrites (unions, intersections, traversals; no '!'):
   a run in which no sub-check was cut short by max-depth / max-width (flag cut) and no subject set was skipped
   as already visited (flag revisit), without storage faults and outside strict mode, answers IsMember whenever
   the relationship-graph semantics (Holds) says so.  With Soundness.sound_all: such a run answers EXACTLY the semantics.
   The proof is an induction over the evaluation (gas), not over the derivation: a clean "not a member" of a
   sub-check refutes the corresponding sub-goal. *)
From Coq Require Import List Bool Arith NArith ZArith Lia Permutation.
From Keto Require Import Base.Bytes Base.ListX Store.Sql Store.SqlProofs Store.PagingProofs Engine.Ast Engine.Engine Engine.RefSem Engine.Soundness.
Import ListNotations.

Section Clean.
Variable cfg : config.
Variable nid : N.
Variable d : db.
Variable maxWidth : nat.
Variable sub : isub.
Definition F0 : nat -> bool := fun _ => false.
Hypothesis cfg_nf : forall n r x rw, ast_relation_for cfg n r = inl (Some x) -> rel_rewrite x = Some rw -> children_nf (rw_children rw) = true.

Notation Holds := (Holds cfg nid d sub).
Notation HoldsOp := (HoldsOp cfg nid d sub).
Notation HoldsAll := (HoldsAll cfg nid d sub).
Notation HoldsChild := (HoldsChild cfg nid d sub).
Notation direct := (direct nid d sub).
Notation set_rows := (set_rows nid d).
Notation M := (Engine.M).

Definition clean (s : est) : Prop := cut s = false /\ revisit s = false.
(* complete for G: if the run ends clean and without an error, it started clean and G forces IsMember *)
Definition CompM (G : Prop) (m : M) : Prop :=
  forall s r s', m s = Some (r, s') -> clean s' -> r_err r = false -> clean s /\ (G -> r_m r = IsMember).

Lemma comp_weaken (G G' : Prop) m : (G' -> G) -> CompM G m -> CompM G' m.
Proof. intros H Hc s r s' E Hcl He. destruct (Hc s r s' E Hcl He). split; auto. Qed.
Lemma comp_unknown G c : CompM G (unknown c).
Proof. intros s r s' E [Hc _] _. inversion E; subst. cbn in Hc. discriminate. Qed.
Lemma comp_ret_err G : CompM G (ret R_err).
Proof. intros s r s' E _ He. inversion E; subst. discriminate. Qed.

Definition is_mem (r : result) : bool := match r_m r with IsMember => true | _ => false end.
Lemma is_mem_true r : is_mem r = true <-> r_m r = IsMember.
Proof. unfold is_mem. destruct (r_m r); split; congruence. Qed.

(* union of checks, each complete for its own goal *)
Lemma comp_seq_or (Gs : list Prop) checks : Forall2 CompM Gs checks -> CompM (Exists (fun G => G) Gs) (seq_or checks).
Proof.
  induction 1 as [|G c Gs cs Hc Hrest IH]; intros s r s' E Hcl He; cbn in E.
  - inversion E; subst. split; [exact Hcl|]. intros Hx. inversion Hx.
  - destruct (c s) as [[res s1]|] eqn:Ec; [|discriminate].
    fold (is_mem res) in E. destruct (r_err res || is_mem res) eqn:Eb.
    + inversion E; subst. destruct (Hc _ _ _ Ec Hcl He) as [H1 _]. split; [exact H1|]. intros _.
      rewrite He in Eb. cbn in Eb. now apply is_mem_true.
    + apply orb_false_iff in Eb as [Ee Em]. destruct (IH _ _ _ E Hcl He) as [Hcl1 Hg].
      destruct (Hc _ _ _ Ec Hcl1 Ee) as [Hcl0 Hg0]. split; [exact Hcl0|].
      intros Hx. inversion Hx as [? ? HG|? ? HG]; subst; [|auto].
      apply Hg0 in HG. apply is_mem_true in HG. congruence.
Qed.

Lemma comp_seq_and_go g cs checks :
  Forall2 (fun ch m => CompM (HoldsChild g ch) m) cs checks -> CompM (HoldsAll g cs) (seq_and_go checks).
Proof.
  induction 1 as [|ch m cs checks Hm Hrest IH]; intros s r s' E Hcl He; cbn in E.
  - inversion E; subst. cbn. split; auto.
  - destruct (m s) as [[res s1]|] eqn:Em; [|discriminate].
    fold (is_mem res) in E. destruct (r_err res || negb (is_mem res)) eqn:Eb.
    + inversion E; subst. cbn in He. destruct (Hm _ _ _ Em Hcl He) as [H1 Hg]. split; [exact H1|].
      intros Hall. inversion Hall; subst. rewrite He in Eb. cbn in Eb. apply negb_true_iff in Eb.
      match goal with H : HoldsChild g ch |- _ => apply Hg in H; apply is_mem_true in H; congruence end.
    + apply orb_false_iff in Eb as [Ee _]. destruct (IH _ _ _ E Hcl He) as [Hcl1 Hg].
      destruct (Hm _ _ _ Em Hcl1 Ee) as [Hcl0 _]. split; [exact Hcl0|].
      intros Hall. inversion Hall; subst. auto.
Qed.

Lemma existsb_forall {A} (f : A -> bool) l : existsb f l = false <-> forall x, In x l -> f x = false.
Proof. induction l as [|a l IH]; cbn; [split; [intros _ x []|reflexivity]|].
  rewrite orb_false_iff, IH. split; [intros [Ha Hl] x [<-|Hx]; auto|intros H; split; [apply H; now left|intros x Hx; apply H; now right]]. Qed.

(* ---- storage facts (converses of the ones used for soundness) ---- *)
Lemma take_until_all l : existsb tv_found (take_until_found l) = false -> take_until_found l = l.
Proof. induction l as [|x l IH]; cbn; [reflexivity|]. destruct (tv_found x) eqn:Ex; cbn; [rewrite Ex; discriminate|].
  rewrite Ex. cbn. intros H. f_equal. auto. Qed.

Lemma trav_complete ns obj rel :
  existsb tv_found (TraverseSubjectSetExpansion nid ns obj rel sub d) = false ->
  (forall g, In g (set_rows (ns, obj, rel)) -> exists t, In t (TraverseSubjectSetExpansion nid ns obj rel sub d) /\ (tv_ns t, tv_obj t, tv_rel t) = g) /\
  (forall t, In t (TraverseSubjectSetExpansion nid ns obj rel sub d) -> direct (tv_ns t, tv_obj t, tv_rel t) = false).
Proof.
  unfold TraverseSubjectSetExpansion. intros Hf. pose proof (take_until_all _ Hf) as Heq. rewrite Heq in *. clear Heq. split.
  - intros [[n o] rl] Hg. unfold RefSem.set_rows in Hg. apply in_flat_map in Hg as [x [Hx Hg]].
    destruct (in_net nid x && bytes_eqb (r_ns x) ns && uid_eqb (r_obj x) obj && bytes_eqb (r_rel x) rel) eqn:Ep; [|contradiction].
    destruct (r_sub x) as [u|sn so sr] eqn:Es; [contradiction|]. destruct Hg as [Hg|[]]. inversion Hg; subst.
    eexists. split.
    + apply in_map_iff. exists x. split; [reflexivity|]. eapply Permutation_in; [apply Permutation_sym, sort_perm|].
      apply filter_In. split; [exact Hx|]. rewrite Ep, Es. reflexivity.
    + rewrite Es. reflexivity.
  - intros t Ht. rewrite existsb_forall in Hf. specialize (Hf t Ht).
    apply in_map_iff in Ht as [x [<- Hx]]. destruct (r_sub x) as [u|sn so sr] eqn:Es; cbn in *; [|exact Hf].
    (* a row that is not a subject set never passes the filter *)
    eapply Permutation_in in Hx; [|apply sort_perm]. apply filter_In in Hx as [_ Hp]. rewrite andb_true_iff in Hp. destruct Hp as [_ Hp].
    rewrite Es in Hp. discriminate.
Qed.

Lemma exists_relation_in_none ns obj rels :
  exists_relation_in nid ns obj sub rels d = false -> forall r, In r rels -> direct (ns, obj, r) = false.
Proof.
  unfold exists_relation_in. intros H r Hr. rewrite existsb_forall in H.
  unfold RefSem.direct. apply existsb_forall. intros x Hx. specialize (H x Hx).
  destruct (in_net nid x && bytes_eqb (r_ns x) ns && uid_eqb (r_obj x) obj && bytes_eqb (r_rel x) r && isub_eqb (r_sub x) sub) eqn:E; [|reflexivity].
  rewrite !andb_true_iff in E. destruct E as [[[[E1 E2] E3] E4] E5].
  rewrite E1, E2, E3, E5 in H. cbn in H. rewrite existsb_forall in H. specialize (H r Hr).
  apply bytes_eqb_eq in E4. subst r. rewrite bytes_eqb_refl in H. discriminate.
Qed.

Lemma set_rows_matching ns obj r n o rl :
  In (n, o, rl) (set_rows (ns, obj, r)) ->
  exists x, In x (matching nid {| iq_ns := Some ns; iq_obj := Some obj; iq_rel := Some r; iq_sub := None |} d) /\ r_sub x = ISet n o rl.
Proof.
  unfold RefSem.set_rows. intros H. apply in_flat_map in H as [x [Hx Hg]].
  destruct (in_net nid x && bytes_eqb (r_ns x) ns && uid_eqb (r_obj x) obj && bytes_eqb (r_rel x) r) eqn:Ep; [|contradiction].
  destruct (r_sub x) as [u|sn so sr] eqn:Es; [contradiction|]. destruct Hg as [Hg|[]]. inversion Hg; subst.
  exists x. split; [|exact Es]. eapply Permutation_in; [apply Permutation_sym, matching_perm|].
  apply filter_In. split; [exact Hx|]. rewrite !andb_true_iff in Ep. destruct Ep as [[[E1 E2] E3] E4].
  rewrite E1. unfold matches_q; cbn. rewrite (bytes_eqb_sym' ns), E2, (uid_eqb_sym obj), E3, (bytes_eqb_sym' r), E4. reflexivity.
Qed.

(* ---- the visited set and the flags ---- *)
Lemma init_visited_flags c s : cut (snd (init_visited c s)) = cut s /\ revisit (snd (init_visited c s)) = revisit s.
Proof. unfold init_visited. destruct (vh c); cbn; auto. Qed.
Lemma caa_flags ic v s ic' seen s1 : check_and_add ic v s = (ic', seen, s1) ->
  (seen = true -> revisit s1 = true) /\ (seen = false -> cut s1 = cut s /\ revisit s1 = revisit s).
Proof.
  unfold check_and_add. pose proof (init_visited_flags ic s) as [Hc Hr]. destruct (init_visited ic s) as [c' s0]. cbn [snd] in *.
  destruct (vh c') as [h|]; [|intros E; inversion E; subst; split; [discriminate|auto]].
  destruct (existsb (vnode_eqb v) (nth h (heap s0) [])); intros E; inversion E; subst; cbn; split; auto; discriminate.
Qed.

(* ---- the loops ---- *)
Lemma comp_expand_loop ca l : forall ic,
  (forall t ic', In t l -> CompM (Holds (tv_ns t, tv_obj t, tv_rel t)) (ca ic' (tv_ns t) (tv_obj t) (tv_rel t))) ->
  CompM (exists t, In t l /\ Holds (tv_ns t, tv_obj t, tv_rel t)) (expand_loop ca l ic).
Proof.
  induction l as [|t l IH]; intros ic Hca s r s' E Hcl He; cbn in E.
  - inversion E; subst. split; [exact Hcl|]. intros [t [[] _]].
  - destruct (check_and_add ic (unique_id (tv_ns t) (tv_obj t) (tv_rel t)) s) as [[ic' seen] s1] eqn:Ec.
    destruct (caa_flags _ _ _ _ _ _ Ec) as [Hseen Hnot].
    assert (Hrest : CompM (exists t0, In t0 l /\ Holds (tv_ns t0, tv_obj t0, tv_rel t0)) (expand_loop ca l ic')).
    { apply IH. intros; apply Hca; now right. }
    destruct seen.
    + destruct (Hrest _ _ _ E Hcl He) as [[_ Hr1] _]. rewrite (Hseen eq_refl) in Hr1. discriminate.
    + destruct (Hnot eq_refl) as [Hc1 Hr1].
      destruct (ca ic' (tv_ns t) (tv_obj t) (tv_rel t) s1) as [[res s2]|] eqn:Eca; [|discriminate].
      fold (is_mem res) in E. destruct (r_err res || is_mem res) eqn:Eb.
      * inversion E; subst. destruct (Hca t ic' (or_introl eq_refl) _ _ _ Eca Hcl He) as [[H1 H2] _].
        split; [split; congruence|]. intros _. rewrite He in Eb. now apply is_mem_true.
      * apply orb_false_iff in Eb as [Ee Em]. destruct (Hrest _ _ _ E Hcl He) as [Hcl2 Hg].
        destruct (Hca t ic' (or_introl eq_refl) _ _ _ Eca Hcl2 Ee) as [[H1 H2] Hg0].
        split; [split; congruence|]. intros [t0 [[<-|Hin] Hh]].
        -- apply Hg0 in Hh. apply is_mem_true in Hh. congruence.
        -- apply Hg. eauto.
Qed.

Lemma Forall2_flat_map {A B C} (R : B -> C -> Prop) (f : A -> list B) (g : A -> list C) l :
  (forall x, In x l -> Forall2 R (f x) (g x)) -> Forall2 R (flat_map f l) (flat_map g l).
Proof. induction l as [|x l IH]; intros H; cbn; [constructor|]. apply Forall2_app; [apply H; now left|apply IH; intros; apply H; now right]. Qed.

Lemma comp_ttu_loop cr ca ps :
  (forall p x n o rl, In p ps -> In x p -> r_sub x = ISet n o rl -> CompM (Holds (n, o, cr)) (ca n o)) ->
  CompM (exists p x n o rl, In p ps /\ In x p /\ r_sub x = ISet n o rl /\ Holds (n, o, cr)) (ttu_loop F0 ca ps).
Proof.
  induction ps as [|p ps IH]; intros Hca s r s' E Hcl He; cbn in E.
  - inversion E; subst. split; [exact Hcl|]. intros (p & x & n & o & rl & [] & _).
  - unfold storage, F0 in E.
    set (Gs := flat_map (fun x => match r_sub x with ISet n o _ => [Holds (n, o, cr)] | ISid _ => [] end) p).
    assert (Hs : CompM (Exists (fun G => G) Gs) (seq_or (flat_map (fun x => match r_sub x with ISet n o _ => [ca n o] | ISid _ => [] end) p))).
    { apply comp_seq_or. unfold Gs. apply Forall2_flat_map. intros x Hx. destruct (r_sub x) as [u|n o rl] eqn:Ex; constructor; [|constructor].
      eapply Hca; eauto. now left. }
    match type of E with context [seq_or ?cs ?st] => destruct (seq_or cs st) as [[res s2]|] eqn:Es end; [|discriminate].
    fold (is_mem res) in E. destruct (r_err res || is_mem res) eqn:Eb.
    + inversion E; subst. destruct (Hs _ _ _ Es Hcl He) as [[H1 H2] _]. split; [split; [exact H1|exact H2]|].
      intros _. rewrite He in Eb. now apply is_mem_true.
    + apply orb_false_iff in Eb as [Ee Em].
      assert (Hrest : CompM (exists p0 x n o rl, In p0 ps /\ In x p0 /\ r_sub x = ISet n o rl /\ Holds (n, o, cr)) (ttu_loop F0 ca ps)).
      { apply IH. intros; eapply Hca; eauto. now right. }
      destruct (Hrest _ _ _ E Hcl He) as [Hcl2 Hg]. destruct (Hs _ _ _ Es Hcl2 Ee) as [[H1 H2] Hg0].
      split; [split; [exact H1|exact H2]|].
      intros (p0 & x & n & o & rl & [<-|Hp] & Hx & Ex & Hh).
      * assert (HEx : Exists (fun G => G) Gs).
        { apply Exists_exists. exists (Holds (n, o, cr)). split; [|exact Hh]. unfold Gs. apply in_flat_map. exists x. split; [exact Hx|]. rewrite Ex. now left. }
        apply Hg0 in HEx. apply is_mem_true in HEx. congruence.
      * apply Hg. exists p0, x, n, o, rl. auto.
Qed.

(* ---- one-step unfoldings of the mutual fixpoint (non-strict mode, no faults) ---- *)
Notation ca := (check_allowed cfg false nid d maxWidth F0 sub).
Notation ce := (check_expand cfg false nid d maxWidth F0 sub).
Notation cr := (check_rewrite cfg false nid d maxWidth F0 sub).
Notation cc := (check_child cfg false nid d maxWidth F0 sub).
Notation ct := (check_ttu cfg false nid d maxWidth F0 sub).

Definition PA (gas : nat) : Prop := forall c ns obj rel depth skip, (skip = true -> direct (ns, obj, rel) = false) ->
  CompM (Holds (ns, obj, rel)) (ca gas c ns obj rel depth skip).
Definition PE (gas : nat) : Prop := forall c ns obj rel depth,
  CompM (exists g, In g (set_rows (ns, obj, rel)) /\ Holds g) (ce gas c ns obj rel depth).
Definition PR (gas : nat) : Prop := forall c ns obj rel op cs depth, children_nf cs = true ->
  CompM (HoldsOp (ns, obj, rel) op cs) (cr gas c ns obj rel op cs depth).
Definition PC (gas : nat) : Prop := forall c ns obj rel ch depth, child_nf ch = true ->
  CompM (HoldsChild (ns, obj, rel) ch) (cc gas c ns obj rel ch depth).
Definition PT (gas : nat) : Prop := forall c ns obj rel r cr0 depth,
  CompM (HoldsChild (ns, obj, rel) (CTuple r cr0)) (ct gas c ns obj r cr0 depth).

Lemma comp_zero : PA 0 /\ PE 0 /\ PR 0 /\ PC 0 /\ PT 0.
Proof. split; [|split; [|split; [|split]]]; repeat intro; match goal with H : _ = Some _ |- _ => cbn in H; discriminate H end. Qed.

Lemma comp_direct c ns obj rel depth : CompM (direct (ns, obj, rel) = true) (check_direct nid d F0 sub c ns obj rel depth).
Proof.
  unfold check_direct. destruct (depth <=? 0)%Z; [apply comp_unknown|].
  intros s r s' E Hcl He. unfold storage, F0 in E. rewrite (exists_is_direct nid d sub) in E.
  destruct (direct (ns, obj, rel)) eqn:Ed; inversion E; subst; (split; [exact Hcl|]); [reflexivity|discriminate].
Qed.

Lemma queried_nonstrict ns rels : queried_rels cfg false ns rels = rels.
Proof. unfold queried_rels. apply filter_true. intros; reflexivity. Qed.

Lemma Forall2_map_same {A B C} (R : B -> C -> Prop) (f : A -> B) (g : A -> C) l :
  (forall x, In x l -> R (f x) (g x)) -> Forall2 R (map f l) (map g l).
Proof. induction l as [|x l IH]; intros H; cbn; constructor; [apply H; now left|apply IH; intros; apply H; now right]. Qed.
Lemma Exists_map_id {A} (P : A -> Prop) l : Exists (fun G => G) (map P l) <-> exists x, In x l /\ P x.
Proof. rewrite Exists_exists. split.
  - intros [G [HG Hg]]. apply in_map_iff in HG as [x [<- Hx]]. eauto.
  - intros [x [Hx Hp]]. exists (P x). split; [apply in_map; exact Hx|exact Hp]. Qed.

Lemma comp_step g : PA g /\ PE g /\ PR g /\ PC g /\ PT g -> PA (S g) /\ PE (S g) /\ PR (S g) /\ PC (S g) /\ PT (S g).
Proof.
  intros (HA & HE & HR & HC & HT). split; [|split; [|split; [|split]]].
  - (* check_allowed *)
    intros c ns obj rel depth skip Hskip. cbn [check_allowed].
    destruct (depth <=? 0)%Z; [apply comp_unknown|].
    destruct (ast_relation_for cfg ns rel) as [relation|] eqn:Ea; [|apply comp_ret_err].
    cbn [negb orb andb].
    set (rw := match relation with Some x => rel_rewrite x | None => None end).
    eapply comp_weaken with (G := Exists (fun G => G)
      ((match rw with Some w => [HoldsOp (ns, obj, rel) (rw_op w) (rw_children w)] | None => [] end) ++
       (if negb skip then [direct (ns, obj, rel) = true] else []) ++
       [exists g0, In g0 (set_rows (ns, obj, rel)) /\ Holds g0])).
    { intros Hh. apply Exists_exists. inversion Hh as [g0 Hd|g0 s0 Hin Hs|g0 rw0 Hrw Hop]; subst.
      - destruct skip; [rewrite (Hskip eq_refl) in Hd; discriminate|]. eexists. split; [apply in_or_app; right; apply in_or_app; left; now left|exact Hd].
      - eexists. split; [apply in_or_app; right; apply in_or_app; right; now left|]. eauto.
      - unfold rewrite_of in Hrw. rewrite Ea in Hrw. unfold rw. destruct relation as [x|]; [|discriminate]. rewrite Hrw.
        eexists. split; [apply in_or_app; left; now left|exact Hop]. }
    apply comp_seq_or. apply Forall2_app; [|apply Forall2_app].
    + unfold rw. destruct relation as [x|]; [|constructor]. destruct (rel_rewrite x) as [w|] eqn:Ew; [|constructor].
      constructor; [|constructor]. apply HR. eapply cfg_nf; eauto.
    + destruct (negb skip); [|constructor]. constructor; [|constructor]. apply comp_direct.
    + constructor; [|constructor]. apply HE.
  - (* check_expand *)
    intros c ns obj rel depth. cbn [check_expand].
    destruct (depth <=? 0)%Z; [apply comp_unknown|].
    intros s r s' E Hcl He.
    pose proof (init_visited_flags c s) as [Hic Hir]. destruct (init_visited c s) as [ic s1]. cbn [snd] in Hic, Hir.
    unfold storage, F0 in E.
    set (results := TraverseSubjectSetExpansion nid ns obj rel sub d) in *.
    destruct (existsb tv_found results) eqn:Ef.
    { inversion E; subst. destruct Hcl as [H1 H2]. cbn in H1, H2. split; [split; congruence|reflexivity]. }
    destruct (trav_complete ns obj rel Ef) as [Hall Hnd]. fold results in Hall, Hnd.
    destruct (maxWidth <? length results).
    { (* truncated: the cut flag is set, such a run is not clean *)
      match type of E with expand_loop ?f ?l ?i ?st = _ => pose proof (comp_expand_loop f l i) as HL end.
      match type of HL with ?P -> _ => assert (Hpre : P) end.
      { intros t ic' Ht. apply HA. intros _. apply Hnd. eapply In_firstn; exact Ht. }
      destruct (HL Hpre _ _ _ E Hcl He) as [[Hc _] _]. cbn in Hc. discriminate. }
    match type of E with expand_loop ?f ?l ?i ?st = _ => pose proof (comp_expand_loop f l i) as HL end.
    match type of HL with ?P -> _ => assert (Hpre : P) end.
    { intros t ic' Ht. apply HA. intros _. apply Hnd. exact Ht. }
    destruct (HL Hpre _ _ _ E Hcl He) as [[Hc Hr] Hg]. cbn in Hc, Hr. split; [split; congruence|].
    intros [g0 [Hin Hh]]. apply Hg. destruct (Hall g0 Hin) as [t [Ht Heq]]. exists t. split; [exact Ht|]. rewrite Heq. exact Hh.
  - (* check_rewrite *)
    intros c ns obj rel op cs depth Hnf. cbn [check_rewrite].
    destruct (depth <=? 0)%Z; [apply comp_unknown|].
    destruct op.
    + (* or *)
      set (rels := computed_rels cs).
      eapply comp_weaken with (G := Exists (fun G => G)
        ((match rels with [] => [] | _ => [exists r1, In r1 rels /\ Holds (ns, obj, r1)] end) ++
         map (fun ch => HoldsChild (ns, obj, rel) ch) (filter (fun ch => negb (is_computed ch)) cs))).
      { intros Hop. inversion Hop as [g0 cs0 ch Hin Hch| ]; subst. apply Exists_exists.
        destruct (is_computed ch) eqn:Eic.
        - destruct ch as [r1| | |]; try discriminate. inversion Hch; subst.
          assert (Hr1 : In r1 rels) by (unfold rels, computed_rels; apply in_flat_map; exists (CComputed r1); split; [exact Hin|now left]).
          destruct rels as [|r0 rels0] eqn:Er; [contradiction|].
          eexists. split; [apply in_or_app; left; now left|]. exists r1. split; [exact Hr1|assumption].
        - eexists. split; [apply in_or_app; right; apply in_map_iff; exists ch; split; [reflexivity|]; apply filter_In; split; [exact Hin|now rewrite Eic]|exact Hch]. }
      apply comp_seq_or. apply Forall2_app.
      * destruct rels as [|r0 rels0] eqn:Er; [constructor|]. constructor; [|constructor].
        intros s r s' E Hcl He. rewrite queried_nonstrict in E. unfold storage, F0 in E.
        destruct (exists_relation_in nid ns obj sub (r0 :: rels0) d) eqn:Ex.
        -- inversion E; subst. destruct Hcl as [H1 H2]. cbn in H1, H2. split; [split; congruence|reflexivity].
        -- assert (Hso : CompM (Exists (fun G => G) (map (fun r1 => Holds (ns, obj, r1)) (r0 :: rels0)))
                           (seq_or (map (fun r1 => ca g c ns obj r1 (depth - 1)%Z true) (r0 :: rels0)))).
           { apply comp_seq_or. apply Forall2_map_same. intros r1 Hr1. apply HA. intros _. eapply exists_relation_in_none; eauto. }
           destruct (Hso _ _ _ E Hcl He) as [[H1 H2] Hg]. cbn in H1, H2. split; [split; congruence|].
           intros [r1 [Hr1 Hh]]. apply Hg. apply Exists_map_id. eauto.
      * apply Forall2_map_same. intros ch Hch. apply filter_In in Hch as [Hch _]. apply HC.
        unfold children_nf in Hnf. rewrite forallb_forall in Hnf. auto.
    + (* and *)
      unfold seq_and. destruct cs as [|c0 cs0].
      { intros s r s' E Hcl He. inversion E; subst. split; [exact Hcl|]. intros Hop. inversion Hop; subst. congruence. }
      eapply comp_weaken with (G := HoldsAll (ns, obj, rel) (c0 :: cs0)).
      { intros Hop. inversion Hop; subst. assumption. }
      change (match map (fun ch => cc g (reset_visited c) ns obj rel ch depth) (c0 :: cs0) with [] => ret R_not | _ :: _ => seq_and_go (map (fun ch => cc g (reset_visited c) ns obj rel ch depth) (c0 :: cs0)) end)
        with (seq_and_go (map (fun ch => cc g (reset_visited c) ns obj rel ch depth) (c0 :: cs0))).
      apply comp_seq_and_go.
      unfold children_nf in Hnf. rewrite forallb_forall in Hnf.
      clear - HC Hnf. induction (c0 :: cs0) as [|x l IH]; [constructor|]. cbn [map]. constructor.
      * apply HC. apply Hnf. now left.
      * apply IH. intros; apply Hnf; now right.
  - (* check_child *)
    intros c ns obj rel ch depth Hnf. cbn [check_child].
    destruct ch as [r1|r1 cr1|op cs|inner]; cbn in Hnf; try discriminate.
    + destruct (depth <? 0)%Z; [apply comp_unknown|]. eapply comp_weaken; [|apply HA; discriminate]. intros Hh; inversion Hh; subst; assumption.
    + apply HT.
    + eapply comp_weaken; [|apply HR]. { intros Hh; inversion Hh; subst; assumption. }
      change (children_nf cs = true). rewrite <- (child_nf_rewrite op). exact Hnf.
  - (* check_ttu *)
    intros c ns obj rel r1 cr1 depth. cbn [check_ttu].
    destruct (depth <? 0)%Z; [apply comp_unknown|].
    intros s r s' E Hcl He.
    match type of E with ttu_loop _ ?f ?ps _ = _ => pose proof (comp_ttu_loop cr1 f ps) as HL end.
    match type of HL with ?P -> _ => assert (Hpre : P) by (intros; apply HA; discriminate) end.
    destruct (HL Hpre _ _ _ E Hcl He) as [Hcl0 Hg]. split; [exact Hcl0|].
    intros Hh. inversion Hh as [|n0 o0 r0 r' cr' sn so sr Hin Hs|]; subst. apply Hg.
    destruct (set_rows_matching ns obj r1 sn so sr Hin) as [x [Hx Es]].
    set (rows0 := matching nid _ d) in *.
    destruct rows0 as [|y ys] eqn:Er; [contradiction|]. rewrite <- Er in *. clear Er.
    rewrite <- (concat_chunk defaultPageSize rows0 Store.SqlProofs.page_size_pos) in Hx. apply in_concat in Hx as [p [Hp Hxp]].
    exists p, x, sn, so, sr. auto.
Qed.

Theorem comp_all : forall gas, PA gas /\ PE gas /\ PR gas /\ PC gas /\ PT gas.
Proof. induction gas as [|g IH]; [apply comp_zero|apply comp_step; exact IH]. Qed.
End Clean.
