(* Model of the expand engine (internal/expand/engine.go): buildTreeRecursive with its depth clamp, the visited
   set in the context and the page loop; and the reachability specification it is checked against. *)
From Coq Require Import List Bool Arith NArith ZArith Lia.
From Keto Require Import Base.Bytes Base.ListX Store.Sql Engine.Engine.
Import ListNotations.

Inductive tree := Leaf (s : isub) | Union (s : isub) (cs : list tree).

Section Expand.
Variable nid : N.
Variable d : db.
Variable global : Z.      (* limit.max_read_depth *)

(* subjects stored under a subject set, in shard order (all pages) *)
Definition members (n : bytes) (o : uid) (r : bytes) : list isub :=
  map r_sub (matching nid {| iq_ns := Some n; iq_obj := Some o; iq_rel := Some r; iq_sub := None |} d).

Definition clamp (depth : Z) : Z := if (depth <=? 0)%Z || (global <? depth)%Z then global else depth.

(* the loop over the members of one subject set; a nil child becomes a leaf *)
Definition build_children (b : list vnode -> isub -> option (option tree * list vnode)) : list isub -> list vnode -> option (list tree * list vnode) :=
  fix children (l : list isub) (V : list vnode) : option (list tree * list vnode) :=
    match l with
    | [] => Some ([], V)
    | m :: rest =>
      match b V m with
      | None => None
      | Some (c, V') =>
        match children rest V' with
        | None => None
        | Some (cs, V'') => Some (match c with Some t => t | None => Leaf m end :: cs, V'')
        end
      end
    end.

(* returns (nil-or-tree, visited'); None = out of gas *)
Fixpoint build (gas : nat) (V : list vnode) (s : isub) (depth : Z) {struct gas} : option (option tree * list vnode) :=
  match gas with
  | 0 => None
  | S g =>
    let depth := clamp depth in
    match s with
    | ISid _ => Some (Some (Leaf s), V)
    | ISet n o r =>
      let v := unique_id n o r in
      if existsb (vnode_eqb v) V then Some (None, V) else
      let V1 := v :: V in
      match members n o r with
      | [] => Some (None, V1)
      | ms =>
        if (depth <=? 1)%Z then Some (Some (Leaf s), V1) else
        match build_children (fun V0 m => build g V0 m (depth - 1)) ms V1 with
        | None => None
        | Some (cs, V') => Some (Some (Union s cs), V')
        end
      end
    end
  end.

Definition BuildTree (gas : nat) (s : isub) (depth : Z) : option (option tree) :=
  match build gas [] s depth with Some (t, _) => Some t | None => None end.

(* ---- specification ---- *)
(* subjects reachable from s in at most k membership steps *)
Fixpoint reach_within (k : nat) (s : isub) : list isub :=
  match k with
  | 0 => []
  | S j => match s with
           | ISid _ => []
           | ISet n o r => let ms := members n o r in ms ++ flat_map (reach_within j) ms
           end
  end.
(* all subjects reachable from s (worklist; fuel = an upper bound on the number of distinct subject sets + 1) *)
Definition isub_mem (s : isub) (l : list isub) : bool := existsb (isub_eqb s) l.
Fixpoint closure (fuel : nat) (todo : list isub) (seen : list isub) : list isub :=
  match fuel with
  | 0 => seen
  | S f =>
    match todo with
    | [] => seen
    | s :: rest =>
      if isub_mem s seen then closure f rest seen
      else match s with
           | ISid _ => closure f rest (s :: seen)
           | ISet n o r => closure f (members n o r ++ rest) (s :: seen)
           end
    end
  end.
End Expand.

(* tree observations *)
Fixpoint height (t : tree) : nat :=
  match t with Leaf _ => 1 | Union _ cs => S (fold_right (fun c m => Nat.max (height c) m) 0 cs) end.
Fixpoint subjects (t : tree) : list isub :=
  match t with Leaf s => [s] | Union s cs => s :: flat_map subjects cs end.
Fixpoint unions (t : tree) : list isub :=
  match t with Leaf _ => [] | Union s cs => s :: flat_map unions cs end.
Definition root (t : tree) : isub := match t with Leaf s | Union s _ => s end.
(* parent -> child edges *)
Fixpoint edges (t : tree) : list (isub * isub) :=
  match t with Leaf _ => [] | Union s cs => map (fun c => (s, root c)) cs ++ flat_map edges cs end.
