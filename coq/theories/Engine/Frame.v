(* C14, on the engine model: the state a check keeps (visited sets in its context, the counters and flags of its
   evaluation) is private to that check.  Run the same check (a) from the empty evaluation state and (b) from ANY state
   left behind by other requests - their visited sets P on the heap, k storage operations already counted, any flags -
   then (b) gives the same result, changes its own part of the state exactly as (a) does, and leaves P untouched.
   (The fault plan is indexed by the check's own operation count, so that "the i-th operation of this check fails"
   means the same in both runs.)  Proof: a simulation through every function of the engine. *)
From Coq Require Import List Bool Arith NArith ZArith Lia.
From Keto Require Import Base.Bytes Base.ListX Store.Sql Engine.Ast Engine.Engine.
Import ListNotations.

Section Frame.
Variable cfg : config.
Variable strict : bool.
Variable nid : N.
Variable d : db.
Variable maxWidth : nat.
Variable F : nat -> bool.
Variable sub : isub.

Variable P : list (list vnode).      (* visited sets of other requests *)
Variable k : nat.                    (* storage operations issued before this check starts *)
Variables b1 b2 b3 : bool.           (* flags already raised *)
Definition F' (n : nat) : bool := F (n - k).

Definition srel (s s' : est) : Prop :=
  heap s' = P ++ heap s /\ calls s' = k + calls s /\
  cut s' = b1 || cut s /\ cut_neg s' = b2 || cut_neg s /\ revisit s' = b3 || revisit s.
Definition crel (c c' : ectx) : Prop :=
  neg c' = neg c /\ vh c' = option_map (Nat.add (length P)) (vh c).

Definition msim (m m' : M) : Prop := forall s s', srel s s' ->
  match m s with
  | None => m' s' = None
  | Some (r, t) => exists t', m' s' = Some (r, t') /\ srel t t'
  end.

Ltac fin := first [reflexivity | eexists; split; [reflexivity|auto]].

Lemma sim_ret r : msim (ret r) (ret r).
Proof. intros s s' H. cbn. fin. Qed.
Lemma sim_none : msim (fun _ => None) (fun _ => None).
Proof. intros s s' H. reflexivity. Qed.

Lemma srel_set_cut c c' s s' : crel c c' -> srel s s' -> srel (set_cut c s) (set_cut c' s').
Proof. intros [Hn _] (H1 & H2 & H3 & H4 & H5). unfold srel, set_cut; cbn. rewrite Hn, H4. repeat split; auto.
  - now rewrite orb_true_r.
  - now rewrite orb_assoc. Qed.
Lemma srel_tick s s' : srel s s' -> srel (tick s) (tick s').
Proof. intros (H1 & H2 & H3 & H4 & H5). unfold srel, tick; cbn. repeat split; auto. lia. Qed.
Lemma srel_set_revisit s s' : srel s s' -> srel (set_revisit s) (set_revisit s').
Proof. intros (H1 & H2 & H3 & H4 & H5). unfold srel, set_revisit; cbn. repeat split; auto. now rewrite orb_true_r. Qed.

Lemma sim_unknown c c' : crel c c' -> msim (unknown c) (unknown c').
Proof. intros Hc s s' H. cbn. eexists. split; [reflexivity|]. now apply srel_set_cut. Qed.

Lemma sim_storage {A} (op : A) s s' : srel s s' ->
  fst (storage F' op s') = fst (storage F op s) /\ srel (snd (storage F op s)) (snd (storage F' op s')).
Proof.
  intros H. unfold storage, F'. destruct H as (H1 & H2 & H3) eqn:E. clear E. rewrite H2.
  replace (k + calls s - k) with (calls s) by lia.
  destruct (F (calls s)); cbn; (split; [reflexivity|apply srel_tick; repeat split; tauto]).
Qed.

Lemma sim_seq_or l : forall l', Forall2 msim l l' -> msim (seq_or l) (seq_or l').
Proof.
  induction l as [|m r IH]; intros l' H; inversion H; subst; intros s s' Hs; cbn.
  - fin.
  - match goal with Hx : msim m ?y |- _ => pose proof (Hx s s' Hs) as Hm end.
    destruct (m s) as [[res t]|].
    + destruct Hm as (t' & -> & Ht). destruct (r_err res || match r_m res with IsMember => true | _ => false end); [fin|].
      match goal with Hr : Forall2 msim r ?l2 |- _ => exact (IH l2 Hr t t' Ht) end.
    + rewrite Hm. reflexivity.
Qed.
Lemma sim_seq_and_go l : forall l', Forall2 msim l l' -> msim (seq_and_go l) (seq_and_go l').
Proof.
  induction l as [|m r IH]; intros l' H; inversion H; subst; intros s s' Hs; cbn.
  - fin.
  - match goal with Hx : msim m ?y |- _ => pose proof (Hx s s' Hs) as Hm end.
    destruct (m s) as [[res t]|].
    + destruct Hm as (t' & -> & Ht). destruct (r_err res || negb match r_m res with IsMember => true | _ => false end); [fin|].
      match goal with Hr : Forall2 msim r ?l2 |- _ => exact (IH l2 Hr t t' Ht) end.
    + rewrite Hm. reflexivity.
Qed.
Lemma sim_seq_and l l' : Forall2 msim l l' -> msim (seq_and l) (seq_and l').
Proof. intros H. destruct H; [apply sim_ret|]. unfold seq_and. apply sim_seq_and_go. constructor; assumption. Qed.

Lemma Forall2_app' {A B} (R : A -> B -> Prop) l1 l1' l2 l2' : Forall2 R l1 l1' -> Forall2 R l2 l2' -> Forall2 R (l1 ++ l2) (l1' ++ l2').
Proof. intros H; induction H; cbn; auto. Qed.
Lemma Forall2_map_same {A B} (R : B -> B -> Prop) (f g : A -> B) l : (forall x, R (f x) (g x)) -> Forall2 R (map f l) (map g l).
Proof. intros H. induction l; cbn; constructor; auto. Qed.

Lemma sim_check_direct c c' ns obj rel depth : crel c c' ->
  msim (check_direct nid d F sub c ns obj rel depth) (check_direct nid d F' sub c' ns obj rel depth).
Proof.
  intros Hc. unfold check_direct. destruct (depth <=? 0)%Z; [now apply sim_unknown|].
  intros s s' Hs.
  match goal with |- context [storage F ?op s] => pose proof (sim_storage op s s' Hs) as [E1 E2];
    destruct (storage F op s) as [x t]; destruct (storage F' op s') as [x' t'] end.
  cbn [fst snd] in *. subst x'. destruct x as [[|]|]; fin.
Qed.

(* ---- the visited sets ---- *)
Lemma heap_update_app h f : forall H, heap_update (P ++ H) (length P + h) f = P ++ heap_update H h f.
Proof. induction P as [|x r IH]; intros H; cbn; [reflexivity|]. now rewrite IH. Qed.
Lemma nth_app_shift h (H : list (list vnode)) : nth (length P + h) (P ++ H) [] = nth h H [].
Proof. apply app_nth2_plus. Qed.

Lemma sim_init_visited c c' s s' : crel c c' -> srel s s' ->
  crel (fst (init_visited c s)) (fst (init_visited c' s')) /\ srel (snd (init_visited c s)) (snd (init_visited c' s')).
Proof.
  intros [Hn Hv] Hs. unfold init_visited. destruct (vh c) as [h|] eqn:E; cbn [option_map] in Hv; rewrite Hv; cbn [fst snd].
  - split; [split; [exact Hn|rewrite Hv, E; reflexivity]|exact Hs].
  - destruct Hs as (H1 & H2 & H3 & H4 & H5). split.
    + split; cbn; [exact Hn|]. rewrite H1, app_length. reflexivity.
    + unfold srel; cbn. rewrite H1, app_assoc. repeat split; auto.
Qed.

Lemma sim_check_and_add c c' v s s' : crel c c' -> srel s s' ->
  let '(ic, seen, t) := check_and_add c v s in
  let '(ic', seen', t') := check_and_add c' v s' in
  seen' = seen /\ crel ic ic' /\ srel t t'.
Proof.
  intros Hc Hs. unfold check_and_add.
  pose proof (sim_init_visited c c' s s' Hc Hs) as [Hc1 Hs1].
  destruct (init_visited c s) as [ic s1]. destruct (init_visited c' s') as [ic' s1']. cbn [fst snd] in *.
  assert (Hc1' := Hc1). destruct Hc1 as [Hn Hv]. destruct (vh ic) as [h|] eqn:E; cbn [option_map] in Hv; rewrite Hv.
  - destruct Hs1 as (H1 & H2 & H3 & H4 & H5). rewrite H1, nth_app_shift.
    destruct (existsb (vnode_eqb v) (nth h (heap s1) [])).
    + split; [reflexivity|]. split; [exact Hc1'|]. apply srel_set_revisit. repeat split; auto.
    + split; [reflexivity|]. split; [exact Hc1'|].
      unfold srel; cbn. rewrite heap_update_app. repeat split; auto.
  - split; [reflexivity|]. split; [exact Hc1'|exact Hs1].
Qed.

Lemma sim_expand_loop ca ca' :
  (forall ic ic' n o r, crel ic ic' -> msim (ca ic n o r) (ca' ic' n o r)) ->
  forall l ic ic', crel ic ic' -> msim (expand_loop ca l ic) (expand_loop ca' l ic').
Proof.
  intros Hca. induction l as [|t r IH]; intros ic ic' Hc s s' Hs; cbn [expand_loop].
  - fin.
  - pose proof (sim_check_and_add ic ic' (unique_id (tv_ns t) (tv_obj t) (tv_rel t)) s s' Hc Hs) as H.
    destruct (check_and_add ic _ s) as [[jc seen] s1]. destruct (check_and_add ic' _ s') as [[jc' seen'] s1'].
    destruct H as (-> & Hc1 & Hs1).
    destruct seen; [exact (IH jc jc' Hc1 s1 s1' Hs1)|].
    pose proof (Hca jc jc' (tv_ns t) (tv_obj t) (tv_rel t) Hc1 s1 s1' Hs1) as H.
    destruct (ca jc (tv_ns t) (tv_obj t) (tv_rel t) s1) as [[res s2]|].
    + destruct H as (s2' & -> & Hs2). destruct (r_err res || match r_m res with IsMember => true | _ => false end); [fin|].
      exact (IH jc jc' Hc1 s2 s2' Hs2).
    + rewrite H. reflexivity.
Qed.

Lemma sim_ttu_loop ca ca' : (forall n o, msim (ca n o) (ca' n o)) ->
  forall ps, msim (ttu_loop F ca ps) (ttu_loop F' ca' ps).
Proof.
  intros Hca. induction ps as [|p rest IH]; intros s s' Hs; cbn [ttu_loop].
  - fin.
  - pose proof (sim_storage tt s s' Hs) as [E1 E2].
    destruct (storage F tt s) as [x t]; destruct (storage F' tt s') as [x' t']. cbn [fst snd] in *. subst x'.
    destruct x as [u|]; [|fin].
    assert (Hl : msim (seq_or (flat_map (fun x => match r_sub x with ISet n o _ => [ca n o] | ISid _ => [] end) p))
                      (seq_or (flat_map (fun x => match r_sub x with ISet n o _ => [ca' n o] | ISid _ => [] end) p))).
    { apply sim_seq_or. clear -Hca. induction p as [|x p IHp]; cbn; [constructor|].
      apply Forall2_app'; [|exact IHp]. destruct (r_sub x); constructor; auto. }
    specialize (Hl t t' E2).
    destruct (seq_or _ t) as [[res t2]|].
    + destruct Hl as (t2' & -> & Ht2). destruct (r_err res || match r_m res with IsMember => true | _ => false end); [fin|].
      exact (IH t2 t2' Ht2).
    + rewrite Hl. reflexivity.
Qed.

Lemma crel_reset c c' : crel c c' -> crel (reset_visited c) (reset_visited c').
Proof. intros [Hn _]. split; cbn; auto. Qed.
Lemma crel_enter_neg c c' : crel c c' -> crel (enter_neg c) (enter_neg c').
Proof. intros _. split; reflexivity. Qed.

Notation CA := (check_allowed cfg strict nid d maxWidth).
Notation CE := (check_expand cfg strict nid d maxWidth).
Notation CR := (check_rewrite cfg strict nid d maxWidth).
Notation CC := (check_child cfg strict nid d maxWidth).
Notation CI := (check_inverted cfg strict nid d maxWidth).
Notation CT := (check_ttu cfg strict nid d maxWidth).

Definition all_sim (g : nat) : Prop :=
  (forall c c' ns obj rel depth skip, crel c c' -> msim (CA F sub g c ns obj rel depth skip) (CA F' sub g c' ns obj rel depth skip)) /\
  (forall c c' ns obj rel depth, crel c c' -> msim (CE F sub g c ns obj rel depth) (CE F' sub g c' ns obj rel depth)) /\
  (forall c c' ns obj rel op cs depth, crel c c' -> msim (CR F sub g c ns obj rel op cs depth) (CR F' sub g c' ns obj rel op cs depth)) /\
  (forall c c' ns obj rel ch depth, crel c c' -> msim (CC F sub g c ns obj rel ch depth) (CC F' sub g c' ns obj rel ch depth)) /\
  (forall c c' ns obj rel inner depth, crel c c' -> msim (CI F sub g c ns obj rel inner depth) (CI F' sub g c' ns obj rel inner depth)) /\
  (forall c c' ns obj r cr depth, crel c c' -> msim (CT F sub g c ns obj r cr depth) (CT F' sub g c' ns obj r cr depth)).

Lemma frame_all : forall g, all_sim g.
Proof.
  induction g as [|g (IA & IE & IR & IC & II & IT)].
  { repeat split; intros; apply sim_none. }
  repeat split.
  - (* check_allowed *)
    intros c c' ns obj rel depth skip Hc. cbn [check_allowed].
    destruct (depth <=? 0)%Z; [now apply sim_unknown|].
    destruct (ast_relation_for cfg ns rel) as [relation|]; [|apply sim_ret].
    cbv zeta. apply sim_seq_or. repeat apply Forall2_app'.
    + destruct (match relation with Some x => rel_rewrite x | None => None end); constructor; auto.
    + match goal with |- context [if ?b then _ else _] => destruct b end; constructor; auto. now apply sim_check_direct.
    + match goal with |- context [if ?b then _ else _] => destruct b end; constructor; auto.
  - (* check_expand *)
    intros c c' ns obj rel depth Hc. cbn [check_expand].
    destruct (depth <=? 0)%Z; [now apply sim_unknown|].
    intros s s' Hs.
    pose proof (sim_init_visited c c' s s' Hc Hs) as [Hc1 Hs1].
    destruct (init_visited c s) as [ic s1]. destruct (init_visited c' s') as [ic' s1']. cbn [fst snd] in *.
    match goal with |- context [storage F ?op s1] => pose proof (sim_storage op s1 s1' Hs1) as [E1 E2];
      destruct (storage F op s1) as [x t]; destruct (storage F' op s1') as [x' t'] end.
    cbn [fst snd] in *. subst x'. destruct x as [results|]; [|fin].
    destruct (existsb tv_found results); [fin|].
    destruct (maxWidth <? length results).
    + apply sim_expand_loop; auto. now apply srel_set_cut.
    + apply sim_expand_loop; auto.
  - (* check_rewrite *)
    intros c c' ns obj rel op cs depth Hc. cbn [check_rewrite].
    destruct (depth <=? 0)%Z; [now apply sim_unknown|].
    destruct op.
    + cbv zeta. apply sim_seq_or. apply Forall2_app'.
      * destruct (computed_rels cs) as [|r0 rels] eqn:Er; constructor; [|constructor].
        intros s s' Hs.
        destruct (queried_rels cfg strict ns (r0 :: rels)) as [|q0 qs].
        -- apply (sim_seq_or _ _ (Forall2_map_same msim _ _ (r0 :: rels) (fun r => IA c c' ns obj r (depth - 1)%Z true Hc)) s s' Hs).
        -- match goal with |- context [storage F ?op s] => pose proof (sim_storage op s s' Hs) as [E1 E2];
             destruct (storage F op s) as [x t]; destruct (storage F' op s') as [x' t'] end.
           cbn [fst snd] in *. subst x'. destruct x as [[|]|]; [fin| |fin].
           apply (sim_seq_or _ _ (Forall2_map_same msim _ _ (r0 :: rels) (fun r => IA c c' ns obj r (depth - 1)%Z true Hc)) t t' E2).
      * apply Forall2_map_same. intros ch. auto.
    + cbv zeta. apply sim_seq_and. apply Forall2_map_same. intros ch. apply IC. now apply crel_reset.
  - (* check_child *)
    intros c c' ns obj rel ch depth Hc. cbn [check_child].
    destruct ch; auto.
    destruct (depth <? 0)%Z; [now apply sim_unknown|auto].
  - (* check_inverted *)
    intros c c' ns obj rel inner depth Hc. cbn [check_inverted].
    destruct (depth <? 0)%Z eqn:Ed; [now apply sim_unknown|].
    pose proof (crel_enter_neg c c' Hc) as Hc1. cbv zeta.
    match goal with |- msim (fun z => match ?m1 z with _ => _ end) (fun z0 => match ?m2 z0 with _ => _ end) =>
      assert (Hin : msim m1 m2) end.
    { destruct inner; auto. }
    intros s s' Hs. specialize (Hin s s' Hs).
    match goal with |- match (match ?x with _ => _ end) with _ => _ end => destruct x as [[res t]|] end.
    + destruct Hin as (t' & -> & Ht). destruct (r_err res); fin.
    + rewrite Hin. reflexivity.
  - (* check_ttu *)
    intros c c' ns obj r cr depth Hc. cbn [check_ttu].
    destruct (depth <? 0)%Z; [now apply sim_unknown|].
    intros s s' Hs. cbv zeta. apply sim_ttu_loop; auto.
Qed.

(* ---- the statement ---- *)
(* any starting state another request may have left: P on the heap, k operations counted, flags b1 b2 b3 *)
Definition start_state : est := {| heap := P; calls := k; cut := b1; cut_neg := b2; revisit := b3 |}.
Lemma srel_start : srel est0 start_state.
Proof. unfold srel, start_state, est0; cbn. rewrite app_nil_r, Nat.add_0_r, !orb_false_r. repeat split; auto. Qed.

Theorem check_state_is_private gas ns obj rel depth skip :
  match CA F sub gas ctx0 ns obj rel depth skip est0 with
  | None => CA F' sub gas ctx0 ns obj rel depth skip start_state = None
  | Some (r, t) =>
    exists t', CA F' sub gas ctx0 ns obj rel depth skip start_state = Some (r, t') /\
               heap t' = P ++ heap t /\ calls t' = k + calls t /\
               cut t' = b1 || cut t /\ cut_neg t' = b2 || cut_neg t /\ revisit t' = b3 || revisit t
  end.
Proof.
  destruct (frame_all gas) as (IA & _).
  assert (Hc : crel ctx0 ctx0) by (split; reflexivity).
  exact (IA ctx0 ctx0 ns obj rel depth skip Hc est0 start_state srel_start).
Qed.

(* in particular: the visited sets of the other requests are exactly as they were *)
Corollary other_requests_visited_sets_untouched gas ns obj rel depth skip r t' :
  CA F' sub gas ctx0 ns obj rel depth skip start_state = Some (r, t') ->
  firstn (length P) (heap t') = P.
Proof.
  intros H. pose proof (check_state_is_private gas ns obj rel depth skip) as Hp.
  destruct (CA F sub gas ctx0 ns obj rel depth skip est0) as [[r0 t]|].
  - destruct Hp as (t2 & E & Hh & _). rewrite E in H. inversion H; subst. rewrite Hh.
    rewrite firstn_app, Nat.sub_diag, firstn_all. cbn. now rewrite app_nil_r.
  - rewrite Hp in H. discriminate.
Qed.

End Frame.

(* the answer of CheckRelationTuple is therefore a function of the request, the configuration and the stored rows alone_q *)
Theorem answer_independent_of_other_requests gas cfg strict nid d maxWidth sub ns obj rel request global P k b1 b2 b3 :
  let F := fun _ : nat => false in
  match CheckRelationTuple gas cfg strict nid d maxWidth F ns obj rel sub request global with
  | None => True
  | Some o =>
    exists t', check_allowed cfg strict nid d maxWidth F sub gas ctx0 ns obj rel (eff_depth request global) false
                 (start_state P k b1 b2 b3) = Some (o_res o, t')
  end.
Proof.
  intros F. unfold CheckRelationTuple.
  pose proof (check_state_is_private cfg strict nid d maxWidth F sub P k b1 b2 b3 gas ns obj rel (eff_depth request global) false) as H.
  destruct (check_allowed cfg strict nid d maxWidth F sub gas ctx0 ns obj rel (eff_depth request global) false est0) as [[r t]|]; [|exact I].
  destruct H as (t' & E & _). exists t'. cbn [o_res]. exact E.
Qed.

(* ---- a batch: checks evaluated one after another on ONE shared evaluation state ---- *)
Section Batch.
Variable cfg : config.
Variable strict : bool.
Variable nid : N.
Variable d : db.
Variable maxWidth : nat.
Variable gas : nat.
Definition nofault : nat -> bool := fun _ => false.

Record query := { q_ns : bytes; q_obj : uid; q_rel : bytes; q_sub : isub; q_depth : Z }.
Definition run_one (q : query) (s : est) : option (result * est) :=
  check_allowed cfg strict nid d maxWidth nofault (q_sub q) gas ctx0 (q_ns q) (q_obj q) (q_rel q) (q_depth q) false s.
Definition alone_q (q : query) : option (result * est) := run_one q est0.

(* every entry starts in whatever state the entries before it left behind *)
Fixpoint run_batch (qs : list query) (s : est) : option (list result * est) :=
  match qs with
  | [] => Some ([], s)
  | q :: r =>
    match run_one q s with
    | None => None
    | Some (res, t) => match run_batch r t with None => None | Some (l, u) => Some (res :: l, u) end
    end
  end.

Lemma start_state_eta s : start_state (heap s) (calls s) (cut s) (cut_neg s) (revisit s) = s.
Proof. destruct s; reflexivity. Qed.

Lemma run_one_framed q s :
  match alone_q q with
  | None => run_one q s = None
  | Some (r, _) => exists t', run_one q s = Some (r, t')
  end.
Proof.
  pose proof (check_state_is_private cfg strict nid d maxWidth nofault (q_sub q) (heap s) (calls s) (cut s) (cut_neg s) (revisit s)
                gas (q_ns q) (q_obj q) (q_rel q) (q_depth q) false) as H.
  rewrite start_state_eta in H. unfold alone_q, run_one.
  change (F' nofault (calls s)) with nofault in H.
  destruct (check_allowed cfg strict nid d maxWidth nofault (q_sub q) gas ctx0 (q_ns q) (q_obj q) (q_rel q) (q_depth q) false est0) as [[r t]|].
  - destruct H as (t' & E & _). eauto.
  - exact H.
Qed.

(* each entry of a batch gets exactly the answer it gets when it is asked alone_q, whatever came before it *)
Theorem batch_entries_answer_as_alone : forall qs s l u,
  run_batch qs s = Some (l, u) -> Forall2 (fun q r => exists t, alone_q q = Some (r, t)) qs l.
Proof.
  induction qs as [|q qs IH]; intros s l u H; cbn [run_batch] in H.
  - inversion H; subst. constructor.
  - pose proof (run_one_framed q s) as Hq.
    destruct (run_one q s) as [[res t]|] eqn:E; [|discriminate].
    destruct (run_batch qs t) as [[l' u']|] eqn:E2; [|discriminate]. inversion H; subst.
    constructor; [|eapply IH; eassumption].
    destruct (alone_q q) as [[r0 t0]|]; [|discriminate].
    destruct Hq as (t' & Hq). inversion Hq; subst. eauto.
Qed.
Theorem batch_runs_when_entries_run : forall qs s,
  Forall (fun q => alone_q q <> None) qs -> run_batch qs s <> None.
Proof.
  induction qs as [|q qs IH]; intros s H; cbn [run_batch]; [discriminate|].
  inversion H; subst. pose proof (run_one_framed q s) as Hq.
  destruct (alone_q q) as [[r0 t0]|]; [|congruence].
  destruct Hq as (t' & ->). specialize (IH t' H3).
  destruct (run_batch qs t') as [[l u]|]; [discriminate|congruence].
Qed.
End Batch.
