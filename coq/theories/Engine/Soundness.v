(* Soundness of the check engine for configurations without '!': an IsMember answer is always justified by the
   stored relationships (Holds), for every depth, width, storage order, visited-set state and fault plan.
   This is the "fail closed" half of C01/C02/C03. *)
From Coq Require Import List Bool Arith NArith ZArith Lia Permutation.
From Keto Require Import Base.Bytes Base.ListX Store.Sql Store.PagingProofs Engine.Ast Engine.Engine Engine.RefSem.
Import ListNotations.

Fixpoint child_nf (c : child) : bool :=
  match c with
  | CComputed _ | CTuple _ _ => true
  | CRewrite _ cs => (fix all (l : list child) := match l with [] => true | x :: r => child_nf x && all r end) cs
  | CInvert _ => false
  end.
Definition children_nf (cs : list child) : bool := forallb child_nf cs.
Lemma child_nf_rewrite op cs : child_nf (CRewrite op cs) = children_nf cs.
Proof. induction cs as [|c cs IH]; [reflexivity|]. cbn in *. now rewrite IH. Qed.

Section Sound.
Variable cfg : config.
Variable strict : bool.
Variable nid : N.
Variable d : db.
Variable maxWidth : nat.
Variable F : nat -> bool.
Variable sub : isub.

(* every rewrite of the configuration is '!'-free *)
Hypothesis cfg_nf : forall n r x rw, ast_relation_for cfg n r = inl (Some x) -> rel_rewrite x = Some rw -> children_nf (rw_children rw) = true.

Notation Holds := (Holds cfg nid d sub).
Notation HoldsOp := (HoldsOp cfg nid d sub).
Notation HoldsAll := (HoldsAll cfg nid d sub).
Notation HoldsChild := (HoldsChild cfg nid d sub).
Notation direct := (direct nid d sub).
Notation set_rows := (set_rows nid d).
Notation M := (Engine.M).

(* a check is sound for G: IsMember implies G, and an error never comes with IsMember *)
Definition SoundM (G : Prop) (m : M) : Prop :=
  forall s r s', m s = Some (r, s') -> (r_m r = IsMember -> G) /\ (r_err r = true -> r_m r <> IsMember).

Lemma sound_weaken (G G' : Prop) m : (G -> G') -> SoundM G m -> SoundM G' m.
Proof. intros H Hs s r s' E. destruct (Hs s r s' E). split; auto. Qed.
Lemma sound_ret_not G : SoundM G (ret R_not). Proof. intros s r s' E. inversion E; subst. cbn. split; congruence. Qed.
Lemma sound_unknown G c : SoundM G (unknown c). Proof. intros s r s' E. inversion E; subst. cbn. split; congruence. Qed.
Lemma sound_ret_err G : SoundM G (ret R_err). Proof. intros s r s' E. inversion E; subst. cbn. split; congruence. Qed.

Lemma sound_seq_or G checks : Forall (SoundM G) checks -> SoundM G (seq_or checks).
Proof.
  induction 1 as [|c cs Hc Hcs IH]; intros s r s' E; cbn in E.
  - inversion E; subst. cbn. split; congruence.
  - destruct (c s) as [[res s1]|] eqn:Ec; [|discriminate].
    destruct (r_err res || match r_m res with IsMember => true | _ => false end) eqn:Eb.
    + inversion E; subst. eapply Hc; eauto.
    + eapply IH; eauto.
Qed.

Lemma sound_seq_and_go g cs checks :
  Forall2 (fun ch m => SoundM (HoldsChild g ch) m) cs checks -> SoundM (HoldsAll g cs) (seq_and_go checks).
Proof.
  induction 1 as [|ch m cs checks Hm Hrest IH]; intros s r s' E; cbn in E.
  - inversion E; subst. cbn. split; [intros; constructor|congruence].
  - destruct (m s) as [[res s1]|] eqn:Em; [|discriminate].
    destruct (r_err res || negb match r_m res with IsMember => true | _ => false end) eqn:Eb.
    + inversion E; subst. cbn. split; congruence.
    + apply orb_false_iff in Eb as [Ee Ei]. apply negb_false_iff in Ei.
      destruct (Hm s res s1 Em) as [Hg _]. destruct (IH s1 r s' E) as [Hall Herr]. split; auto.
      intros Hr. constructor; auto. apply Hg. destruct (r_m res); try discriminate; reflexivity.
Qed.

(* ---- storage facts ---- *)
Lemma exists_is_direct ns obj rel :
  ExistsRelationTuples nid {| iq_ns := Some ns; iq_obj := Some obj; iq_rel := Some rel; iq_sub := Some sub |} d = direct (ns, obj, rel).
Proof.
  unfold ExistsRelationTuples, RefSem.direct. apply existsb_ext_in'. intros x _. unfold matches_q; cbn.
  rewrite (bytes_eqb_sym' ns), (uid_eqb_sym obj), (bytes_eqb_sym' rel), (isub_eqb_sym sub). now rewrite !andb_assoc.
Qed.

Lemma trav_in_set_rows ns obj rel t :
  In t (TraverseSubjectSetExpansion nid ns obj rel sub d) ->
  In (tv_ns t, tv_obj t, tv_rel t) (set_rows (ns, obj, rel)) /\ (tv_found t = true -> direct (tv_ns t, tv_obj t, tv_rel t) = true).
Proof.
  unfold TraverseSubjectSetExpansion. intros H.
  assert (Hsub : forall l x, In x (take_until_found l) -> In x l).
  { induction l as [|y l IH]; cbn; intros x Hx; [contradiction|]. destruct (tv_found y); destruct Hx as [<-|Hx]; auto; contradiction. }
  apply Hsub in H. apply in_map_iff in H as [r [<- Hr]].
  eapply Permutation_in in Hr; [|apply sort_perm]. apply filter_In in Hr as [Hr Hp].
  destruct (r_sub r) as [u|n o rl] eqn:Es; [rewrite !andb_true_iff in Hp; cbn in Hp; destruct Hp; discriminate|].
  cbn [tv_ns tv_obj tv_rel tv_found]. split; [|auto].
  unfold RefSem.set_rows. apply in_flat_map. exists r. split; auto.
  rewrite andb_true_iff in Hp. destruct Hp as [Hp _]. rewrite Hp, Es. now left.
Qed.

Lemma exists_relation_in_direct ns obj rels :
  exists_relation_in nid ns obj sub rels d = true -> exists r, In r rels /\ direct (ns, obj, r) = true.
Proof.
  unfold exists_relation_in. intros H. apply existsb_exists in H as [x [Hx Hp]].
  rewrite !andb_true_iff in Hp. destruct Hp as [[[[Hn Hns] Ho] Hs] Hr].
  apply existsb_exists in Hr as [r [Hr Er]]. exists r. split; auto.
  unfold RefSem.direct. apply existsb_exists. exists x. split; auto.
  apply bytes_eqb_eq in Er. subst r. rewrite Hn, Hns, Ho, Hs, bytes_eqb_refl. reflexivity.
Qed.

Lemma matching_set_rows ns obj r x n o rl :
  In x (matching nid {| iq_ns := Some ns; iq_obj := Some obj; iq_rel := Some r; iq_sub := None |} d) ->
  r_sub x = ISet n o rl -> In (n, o, rl) (set_rows (ns, obj, r)).
Proof.
  intros Hx Es. eapply Permutation_in in Hx; [|apply matching_perm]. apply filter_In in Hx as [Hx Hp].
  unfold RefSem.set_rows. apply in_flat_map. exists x. split; auto.
  apply andb_true_iff in Hp as [Hn Hq]. unfold matches_q in Hq; cbn in Hq. rewrite !andb_true_iff in Hq. destruct Hq as [[[H1 H2] H3] _].
  rewrite Hn, (bytes_eqb_sym' (r_ns x)), H1, (uid_eqb_sym (r_obj x)), H2, (bytes_eqb_sym' (r_rel x)), H3, Es. now left.
Qed.

(* ---- the loops ---- *)
Lemma sound_expand_loop (g : goal) ca l : forall ic,
  (forall t ic', In t l -> SoundM (Holds (tv_ns t, tv_obj t, tv_rel t)) (ca ic' (tv_ns t) (tv_obj t) (tv_rel t))) ->
  SoundM (exists t, In t l /\ Holds (tv_ns t, tv_obj t, tv_rel t)) (expand_loop ca l ic).
Proof.
  induction l as [|t l IH]; intros ic Hca s r s' E; cbn in E.
  - inversion E; subst. cbn. split; congruence.
  - destruct (check_and_add ic (unique_id (tv_ns t) (tv_obj t) (tv_rel t)) s) as [[ic' seen] s1] eqn:Ec.
    assert (Hrest : SoundM (exists t0, In t0 l /\ Holds (tv_ns t0, tv_obj t0, tv_rel t0)) (expand_loop ca l ic')).
    { apply IH. intros; apply Hca; now right. }
    destruct seen.
    + destruct (Hrest _ _ _ E) as [H1 H2]. split; auto. intros Hr. destruct (H1 Hr) as [t0 [Hin Hh]]. exists t0. split; [now right|auto].
    + destruct (ca ic' (tv_ns t) (tv_obj t) (tv_rel t) s1) as [[res s2]|] eqn:Eca; [|discriminate].
      destruct (r_err res || match r_m res with IsMember => true | _ => false end) eqn:Eb.
      * inversion E; subst. destruct (Hca t ic' (or_introl eq_refl) _ _ _ Eca) as [H1 H2]. split; auto.
        intros Hr. exists t. split; [now left|auto].
      * destruct (Hrest _ _ _ E) as [H1 H2]. split; auto. intros Hr. destruct (H1 Hr) as [t0 [Hin Hh]]. exists t0. split; [now right|auto].
Qed.

Lemma sound_ttu_loop (G : Prop) ca ps :
  (forall p x n o rl, In p ps -> In x p -> r_sub x = ISet n o rl -> SoundM G (ca n o)) ->
  SoundM G (ttu_loop F ca ps).
Proof.
  induction ps as [|p ps IH]; intros Hca s r s' E; cbn in E.
  - inversion E; subst. cbn. split; congruence.
  - unfold storage in E. destruct (F (calls s)).
    + inversion E; subst. cbn. split; congruence.
    + match type of E with context [seq_or ?cs ?st] => destruct (seq_or cs st) as [[res s2]|] eqn:Es end; [|discriminate].
      assert (Hs : SoundM G (seq_or (flat_map (fun x => match r_sub x with ISet n o _ => [ca n o] | ISid _ => [] end) p))).
      { apply sound_seq_or. apply Forall_forall. intros m Hm. apply in_flat_map in Hm as [x [Hx Hm]].
        destruct (r_sub x) as [u|n o rl] eqn:Ex; [contradiction|]. destruct Hm as [<-|[]]. eapply Hca; eauto. now left. }
      destruct (r_err res || match r_m res with IsMember => true | _ => false end) eqn:Eb.
      * inversion E; subst. eapply Hs; eauto.
      * eapply IH; eauto. intros; eapply Hca; eauto. now right.
Qed.

(* ---- one-step unfoldings of the mutual fixpoint ---- *)
Notation ca := (check_allowed cfg strict nid d maxWidth F sub).
Notation ce := (check_expand cfg strict nid d maxWidth F sub).
Notation cr := (check_rewrite cfg strict nid d maxWidth F sub).
Notation cc := (check_child cfg strict nid d maxWidth F sub).
Notation ct := (check_ttu cfg strict nid d maxWidth F sub).

Definition PA (gas : nat) : Prop := forall c ns obj rel depth skip, SoundM (Holds (ns, obj, rel)) (ca gas c ns obj rel depth skip).
Definition PE (gas : nat) : Prop := forall c ns obj rel depth, SoundM (Holds (ns, obj, rel)) (ce gas c ns obj rel depth).
Definition PR (gas : nat) : Prop := forall c ns obj rel op cs depth, children_nf cs = true -> SoundM (HoldsOp (ns, obj, rel) op cs) (cr gas c ns obj rel op cs depth).
Definition PC (gas : nat) : Prop := forall c ns obj rel ch depth, child_nf ch = true -> SoundM (HoldsChild (ns, obj, rel) ch) (cc gas c ns obj rel ch depth).
Definition PT (gas : nat) : Prop := forall c ns obj rel r cr0 depth, SoundM (HoldsChild (ns, obj, rel) (CTuple r cr0)) (ct gas c ns obj r cr0 depth).

Lemma sound_zero : PA 0 /\ PE 0 /\ PR 0 /\ PC 0 /\ PT 0.
Proof. split; [|split; [|split; [|split]]]; repeat intro; match goal with H : _ = Some _ |- _ => cbn in H; discriminate H end. Qed.

Lemma sound_direct c ns obj rel depth : SoundM (Holds (ns, obj, rel)) (check_direct nid d F sub c ns obj rel depth).
Proof.
  unfold check_direct. destruct (depth <=? 0)%Z; [apply sound_unknown|].
  intros s r s' E. unfold storage in E. destruct (F (calls s)).
  - inversion E; subst. cbn. split; congruence.
  - destruct (ExistsRelationTuples nid _ d) eqn:Ex; inversion E; subst; cbn; split; try congruence.
    intros _. apply H_direct. now rewrite <- exists_is_direct.
Qed.

Lemma sound_step g : PA g /\ PE g /\ PR g /\ PC g /\ PT g -> PA (S g) /\ PE (S g) /\ PR (S g) /\ PC (S g) /\ PT (S g).
Proof.
  intros (HA & HE & HR & HC & HT). split; [|split; [|split; [|split]]].
  - (* check_allowed *)
    intros c ns obj rel depth skip. cbn [check_allowed].
    destruct (depth <=? 0)%Z; [apply sound_unknown|].
    destruct (ast_relation_for cfg ns rel) as [relation|] eqn:Ea; [|apply sound_ret_err].
    apply sound_seq_or. apply Forall_app. split; [|apply Forall_app; split].
    + destruct relation as [x|]; [|constructor]. destruct (rel_rewrite x) as [w|] eqn:Ew; [|constructor].
      constructor; [|constructor].
      eapply sound_weaken; [|apply HR; eapply cfg_nf; eauto].
      intros Hop. eapply H_rewrite; [|exact Hop]. unfold rewrite_of. now rewrite Ea.
    + destruct ((negb strict || negb _) && negb skip); [|constructor]. constructor; [|constructor]. apply sound_direct.
    + destruct (negb strict || _); [|constructor]. constructor; [|constructor]. apply HE.
  - (* check_expand *)
    intros c ns obj rel depth. cbn [check_expand].
    destruct (depth <=? 0)%Z; [apply sound_unknown|].
    intros s r s' E.
    destruct (init_visited c s) as [ic s1].
    unfold storage in E. destruct (F (calls s1)).
    { inversion E; subst. cbn. split; congruence. }
    set (results := TraverseSubjectSetExpansion nid ns obj rel sub d) in *.
    destruct (existsb tv_found results) eqn:Ef.
    { inversion E; subst. cbn. split; [|congruence]. intros _.
      apply existsb_exists in Ef as [t [Ht Hf]]. destruct (trav_in_set_rows ns obj rel t Ht) as [Hin Hd].
      eapply H_set; [exact Hin|]. apply H_direct. auto. }
    match type of E with context [if ?b then _ else _] => destruct b end.
    all: match type of E with expand_loop ?f ?l ?i ?st = _ =>
           pose proof (sound_expand_loop (ns, obj, rel) f l i) as HL end.
    all: match type of HL with ?P -> _ => assert (Hpre : P) by (intros; apply HA) end.
    all: destruct (HL Hpre _ _ _ E) as [H1 H2]; split; auto.
    all: intros Hr; destruct (H1 Hr) as [t [Ht Hh]].
    all: assert (Ht' : In t results) by (first [exact Ht | apply In_firstn in Ht; exact Ht]).
    all: destruct (trav_in_set_rows ns obj rel t Ht') as [Hin _]; eapply H_set; eauto.
  - (* check_rewrite *)
    intros c ns obj rel op cs depth Hnf. cbn [check_rewrite].
    destruct (depth <=? 0)%Z; [apply sound_unknown|].
    destruct op.
    + (* or *)
      eapply sound_weaken with (G := exists ch, In ch cs /\ HoldsChild (ns, obj, rel) ch).
      { intros [ch [Hin Hh]]. eapply H_or; eauto. }
      apply sound_seq_or. apply Forall_app. split.
      * destruct (computed_rels cs) as [|r0 rels0] eqn:Ecr; [constructor|]. constructor; [|constructor].
        intros s r s' E.
        assert (Hrel : forall r1, In r1 (r0 :: rels0) -> In (CComputed r1) cs).
        { intros r1 Hr1. rewrite <- Ecr in Hr1. unfold computed_rels in Hr1. apply in_flat_map in Hr1 as [ch [Hch Hr1]].
          destruct ch; cbn in Hr1; try contradiction. destruct Hr1 as [->|[]]. exact Hch. }
        match type of E with (match ?scrut with _ => _ end) = _ => destruct scrut as [[[]|] s1] eqn:Eq end.
        -- inversion E; subst. cbn. split; [|congruence]. intros _.
           destruct (queried_rels cfg strict ns (r0 :: rels0)) as [|q0 qs] eqn:Eqr; [inversion Eq|].
           unfold storage in Eq. destruct (F (calls s)); [discriminate|]. inversion Eq as [[Hex Hs]].
           apply exists_relation_in_direct in Hex as [r1 [Hr1 Hd]].
           assert (In r1 (r0 :: rels0)) by (rewrite <- Eqr in Hr1; unfold queried_rels in Hr1; apply filter_In in Hr1; tauto).
           exists (CComputed r1). split; [auto|]. constructor. now apply H_direct.
        -- assert (Hso : SoundM (exists ch, In ch cs /\ HoldsChild (ns, obj, rel) ch)
                           (seq_or (map (fun r1 => ca g c ns obj r1 (depth - 1)%Z true) (r0 :: rels0)))).
           { apply sound_seq_or. apply Forall_forall. intros m Hm. apply in_map_iff in Hm as [r1 [<- Hr1]].
             eapply sound_weaken; [|apply HA]. intros Hh. exists (CComputed r1). split; [auto|]. now constructor. }
           eapply Hso; eauto.
        -- inversion E; subst. cbn. split; congruence.
      * apply Forall_forall. intros m Hm. apply in_map_iff in Hm as [ch [<- Hch]]. apply filter_In in Hch as [Hch _].
        eapply sound_weaken; [|apply HC]. { intros Hh. exists ch. auto. }
        unfold children_nf in Hnf. rewrite forallb_forall in Hnf. auto.
    + (* and *)
      unfold seq_and. destruct cs as [|c0 cs0]; [apply sound_ret_not|].
      eapply sound_weaken with (G := HoldsAll (ns, obj, rel) (c0 :: cs0)).
      { intros Hh. apply H_and; [discriminate|exact Hh]. }
      change (match map (fun ch => cc g (reset_visited c) ns obj rel ch depth) (c0 :: cs0) with [] => ret R_not | _ :: _ => seq_and_go (map (fun ch => cc g (reset_visited c) ns obj rel ch depth) (c0 :: cs0)) end)
        with (seq_and_go (map (fun ch => cc g (reset_visited c) ns obj rel ch depth) (c0 :: cs0))).
      apply sound_seq_and_go.
      unfold children_nf in Hnf. rewrite forallb_forall in Hnf.
      clear - HC Hnf. induction (c0 :: cs0) as [|x l IH]; [constructor|]. cbn [map]. constructor.
      * apply HC. apply Hnf. now left.
      * apply IH. intros; apply Hnf; now right.
  - (* check_child *)
    intros c ns obj rel ch depth Hnf. cbn [check_child].
    destruct ch as [r1|r1 cr1|op cs|inner]; cbn in Hnf; try discriminate.
    + destruct (depth <? 0)%Z; [apply sound_unknown|]. eapply sound_weaken; [|apply HA]. intros; now constructor.
    + apply HT.
    + eapply sound_weaken; [|apply HR]. { intros; now constructor. }
      change (children_nf cs = true). rewrite <- (child_nf_rewrite op). exact Hnf.
  - (* check_ttu *)
    intros c ns obj rel r1 cr1 depth. cbn [check_ttu].
    destruct (depth <? 0)%Z; [apply sound_unknown|].
    intros s r s' E.
    match type of E with ttu_loop _ ?f ?ps _ = _ => pose proof (sound_ttu_loop (HoldsChild (ns, obj, rel) (CTuple r1 cr1)) f ps) as HL end.
    eapply HL; [|exact E].
    intros p x n o rl Hp Hx Es.
    eapply sound_weaken; [|apply HA]. intros Hh.
    eapply H_tuple; [|exact Hh].
    eapply matching_set_rows; [|exact Es].
    set (rows0 := matching nid _ d) in *.
    destruct rows0 as [|y ys] eqn:Er; [destruct Hp as [<-|[]]; contradiction|].
    rewrite <- Er in *. clear Er.
    rewrite <- (concat_chunk defaultPageSize rows0 Store.SqlProofs.page_size_pos). apply in_concat. eauto.
Qed.

Theorem sound_all : forall gas, PA gas /\ PE gas /\ PR gas /\ PC gas /\ PT gas.
Proof. induction gas as [|g IH]; [apply sound_zero|apply sound_step; exact IH]. Qed.

End Sound.
