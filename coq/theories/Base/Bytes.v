(* Byte strings as [list byte]; the fragments of Go's [strings] package that
   keto's codecs use: Cut (1-byte separator), Contains (1 byte), Trim (cutset "()"). *)
From Coq Require Import List Bool Lia.
From Coq Require Import Strings.Byte.
Import ListNotations.

Definition bytes := list byte.
Definition beq := Byte.eqb.

Lemma beq_refl b : beq b b = true.
Proof. apply byte_dec_lb; reflexivity. Qed.
Lemma beq_eq a b : beq a b = true <-> a = b.
Proof. split; [apply byte_dec_bl | apply byte_dec_lb]. Qed.
Lemma beq_neq a b : beq a b = false <-> a <> b.
Proof. split.
 - intros H E; subst; rewrite beq_refl in H; discriminate.
 - intros H; destruct (beq a b) eqn:E; auto. apply beq_eq in E; contradiction. Qed.
Lemma beq_sym a b : beq a b = beq b a.
Proof. destruct (beq a b) eqn:E.
 - apply beq_eq in E; subst; symmetry; apply beq_refl.
 - symmetry; apply beq_neq; apply beq_neq in E; congruence. Qed.

Fixpoint bytes_eqb (a b : bytes) : bool :=
  match a, b with
  | [], [] => true
  | x :: a', y :: b' => beq x y && bytes_eqb a' b'
  | _, _ => false
  end.
Lemma bytes_eqb_eq a b : bytes_eqb a b = true <-> a = b.
Proof. revert b; induction a as [|x a IH]; destruct b as [|y b]; cbn; split; intros H;
  try discriminate; try reflexivity.
 - apply andb_true_iff in H as [H1 H2]. apply beq_eq in H1. apply IH in H2. congruence.
 - inversion H; subst. rewrite beq_refl. cbn. now apply IH. Qed.
Lemma bytes_eqb_refl a : bytes_eqb a a = true.
Proof. now apply bytes_eqb_eq. Qed.
Lemma bytes_eqb_neq a b : bytes_eqb a b = false <-> a <> b.
Proof. split.
 - intros H E; subst; rewrite bytes_eqb_refl in H; discriminate.
 - intros H; destruct (bytes_eqb a b) eqn:E; auto. apply bytes_eqb_eq in E; contradiction. Qed.
Lemma bytes_eqb_spec a b : reflect (a = b) (bytes_eqb a b).
Proof. destruct (bytes_eqb a b) eqn:E; constructor.
 - now apply bytes_eqb_eq. - now apply bytes_eqb_neq. Qed.
Definition bytes_eq_dec (a b : bytes) : {a = b} + {a <> b}.
Proof. destruct (bytes_eqb_spec a b); [left|right]; assumption. Defined.

(* strings.Cut(s, sep) for a 1-byte separator *)
Fixpoint cut (sep : byte) (s : bytes) : option (bytes * bytes) :=
  match s with
  | [] => None
  | c :: r => if beq c sep then Some ([], r)
              else match cut sep r with Some (a, b) => Some (c :: a, b) | None => None end
  end.
(* strings.Contains(s, sep) for 1 byte *)
Definition has (sep : byte) (s : bytes) := existsb (beq sep) s.

Lemma has_cons c x s : has c (x :: s) = beq c x || has c s.
Proof. reflexivity. Qed.
Lemma has_app c a b : has c (a ++ b) = has c a || has c b.
Proof. unfold has. apply existsb_app. Qed.

Lemma cut_app sep a b : has sep a = false -> cut sep (a ++ sep :: b) = Some (a, b).
Proof. induction a as [|c a IH]; cbn [app cut has existsb]; intros H.
 - now rewrite beq_refl.
 - apply orb_false_iff in H as [H1 H2].
   assert (beq c sep = false) as ->.
   { apply beq_neq; intros ->. rewrite beq_refl in H1; discriminate. }
   now rewrite IH. Qed.
Lemma cut_none sep s : has sep s = false -> cut sep s = None.
Proof. induction s as [|c s IH]; cbn [cut has existsb]; auto; intros H.
 apply orb_false_iff in H as [H1 H2].
 assert (beq c sep = false) as ->.
 { apply beq_neq; intros ->. rewrite beq_refl in H1; discriminate. }
 now rewrite IH. Qed.
Lemma cut_some sep s a b : cut sep s = Some (a, b) -> s = a ++ sep :: b /\ has sep a = false.
Proof. revert a b; induction s as [|c s IH]; cbn [cut]; intros a b H; [discriminate|].
 destruct (beq c sep) eqn:E.
 - inversion H; subst. apply beq_eq in E; subst. split; reflexivity.
 - destruct (cut sep s) as [[a' b']|]; [|discriminate]. inversion H; subst.
   destruct (IH a' b eq_refl) as [-> Hh]. split; [reflexivity|].
   cbn. rewrite beq_sym, E. exact Hh. Qed.
Lemma cut_none_inv sep s : cut sep s = None -> has sep s = false.
Proof. induction s as [|c s IH]; cbn [cut has existsb]; auto.
 destruct (beq c sep) eqn:E; [discriminate|].
 destruct (cut sep s) as [[a b]|]; [discriminate|]. intros _.
 rewrite beq_sym, E. cbn. now apply IH. Qed.

Definition LP : byte := x28.  Definition RP : byte := x29.
Definition COLON : byte := x3a.  Definition HASH : byte := x23.  Definition AT : byte := x40.

(* strings.Trim(s, "()") *)
Definition isparen (b : byte) := beq b LP || beq b RP.
Fixpoint triml (s : bytes) := match s with c :: r => if isparen c then triml r else s | [] => [] end.
Definition trim (s : bytes) := rev (triml (rev (triml s))).

Definition noparen_ends (s : bytes) : bool :=
  match s with [] => true | c :: _ => negb (isparen c) end &&
  match rev s with [] => true | c :: _ => negb (isparen c) end.

Lemma triml_id s : match s with [] => true | c :: _ => negb (isparen c) end = true -> triml s = s.
Proof. destruct s as [|c s]; cbn; auto. intros H. apply negb_true_iff in H. now rewrite H. Qed.
Lemma trim_id s : noparen_ends s = true -> trim s = s.
Proof. unfold noparen_ends, trim. intros H. apply andb_true_iff in H as [H1 H2].
 rewrite (triml_id s H1). rewrite (triml_id (rev s) H2). apply rev_involutive. Qed.

Lemma triml_head s : match triml s with [] => true | c :: _ => negb (isparen c) end = true.
Proof. induction s as [|c s IH]; cbn; auto. destruct (isparen c) eqn:E; auto. cbn. now rewrite E. Qed.
Lemma triml_suffix s : exists p, s = p ++ triml s /\ forallb isparen p = true.
Proof. induction s as [|c s [p [IH1 IH2]]]; cbn.
 - exists []; auto.
 - destruct (isparen c) eqn:E.
   + exists (c :: p). cbn. rewrite E, IH2. split; auto. f_equal. exact IH1.
   + exists []. auto. Qed.
Lemma triml_last s x : triml (s ++ [x]) = if forallb isparen s then triml [x] else triml s ++ [x].
Proof. induction s as [|c s IH]; cbn [app triml forallb]; auto.
 destruct (isparen c); cbn [andb]; auto. Qed.
(* trim result has no paren at either end: noparen_ends (trim s) *)
Lemma trim_noparen_ends s : noparen_ends (trim s) = true.
Proof.
 unfold trim, noparen_ends. rewrite rev_involutive.
 rewrite (triml_head (rev (triml s))). rewrite andb_true_r.
 (* head of rev (triml (rev (triml s))) *)
 set (t := triml s). assert (Ht : match t with [] => true | c :: _ => negb (isparen c) end = true) by apply triml_head.
 clearbody t. destruct t as [|c t]; [reflexivity|].
 (* rev (c :: t) = rev t ++ [c]; triml of that keeps c at the end since c not paren *)
 cbn [rev]. rewrite triml_last.
 assert (Hc : triml [c] = [c]) by (cbn; apply negb_true_iff in Ht; now rewrite Ht).
 destruct (forallb isparen (rev t)).
 - rewrite Hc. cbn. exact Ht.
 - rewrite rev_app_distr. cbn. exact Ht. Qed.
Lemma trim_idem s : trim (trim s) = trim s.
Proof. apply trim_id, trim_noparen_ends. Qed.
Lemma bytes_eqb_sym' a b : bytes_eqb a b = bytes_eqb b a.
Proof. destruct (bytes_eqb a b) eqn:E.
 - apply bytes_eqb_eq in E; subst; symmetry; apply bytes_eqb_refl.
 - symmetry; apply bytes_eqb_neq; apply bytes_eqb_neq in E; congruence. Qed.
