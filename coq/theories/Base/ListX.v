(* List utilities: Go's slices.Chunk, checked indexing, small lemmas. *)
From Coq Require Import List Bool Arith Lia Permutation.
Import ListNotations.

Section Chunk.
Context {A : Type}.

(* slices.Chunk(l, n) for n >= 1 (Go panics for n < 1; callers pass constants) *)
Fixpoint chunk_fuel (fuel n : nat) (l : list A) : list (list A) :=
  match fuel with
  | 0 => []
  | S f => match l with
           | [] => []
           | _ => firstn n l :: chunk_fuel f n (skipn n l)
           end
  end.
Definition chunk (n : nat) (l : list A) : list (list A) := chunk_fuel (length l) n l.

Lemma concat_chunk_fuel n : 1 <= n -> forall fuel l, length l <= fuel -> concat (chunk_fuel fuel n l) = l.
Proof.
  intros Hn. induction fuel as [|f IH]; intros l Hl.
  - destruct l; [reflexivity|cbn in Hl; lia].
  - destruct l as [|a l]; [reflexivity|].
    cbn [chunk_fuel concat]. rewrite IH.
    + apply firstn_skipn.
    + rewrite skipn_length. cbn [length] in *. lia.
Qed.
Lemma concat_chunk n l : 1 <= n -> concat (chunk n l) = l.
Proof. intros Hn. apply concat_chunk_fuel; auto. Qed.

Lemma chunk_fuel_bound n fuel l c : In c (chunk_fuel fuel n l) -> length c <= n.
Proof.
  revert l; induction fuel as [|f IH]; intros l H; [contradiction|].
  destruct l as [|a l]; [contradiction|]. cbn [chunk_fuel] in H. destruct H as [<-|H].
  - rewrite firstn_length. lia.
  - eapply IH; eauto.
Qed.
Lemma chunk_bound n l c : In c (chunk n l) -> length c <= n.
Proof. apply chunk_fuel_bound. Qed.
Lemma chunk_fuel_nonempty n fuel l c : 1 <= n -> In c (chunk_fuel fuel n l) -> c <> [].
Proof.
  intros Hn. revert l; induction fuel as [|f IH]; intros l H; [contradiction|].
  destruct l as [|a l]; [contradiction|]. cbn [chunk_fuel] in H. destruct H as [<-|H].
  - destruct n; [lia|]. cbn. discriminate.
  - eapply IH; eauto.
Qed.
Lemma chunk_nil n : chunk n (@nil A) = []. Proof. reflexivity. Qed.
End Chunk.

(* fold over chunks = fold over the whole list, for a step that distributes over append *)
Lemma fold_chunks {A S : Type} (f : S -> list A -> S) n (l : list A) (s : S) :
  1 <= n -> (forall s a b, f (f s a) b = f s (a ++ b)) -> (forall s, f s [] = s) ->
  fold_left f (chunk n l) s = f s l.
Proof.
  intros Hn Happ Hnil.
  assert (G : forall cs s, fold_left f cs s = f s (concat cs)).
  { induction cs as [|c cs IH]; intros s0; cbn; [now rewrite Hnil|]. rewrite IH. apply Happ. }
  rewrite G, concat_chunk by assumption. reflexivity.
Qed.

Lemma filter_filter {A} (f g : A -> bool) l : filter f (filter g l) = filter (fun x => g x && f x) l.
Proof. induction l as [|a l IH]; cbn; auto. destruct (g a); cbn; [destruct (f a)|]; now rewrite IH. Qed.
Lemma filter_ext_in' {A} (f g : A -> bool) l : (forall a, In a l -> f a = g a) -> filter f l = filter g l.
Proof. apply filter_ext_in. Qed.
Lemma filter_true {A} (f : A -> bool) l : (forall a, In a l -> f a = true) -> filter f l = l.
Proof. induction l as [|a l IH]; cbn; intros H; auto. rewrite H by auto. f_equal. apply IH. intros; apply H; auto. Qed.
Lemma filter_false {A} (f : A -> bool) l : (forall a, In a l -> f a = false) -> filter f l = [].
Proof. induction l as [|a l IH]; cbn; intros H; auto. rewrite H by auto. apply IH. intros; apply H; auto. Qed.
Lemma filter_length_le' {A} (f : A -> bool) l : length (filter f l) <= length l.
Proof. induction l as [|a l IH]; cbn; auto. destruct (f a); cbn; lia. Qed.
Lemma existsb_map_compat {A B} (f : A -> B) (p : B -> bool) l : existsb p (map f l) = existsb (fun x => p (f x)) l.
Proof. induction l as [|a l IH]; cbn; auto. now rewrite IH. Qed.
Lemma existsb_ext_in' {A} (f g : A -> bool) l : (forall a, In a l -> f a = g a) -> existsb f l = existsb g l.
Proof. induction l as [|a l IH]; cbn; intros H; auto. rewrite H by auto. rewrite IH; auto. Qed.
Lemma filter_map_comm {A B} (f : A -> B) (p : B -> bool) l : filter p (map f l) = map f (filter (fun x => p (f x)) l).
Proof. induction l as [|a l IH]; cbn; auto. destruct (p (f a)); cbn; now rewrite IH. Qed.
Lemma In_firstn {A} (x : A) n l : In x (firstn n l) -> In x l.
Proof. revert l; induction n as [|n IH]; intros [|a l] H; cbn in *; try contradiction. destruct H as [->|H]; auto. Qed.
