From Coq Require Import List Bool Lia.
From Coq Require Import Strings.Byte.
From Keto Require Import Base.Bytes Api.Codec.
Import ListNotations.

(* ---------- string form ---------- *)
Lemma has_colon_sset_string s : has COLON (sset_string s) = true.
Proof. unfold sset_string. destruct (ss_rel s); rewrite has_app, has_cons, beq_refl; cbn; now rewrite orb_true_r. Qed.

Lemma sset_string_roundtrip s :
  has COLON (ss_ns s) = false -> has HASH (ss_ns s) = false -> has HASH (ss_obj s) = false ->
  sset_from_string (sset_string s) = Ok s.
Proof.
  destruct s as [n o r]; cbn [ss_ns ss_obj ss_rel]. intros Hc Hn Ho.
  unfold sset_from_string, sset_string; cbn [ss_ns ss_obj ss_rel].
  destruct r as [|c r].
  - rewrite (cut_none HASH) by (rewrite has_app, has_cons, Hn, Ho; reflexivity).
    now rewrite cut_app.
  - replace (n ++ COLON :: o ++ HASH :: c :: r) with ((n ++ COLON :: o) ++ HASH :: c :: r)
      by (rewrite <- app_assoc; reflexivity).
    rewrite cut_app by (rewrite has_app, has_cons, Hn, Ho; reflexivity).
    now rewrite cut_app.
Qed.

Theorem string_roundtrip t : dom_string t = true -> tuple_from_string (tuple_string t) = Ok t.
Proof.
  destruct t as [n o r sid ss]. unfold dom_string, tuple_string, tuple_from_string; cbn [t_ns t_obj t_rel t_sid t_sset].
  intros H. apply andb_true_iff in H as [H Hs]. apply andb_true_iff in H as [H Hr].
  apply andb_true_iff in H as [Hn Ho]. apply negb_true_iff in Hn, Ho, Hr.
  rewrite (cut_app COLON n) by assumption. rewrite (cut_app HASH o) by assumption.
  rewrite (cut_app AT r) by assumption.
  destruct sid as [s|]; destruct ss as [ss|]; try discriminate.
  - apply andb_true_iff in Hs as [Hc Hp]. apply negb_true_iff in Hc.
    rewrite trim_id by assumption. now rewrite Hc.
  - unfold dom_sset in Hs. apply andb_true_iff in Hs as [Hs Hp]. apply andb_true_iff in Hs as [Hs H3].
    apply andb_true_iff in Hs as [H1 H2]. apply negb_true_iff in H1, H2, H3.
    rewrite trim_id by assumption. rewrite has_colon_sset_string.
    now rewrite sset_string_roundtrip.
Qed.

(* malformed text is rejected: any of the three separators missing *)
Theorem string_malformed_rejected s :
  has COLON s = false \/ has HASH s = false \/ has AT s = false -> tuple_from_string s = Err E_MALFORMED.
Proof.
  unfold tuple_from_string. intros H.
  destruct (cut COLON s) as [[n r1]|] eqn:E1; [|reflexivity].
  apply cut_some in E1 as [-> Hn].
  destruct (cut HASH r1) as [[o r2]|] eqn:E2; [|reflexivity].
  apply cut_some in E2 as [-> Ho].
  destruct (cut AT r2) as [[r su]|] eqn:E3; [|reflexivity].
  apply cut_some in E3 as [-> Hr].
  exfalso. destruct H as [H|[H|H]]; repeat (rewrite ?has_app, ?has_cons, ?beq_refl, ?orb_true_r in H; cbn in H); discriminate.
Qed.
(* and conversely an accepted string contains all three *)
Theorem string_accepted_has_separators s t : tuple_from_string s = Ok t ->
  has COLON s = true /\ has HASH s = true /\ has AT s = true.
Proof.
  intros H. destruct (has COLON s) eqn:E1, (has HASH s) eqn:E2, (has AT s) eqn:E3; auto;
  rewrite string_malformed_rejected in H by auto; discriminate.
Qed.

(* what FromString returns always has exactly one subject *)
Theorem from_string_one_subject s t : tuple_from_string s = Ok t -> one_subject t = true.
Proof.
  unfold tuple_from_string. intros H.
  destruct (cut COLON s) as [[n r1]|]; [|discriminate].
  destruct (cut HASH r1) as [[o r2]|]; [|discriminate].
  destruct (cut AT r2) as [[r su]|]; [|discriminate].
  destruct (has COLON (trim su)).
  - destruct (sset_from_string (trim su)); inversion H; reflexivity.
  - inversion H; reflexivity.
Qed.

(* D13: print . parse is not idempotent on the unchanged code *)
Definition d13_witness : bytes := [x6e; COLON; x6f; HASH; x72; AT; x61; COLON; x62; RP; HASH].
Lemma print_parse_idempotent_refuted :
  exists s t t', tuple_from_string s = Ok t /\ tuple_from_string (tuple_string t) = Ok t' /\ t <> t'.
Proof. eexists d13_witness, _, _. split; [vm_compute; reflexivity|]. split; [vm_compute; reflexivity|]. discriminate. Qed.

(* ---------- URL query ---------- *)
Lemma vhas_app k a b : vhas k (a ++ b) = vhas k a || vhas k b.
Proof. unfold vhas. apply existsb_app. Qed.
Lemma vget_app_l k a b : vhas k a = true -> vget k (a ++ b) = vget k a.
Proof. induction a as [|[k' x] a IH]; cbn; [discriminate|].
 destruct (bytes_eqb k' k); cbn; auto. Qed.
Lemma vget_app_r k a b : vhas k a = false -> vget k (a ++ b) = vget k b.
Proof. induction a as [|[k' x] a IH]; cbn; auto.
 destruct (bytes_eqb k' k); cbn; [discriminate|auto]. Qed.

(* the seven keys are pairwise distinct and differ from "subject" (decided by computation) *)
Definition all_keys := [K_namespace; K_object; K_relation; K_subject_id; K_ss_namespace; K_ss_object; K_ss_relation; K_subject].
Lemma keys_distinct : NoDup all_keys.
Proof. repeat constructor; cbn; intros H; repeat destruct H as [H|H]; try discriminate; auto. Qed.

(* an abstract view of Values as a finite map, to reason about lookups of a built list *)
Ltac vsimp := unfold vadd, opt_add; cbn -[K_namespace K_object K_relation K_subject_id K_ss_namespace K_ss_object K_ss_relation K_subject].

Lemma opt_cases (o : option bytes) : o = None \/ exists s, o = Some s.
Proof. destruct o; eauto. Qed.

Theorem url_query_roundtrip q : atmost_one_subject q = true -> query_from_url (query_to_url q) = Ok q.
Proof.
  destruct q as [n o r sid ss]. unfold atmost_one_subject; cbn [q_sid q_sset].
  destruct n as [n|], o as [o|], r as [r|], sid as [sid|], ss as [[sn so sr]|]; intros H; try discriminate;
  vm_compute; reflexivity.
Qed.

Theorem url_tuple_roundtrip t : one_subject t = true -> tuple_from_url (tuple_to_url t) = Ok t.
Proof.
  destruct t as [n o r sid ss]. unfold one_subject; cbn [t_sid t_sset].
  destruct sid as [sid|], ss as [[sn so sr]|]; intros H; try discriminate; vm_compute; reflexivity.
Qed.

(* a tuple query without a subject, or without one of the three fields, is a client error, never a tuple *)
Theorem url_tuple_requires_subject v t : tuple_from_url v = Ok t -> one_subject t = true.
Proof.
  unfold tuple_from_url, query_from_url.
  destruct (vhas K_subject v); [discriminate|].
  destruct (vhas K_subject_id v), (vhas K_ss_namespace v), (vhas K_ss_object v), (vhas K_ss_relation v);
    cbn; try discriminate;
  destruct (vhas K_namespace v), (vhas K_object v), (vhas K_relation v); cbn; try discriminate;
  intros H; inversion H; reflexivity.
Qed.

(* ---------- protobuf ---------- *)
Theorem proto_tuple_roundtrip t : one_subject t = true ->
  exists p, tuple_to_proto t = Ok p /\ tuple_from_proto p = Ok t /\ tuple_from_data_provider p = Ok t.
Proof.
  destruct t as [n o r sid ss]. unfold one_subject; cbn [t_sid t_sset].
  destruct sid as [sid|], ss as [[sn so sr]|]; intros H; try discriminate;
  eexists; repeat split; reflexivity.
Qed.
Theorem proto_query_roundtrip q : atmost_one_subject q = true ->
  query_from_data_provider (query_to_proto q) = q.
Proof.
  destruct q as [n o r sid ss]. unfold atmost_one_subject; cbn [q_sid q_sset].
  destruct sid as [sid|], ss as [[sn so sr]|]; intros H; try discriminate; reflexivity.
Qed.
(* the subject kind is preserved: an id never comes back as a set and vice versa *)
Theorem proto_subject_kind p t : tuple_from_data_provider p = Ok t ->
  (exists s, p_sub p = Some (Some (PId s)) /\ t_sid t = Some s /\ t_sset t = None) \/
  (exists n o r, p_sub p = Some (Some (PSet n o r)) /\ t_sid t = None /\ t_sset t = Some {| ss_ns := n; ss_obj := o; ss_rel := r |}).
Proof.
  unfold tuple_from_data_provider. destruct (p_sub p) as [[[s|n o r]|]|]; intros H; inversion H; cbn; eauto 8.
Qed.
(* after fix D11b: no decoder panics on any message *)
Theorem proto_decoders_total p : tuple_from_proto p <> Panic /\ tuple_from_data_provider p <> Panic.
Proof. unfold tuple_from_proto, tuple_from_data_provider. destruct (p_sub p) as [[[s|n o r]|]|]; split; discriminate. Qed.

(* ---------- JSON ---------- *)
Lemma key_is_self_namespace : key_is K_namespace K_namespace = true. Proof. reflexivity. Qed.

Theorem json_tuple_roundtrip t : tuple_from_json (tuple_to_json t) = Ok t.
Proof.
  destruct t as [n o r sid ss].
  destruct sid as [sid|], ss as [[sn so sr]|]; vm_compute; reflexivity.
Qed.
Theorem json_query_roundtrip q : query_from_json (query_to_json q) = Ok q.
Proof.
  destruct q as [n o r sid ss].
  destruct n as [n|], o as [o|], r as [r|], sid as [sid|], ss as [[sn so sr]|]; vm_compute; reflexivity.
Qed.

(* ---------- print/parse idempotence: the exact class where it fails (D13) ---------- *)
Lemma has_app_false c a b : has c (a ++ b) = false -> has c a = false /\ has c b = false.
Proof. rewrite has_app. apply orb_false_iff. Qed.

Definition d13_class (t : tuple) : bool :=
  match t_sset t with
  | Some ss => match ss_rel ss with [] => negb (noparen_ends (sset_string ss)) | _ => false end
  | None => false
  end.

Lemma from_string_dom s t : tuple_from_string s = Ok t -> d13_class t = false -> dom_string t = true.
Proof.
  unfold tuple_from_string, d13_class. intros H Hcls.
  destruct (cut COLON s) as [[n r1]|] eqn:E1; [|discriminate]. apply cut_some in E1 as [_ Hn].
  destruct (cut HASH r1) as [[o r2]|] eqn:E2; [|discriminate]. apply cut_some in E2 as [_ Ho].
  destruct (cut AT r2) as [[r su]|] eqn:E3; [|discriminate]. apply cut_some in E3 as [_ Hr].
  pose proof (trim_noparen_ends su) as Hp. set (su' := trim su) in *. clearbody su'.
  destruct (has COLON su') eqn:Hc.
  - unfold sset_from_string in H.
    destruct (cut HASH su') as [[a b]|] eqn:E4.
    + apply cut_some in E4 as [-> Ha].
      destruct (cut COLON a) as [[n' o']|] eqn:E5; [|discriminate]. apply cut_some in E5 as [-> Hn'].
      apply has_app_false in Ha as [Ha1 Ha2]. rewrite has_cons in Ha2. apply orb_false_iff in Ha2 as [_ Ha2].
      inversion H; subst; clear H. cbn [t_sset ss_rel] in Hcls.
      unfold dom_string, dom_sset; cbn [t_ns t_obj t_rel t_sid t_sset ss_ns ss_obj ss_rel].
      rewrite Hn, Ho, Hr, Hn', Ha1, Ha2. cbn [negb andb].
      destruct b as [|c b].
      * apply negb_false_iff in Hcls. exact Hcls.
      * unfold sset_string; cbn [ss_ns ss_obj ss_rel]. rewrite <- app_assoc in Hp. exact Hp.
    + apply cut_none_inv in E4.
      destruct (cut COLON su') as [[n' o']|] eqn:E5; [|discriminate]. apply cut_some in E5 as [-> Hn'].
      apply has_app_false in E4 as [Ha1 Ha2]. rewrite has_cons in Ha2. apply orb_false_iff in Ha2 as [_ Ha2].
      inversion H; subst; clear H.
      unfold dom_string, dom_sset; cbn [t_ns t_obj t_rel t_sid t_sset ss_ns ss_obj ss_rel].
      rewrite Hn, Ho, Hr, Hn', Ha1, Ha2. cbn [negb andb].
      unfold sset_string; cbn [ss_ns ss_obj ss_rel]. exact Hp.
  - inversion H; subst; clear H.
    unfold dom_string; cbn [t_ns t_obj t_rel t_sid t_sset].
    rewrite Hn, Ho, Hr, Hc, Hp. reflexivity.
Qed.

Theorem print_parse_idempotent_partial s t :
  tuple_from_string s = Ok t -> d13_class t = false -> tuple_from_string (tuple_string t) = Ok t.
Proof. intros H Hc. apply string_roundtrip. eapply from_string_dom; eauto. Qed.

(* and inside the class it really fails (for the class witness) *)
Lemma d13_witness_in_class : exists t, tuple_from_string d13_witness = Ok t /\ d13_class t = true.
Proof. eexists. split; vm_compute; reflexivity. Qed.

(* non-vacuity: an ordinary tuple is in the domain *)
Example dom_string_example :
  dom_string {| t_ns := [x6e]; t_obj := [x6f]; t_rel := [x72]; t_sid := None;
                t_sset := Some {| ss_ns := [x61]; ss_obj := [x62]; ss_rel := [x63] |} |} = true.
Proof. reflexivity. Qed.

(* ---- C13: no decoder has a panicking outcome, whatever bytes or fields it is given ---- *)
Lemma sset_from_string_total s : sset_from_string s <> Panic.
Proof. unfold sset_from_string. destruct (cut HASH s) as [[a b]|]; destruct (cut COLON _) as [[n o]|]; discriminate. Qed.
Theorem string_decoder_total s : tuple_from_string s <> Panic.
Proof. unfold tuple_from_string.
  destruct (cut COLON s) as [[n r1]|]; [|discriminate]. destruct (cut HASH r1) as [[o r2]|]; [|discriminate].
  destruct (cut AT r2) as [[r su]|]; [|discriminate]. destruct (has COLON (trim su)); [|discriminate].
  pose proof (sset_from_string_total (trim su)). destruct (sset_from_string (trim su)); try discriminate. contradiction. Qed.
Theorem url_query_decoder_total v : query_from_url v <> Panic.
Proof. unfold query_from_url. destruct (vhas K_subject v); [discriminate|]. cbv zeta.
  destruct (vhas K_subject_id v), (vhas K_ss_namespace v), (vhas K_ss_object v), (vhas K_ss_relation v); cbn; discriminate. Qed.
Theorem url_tuple_decoder_total v : tuple_from_url v <> Panic.
Proof. unfold tuple_from_url. pose proof (url_query_decoder_total v). destruct (query_from_url v) as [q| |]; try discriminate; [|contradiction].
  destruct (q_sid q), (q_sset q), (q_ns q), (q_obj q), (q_rel q); discriminate. Qed.

(* ---- C18 for the CLI file format (cmd/relationtuple/parse.go) ---- *)
Definition no_nl (s : bytes) : bool := negb (has NL s).
Definition dom_line (t : tuple) : bool :=
  dom_string t && no_nl (tuple_string t) && negb (is_comment (tuple_string t)) &&
  match tuple_string t with [] => false | c :: _ => negb (is_ws c) end &&
  match rev (tuple_string t) with [] => false | c :: _ => negb (is_ws c) end.

Lemma trim_ws_l_id s : match s with [] => true | c :: _ => negb (is_ws c) end = true -> trim_ws_l s = s.
Proof. destruct s as [|c s]; cbn; auto. intros H. apply negb_true_iff in H. now rewrite H. Qed.
Lemma trim_ws_id s : match s with [] => false | c :: _ => negb (is_ws c) end = true ->
  match rev s with [] => false | c :: _ => negb (is_ws c) end = true -> trim_ws s = s.
Proof. intros H1 H2. unfold trim_ws. rewrite (trim_ws_l_id s) by (destruct s; [discriminate|exact H1]).
  rewrite (trim_ws_l_id (rev s)) by (destruct (rev s); [discriminate|exact H2]). apply rev_involutive. Qed.

Lemma split_nl_line l rest : forall cur, has NL l = false -> split_nl (l ++ NL :: rest) cur = (rev cur ++ l) :: split_nl rest [].
Proof. induction l as [|c l IH]; intros cur H; cbn [app split_nl].
  - rewrite beq_refl. now rewrite app_nil_r.
  - cbn [has existsb] in H. apply orb_false_iff in H as [H1 H2]. rewrite beq_sym, H1. rewrite (IH (c :: cur) H2). cbn. now rewrite <- app_assoc. Qed.

Theorem file_roundtrip ts : forallb dom_line ts = true -> parse_file (print_file ts) = Ok ts.
Proof.
  unfold parse_file. induction ts as [|t ts IH]; intros H; [reflexivity|].
  cbn [forallb] in H. apply andb_true_iff in H as [Ht Hts]. specialize (IH Hts).
  unfold dom_line in Ht. rewrite !andb_true_iff in Ht. destruct Ht as [[[[Hd Hn] Hc] Hf] Hl].
  cbn [print_file flat_map]. rewrite <- app_assoc. cbn [app].
  rewrite (split_nl_line (tuple_string t) _ []) by (unfold no_nl in Hn; now apply negb_true_iff in Hn). cbn [rev app parse_rows].
  rewrite (trim_ws_id _ Hf Hl). destruct (tuple_string t) as [|c0 l0] eqn:Es; [discriminate|].
  apply negb_true_iff in Hc. rewrite Hc. rewrite <- Es, (string_roundtrip t Hd).
  change (print_file ts) with (flat_map (fun t0 => tuple_string t0 ++ [NL]) ts) in IH. rewrite IH. reflexivity.
Qed.
(* comments and blank lines are ignored wherever they stand; nothing else is *)
Theorem file_skips_comment row rest : is_comment (trim_ws row) = true -> parse_rows (row :: rest) = parse_rows rest.
Proof. intros H. cbn [parse_rows]. destruct (trim_ws row); [reflexivity|]. now rewrite H. Qed.
Theorem file_total s : parse_file s <> Panic.
Proof. unfold parse_file. induction (split_nl s []) as [|row r IH]; cbn [parse_rows]; [discriminate|].
  destruct (trim_ws row) as [|c0 l0] eqn:E; [exact IH|]. destruct (is_comment (c0 :: l0)); [exact IH|].
  pose proof (string_decoder_total (c0 :: l0)) as Hd. destruct (tuple_from_string (c0 :: l0)); try discriminate; [|contradiction].
  destruct (parse_rows r); try discriminate. contradiction. Qed.
