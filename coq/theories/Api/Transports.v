(* Model of the check transports (internal/check/handler.go): how each of the seven routes reports the decision
   of the permission engine for one relationship. *)
From Coq Require Import List Bool Arith NArith ZArith Lia.
From Keto Require Import Engine.Engine.
Import ListNotations.

(* what happens before/inside the engine for one tuple *)
Inductive eres :=
| EUnknownNs                 (* read-only mapper: herodot.ErrNotFound (unknown namespace) *)
| ENoSubject                 (* no subject: ErrNilSubject *)
| ERes (r : result) (bad_request : bool).   (* engine result; bad_request: its error is a 400-class schema error (else 5xx) *)

Definition decision (e : eres) : bool := match e with ERes r _ => allowed_of r | _ => false end.

Inductive route := GetMirror | GetOpenAPI | PostMirror | PostOpenAPI | GrpcCheck | RestBatchEntry | GrpcBatchEntry.

(* observation: HTTP status (gRPC codes as their HTTP equivalent), the allowed flag if the body carries one, an error string present *)
Record tobs := { t_status : nat; t_allowed : option bool; t_error : bool }.

Definition err_status (bad_request : bool) : nat := if bad_request then 400 else 500.

Definition single (mirror : bool) (grpc : bool) (e : eres) : tobs :=
  match e with
  | EUnknownNs =>
    if grpc then {| t_status := 404; t_allowed := None; t_error := true |}
    else {| t_status := if mirror then 403 else 200; t_allowed := Some false; t_error := false |}
  | ENoSubject => {| t_status := 400; t_allowed := None; t_error := true |}
  | ERes r bad =>
    if r_err r then {| t_status := err_status bad; t_allowed := None; t_error := true |}
    else
      let a := match r_m r with IsMember => true | _ => false end in
      {| t_status := if mirror && negb a then 403 else 200; t_allowed := Some a; t_error := false |}
  end.

Definition batch_entry (e : eres) : tobs :=
  match e with
  | EUnknownNs | ENoSubject => {| t_status := 200; t_allowed := Some false; t_error := true |}
  | ERes r _ => {| t_status := 200; t_allowed := Some (match r_m r with IsMember => true | _ => false end); t_error := r_err r |}
  end.

Definition observe (rt : route) (e : eres) : tobs :=
  match rt with
  | GetMirror | PostMirror => single true false e
  | GetOpenAPI | PostOpenAPI => single false false e
  | GrpcCheck => single false true e
  | RestBatchEntry | GrpcBatchEntry => batch_entry e
  end.
Definition observe_batch (rt : route) (es : list eres) : list tobs := map (observe rt) es.

(* what a client reads as the decision *)
Definition reported (o : tobs) : bool := match t_allowed o with Some true => negb (t_error o) | _ => false end.
