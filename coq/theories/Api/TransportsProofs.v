From Coq Require Import List Bool Arith NArith ZArith Lia.
From Keto Require Import Engine.Engine Api.Transports.
Import ListNotations.

(* engine results never carry IsMember together with an error (Engine/ErrInv.v); under that invariant: *)
Definition wf (e : eres) : Prop := match e with ERes r _ => r_err r = true -> r_m r <> IsMember | _ => True end.

Theorem all_transports_agree rt e : wf e -> reported (observe rt e) = decision e.
Proof.
  destruct e as [| |r bad]; destruct rt; cbn; intros H; try reflexivity;
  unfold single, batch_entry, reported, decision, allowed_of; cbn;
  destruct (r_err r) eqn:Ee; cbn; try reflexivity;
  destruct (r_m r) eqn:Em; cbn; try reflexivity; exfalso; apply H; auto.
Qed.
Theorem unknown_namespace_never_allowed rt : reported (observe rt EUnknownNs) = false.
Proof. destruct rt; reflexivity. Qed.
Theorem allowed_flag_never_with_error rt e : wf e -> t_allowed (observe rt e) = Some true -> t_error (observe rt e) = false.
Proof.
  destruct e as [| |r bad]; destruct rt; cbn; intros H; try discriminate;
  unfold single, batch_entry; cbn; destruct (r_err r) eqn:Ee; cbn; try discriminate; try reflexivity;
  destruct (r_m r) eqn:Em; cbn; try discriminate; intros _; exfalso; apply H; auto.
Qed.
(* status-mirroring endpoints: 200 exactly when allowed, 403 exactly when denied (no error) *)
Theorem mirror_status e : wf e ->
  (t_status (single true false e) = 200 <-> decision e = true) /\
  (t_status (single true false e) = 403 <-> (decision e = false /\ t_error (single true false e) = false)).
Proof.
  destruct e as [| |r bad]; cbn; intros H; unfold single, decision, allowed_of; cbn.
  1,2: (split; split; intros X; try discriminate; try tauto; try (destruct X; discriminate)).
  destruct (r_err r) eqn:Ee, (r_m r) eqn:Em, bad; cbn;
    (split; split; intros X; try discriminate; try tauto; try (destruct X; discriminate); try (exfalso; apply H; auto)).
Qed.
(* batches: one result per tuple, in request order, each equal to the single observation of that tuple *)
Theorem batch_pointwise rt es : length (observe_batch rt es) = length es /\
  forall i e, nth_error es i = Some e -> nth_error (observe_batch rt es) i = Some (observe rt e).
Proof. unfold observe_batch. split; [apply map_length|]. intros i e H. now apply map_nth_error. Qed.
(* an entry's result does not depend on the other entries *)
Theorem batch_entry_local rt es1 e es2 es1' es2' : length es1 = length es1' ->
  nth_error (observe_batch rt (es1 ++ e :: es2)) (length es1) = nth_error (observe_batch rt (es1' ++ e :: es2')) (length es1').
Proof.
  intros _. unfold observe_batch. rewrite !map_app. cbn.
  rewrite !nth_error_app2 by (rewrite map_length; lia). rewrite !map_length, !Nat.sub_diag. reflexivity.
Qed.

(* C13 on the check routes: a 5xx-class answer is only ever the engine's own non-schema (storage) error;
   unknown namespaces, absent subjects and schema errors are client errors or plain denials *)
Theorem server_error_only_from_engine rt e : t_status (observe rt e) = 500 -> exists r, e = ERes r false /\ r_err r = true.
Proof.
  destruct rt, e as [| |r bad]; cbn; try discriminate.
  all: try (destruct (r_err r) eqn:Er; [destruct bad; cbn; try discriminate; intros _; eauto|]).
  all: try (destruct (r_m r); cbn; discriminate).
Qed.
Theorem status_is_known rt e : In (t_status (observe rt e)) [200; 400; 403; 404; 500].
Proof. destruct rt, e as [| |r bad]; cbn; auto 8.
  all: try (destruct (r_err r); [destruct bad; cbn; auto 8|]; destruct (r_m r); cbn; auto 8). Qed.
