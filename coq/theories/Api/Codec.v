(* Model of ketoapi's encodings (enc_string.go, enc_url_query.go, enc_proto.go,
   JSON struct tags of public_api_definitions.go).  Executable; extracted and
   run against the Go functions by the C18 correspondence check. *)
From Coq Require Import List Bool Lia.
From Coq Require Import Strings.Byte.
From Keto Require Import Base.Bytes.
Import ListNotations.

(* ketoapi.SubjectSet / RelationTuple / RelationQuery with Go's pointer fields as options *)
Record sset := { ss_ns : bytes; ss_obj : bytes; ss_rel : bytes }.
Record tuple := { t_ns : bytes; t_obj : bytes; t_rel : bytes;
                  t_sid : option bytes; t_sset : option sset }.
Record query := { q_ns : option bytes; q_obj : option bytes; q_rel : option bytes;
                  q_sid : option bytes; q_sset : option sset }.

Inductive outcome (A : Type) := Ok (a : A) | Err (code : nat) | Panic.
Arguments Ok {A}. Arguments Err {A}. Arguments Panic {A}.
(* error codes (classes, never message text) *)
Definition E_MALFORMED := 1.      (* ErrMalformedInput            400 *)
Definition E_DROPPED := 2.        (* ErrDroppedSubjectKey         400 *)
Definition E_DUPSUBJECT := 3.     (* ErrDuplicateSubject          400 *)
Definition E_INCOMPLETE_SUB := 4. (* ErrIncompleteSubject         400 *)
Definition E_NILSUBJECT := 5.     (* ErrNilSubject                400 *)
Definition E_INCOMPLETE_TUPLE := 6. (* ErrIncompleteTuple         400 *)
Definition E_JSONTYPE := 7.       (* json.UnmarshalTypeError *)

(* ---------- enc_string.go ---------- *)
Definition sset_string (s : sset) : bytes :=
  match ss_rel s with
  | [] => ss_ns s ++ COLON :: ss_obj s
  | _ => ss_ns s ++ COLON :: ss_obj s ++ HASH :: ss_rel s
  end.
Definition no_subject_text : bytes :=   (* "<ERROR: no subject>" *)
  [x3c;x45;x52;x52;x4f;x52;x3a;x20;x6e;x6f;x20;x73;x75;x62;x6a;x65;x63;x74;x3e].
Definition tuple_string (t : tuple) : bytes :=
  t_ns t ++ COLON :: t_obj t ++ HASH :: t_rel t ++ AT ::
  match t_sid t, t_sset t with
  | Some s, _ => s
  | None, Some ss => sset_string ss
  | None, None => no_subject_text
  end.

Definition sset_from_string (s : bytes) : outcome sset :=
  let '(no, r) := match cut HASH s with Some (a, b) => (a, b) | None => (s, []) end in
  match cut COLON no with
  | Some (n, o) => Ok {| ss_ns := n; ss_obj := o; ss_rel := r |}
  | None => Err E_MALFORMED
  end.

Definition tuple_from_string (s : bytes) : outcome tuple :=
  match cut COLON s with None => Err E_MALFORMED | Some (n, r1) =>
  match cut HASH r1 with None => Err E_MALFORMED | Some (o, r2) =>
  match cut AT r2 with None => Err E_MALFORMED | Some (r, su) =>
    let su := trim su in
    if has COLON su then
      match sset_from_string su with
      | Ok ss => Ok {| t_ns := n; t_obj := o; t_rel := r; t_sid := None; t_sset := Some ss |}
      | Err e => Err e | Panic => Panic
      end
    else Ok {| t_ns := n; t_obj := o; t_rel := r; t_sid := Some su; t_sset := None |}
  end end end.

(* documented domain of the human-readable form *)
Definition dom_sset (s : sset) : bool :=
  negb (has COLON (ss_ns s)) && negb (has HASH (ss_ns s)) && negb (has HASH (ss_obj s))
  && noparen_ends (sset_string s).
Definition dom_string (t : tuple) : bool :=
  negb (has COLON (t_ns t)) && negb (has HASH (t_obj t)) && negb (has AT (t_rel t)) &&
  match t_sid t, t_sset t with
  | Some s, None => negb (has COLON s) && noparen_ends s
  | None, Some ss => dom_sset ss
  | _, _ => false
  end.

(* ---------- enc_url_query.go ---------- *)
(* url.Values as the ordered list of (key, value) pairs; Has/Get/Add *)
Definition values := list (bytes * bytes).
Definition vhas (k : bytes) (v : values) : bool := existsb (fun p => bytes_eqb (fst p) k) v.
Fixpoint vget (k : bytes) (v : values) : bytes :=
  match v with [] => [] | (k', x) :: r => if bytes_eqb k' k then x else vget k r end.
Definition vadd (k x : bytes) (v : values) : values := v ++ [(k, x)].

(* key constants *)
Definition K_namespace : bytes := [x6e;x61;x6d;x65;x73;x70;x61;x63;x65].
Definition K_object : bytes := [x6f;x62;x6a;x65;x63;x74].
Definition K_relation : bytes := [x72;x65;x6c;x61;x74;x69;x6f;x6e].
Definition K_subject_id : bytes := [x73;x75;x62;x6a;x65;x63;x74;x5f;x69;x64].
Definition K_subject : bytes := [x73;x75;x62;x6a;x65;x63;x74].
Definition K_ss_prefix : bytes := [x73;x75;x62;x6a;x65;x63;x74;x5f;x73;x65;x74;x2e].
Definition K_ss_namespace : bytes := K_ss_prefix ++ K_namespace.
Definition K_ss_object : bytes := K_ss_prefix ++ K_object.
Definition K_ss_relation : bytes := K_ss_prefix ++ K_relation.

Definition query_from_url (v : values) : outcome query :=
  if vhas K_subject v then Err E_DROPPED else
  let hid := vhas K_subject_id v in
  let hn := vhas K_ss_namespace v in let ho := vhas K_ss_object v in let hr := vhas K_ss_relation v in
  let sub : outcome (option bytes * option sset) :=
    if negb hid && negb hn && negb ho && negb hr then Ok (None, None)
    else if hid && (hn || ho || hr) then Err E_DUPSUBJECT
    else if hid then Ok (Some (vget K_subject_id v), None)
    else if hn && ho && hr then
      Ok (None, Some {| ss_ns := vget K_ss_namespace v; ss_obj := vget K_ss_object v; ss_rel := vget K_ss_relation v |})
    else Err E_INCOMPLETE_SUB in
  match sub with
  | Err e => Err e | Panic => Panic
  | Ok (sid, ss) =>
    Ok {| q_ns := if vhas K_namespace v then Some (vget K_namespace v) else None;
          q_obj := if vhas K_object v then Some (vget K_object v) else None;
          q_rel := if vhas K_relation v then Some (vget K_relation v) else None;
          q_sid := sid; q_sset := ss |}
  end.

Definition opt_add (k : bytes) (o : option bytes) (v : values) : values :=
  match o with Some x => vadd k x v | None => v end.
Definition query_to_url (q : query) : values :=
  let v := opt_add K_namespace (q_ns q) [] in
  let v := opt_add K_relation (q_rel q) v in
  let v := opt_add K_object (q_obj q) v in
  match q_sid q, q_sset q with
  | Some s, _ => vadd K_subject_id s v
  | None, Some ss => vadd K_ss_relation (ss_rel ss) (vadd K_ss_object (ss_obj ss) (vadd K_ss_namespace (ss_ns ss) v))
  | None, None => v
  end.

Definition tuple_from_url (v : values) : outcome tuple :=
  match query_from_url v with
  | Err e => Err e | Panic => Panic
  | Ok q =>
    match q_sid q, q_sset q with
    | None, None => Err E_NILSUBJECT
    | _, _ =>
      match q_ns q, q_obj q, q_rel q with
      | Some n, Some o, Some r => Ok {| t_ns := n; t_obj := o; t_rel := r; t_sid := q_sid q; t_sset := q_sset q |}
      | _, _, _ => Err E_INCOMPLETE_TUPLE
      end
    end
  end.
Definition tuple_to_url (t : tuple) : values :=
  query_to_url {| q_ns := Some (t_ns t); q_obj := Some (t_obj t); q_rel := Some (t_rel t);
                  q_sid := t_sid t; q_sset := t_sset t |}.

(* ---------- enc_proto.go ---------- *)
Inductive pref := PId (s : bytes) | PSet (n o r : bytes).
(* *rts.Subject may be nil; its oneof Ref may be nil *)
Record ptuple := { p_ns : bytes; p_obj : bytes; p_rel : bytes; p_sub : option (option pref) }.
Record pquery := { pq_ns : option bytes; pq_obj : option bytes; pq_rel : option bytes;
                   pq_sub : option (option pref) }.

Definition tuple_to_proto (t : tuple) : outcome ptuple :=
  match t_sid t, t_sset t with
  | Some s, _ => Ok {| p_ns := t_ns t; p_obj := t_obj t; p_rel := t_rel t; p_sub := Some (Some (PId s)) |}
  | None, Some ss => Ok {| p_ns := t_ns t; p_obj := t_obj t; p_rel := t_rel t;
                           p_sub := Some (Some (PSet (ss_ns ss) (ss_obj ss) (ss_rel ss))) |}
  | None, None => Panic       (* r.SubjectSet.Namespace through a nil pointer *)
  end.
(* RelationTuple.FromProto: nil-safe getters (after fix D11b); an absent subject yields a tuple without subject *)
Definition tuple_from_proto (p : ptuple) : outcome tuple :=
  match p_sub p with
  | None | Some None => Ok {| t_ns := p_ns p; t_obj := p_obj p; t_rel := p_rel p; t_sid := None; t_sset := None |}
  | Some (Some (PId s)) => Ok {| t_ns := p_ns p; t_obj := p_obj p; t_rel := p_rel p; t_sid := Some s; t_sset := None |}
  | Some (Some (PSet n o r)) => Ok {| t_ns := p_ns p; t_obj := p_obj p; t_rel := p_rel p; t_sid := None;
                                      t_sset := Some {| ss_ns := n; ss_obj := o; ss_rel := r |} |}
  end.
(* FromDataProvider: nil-safe getters *)
Definition tuple_from_data_provider (p : ptuple) : outcome tuple :=
  match p_sub p with
  | None | Some None => Err E_NILSUBJECT
  | Some (Some (PId s)) => Ok {| t_ns := p_ns p; t_obj := p_obj p; t_rel := p_rel p; t_sid := Some s; t_sset := None |}
  | Some (Some (PSet n o r)) => Ok {| t_ns := p_ns p; t_obj := p_obj p; t_rel := p_rel p; t_sid := None;
                                      t_sset := Some {| ss_ns := n; ss_obj := o; ss_rel := r |} |}
  end.
Definition query_to_proto (q : query) : pquery :=
  {| pq_ns := q_ns q; pq_obj := q_obj q; pq_rel := q_rel q;
     pq_sub := match q_sid q, q_sset q with
               | Some s, _ => Some (Some (PId s))
               | None, Some ss => Some (Some (PSet (ss_ns ss) (ss_obj ss) (ss_rel ss)))
               | None, None => None
               end |}.
Definition query_from_data_provider (p : pquery) : query :=
  {| q_ns := pq_ns p; q_obj := pq_obj p; q_rel := pq_rel p;
     q_sid := match pq_sub p with Some (Some (PId s)) => Some s | _ => None end;
     q_sset := match pq_sub p with
               | Some (Some (PSet n o r)) => Some {| ss_ns := n; ss_obj := o; ss_rel := r |}
               | _ => None end |}.

(* ---------- JSON (struct tags; encoding/json itself is trusted) ---------- *)
Inductive jv := JNull | JStr (s : bytes) | JOther | JObj (fields : list (bytes * jv)).

Definition j_sset (s : sset) : jv :=
  JObj [(K_namespace, JStr (ss_ns s)); (K_object, JStr (ss_obj s)); (K_relation, JStr (ss_rel s))].
Definition K_subject_set : bytes := [x73;x75;x62;x6a;x65;x63;x74;x5f;x73;x65;x74].
Definition tuple_to_json (t : tuple) : jv :=
  JObj ([(K_namespace, JStr (t_ns t)); (K_object, JStr (t_obj t)); (K_relation, JStr (t_rel t))]
        ++ match t_sid t with Some s => [(K_subject_id, JStr s)] | None => [] end
        ++ match t_sset t with Some ss => [(K_subject_set, j_sset ss)] | None => [] end).
Definition query_to_json (q : query) : jv :=
  let o (x : option bytes) := match x with Some s => JStr s | None => JNull end in
  JObj ([(K_namespace, o (q_ns q)); (K_object, o (q_obj q)); (K_relation, o (q_rel q))]
        ++ match q_sid q with Some s => [(K_subject_id, JStr s)] | None => [] end
        ++ match q_sset q with Some ss => [(K_subject_set, j_sset ss)] | None => [] end).

(* ASCII case folding of keys (encoding/json matches field names case-insensitively) *)
Definition lower (b : byte) : byte :=
  match b with
  | x41 => x61 | x42 => x62 | x43 => x63 | x44 => x64 | x45 => x65 | x46 => x66 | x47 => x67
  | x48 => x68 | x49 => x69 | x4a => x6a | x4b => x6b | x4c => x6c | x4d => x6d | x4e => x6e
  | x4f => x6f | x50 => x70 | x51 => x71 | x52 => x72 | x53 => x73 | x54 => x74 | x55 => x75
  | x56 => x76 | x57 => x77 | x58 => x78 | x59 => x79 | x5a => x7a | c => c
  end.
Definition key_is (k name : bytes) : bool := bytes_eqb (map lower k) name.

(* decoding state: a field is (value, had type error) ; later duplicates overwrite *)
Definition dec_str (v : jv) (cur : bytes) : bytes * bool :=
  match v with JStr s => (s, false) | JNull => (cur, false) | _ => (cur, true) end.
Definition dec_optstr (v : jv) (cur : option bytes) : option bytes * bool :=
  match v with JStr s => (Some s, false) | JNull => (None, false) | _ => (cur, true) end.

Fixpoint dec_sset_fields (fs : list (bytes * jv)) (cur : sset) (bad : bool) : sset * bool :=
  match fs with
  | [] => (cur, bad)
  | (k, v) :: r =>
    if key_is k K_namespace then let '(x, b) := dec_str v (ss_ns cur) in
      dec_sset_fields r {| ss_ns := x; ss_obj := ss_obj cur; ss_rel := ss_rel cur |} (bad || b)
    else if key_is k K_object then let '(x, b) := dec_str v (ss_obj cur) in
      dec_sset_fields r {| ss_ns := ss_ns cur; ss_obj := x; ss_rel := ss_rel cur |} (bad || b)
    else if key_is k K_relation then let '(x, b) := dec_str v (ss_rel cur) in
      dec_sset_fields r {| ss_ns := ss_ns cur; ss_obj := ss_obj cur; ss_rel := x |} (bad || b)
    else dec_sset_fields r cur bad
  end.
Definition empty_sset := {| ss_ns := []; ss_obj := []; ss_rel := [] |}.
Definition dec_optsset (v : jv) (cur : option sset) : option sset * bool :=
  match v with
  | JNull => (None, false)
  | JObj fs => let '(s, b) := dec_sset_fields fs (match cur with Some c => c | None => empty_sset end) false in (Some s, b)
  | _ => (cur, true)
  end.

Fixpoint dec_tuple_fields (fs : list (bytes * jv)) (cur : tuple) (bad : bool) : tuple * bool :=
  match fs with
  | [] => (cur, bad)
  | (k, v) :: r =>
    if key_is k K_namespace then let '(x, b) := dec_str v (t_ns cur) in
      dec_tuple_fields r {| t_ns := x; t_obj := t_obj cur; t_rel := t_rel cur; t_sid := t_sid cur; t_sset := t_sset cur |} (bad || b)
    else if key_is k K_object then let '(x, b) := dec_str v (t_obj cur) in
      dec_tuple_fields r {| t_ns := t_ns cur; t_obj := x; t_rel := t_rel cur; t_sid := t_sid cur; t_sset := t_sset cur |} (bad || b)
    else if key_is k K_relation then let '(x, b) := dec_str v (t_rel cur) in
      dec_tuple_fields r {| t_ns := t_ns cur; t_obj := t_obj cur; t_rel := x; t_sid := t_sid cur; t_sset := t_sset cur |} (bad || b)
    else if key_is k K_subject_id then let '(x, b) := dec_optstr v (t_sid cur) in
      dec_tuple_fields r {| t_ns := t_ns cur; t_obj := t_obj cur; t_rel := t_rel cur; t_sid := x; t_sset := t_sset cur |} (bad || b)
    else if key_is k K_subject_set then let '(x, b) := dec_optsset v (t_sset cur) in
      dec_tuple_fields r {| t_ns := t_ns cur; t_obj := t_obj cur; t_rel := t_rel cur; t_sid := t_sid cur; t_sset := x |} (bad || b)
    else dec_tuple_fields r cur bad
  end.
Definition empty_tuple := {| t_ns := []; t_obj := []; t_rel := []; t_sid := None; t_sset := None |}.
Definition tuple_from_json (v : jv) : outcome tuple :=
  match v with
  | JNull => Ok empty_tuple
  | JObj fs => let '(t, bad) := dec_tuple_fields fs empty_tuple false in if bad then Err E_JSONTYPE else Ok t
  | _ => Err E_JSONTYPE
  end.

Fixpoint dec_query_fields (fs : list (bytes * jv)) (cur : query) (bad : bool) : query * bool :=
  match fs with
  | [] => (cur, bad)
  | (k, v) :: r =>
    if key_is k K_namespace then let '(x, b) := dec_optstr v (q_ns cur) in
      dec_query_fields r {| q_ns := x; q_obj := q_obj cur; q_rel := q_rel cur; q_sid := q_sid cur; q_sset := q_sset cur |} (bad || b)
    else if key_is k K_object then let '(x, b) := dec_optstr v (q_obj cur) in
      dec_query_fields r {| q_ns := q_ns cur; q_obj := x; q_rel := q_rel cur; q_sid := q_sid cur; q_sset := q_sset cur |} (bad || b)
    else if key_is k K_relation then let '(x, b) := dec_optstr v (q_rel cur) in
      dec_query_fields r {| q_ns := q_ns cur; q_obj := q_obj cur; q_rel := x; q_sid := q_sid cur; q_sset := q_sset cur |} (bad || b)
    else if key_is k K_subject_id then let '(x, b) := dec_optstr v (q_sid cur) in
      dec_query_fields r {| q_ns := q_ns cur; q_obj := q_obj cur; q_rel := q_rel cur; q_sid := x; q_sset := q_sset cur |} (bad || b)
    else if key_is k K_subject_set then let '(x, b) := dec_optsset v (q_sset cur) in
      dec_query_fields r {| q_ns := q_ns cur; q_obj := q_obj cur; q_rel := q_rel cur; q_sid := q_sid cur; q_sset := x |} (bad || b)
    else dec_query_fields r cur bad
  end.
Definition empty_query := {| q_ns := None; q_obj := None; q_rel := None; q_sid := None; q_sset := None |}.
Definition query_from_json (v : jv) : outcome query :=
  match v with
  | JNull => Ok empty_query
  | JObj fs => let '(q, bad) := dec_query_fields fs empty_query false in if bad then Err E_JSONTYPE else Ok q
  | _ => Err E_JSONTYPE
  end.

(* subject discipline *)
Definition one_subject (t : tuple) : bool :=
  match t_sid t, t_sset t with Some _, None | None, Some _ => true | _, _ => false end.
Definition atmost_one_subject (q : query) : bool :=
  match q_sid q, q_sset q with Some _, Some _ => false | _, _ => true end.

(* ---------- cmd/relationtuple/parse.go: a text file of relationships ---------- *)
(* lines are split at '\n', trimmed (strings.TrimSpace, ASCII white space here), empty lines and lines that START
   with "//" are skipped, every other line goes through FromString; the first error ends the command *)
Definition NL : byte := x0a.  Definition SLASH : byte := x2f.
Definition is_ws (b : byte) : bool :=
  beq b x20 || beq b x09 || beq b x0a || beq b x0b || beq b x0c || beq b x0d.
Fixpoint trim_ws_l (s : bytes) : bytes := match s with c :: r => if is_ws c then trim_ws_l r else s | [] => [] end.
Definition trim_ws (s : bytes) : bytes := rev (trim_ws_l (rev (trim_ws_l s))).
Fixpoint split_nl (s : bytes) (cur : bytes) : list bytes :=
  match s with
  | [] => [rev cur]
  | c :: r => if beq c NL then rev cur :: split_nl r [] else split_nl r (c :: cur)
  end.
Definition is_comment (row : bytes) : bool := match row with a :: b :: _ => beq a SLASH && beq b SLASH | _ => false end.
Fixpoint parse_rows (rows : list bytes) : outcome (list tuple) :=
  match rows with
  | [] => Ok []
  | row :: r =>
    let row := trim_ws row in
    match row with
    | [] => parse_rows r
    | _ => if is_comment row then parse_rows r else
           match tuple_from_string row with
           | Ok t => match parse_rows r with Ok l => Ok (t :: l) | e => e end
           | Err e => Err e
           | Panic => Panic
           end
    end
  end.
Definition parse_file (s : bytes) : outcome (list tuple) := parse_rows (split_nl s []).
(* what the documentation writes: one relationship per line *)
Definition print_file (ts : list tuple) : bytes := flat_map (fun t => tuple_string t ++ [NL]) ts.
