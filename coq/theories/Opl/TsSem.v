(* TypeScript truth-value semantics of permission expressions, and the meaning-preservation of the parser's
   AST combinators (flattening, '||' / '&&' combination). *)
From Coq Require Import List Bool Arith NArith Lia.
From Coq Require Import Strings.Byte Strings.String.
From Keto Require Import Base.Bytes Engine.Ast Opl.Lexer Opl.Parser.
Import ListNotations.

(* a valuation gives a truth value to every atom: includes/permits (relation r) and traverse (relation r, target cr) *)
Definition valuation := bytes -> bytes -> bool.

Fixpoint eval (v : valuation) (c : child) : bool :=
  match c with
  | CComputed r => v r []
  | CTuple r cr => v r cr
  | CRewrite OpOr cs => (fix any (l : list child) := match l with [] => false | x :: r => eval v x || any r end) cs
  | CRewrite OpAnd cs => match cs with [] => false | _ => (fix all (l : list child) := match l with [] => true | x :: r => eval v x && all r end) cs end
  | CInvert c' => negb (eval v c')
  end.
Definition eval_or (v : valuation) (cs : list child) : bool := existsb (eval v) cs.
Definition eval_and (v : valuation) (cs : list child) : bool := forallb (eval v) cs.
Lemma eval_Or v cs : eval v (CRewrite OpOr cs) = eval_or v cs.
Proof. induction cs as [|c cs IH]; [reflexivity|]. cbn in *. now rewrite IH. Qed.
Lemma eval_And v cs : eval v (CRewrite OpAnd cs) = match cs with [] => false | _ => eval_and v cs end.
Proof.
  destruct cs as [|c0 cs0]; [reflexivity|].
  assert (G : forall l, (fix all (l : list child) := match l with [] => true | x :: r => eval v x && all r end) l = eval_and v l).
  { induction l as [|c cs IH]; [reflexivity|]. cbn. now rewrite IH. }
  cbn [eval]. rewrite G. reflexivity.
Qed.

(* no empty '&&' node: the parser never builds one *)
Fixpoint wf (c : child) : bool :=
  match c with
  | CComputed _ | CTuple _ _ => true
  | CRewrite op cs => match op, cs with OpAnd, [] => false | _, _ => true end &&
                      (fix all (l : list child) := match l with [] => true | x :: r => wf x && all r end) cs
  | CInvert c' => wf c'
  end.
Lemma wf_rewrite op cs : wf (CRewrite op cs) = match op, cs with OpAnd, [] => false | _, _ => true end && forallb wf cs.
Proof. cbn [wf]. f_equal; try (induction cs as [|c cs IH]; [reflexivity|]; simpl; now rewrite IH). Qed.

Definition same_op (a b : operator) : bool := match a, b with OpOr, OpOr | OpAnd, OpAnd => true | _, _ => false end.

Definition eval_list (op : operator) (v : valuation) (cs : list child) : bool :=
  match op with OpOr => eval_or v cs | OpAnd => eval_and v cs end.
Lemma eval_list_app op v a b : eval_list op v (a ++ b) = match op with OpOr => eval_list op v a || eval_list op v b | OpAnd => eval_list op v a && eval_list op v b end.
Proof. destruct op; cbn; [apply existsb_app|apply forallb_app]. Qed.
Lemma eval_node op v cs : eval v (CRewrite op cs) = match op, cs with OpAnd, [] => false | _, _ => eval_list op v cs end.
Proof. destruct op; [rewrite eval_Or; destruct cs; reflexivity|rewrite eval_And; destruct cs; reflexivity]. Qed.

(* simplifyExpression: flattening nested rewrites of the same operator preserves the meaning *)
Lemma simplify_children_sound v fuel : forall op cs, forallb wf cs = true ->
  eval_list op v (simplify_children fuel op cs) = eval_list op v cs /\ (cs <> [] -> op = OpAnd -> simplify_children fuel op cs <> []).
Proof.
  induction fuel as [|f IH]; intros op cs Hwf; cbn [simplify_children]; [split; auto|].
  induction cs as [|c cs IHc]; [split; [reflexivity|congruence]|].
  cbn [forallb] in Hwf. apply andb_true_iff in Hwf as [Hc Hcs]. destruct (IHc Hcs) as [E1 E2]. cbn [flat_map].
  assert (Hhead : eval_list op v (match c with
            | CRewrite op' cs' => if match op, op' with OpOr, OpOr | OpAnd, OpAnd => true | _, _ => false end then simplify_children f op cs' else [c]
            | _ => [c] end) = eval_list op v [c] /\
          (op = OpAnd -> (match c with
            | CRewrite op' cs' => if match op, op' with OpOr, OpOr | OpAnd, OpAnd => true | _, _ => false end then simplify_children f op cs' else [c]
            | _ => [c] end) <> [])).
  { destruct c as [r|r cr0|op' cs'|c']; try (split; [reflexivity|intros _; discriminate]).
    rewrite wf_rewrite in Hc. apply andb_true_iff in Hc as [Hne Hcs'].
    destruct op, op'; try (split; [reflexivity|intros _; discriminate]).
    - destruct (IH OpOr cs' Hcs') as [F1 _]. split; [|discriminate]. rewrite F1. cbn [eval_list eval_or existsb]. now rewrite eval_Or, orb_false_r.
    - destruct (IH OpAnd cs' Hcs') as [F1 F2]. destruct cs' as [|c0 cs0]; [discriminate|]. split; [|intros _; apply F2; [discriminate|reflexivity]].
      rewrite F1. cbn [eval_list eval_and forallb]. rewrite eval_And. cbn [eval_and forallb]. now rewrite andb_true_r. }
  destruct Hhead as [H1 H2]. split.
  - rewrite eval_list_app, H1, E1. change (c :: cs) with ([c] ++ cs). rewrite (eval_list_app op v [c] cs). reflexivity.
  - intros _ Hop Hx. apply app_eq_nil in Hx as [Hx1 _]. exact (H2 Hop Hx1).
Qed.

Theorem simplify_sound v (r : rw) : wf (rw_child r) = true -> eval v (CRewrite (rw_op (simplify r)) (rw_children (simplify r))) = eval v (rw_child r).
Proof.
  destruct r as [op cs]. unfold simplify, rw_child; cbn [fst snd rw_op rw_children]. intros Hwf.
  rewrite wf_rewrite in Hwf. apply andb_true_iff in Hwf as [Hne Hcs].
  destruct (simplify_children_sound v (S (children_size cs)) op cs Hcs) as [E1 E2].
  rewrite !eval_node. destruct op.
  - destruct (simplify_children _ OpOr cs); exact E1 || (cbn in *; exact E1).
  - destruct cs as [|c0 cs0]; [discriminate|]. specialize (E2 ltac:(discriminate) eq_refl).
    destruct (simplify_children _ OpAnd (c0 :: cs0)); [contradiction|exact E1].
Qed.

(* '||' combines a left operand with everything to its right; '&&' chains bind tighter (fix D8) *)
Theorem or_combination v (r rhs : rw) :
  eval v (CRewrite OpOr (rw_child r :: match fst rhs with OpOr => snd rhs | OpAnd => [rw_child rhs] end)) = eval v (rw_child r) || eval v (rw_child rhs).
Proof.
  destruct rhs as [[|] cs]; unfold rw_child; cbn [fst snd]; rewrite !eval_Or; cbn [eval_or existsb].
  - reflexivity.
  - now rewrite orb_false_r.
Qed.
Theorem and_combination v (r : rw) (ch : child) :
  eval v (CRewrite OpAnd ([rw_child r] ++ [ch])) = eval v (rw_child r) && eval v ch.
Proof. rewrite eval_And. cbn. now rewrite andb_true_r. Qed.

(* the parser on real source text: precedence and grouping as in TypeScript *)
Definition src_of (expr : string) : bytes := list_byte_of_string ("class U implements Namespace {} class D implements Namespace { related: { a: U[], b: U[], c: U[] } permits = { p: (ctx) => " ++ expr ++ " } }").
Definition perm_p (s : bytes) : option child :=
  match Parse s with
  | ([_; d], []) => match find_rel (ns_rels d) [x70] with Some r => option_map (fun w => CRewrite (rw_op w) (rw_children w)) (rel_rewrite r) | None => None end
  | _ => None
  end.
Definition A := "this.related.a.includes(ctx.subject)"%string.
Definition B := "this.related.b.includes(ctx.subject)"%string.
Definition C := "this.related.c.includes(ctx.subject)"%string.
Definition va (a b c : bool) : valuation := fun r _ => if bytes_eqb r [x61] then a else if bytes_eqb r [x62] then b else c.
Definition table (e : option child) : list bool :=
  match e with None => [] | Some ch => map (fun t => let '(a, b, c) := t in eval (va a b c) ch)
    [(false,false,false);(false,false,true);(false,true,false);(false,true,true);(true,false,false);(true,false,true);(true,true,false);(true,true,true)] end.
Example precedence_examples :
  table (perm_p (src_of (A ++ " || " ++ B ++ " && " ++ C))) = [false;false;false;true;true;true;true;true] /\
  table (perm_p (src_of (A ++ " && " ++ B ++ " || " ++ C))) = [false;true;false;true;false;true;true;true] /\
  table (perm_p (src_of ("!" ++ A ++ " && (" ++ B ++ " || " ++ C ++ ")"))) = [false;true;true;true;false;false;false;false] /\
  table (perm_p (src_of ("!(" ++ A ++ " || " ++ B ++ ") || " ++ C))) = [true;true;false;true;false;true;false;true] /\
  perm_p (src_of (A ++ " " ++ B)) = None.
Proof. vm_compute. repeat split. Qed.
