(* Model of internal/schema/parser.go (after fix D8) over the token list of Opl/Lexer.v, including the deferred
   type checks of typechecks.go (after fix D9/D10). *)
From Coq Require Import List Bool Arith NArith Lia.
From Coq Require Import Strings.Byte.
From Keto Require Import Base.Bytes Engine.Ast Opl.Lexer.
From Keto Require Gen.Generated.
Import ListNotations.

Definition S_ (s : list byte) := s.
Definition t_implements := kw_implements.
Definition t_Namespace : bytes := [x4e;x61;x6d;x65;x73;x70;x61;x63;x65].
Definition t_related : bytes := [x72;x65;x6c;x61;x74;x65;x64].
Definition t_permits : bytes := [x70;x65;x72;x6d;x69;x74;x73].
Definition t_Array : bytes := [x41;x72;x72;x61;x79].
Definition t_SubjectSet : bytes := [x53;x75;x62;x6a;x65;x63;x74;x53;x65;x74].
Definition t_Context : bytes := [x43;x6f;x6e;x74;x65;x78;x74].
Definition t_boolean : bytes := [x62;x6f;x6f;x6c;x65;x61;x6e].
Definition t_traverse : bytes := [x74;x72;x61;x76;x65;x72;x73;x65].
Definition t_includes : bytes := [x69;x6e;x63;x6c;x75;x64;x65;x73].
Definition t_subject : bytes := [x73;x75;x62;x6a;x65;x63;x74].
Definition c (b : byte) : bytes := [b].

Inductive tcheck :=
| TNsExists (ns : item)
| TNsHasRel (ns rel : item)
| TCurHasRel (cur : bytes) (rel : item)
| TAllTypes (cur : bytes) (relty : item) (rel : bytes).

Record pst := {
  toks : list item;            (* remaining non-comment items; after the last one the lexer is in its nil state *)
  errs : list item;            (* the item each reported error points at, in order *)
  fatal : bool;
  nss : list namespace;        (* parsed namespaces, in order *)
  cur : namespace;
  checks : list tcheck
}.
Definition broken_item := {| i_typ := IError; i_val := []; i_start := 0; i_end := 0 |}.

Definition p_next (p : pst) : item * pst :=
  match toks p with
  | [] => (broken_item, p)
  | i :: r => (i, {| toks := r; errs := errs p; fatal := fatal p; nss := nss p; cur := cur p; checks := checks p |})
  end.
Definition p_peek (p : pst) : item := match toks p with [] => broken_item | i :: _ => i end.
Definition add_err (i : item) (p : pst) : pst :=
  {| toks := toks p; errs := errs p ++ [i]; fatal := fatal p; nss := nss p; cur := cur p; checks := checks p |}.
Definition add_fatal (i : item) (p : pst) : pst :=
  {| toks := toks p; errs := errs p ++ [i]; fatal := true; nss := nss p; cur := cur p; checks := checks p |}.
Definition add_check (t : tcheck) (p : pst) : pst :=
  {| toks := toks p; errs := errs p; fatal := fatal p; nss := nss p; cur := cur p; checks := checks p ++ [t] |}.
Definition set_cur (n : namespace) (p : pst) : pst :=
  {| toks := toks p; errs := errs p; fatal := fatal p; nss := nss p; cur := n; checks := checks p |}.
Definition push_ns (p : pst) : pst :=
  {| toks := toks p; errs := errs p; fatal := fatal p; nss := nss p ++ [cur p]; cur := cur p; checks := checks p |}.
Definition add_relation (r : relation) (p : pst) : pst :=
  set_cur {| ns_name := ns_name (cur p); ns_rels := ns_rels (cur p) ++ [r] |} p.

(* ---- match ---- *)
Inductive mtok := MStr (s : bytes) | MIdent | MItem | MOpt (ss : list bytes).
Definition is_name (i : item) : bool := match i_typ i with IIdent | IString => true | _ => false end.

(* consumes the expected strings one by one; false + fatal on the first mismatch *)
Fixpoint match_strs (ss : list bytes) (p : pst) : bool * pst :=
  match ss with
  | [] => (true, p)
  | s :: r => let '(i, p1) := p_next p in
              if bytes_eqb (i_val i) s then match_strs r p1 else (false, add_fatal i p1)
  end.
(* returns success, the captured items (for MIdent / MItem), the state *)
Fixpoint p_match (ts : list mtok) (p : pst) : bool * list item * pst :=
  if fatal p then (false, [], p) else
  match ts with
  | [] => (true, [], p)
  | t :: r =>
    match t with
    | MStr s =>
      let '(i, p1) := p_next p in
      if bytes_eqb (i_val i) s then p_match r p1 else (false, [], add_fatal i p1)
    | MIdent =>
      let '(i, p1) := p_next p in
      if is_name i then let '(ok, caps, p2) := p_match r p1 in (ok, i :: caps, p2) else (false, [], add_fatal i p1)
    | MItem =>
      let '(i, p1) := p_next p in
      let '(ok, caps, p2) := p_match r p1 in (ok, i :: caps, p2)
    | MOpt ss =>
      match ss with
      | [] => p_match r p
      | first :: rest =>
        if bytes_eqb (i_val (p_peek p)) first then
          let '(_, p1) := p_next p in
          let '(ok, p2) := match_strs rest p1 in
          if ok then p_match r p2 else (false, [], p2)
        else p_match r p
      end
    end
  end.
Definition strs (l : list bytes) : list mtok := map MStr l.
Definition cap1 (l : list item) : item := match l with x :: _ => x | [] => broken_item end.
Definition cap2 (l : list item) : item := match l with _ :: x :: _ => x | _ => broken_item end.

(* matchPropertyAccess: [ name ]  or  . name *)
Definition match_property (want : mtok) (p : pst) : bool * list item * pst :=
  if fatal p then (false, [], p) else
  if ityp_eqb (i_typ (p_peek p)) BracketL then
    let '(ok, caps, p1) := p_match [MStr (c x5b); want; MStr (c x5d)] p in
    if ok then (true, caps, p1) else (false, caps, p1)     (* the second alternative fails at once: fatal is set *)
  else p_match [MStr (c x2e); want] p.

(* ---- types ---- *)
Definition match_subject_set (p : pst) : rtype * pst :=
  let '(_, caps, p1) := p_match [MStr (c x3c); MItem; MStr (c x2c); MItem; MStr (c x3e)] p in
  let n := cap1 caps in let r := cap2 caps in
  ({| ty_ns := i_val n; ty_rel := i_val r |}, add_check (TNsHasRel n r) p1).

Fixpoint parse_type_union (fuel : nat) (endt : ityp) (acc : list rtype) (p : pst) : list rtype * pst :=
  match fuel with
  | 0 => (acc, p)
  | S f =>
    if fatal p then (acc, p) else
    let '(_, caps, p1) := p_match [MItem] p in
    let id := cap1 caps in
    let '(acc1, p2) :=
      if bytes_eqb (i_val id) t_SubjectSet then let '(t, q) := match_subject_set p1 in (acc ++ [t], q)
      else (acc ++ [{| ty_ns := i_val id; ty_rel := [] |}], add_check (TNsExists id) p1) in
    let '(i, p3) := p_next p2 in
    if ityp_eqb (i_typ i) endt then (acc1, p3)
    else if ityp_eqb (i_typ i) TypeUnion then parse_type_union f endt acc1 p3
    else parse_type_union f endt acc1 (add_fatal i p3)
  end.

Definition arr_suffix : list mtok := [MStr (c x5b); MStr (c x5d); MOpt [c x2c]].

Fixpoint parse_related_loop (fuel : nat) (p : pst) : pst :=
  match fuel with
  | 0 => p
  | S f =>
    if fatal p then p else
    let '(i, p1) := p_next p in
    match i_typ i with
    | Semicolon => parse_related_loop f p1
    | BraceR => p1
    | IIdent | IString =>
      let '(_, _, p2) := p_match [MStr (c x3a)] p1 in
      let '(j, p3) := p_next p2 in
      let '(types, p4) :=
        if bytes_eqb (i_val j) t_Array then
          let '(_, _, q) := p_match [MStr (c x3c)] p3 in
          let '(ts, q0) := parse_type_union (S (length (toks q))) AngledR [] q in
          let '(_, _, q1) := p_match [MOpt [c x2c]] q0 in (ts, q1)           (* fix D22: an optional ',' after Array<T> *)
        else if bytes_eqb (i_val j) t_SubjectSet then
          let '(t, q) := match_subject_set p3 in
          let '(_, _, q1) := p_match arr_suffix q in ([t], q1)
        else if ityp_eqb (i_typ j) ParenL then
          let '(ts, q) := parse_type_union (S (length (toks p3))) ParenR [] p3 in
          let '(_, _, q1) := p_match arr_suffix q in (ts, q1)
        else
          let q := add_check (TNsExists j) p3 in
          let '(_, _, q1) := p_match arr_suffix q in ([{| ty_ns := i_val j; ty_rel := [] |}], q1) in
      parse_related_loop f (add_relation {| rel_name := i_val i; rel_types := types; rel_rewrite := None |} p4)
    | _ => add_fatal i p1
    end
  end.
Definition parse_related (p : pst) : pst :=
  let '(_, _, p1) := p_match [MStr (c x3a); MStr (c x7b)] p in parse_related_loop (S (length (toks p1))) p1.

(* ---- permission expressions ---- *)
Definition rw := (operator * list child)%type.
Definition as_rewrite (ch : child) : rw := match ch with CRewrite op cs => (op, cs) | _ => (OpOr, [ch]) end.
Definition add_child (root : option rw) (ch : child) : option rw :=
  match root with None => Some (as_rewrite ch) | Some (op, cs) => Some (op, cs ++ [ch]) end.
Definition rw_child (r : rw) : child := CRewrite (fst r) (snd r).

(* parseComputedSubjectSet *)
Definition parse_computed (name : item) (p : pst) : option child * pst :=
  let '(ok, _, p1) := p_match (strs [c x28; kw_ctx; c x2e; t_subject; c x29]) p in
  if ok then (Some (CComputed (i_val name)), add_check (TCurHasRel (ns_name (cur p1)) name) p1) else (None, p1).

(* parseTupleToSubjectSet *)
Definition parse_ttu (relation : item) (p : pst) : option child * pst :=
  let '(ok0, _, p0) := p_match [MStr (c x28)] p in
  if negb ok0 then (None, p0) else
  let '(okarg, arg, p1) :=
    if negb (fatal p0) && ityp_eqb (i_typ (p_peek p0)) ParenL then
      let '(ok, caps, q) := p_match [MStr (c x28); MItem; MStr (c x29)] p0 in
      if ok then (true, cap1 caps, q) else let '(ok2, caps2, q2) := p_match [MItem] q in (ok2, cap1 caps2, q2)
    else let '(ok, caps, q) := p_match [MItem] p0 in (ok, cap1 caps, q) in
  if negb okarg then (None, p1) else
  let '(_, caps, p2) := p_match [MStr [x3d; x3e]; MStr (i_val arg); MStr (c x2e); MItem] p1 in
  let verb := match caps with v :: _ => v | [] => {| i_typ := IError; i_val := []; i_start := 0; i_end := 0 |} end in
  let finish (crel : bytes) (q : pst) :=
    (Some (CTuple (i_val relation) crel),
     add_check (TCurHasRel (ns_name (cur q)) relation) (add_check (TAllTypes (ns_name (cur q)) relation crel) q)) in
  if bytes_eqb (i_val verb) t_related then
    let '(okp, pc, p3) := match_property MIdent p2 in
    if negb okp then (None, p3) else
    let '(_, _, p4) := p_match [MStr (c x2e); MStr t_includes; MStr (c x28); MStr kw_ctx; MStr (c x2e); MStr t_subject;
                                MOpt [c x2c]; MStr (c x29); MOpt [c x2c]; MStr (c x29)] p3 in
    finish (i_val (cap1 pc)) p4
  else if bytes_eqb (i_val verb) t_permits then
    let '(okp, pc, p3) := match_property MIdent p2 in
    if negb okp then (None, p3) else
    let '(_, _, p4) := p_match (strs [c x28; kw_ctx; c x29; c x29]) p3 in
    finish (i_val (cap1 pc)) p4
  else (None, add_fatal verb p2).

(* parsePermissionExpression: one atom *)
Definition parse_atom (p : pst) : option child * pst :=
  let '(ok, caps, p1) := p_match [MStr kw_this; MStr (c x2e); MItem] p in
  if negb ok then (None, p1) else
  let verb := cap1 caps in
  let '(okn, nc, p2) := match_property MItem p1 in
  if negb okn then (None, p2) else
  let name := cap1 nc in
  if bytes_eqb (i_val verb) t_related then
    let '(okd, _, p3) := p_match [MStr (c x2e)] p2 in
    if negb okd then (None, p3) else
    let '(i, p4) := p_next p3 in
    if bytes_eqb (i_val i) t_traverse then parse_ttu name p4
    else if bytes_eqb (i_val i) t_includes then parse_computed name p4
    else (None, add_fatal i p4)
  else if bytes_eqb (i_val verb) t_permits then
    let '(okc, _, p3) := p_match (strs [c x28; kw_ctx; c x29]) p2 in
    if negb okc then (None, p3) else
    (Some (CComputed (i_val name)), add_check (TCurHasRel (ns_name (cur p3)) name) p3)
  else (None, add_fatal verb p2).

Definition nesting_limit : nat := N.to_nat Gen.Generated.expressionNestingMaxDepth.

(* parsePermissionExpressions / parseNotExpression; depth is the remaining nesting budget *)
Fixpoint parse_exprs (fuel : nat) (final : ityp) (depth : nat) (root : option rw) (expect : bool) (p : pst) {struct fuel} : option rw * pst :=
  match fuel with
  | 0 => (None, p)
  | S f =>
    match depth with
    | 0 => (None, add_fatal (p_peek p) p)
    | S dm1 =>
    if fatal p then (None, p) else
    let i := p_peek p in
    if ityp_eqb (i_typ i) ParenL then
      let '(_, p1) := p_next p in
      match parse_exprs f ParenR dm1 None true p1 with
      | (None, p2) => (None, p2)
      | (Some ch, p2) => parse_exprs f final depth (add_child root (rw_child ch)) false p2
      end
    else if ityp_eqb (i_typ i) final then let '(_, p1) := p_next p in (root, p1)
    else if ityp_eqb (i_typ i) BraceR then (root, p)
    else if ityp_eqb (i_typ i) OAnd || ityp_eqb (i_typ i) OOr then
      let '(_, p1) := p_next p in
      match root with
      | None => (None, p1)
      | Some r =>
        if ityp_eqb (i_typ i) OOr then
          match parse_exprs f final depth None true p1 with
          | (None, p2) => (None, if fatal p2 then p2 else add_fatal i p2)
          | (Some rhs, p2) =>
            (Some (OpOr, rw_child r :: match fst rhs with OpOr => snd rhs | OpAnd => [rw_child rhs] end), p2)
          end
        else parse_exprs f final depth (Some (OpAnd, [rw_child r])) true p1
      end
    else if ityp_eqb (i_typ i) ONot then
      let '(_, p1) := p_next p in
      (* parseNotExpression(depth-1) *)
      match dm1 with
      | 0 => (None, add_fatal (p_peek p1) p1)
      | S dm2 =>
        let '(ch, p2) :=
          if ityp_eqb (i_typ (p_peek p1)) ParenL then
            let '(_, q) := p_next p1 in
            match parse_exprs f ParenR dm2 None true q with
            | (None, q2) => (None, q2)
            | (Some r, q2) => (Some (rw_child r), q2)
            end
          else parse_atom p1 in
        match ch with
        | None => (None, p2)
        | Some x => parse_exprs f final depth (add_child root (CInvert x)) false p2
        end
      end
    else
      if negb expect then (None, add_fatal i p)
      else match parse_atom p with
           | (None, p1) => (None, p1)
           | (Some ch, p1) => parse_exprs f final depth (add_child root ch) false p1
           end
    end
  end.

(* simplifyExpression: merges nested rewrites of the same operator (only into same-operator parents) *)
Fixpoint simplify_children (fuel : nat) (op : operator) (cs : list child) : list child :=
  match fuel with
  | 0 => cs
  | S f =>
    flat_map (fun ch => match ch with
                        | CRewrite op' cs' => if match op, op' with OpOr, OpOr | OpAnd, OpAnd => true | _, _ => false end
                                               then simplify_children f op cs' else [ch]
                        | _ => [ch] end) cs
  end.
Definition simplify (r : rw) : rewrite :=
  {| rw_op := fst r; rw_children := simplify_children (S (children_size (snd r))) (fst r) (snd r) |}.

Definition permit_header : list mtok :=
  [MStr (c x3a); MStr (c x28); MStr kw_ctx; MOpt [c x3a; t_Context]; MStr (c x29); MOpt [c x3a; t_boolean]; MStr [x3d; x3e]].

Fixpoint parse_permits_loop (fuel : nat) (p : pst) : pst :=
  match fuel with
  | 0 => p
  | S f =>
    if fatal p then p else
    let '(i, p1) := p_next p in
    match i_typ i with
    | BraceR => p1
    | IIdent | IString =>
      let '(_, _, p2) := p_match permit_header p1 in
      match parse_exprs (S (2 * length (toks p2))) OComma nesting_limit None true p2 with
      | (None, p3) => p3                                       (* returns from parsePermits; the class loop goes on *)
      | (Some r, p3) =>
        parse_permits_loop f (add_relation {| rel_name := i_val i; rel_types := []; rel_rewrite := Some (simplify r) |} p3)
      end
    | _ => add_fatal i p1
    end
  end.
Definition parse_permits (p : pst) : pst :=
  let '(_, _, p1) := p_match [MStr (c x3d); MStr (c x7b)] p in parse_permits_loop (S (length (toks p1))) p1.

Fixpoint parse_class_loop (fuel : nat) (p : pst) : pst :=
  match fuel with
  | 0 => p
  | S f =>
    if fatal p then p else
    let '(i, p1) := p_next p in
    if ityp_eqb (i_typ i) BraceR then push_ns p1
    else if bytes_eqb (i_val i) t_related then parse_class_loop f (parse_related p1)
    else if bytes_eqb (i_val i) t_permits then parse_class_loop f (parse_permits p1)
    else if ityp_eqb (i_typ i) Semicolon then parse_class_loop f p1
    else add_fatal i p1
  end.
Definition parse_class (p : pst) : pst :=
  let '(_, caps, p1) := p_match [MIdent; MStr t_implements; MStr t_Namespace; MStr (c x7b)] p in
  let name := match caps with n :: _ => i_val n | [] => [] end in
  parse_class_loop (S (length (toks p1))) (set_cur {| ns_name := name; ns_rels := [] |} p1).

Fixpoint parse_top (fuel : nat) (p : pst) : pst :=
  match fuel with
  | 0 => p
  | S f =>
    if fatal p then p else
    let '(i, p1) := p_next p in
    match i_typ i with
    | IEOF => p1
    | IError => add_fatal i p1
    | KClass => parse_top f (parse_class p1)
    | _ => parse_top f p1
    end
  end.

(* ---- type checks (run only when there was no syntax error) ---- *)
Fixpoint ns_find (l : list namespace) (n : bytes) : option namespace :=
  match l with [] => None | x :: r => if bytes_eqb (ns_name x) n then Some x else ns_find r n end.
Definition rel_find (n : namespace) (r : bytes) : option relation := find_rel (ns_rels n) r.
Definition find_relation (l : list namespace) (n r : bytes) : option relation :=
  match ns_find l n with Some x => rel_find x r | None => None end.

Definition run_check (l : list namespace) (t : tcheck) : list item :=
  match t with
  | TNsExists n => match ns_find l (i_val n) with Some _ => [] | None => [n] end
  | TNsHasRel n r =>
    match ns_find l (i_val n) with
    | Some x => match rel_find x (i_val r) with Some _ => [] | None => [r] end
    | None => [n]
    end
  | TCurHasRel cur r =>
    match ns_find l cur with
    | Some x => match rel_find x (i_val r) with Some _ => [] | None => [r] end
    | None => [r]
    end
  | TAllTypes cur relty rel =>
    match find_relation l cur (i_val relty) with
    | None => [relty]
    | Some r => flat_map (fun t => match find_relation l (ty_ns t) rel with Some _ => [] | None => [relty] end) (rel_types r)
    end
  end.

Definition empty_ns := {| ns_name := []; ns_rels := [] |}.
Definition parse_tokens (ts : list item) : list namespace * list item :=
  let p := parse_top (S (length ts)) {| toks := ts; errs := []; fatal := false; nss := []; cur := empty_ns; checks := [] |} in
  match errs p with
  | [] => (nss p, flat_map (run_check (nss p)) (checks p))
  | es => (nss p, es)
  end.
Definition Parse (s : bytes) : list namespace * list item := parse_tokens (tokens s).
