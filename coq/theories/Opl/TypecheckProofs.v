(* A well-typed configuration cannot produce a schema error ("relation does not exist") on conforming data. *)
From Coq Require Import List Bool Arith NArith ZArith Lia Permutation.
From Keto Require Import Base.Bytes Base.ListX Store.Sql Store.PagingProofs Engine.Ast Engine.Engine Engine.Top Opl.Typecheck.
Import ListNotations.

Section NoSchemaError.
Variable cfg : config.
Variable strict : bool.
Variable nid : N.
Variable d : db.
Variable maxWidth : nat.
Variable sub : isub.
Let F : nat -> bool := fun _ => false.

Hypothesis WT : welltyped cfg = true.
Hypothesis CONF : forall x, In x (rows d) -> in_net nid x = true -> row_conforms cfg x = true.

Definition Decl (n r : bytes) : Prop := ast_relation_for cfg n r <> inr tt.

Lemma find_ns_name c n ns : find_ns c n = Some ns -> ns_name ns = n.
Proof. induction c as [|y c IH]; cbn; [discriminate|]. destruct (bytes_eqb (ns_name y) n) eqn:E; [intros H; inversion H; subst; now apply bytes_eqb_eq|auto]. Qed.

Lemma declared_Decl n r : declared cfg n r = true -> Decl n r.
Proof.
  unfold declared, Decl, ast_relation_for. destruct r as [|b r]; [discriminate|].
  destruct (find_ns cfg n) as [ns|]; [|discriminate]. destruct (find_rel (ns_rels ns) (b :: r)) eqn:E; [|discriminate].
  intros _. destruct (ns_rels ns); [discriminate|]. rewrite E. discriminate.
Qed.
Lemma nil_Decl n : Decl n []. Proof. unfold Decl. cbn. discriminate. Qed.

Lemma ast_some n r x : ast_relation_for cfg n r = inl (Some x) ->
  exists ns, find_ns cfg n = Some ns /\ find_rel (ns_rels ns) r = Some x.
Proof.
  unfold ast_relation_for. destruct r as [|b r]; [discriminate|].
  destruct (find_ns cfg n) as [ns|] eqn:En; [|discriminate].
  destruct (ns_rels ns) as [|r0 rs] eqn:Er; [discriminate|].
  destruct (find_rel (r0 :: rs) (b :: r)) as [y|] eqn:Ef; [|discriminate].
  intros H; inversion H; subst y. exists ns. split; [reflexivity|]. rewrite Er. exact Ef.
Qed.
Lemma relation_ok_of n r x : ast_relation_for cfg n r = inl (Some x) -> relation_ok cfg n x = true /\ types_of cfg n r = rel_types x.
Proof.
  intros H. apply ast_some in H as [ns [En Ef]]. unfold types_of. rewrite En, Ef. split; [|reflexivity].
  pose proof (find_ns_in _ _ _ En) as Hin. pose proof (find_ns_name _ _ _ En) as Hn.
  unfold welltyped in WT. rewrite forallb_forall in WT. specialize (WT ns Hin). rewrite forallb_forall in WT.
  rewrite Hn in WT. apply WT. eapply find_rel_in; eauto.
Qed.

(* a stored subject set under ns:obj#rel is a declared goal, and its namespace is one of the relation's types *)
Lemma stored_set_typed x n o r : In x (rows d) -> in_net nid x = true -> r_sub x = ISet n o r ->
  Decl n r /\ exists t, In t (types_of cfg (r_ns x) (r_rel x)) /\ ty_ns t = n /\ ty_rel t = r.
Proof.
  intros Hx Hn Es. pose proof (CONF x Hx Hn) as Hc. unfold row_conforms in Hc. rewrite Es in Hc.
  apply existsb_exists in Hc as [t [Ht Hm]]. apply andb_true_iff in Hm as [H1 H2]. apply bytes_eqb_eq in H1, H2.
  split; [|exists t; auto].
  (* the type itself was checked *)
  unfold types_of in Ht. destruct (find_ns cfg (r_ns x)) as [ns|] eqn:En; [|contradiction].
  destruct (find_rel (ns_rels ns) (r_rel x)) as [y|] eqn:Ef; [|contradiction].
  pose proof (find_ns_in _ _ _ En) as Hin. unfold welltyped in WT. rewrite forallb_forall in WT. specialize (WT ns Hin).
  rewrite forallb_forall in WT. specialize (WT y (find_rel_in _ _ _ Ef)). unfold relation_ok in WT. apply andb_true_iff in WT as [Hty _].
  rewrite forallb_forall in Hty. specialize (Hty t Ht). unfold type_ok in Hty. subst n r.
  destruct (ty_rel t) eqn:Er; [apply nil_Decl|]. now apply declared_Decl.
Qed.

Definition NoErr (m : Engine.M) : Prop := forall s r s', m s = Some (r, s') -> r_err r = false.

Lemma ne_unknown c : NoErr (unknown c). Proof. intros s r s' E. inversion E; reflexivity. Qed.
Lemma ne_seq_or checks : Forall NoErr checks -> NoErr (seq_or checks).
Proof.
  induction 1 as [|m ms Hm Hms IH]; intros s r s' E; cbn in E; [inversion E; reflexivity|].
  destruct (m s) as [[res s1]|] eqn:Em; [|discriminate].
  destruct (r_err res || _); [inversion E; subst; eapply Hm; eauto|eapply IH; eauto].
Qed.
Lemma ne_seq_and checks : Forall NoErr checks -> NoErr (seq_and checks).
Proof.
  intros H. unfold seq_and. destruct checks as [|c0 cs0]; [intros s r s' E; inversion E; reflexivity|].
  revert H. generalize (c0 :: cs0). induction l as [|m ms IH]; intros H s r s' E; cbn in E; [inversion E; reflexivity|].
  inversion H; subst. destruct (m s) as [[res s1]|] eqn:Em; [|discriminate].
  destruct (r_err res || _) eqn:Eb; [inversion E; subst; cbn; eapply H2; eauto|eapply IH; eauto].
Qed.
Lemma ne_expand_loop ca l : forall ic, (forall t ic', In t l -> NoErr (ca ic' (tv_ns t) (tv_obj t) (tv_rel t))) -> NoErr (expand_loop ca l ic).
Proof.
  induction l as [|t l IH]; intros ic Hca s r s' E; cbn in E; [inversion E; reflexivity|].
  destruct (check_and_add ic _ s) as [[ic' seen] s1].
  assert (Hrest : NoErr (expand_loop ca l ic')) by (apply IH; intros; apply Hca; now right).
  destruct seen; [eapply Hrest; eauto|].
  destruct (ca ic' (tv_ns t) (tv_obj t) (tv_rel t) s1) as [[res s2]|] eqn:Eca; [|discriminate].
  destruct (r_err res || _); [inversion E; subst; eapply Hca; eauto; now left|eapply Hrest; eauto].
Qed.
Lemma ne_ttu_loop ca ps : (forall p x n o rl, In p ps -> In x p -> r_sub x = ISet n o rl -> NoErr (ca n o)) -> NoErr (ttu_loop F ca ps).
Proof.
  induction ps as [|p ps IH]; intros Hca s r s' E; cbn in E; [inversion E; reflexivity|].
  unfold storage, F in E.
  match type of E with context [seq_or ?cs ?st] => destruct (seq_or cs st) as [[res s2]|] eqn:Es end; [|discriminate].
  assert (Hs : NoErr (seq_or (flat_map (fun x => match r_sub x with ISet n o _ => [ca n o] | ISid _ => [] end) p))).
  { apply ne_seq_or. apply Forall_forall. intros m Hm. apply in_flat_map in Hm as [x [Hx Hm]].
    destruct (r_sub x) as [u|n o rl] eqn:Ex; [contradiction|]. destruct Hm as [<-|[]]. eapply Hca; eauto. now left. }
  destruct (r_err res || _); [inversion E; subst; eapply Hs; eauto|eapply IH; eauto; intros; eapply Hca; eauto; now right].
Qed.

Notation ca := (check_allowed cfg strict nid d maxWidth F sub).
Notation ce := (check_expand cfg strict nid d maxWidth F sub).
Notation cr := (check_rewrite cfg strict nid d maxWidth F sub).
Notation cc := (check_child cfg strict nid d maxWidth F sub).
Notation ci := (check_inverted cfg strict nid d maxWidth F sub).
Notation ct := (check_ttu cfg strict nid d maxWidth F sub).

Definition children_ok (n : bytes) (cs : list child) : bool := forallb (child_ok cfg n) cs.
Lemma child_ok_rewrite n op cs : child_ok cfg n (CRewrite op cs) = children_ok n cs.
Proof. induction cs as [|c cs IH]; [reflexivity|]. cbn in *. now rewrite IH. Qed.

Definition NA g := forall c ns obj rel depth skip, Decl ns rel -> NoErr (ca g c ns obj rel depth skip).
Definition NE g := forall c ns obj rel depth, NoErr (ce g c ns obj rel depth).
Definition NR g := forall c ns obj rel op cs depth, children_ok ns cs = true -> NoErr (cr g c ns obj rel op cs depth).
Definition NC g := forall c ns obj rel ch depth, child_ok cfg ns ch = true -> NoErr (cc g c ns obj rel ch depth).
Definition NI g := forall c ns obj rel ch depth, child_ok cfg ns ch = true -> NoErr (ci g c ns obj rel ch depth).
Definition NT g := forall c ns obj r1 cr1 depth, forallb (fun t => declared cfg (ty_ns t) cr1) (types_of cfg ns r1) = true -> NoErr (ct g c ns obj r1 cr1 depth).

Lemma ne_direct c ns obj rel depth : NoErr (check_direct nid d F sub c ns obj rel depth).
Proof.
  unfold check_direct. destruct (depth <=? 0)%Z; [apply ne_unknown|]. intros s r s' E. unfold storage, F in E.
  destruct (ExistsRelationTuples nid _ d); inversion E; reflexivity.
Qed.

Lemma ne_step g : NA g /\ NE g /\ NR g /\ NC g /\ NI g /\ NT g -> NA (S g) /\ NE (S g) /\ NR (S g) /\ NC (S g) /\ NI (S g) /\ NT (S g).
Proof.
  intros (HA & HE & HR & HC & HI & HT). split; [|split; [|split; [|split; [|split]]]].
  - intros c ns obj rel depth skip HD. cbn [check_allowed]. destruct (depth <=? 0)%Z; [apply ne_unknown|].
    destruct (ast_relation_for cfg ns rel) as [relation|[]] eqn:Ea; [|exfalso; apply HD; exact Ea].
    apply ne_seq_or. apply Forall_app. split; [|apply Forall_app; split].
    + destruct relation as [x|]; [|constructor]. destruct (rel_rewrite x) as [w|] eqn:Ew; [|constructor].
      constructor; [|constructor]. apply HR. destruct (relation_ok_of _ _ _ Ea) as [Hok _].
      unfold relation_ok in Hok. apply andb_true_iff in Hok as [_ Hok]. rewrite Ew in Hok. exact Hok.
    + destruct (_ && negb skip); repeat constructor. apply ne_direct.
    + destruct (negb strict || _); repeat constructor. apply HE.
  - intros c ns obj rel depth. cbn [check_expand]. destruct (depth <=? 0)%Z; [apply ne_unknown|].
    intros s r s' E. destruct (init_visited c s) as [ic s1]. unfold storage, F in E.
    set (results := TraverseSubjectSetExpansion nid ns obj rel sub d) in *.
    destruct (existsb tv_found results); [inversion E; reflexivity|].
    assert (Hres : forall t, In t results -> Decl (tv_ns t) (tv_rel t)).
    { intros t Ht. unfold results, TraverseSubjectSetExpansion in Ht.
      assert (Hsub : forall l x, In x (take_until_found l) -> In x l).
      { induction l as [|y l IH]; cbn; intros x Hx; [contradiction|]. destruct (tv_found y); destruct Hx as [<-|Hx]; auto; contradiction. }
      apply Hsub in Ht. apply in_map_iff in Ht as [x [<- Hx]].
      eapply Permutation_in in Hx; [|apply sort_perm]. apply filter_In in Hx as [Hx Hp].
      destruct (r_sub x) as [u|n o rl] eqn:Es; [rewrite !andb_true_iff in Hp; cbn in Hp; destruct Hp; discriminate|].
      cbn. assert (Hn : in_net nid x = true) by (rewrite !andb_true_iff in Hp; tauto).
      destruct (stored_set_typed x n o rl Hx Hn Es) as [HD _]. exact HD. }
    match type of E with context [if ?b then _ else _] => destruct b end.
    all: eapply ne_expand_loop; [|exact E]; intros t ic' Ht; apply HA; apply Hres.
    + eapply In_firstn; eauto.
    + exact Ht.
  - intros c ns obj rel op cs depth Hok. cbn [check_rewrite]. destruct (depth <=? 0)%Z; [apply ne_unknown|].
    unfold children_ok in Hok. rewrite forallb_forall in Hok.
    destruct op.
    + apply ne_seq_or. apply Forall_app. split.
      * destruct (computed_rels cs) as [|r0 rels0] eqn:Ecr; [constructor|]. constructor; [|constructor].
        intros s r s' E.
        assert (Hrel : forall r1, In r1 (r0 :: rels0) -> Decl ns r1).
        { intros r1 Hr1. rewrite <- Ecr in Hr1. unfold computed_rels in Hr1. apply in_flat_map in Hr1 as [ch [Hch Hr1]].
          destruct ch; cbn in Hr1; try contradiction. destruct Hr1 as [->|[]]. apply declared_Decl. exact (Hok _ Hch). }
        match type of E with (match ?scrut with _ => _ end) = _ => destruct scrut as [[[]|] s1] eqn:Eq end.
        -- inversion E; reflexivity.
        -- revert E. apply ne_seq_or. apply Forall_forall. intros m Hm. apply in_map_iff in Hm as [r1 [<- Hr1]]. apply HA. auto.
        -- exfalso. destruct (queried_rels cfg strict ns (r0 :: rels0)); [inversion Eq|]. unfold storage, F in Eq. inversion Eq.
      * apply Forall_forall. intros m Hm. apply in_map_iff in Hm as [ch [<- Hch]]. apply filter_In in Hch as [Hch _]. apply HC. auto.
    + apply ne_seq_and. apply Forall_forall. intros m Hm. apply in_map_iff in Hm as [ch [<- Hch]]. apply HC. auto.
  - intros c ns obj rel ch depth Hok. cbn [check_child]. destruct ch as [r1|r1 cr1|op cs|inner]; cbn in Hok.
    + destruct (depth <? 0)%Z; [apply ne_unknown|apply HA; now apply declared_Decl].
    + apply andb_true_iff in Hok as [_ Hok]. apply HT. exact Hok.
    + apply HR. rewrite <- (child_ok_rewrite ns op). exact Hok.
    + apply HI. exact Hok.
  - intros c ns obj rel ch depth Hok. cbn [check_inverted]. destruct (depth <? 0)%Z eqn:Ed; [apply ne_unknown|].
    intros s r s' E.
    match type of E with (match ?m s with _ => _ end) = _ => destruct (m s) as [[res s1]|] eqn:Em end; [|discriminate].
    assert (Hin : r_err res = false).
    { destruct ch as [r1|r1 cr1|op cs|inner]; cbn in Hok.
      - eapply HA; [|exact Em]. now apply declared_Decl.
      - apply andb_true_iff in Hok as [_ Hok]. eapply HT; eauto.
      - eapply HR; [|exact Em]. rewrite <- (child_ok_rewrite ns op). exact Hok.
      - eapply HI; eauto. }
    rewrite Hin in E. inversion E; reflexivity.
  - intros c ns obj r1 cr1 depth Hok. cbn [check_ttu]. destruct (depth <? 0)%Z; [apply ne_unknown|].
    intros s r s' E. eapply ne_ttu_loop; [|exact E].
    intros p x n o rl Hp Hx Es. apply HA.
    (* x is a row of ns:obj#r1, its subject set namespace is one of the types of r1 *)
    set (rows0 := matching nid _ d) in *.
    assert (Hxin : In x rows0).
    { destruct rows0 as [|y ys] eqn:Er; [destruct Hp as [<-|[]]; contradiction|]. rewrite <- Er in *.
      rewrite <- (concat_chunk defaultPageSize rows0 Store.SqlProofs.page_size_pos). apply in_concat. eauto. }
    unfold rows0 in Hxin. eapply Permutation_in in Hxin; [|apply matching_perm]. apply filter_In in Hxin as [Hxr Hq].
    apply andb_true_iff in Hq as [Hnet Hq]. unfold matches_q in Hq; cbn in Hq. rewrite !andb_true_iff in Hq. destruct Hq as [[[Q1 _] Q3] _].
    apply bytes_eqb_eq in Q1, Q3.
    destruct (stored_set_typed x n o rl Hxr Hnet Es) as [_ [t [Ht [Hn _]]]].
    rewrite <- Q1, <- Q3 in Ht. rewrite forallb_forall in Hok. specialize (Hok t Ht). rewrite Hn in Hok. now apply declared_Decl.
Qed.

Theorem ne_all : forall g, NA g /\ NE g /\ NR g /\ NC g /\ NI g /\ NT g.
Proof.
  induction g as [|g IH]; [|apply ne_step; exact IH].
  split; [|split; [|split; [|split; [|split]]]]; repeat intro; match goal with H : _ = Some _ |- _ => cbn in H; discriminate H end.
Qed.

(* C11: no check on a declared (namespace, relation) of a well-typed configuration over conforming relationships
   fails with a schema error — any mode, depth, width *)
Theorem no_schema_error gas ns obj rel request global o :
  Decl ns rel ->
  CheckRelationTuple gas cfg strict nid d maxWidth F ns obj rel sub request global = Some o -> r_err (o_res o) = false.
Proof.
  intros HD H. unfold CheckRelationTuple in H.
  destruct (check_allowed _ _ _ _ _ _ _ gas ctx0 ns obj rel _ false est0) as [[r s]|] eqn:E; [|discriminate].
  inversion H; subst o; cbn. destruct (ne_all gas) as (HA & _). eapply HA; eauto.
Qed.
End NoSchemaError.
