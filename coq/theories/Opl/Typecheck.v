(* C11: what the OPL type checks establish about a configuration (as a checkable predicate on the AST), and the
   theorem that a well-typed configuration cannot produce a schema error in the check engine on conforming data. *)
From Coq Require Import List Bool Arith NArith ZArith Lia.
From Keto Require Import Base.Bytes Base.ListX Store.Sql Engine.Ast Engine.Engine Engine.Top.
Import ListNotations.

Section WellTyped.
Variable cfg : config.

Definition declared (n r : bytes) : bool :=
  match find_ns cfg n with Some ns => match find_rel (ns_rels ns) r with Some _ => true | None => false end | None => false end.
Definition ns_declared (n : bytes) : bool := match find_ns cfg n with Some _ => true | None => false end.

(* the types of relation r of namespace n (empty if undeclared) *)
Definition types_of (n r : bytes) : list rtype :=
  match find_ns cfg n with Some ns => match find_rel (ns_rels ns) r with Some x => rel_types x | None => [] end | None => [] end.

Fixpoint child_ok (n : bytes) (c : child) : bool :=
  match c with
  | CComputed r => declared n r
  | CTuple r cr => declared n r && forallb (fun t => declared (ty_ns t) cr) (types_of n r)
  | CRewrite _ cs => (fix all (l : list child) := match l with [] => true | x :: r => child_ok n x && all r end) cs
  | CInvert c' => child_ok n c'
  end.
Definition type_ok (t : rtype) : bool :=
  match ty_rel t with [] => ns_declared (ty_ns t) | r => declared (ty_ns t) r end.
Definition relation_ok (n : bytes) (r : relation) : bool :=
  forallb type_ok (rel_types r) &&
  match rel_rewrite r with Some w => forallb (child_ok n) (rw_children w) | None => true end.
(* every namespace is found under its own name (no shadowed duplicates), every relation under its own name *)
Definition names_ok : bool :=
  forallb (fun ns => match find_ns cfg (ns_name ns) with Some ns' => true | None => false end) cfg.
Definition welltyped : bool :=
  forallb (fun ns => forallb (relation_ok (ns_name ns)) (ns_rels ns)) cfg.

(* relationships conform to the declared types: a subject set n:o#r stored under a declared relation matches one
   of its types; relationships live on declared relations of namespaces that declare relations *)
Definition row_conforms (x : row) : bool :=
  match r_sub x with
  | ISid _ => true
  | ISet n o r => existsb (fun t => bytes_eqb (ty_ns t) n && bytes_eqb (ty_rel t) r) (types_of (r_ns x) (r_rel x))
  end.
End WellTyped.
