(* C11, the tie between "accepted by the parser" and the well-typedness predicate, on the parser model:
   for EVERY source text, if Parse reports no error then the namespaces it returns satisfy Typecheck.welltyped.
   Invariant: every reference the parser builds into the AST is covered by a registered type check; at the end all
   registered checks passed, and a passing check is exactly the corresponding clause of welltyped. *)
From Coq Require Import List Bool Arith NArith ZArith Lia.
From Coq Require Import Strings.Byte.
From Keto Require Import Base.Bytes Base.ListX Engine.Ast Opl.Lexer Opl.Parser Opl.Typecheck.
Import ListNotations.

(* ---- the part of the parser state that matters here ---- *)
Definition same (p p' : pst) : Prop := nss p' = nss p /\ cur p' = cur p /\ checks p' = checks p.
Definition ext (p p' : pst) : Prop := nss p' = nss p /\ cur p' = cur p /\ exists extra, checks p' = checks p ++ extra.
Lemma same_refl p : same p p. Proof. repeat split. Qed.
Lemma same_trans a b c : same a b -> same b c -> same a c.
Proof. intros (A1 & A2 & A3) (B1 & B2 & B3). repeat split; congruence. Qed.
Lemma same_ext a b : same a b -> ext a b.
Proof. intros (A1 & A2 & A3). repeat split; auto. exists []. now rewrite app_nil_r. Qed.
Lemma ext_refl p : ext p p. Proof. apply same_ext, same_refl. Qed.
Lemma ext_trans a b c : ext a b -> ext b c -> ext a c.
Proof. intros (A1 & A2 & [x A3]) (B1 & B2 & [y B3]). repeat split; try congruence. exists (x ++ y). rewrite B3, A3, app_assoc. reflexivity. Qed.
Lemma ext_incl a b : ext a b -> incl (checks a) (checks b).
Proof. intros (_ & _ & [x E]). rewrite E. apply incl_appl, incl_refl. Qed.

Lemma same_next p : same p (snd (p_next p)).
Proof. unfold p_next. destruct (toks p); cbn; repeat split. Qed.
Lemma same_add_fatal i p : same p (add_fatal i p). Proof. repeat split. Qed.
Lemma same_add_err i p : same p (add_err i p). Proof. repeat split. Qed.
Lemma same_match_strs ss : forall p, same p (snd (match_strs ss p)).
Proof. induction ss as [|s ss IH]; intros p; cbn; [apply same_refl|].
  pose proof (same_next p) as H. destruct (p_next p) as [i p1]. cbn [snd] in H.
  destruct (bytes_eqb (i_val i) s); [eapply same_trans; [exact H|apply IH]|cbn; eapply same_trans; [exact H|apply same_add_fatal]]. Qed.
Lemma same_match ts : forall p, same p (snd (p_match ts p)).
Proof.
  induction ts as [|t ts IH]; intros p; cbn [p_match].
  - destruct (fatal p); apply same_refl.
  - destruct (fatal p); [apply same_refl|].
    destruct t as [s| | |ss].
    + pose proof (same_next p) as H. destruct (p_next p) as [i p1]. cbn [snd] in H.
      destruct (bytes_eqb (i_val i) s); [eapply same_trans; [exact H|apply IH]|cbn; eapply same_trans; [exact H|apply same_add_fatal]].
    + pose proof (same_next p) as H. destruct (p_next p) as [i p1]. cbn [snd] in H.
      destruct (is_name i); [|cbn; eapply same_trans; [exact H|apply same_add_fatal]].
      pose proof (IH p1) as H2. destruct (p_match ts p1) as [[ok caps] p2]. cbn [snd] in *. eapply same_trans; eauto.
    + pose proof (same_next p) as H. destruct (p_next p) as [i p1]. cbn [snd] in H.
      pose proof (IH p1) as H2. destruct (p_match ts p1) as [[ok caps] p2]. cbn [snd] in *. eapply same_trans; eauto.
    + destruct ss as [|f rest]; [apply IH|].
      destruct (bytes_eqb (i_val (p_peek p)) f); [|apply IH].
      pose proof (same_next p) as H. destruct (p_next p) as [i p1]. cbn [snd] in H.
      pose proof (same_match_strs rest p1) as H2. destruct (match_strs rest p1) as [ok p2]. cbn [snd] in H2.
      destruct ok; [eapply same_trans; [exact H|]; eapply same_trans; [exact H2|apply IH]|cbn; eapply same_trans; eauto].
Qed.
Lemma same_match_property w p : same p (snd (match_property w p)).
Proof. unfold match_property. destruct (fatal p); [apply same_refl|].
  destruct (ityp_eqb _ BracketL); [|apply same_match].
  pose proof (same_match [MStr (c x5b); w; MStr (c x5d)] p) as H. destruct (p_match _ p) as [[ok caps] p1]. destruct ok; exact H. Qed.

(* ---- coverage of the references of a child / type by registered checks ---- *)
Fixpoint child_cov (C : list tcheck) (n : bytes) (ch : child) : Prop :=
  match ch with
  | CComputed r => exists i, In (TCurHasRel n i) C /\ i_val i = r
  | CTuple r cr => exists i, In (TCurHasRel n i) C /\ In (TAllTypes n i cr) C /\ i_val i = r
  | CRewrite _ cs => (fix all (l : list child) : Prop := match l with [] => True | x :: r => child_cov C n x /\ all r end) cs
  | CInvert c' => child_cov C n c'
  end.
Definition children_cov C n (cs : list child) : Prop := Forall (child_cov C n) cs.
Lemma child_cov_rewrite C n op cs : child_cov C n (CRewrite op cs) <-> children_cov C n cs.
Proof. unfold children_cov. cbn. induction cs as [|x l IH]; [split; auto|]. rewrite IH. split; [intros [A B]; constructor; auto|intros H; inversion H; auto]. Qed.
Lemma child_cov_mono C C' n ch : incl C C' -> child_cov C n ch -> child_cov C' n ch.
Proof.
  intros Hi. revert ch. fix IH 1. intros ch. destruct ch as [r|r cr|op cs|c']; cbn.
  - intros [i [H1 H2]]. exists i. auto.
  - intros [i (H1 & H2 & H3)]. exists i. auto.
  - induction cs as [|x l IHl]; [auto|]. intros [A B]. split; [apply IH; exact A|apply IHl; exact B].
  - apply IH.
Qed.
Lemma children_cov_mono C C' n cs : incl C C' -> children_cov C n cs -> children_cov C' n cs.
Proof. intros Hi H. unfold children_cov in *. rewrite Forall_forall in *. intros x Hx. eapply child_cov_mono; eauto. Qed.

Definition type_cov (C : list tcheck) (t : rtype) : Prop :=
  (exists i, In (TNsExists i) C /\ i_val i = ty_ns t /\ ty_rel t = []) \/
  (exists i j, In (TNsHasRel i j) C /\ i_val i = ty_ns t /\ i_val j = ty_rel t).
Lemma type_cov_mono C C' t : incl C C' -> type_cov C t -> type_cov C' t.
Proof. intros Hi [[i (A & B & D)]|[i [j (A & B & D)]]]; [left; exists i|right; exists i, j]; auto. Qed.

Definition rw_cov C n (r : rw) : Prop := children_cov C n (snd r).

(* ---- atoms ---- *)
Lemma in_checks_add t p : In t (checks (add_check t p)).
Proof. cbn. apply in_or_app. right. now left. Qed.
Lemma ext_add_check t p : ext p (add_check t p).
Proof. repeat split. exists [t]. reflexivity. Qed.

Lemma parse_computed_spec name p ch p' : parse_computed name p = (Some ch, p') ->
  ext p p' /\ child_cov (checks p') (ns_name (cur p)) ch.
Proof.
  unfold parse_computed. pose proof (same_match (strs [c x28; kw_ctx; c x2e; t_subject; c x29]) p) as Hs.
  destruct (p_match _ p) as [[ok caps] p1]. cbn [snd] in Hs. destruct ok; [|discriminate]. intros H; inversion H; subst. split.
  - eapply ext_trans; [apply same_ext; exact Hs|apply ext_add_check].
  - cbn. exists name. split; [|reflexivity]. destruct Hs as (_ & Hc & _). rewrite Hc. apply in_or_app. right. now left.
Qed.

(* one parsing primitive at a time; [Hcar : same p0 X] is carried along and updated *)
Ltac prim :=
  match goal with
  | Hcar : same ?p0 ?X |- context [p_match ?ts ?X] =>
    let H := fresh "Hm" in pose proof (same_match ts X) as H;
    let ok := fresh "ok" in let caps := fresh "caps" in let q' := fresh "q" in
    destruct (p_match ts X) as [[ok caps] q']; cbn [snd] in H;
    let Hn := fresh "Hcar" in pose proof (same_trans _ _ _ Hcar H) as Hn; clear Hcar H
  | Hcar : same ?p0 ?X |- context [match_property ?w ?X] =>
    let H := fresh "Hm" in pose proof (same_match_property w X) as H;
    let ok := fresh "ok" in let caps := fresh "caps" in let q' := fresh "q" in
    destruct (match_property w X) as [[ok caps] q']; cbn [snd] in H;
    let Hn := fresh "Hcar" in pose proof (same_trans _ _ _ Hcar H) as Hn; clear Hcar H
  | Hcar : same ?p0 ?X |- context [p_next ?X] =>
    let H := fresh "Hm" in pose proof (same_next X) as H;
    let i := fresh "it" in let q' := fresh "q" in
    destruct (p_next X) as [i q']; cbn [snd] in H;
    let Hn := fresh "Hcar" in pose proof (same_trans _ _ _ Hcar H) as Hn; clear Hcar H
  end.

Lemma finish_cov p q relation crel :
  same p q ->
  let p' := add_check (TCurHasRel (ns_name (cur q)) relation) (add_check (TAllTypes (ns_name (cur q)) relation crel) q) in
  ext p p' /\ child_cov (checks p') (ns_name (cur p)) (CTuple (i_val relation) crel).
Proof.
  intros Hs p'. split.
  - eapply ext_trans; [apply same_ext; exact Hs|]. eapply ext_trans; apply ext_add_check.
  - destruct Hs as (_ & Hc & _). cbn. exists relation. rewrite Hc. split; [|split; [|reflexivity]].
    + apply in_or_app. right. now left.
    + apply in_or_app. left. apply in_or_app. right. now left.
Qed.

Ltac fin := intros E; inversion E; subst; apply finish_cov; assumption.
Ltac tail_ttu :=
  cbv zeta;
  match goal with |- context [bytes_eqb ?v t_related] => destruct (bytes_eqb v t_related) end;
  [ prim; match goal with |- context [negb ?b] => destruct b end; cbn [negb]; [|discriminate]; prim; fin
  | match goal with |- context [bytes_eqb ?v t_permits] => destruct (bytes_eqb v t_permits) end; [|discriminate];
    prim; match goal with |- context [negb ?b] => destruct b end; cbn [negb]; [|discriminate]; prim; fin ].

Lemma parse_ttu_spec relation p ch p' : parse_ttu relation p = (Some ch, p') ->
  ext p p' /\ child_cov (checks p') (ns_name (cur p)) ch.
Proof.
  unfold parse_ttu. pose proof (same_refl p) as Hcar.
  prim. destruct ok; cbn [negb]; [|discriminate].
  match goal with |- context [if ?b then _ else _] => destruct b end.
  - prim. destruct ok.
    + cbn [negb]. prim. tail_ttu.
    + prim. destruct ok; cbn [negb]; [|discriminate]. prim. tail_ttu.
  - prim. destruct ok; cbn [negb]; [|discriminate]. prim. tail_ttu.
Qed.

Lemma parse_atom_spec p ch p' : parse_atom p = (Some ch, p') ->
  ext p p' /\ child_cov (checks p') (ns_name (cur p)) ch.
Proof.
  unfold parse_atom. pose proof (same_refl p) as Hcar.
  prim. destruct ok; cbn [negb]; [|discriminate]. cbv zeta.
  prim. destruct ok; cbn [negb]; [|discriminate].
  destruct (bytes_eqb _ t_related).
  - prim. destruct ok; cbn [negb]; [|discriminate]. prim.
    match goal with Hc : same p _ |- _ => rename Hc into HC end.
    destruct (bytes_eqb _ t_traverse).
    + intros E. apply parse_ttu_spec in E as [E1 E2]. split.
      * eapply ext_trans; [apply same_ext; exact HC|exact E1].
      * destruct HC as (A1 & A2 & A3). rewrite <- A2. exact E2.
    + destruct (bytes_eqb _ t_includes); [|discriminate].
      intros E. apply parse_computed_spec in E as [E1 E2]. split.
      * eapply ext_trans; [apply same_ext; exact HC|exact E1].
      * destruct HC as (A1 & A2 & A3). rewrite <- A2. exact E2.
  - destruct (bytes_eqb _ t_permits); [|discriminate].
    prim. destruct ok; cbn [negb]; [|discriminate].
    match goal with Hc : same p _ |- _ => rename Hc into HC end.
    intros E; inversion E; subst. split.
    + eapply ext_trans; [apply same_ext; exact HC|apply ext_add_check].
    + cbn. eexists. split; [|reflexivity]. destruct HC as (_ & A2 & _). rewrite A2. apply in_or_app. right. now left.
Qed.

(* ---- expressions ---- *)
Lemma rw_child_cov C n r : rw_cov C n r -> child_cov C n (rw_child r).
Proof. intros H. unfold rw_child. apply child_cov_rewrite. exact H. Qed.
Lemma add_child_cov C n root ch r : (forall r0, root = Some r0 -> rw_cov C n r0) -> child_cov C n ch ->
  add_child root ch = Some r -> rw_cov C n r.
Proof.
  intros Hroot Hch. unfold add_child. destruct root as [[op cs]|]; intros E; inversion E; subst.
  - unfold rw_cov in *. cbn. specialize (Hroot _ eq_refl). unfold children_cov in *. cbn in Hroot. apply Forall_app. split; [exact Hroot|]. constructor; [exact Hch|constructor].
  - unfold rw_cov, as_rewrite. destruct ch as [r1|r1 cr1|op cs|c']; cbn; try (constructor; [exact Hch|constructor]).
    apply child_cov_rewrite in Hch. exact Hch.
Qed.

Definition root_cov C n (root : option rw) : Prop := forall r0, root = Some r0 -> rw_cov C n r0.
Lemma root_cov_mono C C' n root : incl C C' -> root_cov C n root -> root_cov C' n root.
Proof. intros Hi H r0 E. eapply children_cov_mono; [exact Hi|]. exact (H r0 E). Qed.

Lemma parse_exprs_spec fuel : forall final depth root expect p r p',
  root_cov (checks p) (ns_name (cur p)) root ->
  parse_exprs fuel final depth root expect p = (Some r, p') ->
  ext p p' /\ rw_cov (checks p') (ns_name (cur p)) r.
Proof.
  induction fuel as [|f IH]; intros final depth root expect p r p' Hroot E; cbn [parse_exprs] in E; [discriminate|].
  destruct depth as [|dm1]; [discriminate|].
  destruct (fatal p); [discriminate|].
  assert (Hnext : forall q, snd (p_next p) = q -> same p q) by (intros q <-; apply same_next).
  destruct (ityp_eqb (i_typ (p_peek p)) ParenL).
  { destruct (p_next p) as [i0 p1] eqn:En. specialize (Hnext p1 eq_refl).
    destruct (parse_exprs f ParenR dm1 None true p1) as [[ch|] p2] eqn:E1; [|discriminate].
    pose proof Hnext as Hsame. destruct Hnext as (A1 & A2 & A3).
    apply IH in E1 as [X1 X2]; [|intros r0 H0; discriminate].
    assert (Hx : ext p p2) by (eapply ext_trans; [apply same_ext; exact Hsame|exact X1]).
    rewrite A2 in X2.
    destruct Hx as (B1 & B2 & B3).
    destruct (add_child root (rw_child ch)) as [r1|] eqn:Ea; [|destruct root as [[? ?]|]; discriminate].
    apply IH in E as [Y1 Y2].
    - split; [eapply ext_trans; [exact (conj B1 (conj B2 B3))|exact Y1]|]. rewrite B2 in Y2. exact Y2.
    - intros r0 H0; inversion H0; subst r0. rewrite B2. eapply add_child_cov; [| |exact Ea].
      + eapply root_cov_mono; [|exact Hroot]. destruct B3 as [x ->]. apply incl_appl, incl_refl.
      + apply rw_child_cov. exact X2. }
  destruct (ityp_eqb (i_typ (p_peek p)) final).
  { destruct (p_next p) as [i0 p1] eqn:En. specialize (Hnext p1 eq_refl). inversion E; subst. split; [apply same_ext; exact Hnext|].
    destruct Hnext as (A1 & A2 & A3). rewrite A3. apply Hroot. reflexivity. }
  destruct (ityp_eqb (i_typ (p_peek p)) BraceR).
  { inversion E; subst. split; [apply ext_refl|]. apply Hroot. reflexivity. }
  destruct (ityp_eqb (i_typ (p_peek p)) OAnd || ityp_eqb (i_typ (p_peek p)) OOr).
  { destruct (p_next p) as [i0 p1] eqn:En. specialize (Hnext p1 eq_refl). pose proof Hnext as Hsame. destruct Hnext as (A1 & A2 & A3).
    destruct root as [r0|]; [|discriminate]. specialize (Hroot r0 eq_refl).
    destruct (ityp_eqb (i_typ (p_peek p)) OOr).
    - destruct (parse_exprs f final (S dm1) None true p1) as [[rhs|] p2] eqn:E1; [|discriminate]. inversion E; subst.
      apply IH in E1 as [X1 X2]; [|intros r1 H1; discriminate].
      assert (Hx : ext p p') by (eapply ext_trans; [apply same_ext; exact Hsame|exact X1]).
      split; [exact Hx|]. rewrite A2 in X2. unfold rw_cov. cbn [snd]. constructor.
      + apply rw_child_cov. eapply children_cov_mono; [apply ext_incl; exact Hx|exact Hroot].
      + destruct (fst rhs); [exact X2|]. constructor; [apply rw_child_cov; exact X2|constructor].
    - apply IH in E as [Y1 Y2].
      + split; [eapply ext_trans; [apply same_ext; exact Hsame|exact Y1]|]. rewrite A2 in Y2. exact Y2.
      + intros r1 H1; inversion H1; subst r1. unfold rw_cov. cbn [snd]. constructor; [|constructor]. apply rw_child_cov. rewrite A2, A3. exact Hroot. }
  destruct (ityp_eqb (i_typ (p_peek p)) ONot).
  { destruct (p_next p) as [i0 p1] eqn:En. specialize (Hnext p1 eq_refl). pose proof Hnext as Hsame. destruct Hnext as (A1 & A2 & A3).
    destruct dm1 as [|dm2]; [discriminate|].
    match type of E with (let '(ch, p2) := ?scrut in _) = _ => destruct scrut as [[x|] p2] eqn:Ei end; [|discriminate].
    assert (Hin : ext p1 p2 /\ child_cov (checks p2) (ns_name (cur p1)) x).
    { destruct (ityp_eqb (i_typ (p_peek p1)) ParenL).
      - pose proof (same_next p1) as Hn1. destruct (p_next p1) as [i1 q]. cbn [snd] in Hn1. pose proof Hn1 as Hsame1. destruct Hn1 as (N1 & N2 & N3).
        destruct (parse_exprs f ParenR dm2 None true q) as [[r1|] q2] eqn:E1; [|discriminate]. inversion Ei; subst.
        apply IH in E1 as [X1 X2]; [|intros r2 H2; discriminate]. split.
        + eapply ext_trans; [apply same_ext; exact Hsame1|exact X1].
        + apply rw_child_cov. rewrite N2 in X2. exact X2.
      - apply parse_atom_spec. exact Ei. }
    destruct Hin as [X1 X2].
    assert (Hx : ext p p2) by (eapply ext_trans; [apply same_ext; exact Hsame|exact X1]).
    destruct Hx as (B1 & B2 & B3).
    destruct (add_child root (CInvert x)) as [r1|] eqn:Ea; [|destruct root as [[? ?]|]; discriminate].
    apply IH in E as [Y1 Y2].
    - split; [eapply ext_trans; [exact (conj B1 (conj B2 B3))|exact Y1]|]. rewrite B2 in Y2. exact Y2.
    - intros r0 H0; inversion H0; subst r0. rewrite B2. eapply add_child_cov; [| |exact Ea].
      + eapply root_cov_mono; [|exact Hroot]. destruct B3 as [y ->]. apply incl_appl, incl_refl.
      + cbn. rewrite <- A2. exact X2. }
  destruct (negb expect); [discriminate|].
  destruct (parse_atom p) as [[ch|] p1] eqn:Ea0; [|discriminate].
  apply parse_atom_spec in Ea0 as [X1 X2]. destruct X1 as (B1 & B2 & B3).
  destruct (add_child root ch) as [r1|] eqn:Ea; [|destruct root as [[? ?]|]; discriminate].
  apply IH in E as [Y1 Y2].
  - split; [eapply ext_trans; [exact (conj B1 (conj B2 B3))|exact Y1]|]. rewrite B2 in Y2. exact Y2.
  - intros r0 H0; inversion H0; subst r0. rewrite B2. eapply add_child_cov; [| |exact Ea].
    + eapply root_cov_mono; [|exact Hroot]. destruct B3 as [y ->]. apply incl_appl, incl_refl.
    + exact X2.
Qed.

(* ---- simplifyExpression keeps coverage (it only re-arranges the same leaves) ---- *)
Lemma simplify_children_cov C n fuel : forall op cs, children_cov C n cs -> children_cov C n (simplify_children fuel op cs).
Proof.
  induction fuel as [|f IH]; intros op cs H; cbn [simplify_children]; [exact H|].
  unfold children_cov in *. rewrite Forall_forall in *. intros x Hx. apply in_flat_map in Hx as [ch [Hch Hx]].
  destruct ch as [r|r cr|op' cs'|c']; try (destruct Hx as [<-|[]]; apply H; exact Hch).
  destruct (match op, op' with OpOr, OpOr | OpAnd, OpAnd => true | _, _ => false end).
  - assert (Hc : Forall (child_cov C n) cs') by (apply (proj1 (child_cov_rewrite C n op' cs')); apply H; exact Hch).
    specialize (IH op cs' Hc). rewrite Forall_forall in IH. apply IH. exact Hx.
  - destruct Hx as [<-|[]]. apply H. exact Hch.
Qed.

(* ---- types ---- *)
Lemma match_subject_set_spec p t p' : match_subject_set p = (t, p') -> ext p p' /\ type_cov (checks p') t.
Proof.
  unfold match_subject_set. pose proof (same_match [MStr (c x3c); MItem; MStr (c x2c); MItem; MStr (c x3e)] p) as Hs.
  destruct (p_match _ p) as [[ok caps] p1]. cbn [snd] in Hs. intros E; inversion E; subst. split.
  - eapply ext_trans; [apply same_ext; exact Hs|apply ext_add_check].
  - right. exists (cap1 caps), (cap2 caps). split; [apply in_checks_add|]. split; reflexivity.
Qed.

Lemma parse_type_union_spec fuel : forall endt acc p ts p',
  Forall (type_cov (checks p)) acc ->
  parse_type_union fuel endt acc p = (ts, p') -> ext p p' /\ Forall (type_cov (checks p')) ts.
Proof.
  induction fuel as [|f IH]; intros endt acc p ts p' Hacc E; cbn [parse_type_union] in E.
  - inversion E; subst. split; [apply ext_refl|exact Hacc].
  - destruct (fatal p); [inversion E; subst; split; [apply ext_refl|exact Hacc]|].
    pose proof (same_match [MItem] p) as Hs. destruct (p_match [MItem] p) as [[ok caps] p1]. cbn [snd] in Hs.
    cbv zeta in E.
    match type of E with (let '(acc1, p2) := ?scrut in _) = _ => destruct scrut as [acc1 p2] eqn:Es end.
    assert (Hstep : ext p p2 /\ Forall (type_cov (checks p2)) acc1).
    { destruct (bytes_eqb (i_val (cap1 caps)) t_SubjectSet).
      - destruct (match_subject_set p1) as [t q] eqn:Em. inversion Es; subst. apply match_subject_set_spec in Em as [X1 X2].
        assert (Hx : ext p p2) by (eapply ext_trans; [apply same_ext; exact Hs|exact X1]). split; [exact Hx|].
        apply Forall_app. split; [|constructor; [exact X2|constructor]].
        eapply Forall_impl; [|exact Hacc]. intros t0. apply type_cov_mono. apply ext_incl. exact Hx.
      - inversion Es; subst.
        assert (Hx : ext p (add_check (TNsExists (cap1 caps)) p1)) by (eapply ext_trans; [apply same_ext; exact Hs|apply ext_add_check]).
        split; [exact Hx|]. apply Forall_app. split.
        + eapply Forall_impl; [|exact Hacc]. intros t0. apply type_cov_mono. apply ext_incl. exact Hx.
        + constructor; [|constructor]. left. exists (cap1 caps). split; [apply in_checks_add|]. split; reflexivity. }
    destruct Hstep as [X1 X2].
    pose proof (same_next p2) as Hn. destruct (p_next p2) as [i p3]. cbn [snd] in Hn.
    assert (Hx3 : ext p p3) by (eapply ext_trans; [exact X1|apply same_ext; exact Hn]).
    assert (Hc3 : Forall (type_cov (checks p3)) acc1) by (destruct Hn as (_ & _ & ->); exact X2).
    destruct (ityp_eqb (i_typ i) endt); [inversion E; subst; split; assumption|].
    destruct (ityp_eqb (i_typ i) TypeUnion).
    + apply IH in E as [Y1 Y2]; [|exact Hc3]. split; [eapply ext_trans; eassumption|exact Y2].
    + apply IH in E as [Y1 Y2]; [|exact Hc3]. split; [|exact Y2]. eapply ext_trans; [exact Hx3|]. eapply ext_trans; [apply same_ext, same_add_fatal|exact Y1].
Qed.

(* ---- the invariant of the class-level loops ---- *)
Definition rel_cov C n (x : relation) : Prop :=
  Forall (type_cov C) (rel_types x) /\ (forall w, rel_rewrite x = Some w -> children_cov C n (rw_children w)).
Definition ns_cov C (ns : namespace) : Prop := Forall (rel_cov C (ns_name ns)) (ns_rels ns).
Definition Inv (p : pst) : Prop := Forall (ns_cov (checks p)) (nss p) /\ ns_cov (checks p) (cur p).

Lemma rel_cov_mono C C' n x : incl C C' -> rel_cov C n x -> rel_cov C' n x.
Proof. intros Hi [A B]. split; [eapply Forall_impl; [|exact A]; intros t; apply type_cov_mono; exact Hi|].
  intros w Hw. eapply children_cov_mono; [exact Hi|auto]. Qed.
Lemma ns_cov_mono C C' ns : incl C C' -> ns_cov C ns -> ns_cov C' ns.
Proof. intros Hi H. unfold ns_cov in *. eapply Forall_impl; [|exact H]. intros x. apply rel_cov_mono. exact Hi. Qed.
Lemma inv_ext p p' : ext p p' -> Inv p -> Inv p'.
Proof. intros He [A B]. pose proof (ext_incl _ _ He) as Hi. destruct He as (E1 & E2 & _). split.
  - rewrite E1. eapply Forall_impl; [|exact A]. intros ns. apply ns_cov_mono. exact Hi.
  - rewrite E2. eapply ns_cov_mono; eauto. Qed.
Lemma inv_same p p' : same p p' -> Inv p -> Inv p'.
Proof. intros H. apply inv_ext, same_ext, H. Qed.
Lemma inv_add_relation p r : Inv p -> rel_cov (checks p) (ns_name (cur p)) r -> Inv (add_relation r p).
Proof. intros [A B] Hr. split; [exact A|]. unfold ns_cov in *. cbn. apply Forall_app. split; [exact B|constructor; [exact Hr|constructor]]. Qed.
Lemma inv_push p : Inv p -> Inv (push_ns p).
Proof. intros [A B]. split; [|exact B]. cbn. apply Forall_app. split; [exact A|constructor; [exact B|constructor]]. Qed.
Lemma inv_set_cur p name : Inv p -> Inv (set_cur {| ns_name := name; ns_rels := [] |} p).
Proof. intros [A B]. split; [exact A|]. unfold ns_cov. cbn. constructor. Qed.

Lemma parse_related_loop_inv fuel : forall p, Inv p -> Inv (parse_related_loop fuel p).
Proof.
  induction fuel as [|f IH]; intros p Hi; cbn [parse_related_loop]; [exact Hi|].
  destruct (fatal p); [exact Hi|].
  pose proof (same_next p) as Hn. destruct (p_next p) as [i p1]. cbn [snd] in Hn.
  assert (Hi1 : Inv p1) by (eapply inv_same; eauto).
  destruct (i_typ i); try (apply inv_same with (p := p1); [apply same_add_fatal|exact Hi1]); try exact Hi1; try (apply IH; exact Hi1).
  all: pose proof (same_match [MStr (c x3a)] p1) as Hm; destruct (p_match [MStr (c x3a)] p1) as [[ok caps] p2]; cbn [snd] in Hm.
  all: pose proof (same_next p2) as Hn2; destruct (p_next p2) as [j p3]; cbn [snd] in Hn2.
  all: assert (Hs13 : same p1 p3) by (eapply same_trans; eauto).
  all: match goal with |- Inv (let '(types, p4) := ?scrut in _) => destruct scrut as [types p4] eqn:Et end.
  all: assert (Hres : ext p3 p4 /\ Forall (type_cov (checks p4)) types).
  all: try (destruct (bytes_eqb (i_val j) t_Array);
    [ pose proof (same_match [MStr (c x3c)] p3) as Ha; destruct (p_match [MStr (c x3c)] p3) as [[oka capsa] q]; cbn [snd] in Ha;
      destruct (parse_type_union (S (length (toks q))) AngledR [] q) as [ts0 q0] eqn:Eu; apply parse_type_union_spec in Eu as [X1 X2]; [|constructor];
      pose proof (same_match [MOpt [c x2c]] q0) as Hb; destruct (p_match [MOpt [c x2c]] q0) as [[okb capsb] q1]; cbn [snd] in Hb; inversion Et; subst;
      split; [eapply ext_trans; [apply same_ext; exact Ha|]; eapply ext_trans; [exact X1|apply same_ext; exact Hb]|destruct Hb as (_ & _ & ->); exact X2]
    | destruct (bytes_eqb (i_val j) t_SubjectSet);
      [ destruct (match_subject_set p3) as [t q] eqn:Em; apply match_subject_set_spec in Em as [X1 X2];
        pose proof (same_match arr_suffix q) as Hb; destruct (p_match arr_suffix q) as [[okb capsb] q1]; cbn [snd] in Hb; inversion Et; subst;
        split; [eapply ext_trans; [exact X1|apply same_ext; exact Hb]|constructor; [destruct Hb as (_ & _ & ->); exact X2|constructor]]
      | destruct (ityp_eqb (i_typ j) ParenL);
        [ destruct (parse_type_union (S (length (toks p3))) ParenR [] p3) as [ts q] eqn:Eu; apply parse_type_union_spec in Eu as [X1 X2]; [|constructor];
          pose proof (same_match arr_suffix q) as Hb; destruct (p_match arr_suffix q) as [[okb capsb] q1]; cbn [snd] in Hb; inversion Et; subst;
          split; [eapply ext_trans; [exact X1|apply same_ext; exact Hb]|destruct Hb as (_ & _ & ->); exact X2]
        | cbv zeta in Et; pose proof (same_match arr_suffix (add_check (TNsExists j) p3)) as Hb;
          destruct (p_match arr_suffix (add_check (TNsExists j) p3)) as [[okb capsb] q1]; cbn [snd] in Hb; inversion Et; subst;
          split; [eapply ext_trans; [apply ext_add_check|apply same_ext; exact Hb]|
                  constructor; [|constructor]; left; exists j; destruct Hb as (_ & _ & ->); split; [apply in_checks_add|split; reflexivity]] ] ] ]).
  all: destruct Hres as [X1 X2]; apply IH; apply inv_add_relation;
       [eapply inv_ext; [exact X1|]; eapply inv_same; [exact Hs13|exact Hi1]| split; [exact X2|intros w Hw; discriminate]].
Qed.

(* ---- whatever the outcome, the expression parsers only extend the checks ---- *)
Ltac car := match goal with Hc : same _ _ |- _ => Hc end.
Ltac close_ext :=
  let HC := car in
  first [ apply same_ext; exact HC
        | eapply ext_trans; [apply same_ext; exact HC|];
          first [ apply same_ext, same_add_fatal | apply ext_add_check | eapply ext_trans; apply ext_add_check ] ].
Ltac split_ifs := repeat match goal with |- context [if ?b then _ else _] => destruct b end.

Ltac dneg := match goal with |- context [negb ?b] => destruct b end; cbn [negb].
Ltac leaf := cbn [snd]; close_ext.

Lemma parse_computed_ext name p : ext p (snd (parse_computed name p)).
Proof. unfold parse_computed. pose proof (same_refl p) as Hcar. prim.
  match goal with |- context [if ?b then _ else _] => destruct b end; leaf. Qed.

Ltac tail_ttu_ext :=
  cbv zeta;
  match goal with |- context [bytes_eqb ?v t_related] => destruct (bytes_eqb v t_related) end;
  [ prim; dneg; [prim; leaf|leaf]
  | match goal with |- context [bytes_eqb ?v t_permits] => destruct (bytes_eqb v t_permits) end;
    [ prim; dneg; [prim; leaf|leaf] | leaf ] ].

Lemma parse_ttu_ext relation p : ext p (snd (parse_ttu relation p)).
Proof.
  unfold parse_ttu. pose proof (same_refl p) as Hcar.
  prim. dneg; [|leaf].
  match goal with |- context [if ?b then _ else _] => destruct b end.
  - prim. match goal with |- context [if ?b then _ else _] => destruct b end.
    + dneg; [|leaf]. prim. tail_ttu_ext.
    + prim. dneg; [|leaf]. prim. tail_ttu_ext.
  - prim. dneg; [|leaf]. prim. tail_ttu_ext.
Qed.

Lemma parse_atom_ext p : ext p (snd (parse_atom p)).
Proof.
  unfold parse_atom. pose proof (same_refl p) as Hcar.
  prim. dneg; [|leaf]. cbv zeta.
  prim. dneg; [|leaf].
  match goal with |- context [bytes_eqb ?v t_related] => destruct (bytes_eqb v t_related) end.
  - prim. dneg; [|leaf]. prim.
    match goal with |- context [bytes_eqb ?v t_traverse] => destruct (bytes_eqb v t_traverse) end;
      [|match goal with |- context [bytes_eqb ?v t_includes] => destruct (bytes_eqb v t_includes) end].
    + let HC := car in eapply ext_trans; [apply same_ext; exact HC|apply parse_ttu_ext].
    + let HC := car in eapply ext_trans; [apply same_ext; exact HC|apply parse_computed_ext].
    + leaf.
  - match goal with |- context [bytes_eqb ?v t_permits] => destruct (bytes_eqb v t_permits) end.
    + prim. dneg; leaf.
    + leaf.
Qed.

Lemma parse_exprs_ext fuel : forall final depth root expect p, ext p (snd (parse_exprs fuel final depth root expect p)).
Proof.
  induction fuel as [|f IH]; intros final depth root expect p; cbn [parse_exprs]; [apply ext_refl|].
  destruct depth as [|dm1]; [cbn [snd]; apply same_ext, same_add_fatal|].
  destruct (fatal p); [apply ext_refl|].
  pose proof (same_next p) as Hn.
  destruct (ityp_eqb (i_typ (p_peek p)) ParenL).
  { destruct (p_next p) as [i0 p1]. cbn [snd] in Hn.
    pose proof (IH ParenR dm1 None true p1) as H1. destruct (parse_exprs f ParenR dm1 None true p1) as [[ch|] p2]; cbn [snd] in H1.
    - eapply ext_trans; [apply same_ext; exact Hn|]. eapply ext_trans; [exact H1|apply IH].
    - cbn [snd]. eapply ext_trans; [apply same_ext; exact Hn|exact H1]. }
  destruct (ityp_eqb (i_typ (p_peek p)) final).
  { destruct (p_next p) as [i0 p1]. cbn [snd] in *. apply same_ext; exact Hn. }
  destruct (ityp_eqb (i_typ (p_peek p)) BraceR); [apply ext_refl|].
  destruct (ityp_eqb (i_typ (p_peek p)) OAnd || ityp_eqb (i_typ (p_peek p)) OOr).
  { destruct (p_next p) as [i0 p1]. cbn [snd] in Hn. destruct root as [r0|]; [|cbn [snd]; apply same_ext; exact Hn].
    destruct (ityp_eqb (i_typ (p_peek p)) OOr).
    - pose proof (IH final (S dm1) None true p1) as H1. destruct (parse_exprs f final (S dm1) None true p1) as [[rhs|] p2]; cbn [snd] in *.
      + eapply ext_trans; [apply same_ext; exact Hn|exact H1].
      + destruct (fatal p2); (eapply ext_trans; [apply same_ext; exact Hn|]); [exact H1|eapply ext_trans; [exact H1|apply same_ext, same_add_fatal]].
    - eapply ext_trans; [apply same_ext; exact Hn|apply IH]. }
  destruct (ityp_eqb (i_typ (p_peek p)) ONot).
  { destruct (p_next p) as [i0 p1]. cbn [snd] in Hn.
    destruct dm1 as [|dm2]; [cbn [snd]; eapply ext_trans; [apply same_ext; exact Hn|apply same_ext, same_add_fatal]|].
    assert (Hin : ext p1 (snd (if ityp_eqb (i_typ (p_peek p1)) ParenL
       then let '(_, q) := p_next p1 in match parse_exprs f ParenR dm2 None true q with (None, q2) => (None, q2) | (Some r1, q2) => (Some (rw_child r1), q2) end
       else parse_atom p1))).
    { destruct (ityp_eqb (i_typ (p_peek p1)) ParenL); [|apply parse_atom_ext].
      pose proof (same_next p1) as Hn1. destruct (p_next p1) as [i1 q]. cbn [snd] in Hn1.
      pose proof (IH ParenR dm2 None true q) as H1. destruct (parse_exprs f ParenR dm2 None true q) as [[r1|] q2]; cbn [snd] in *;
        (eapply ext_trans; [apply same_ext; exact Hn1|exact H1]). }
    match goal with |- ext p (snd (let '(ch, p2) := ?scrut in _)) => destruct scrut as [[x|] p2] end; cbn [snd] in Hin.
    - eapply ext_trans; [apply same_ext; exact Hn|]. eapply ext_trans; [exact Hin|apply IH].
    - cbn [snd]. eapply ext_trans; [apply same_ext; exact Hn|exact Hin]. }
  destruct (negb expect); [cbn [snd]; apply same_ext, same_add_fatal|].
  pose proof (parse_atom_ext p) as Ha. destruct (parse_atom p) as [[ch|] p1]; cbn [snd] in Ha.
  - eapply ext_trans; [exact Ha|apply IH].
  - exact Ha.
Qed.

Lemma parse_related_inv p : Inv p -> Inv (parse_related p).
Proof. intros Hi. unfold parse_related. pose proof (same_match [MStr (c x3a); MStr (c x7b)] p) as Hm.
  destruct (p_match _ p) as [[ok caps] p1]. cbn [snd] in Hm. apply parse_related_loop_inv. eapply inv_same; eauto. Qed.

Lemma parse_permits_loop_inv fuel : forall p, Inv p -> Inv (parse_permits_loop fuel p).
Proof.
  induction fuel as [|f IH]; intros p Hi; cbn [parse_permits_loop]; [exact Hi|].
  destruct (fatal p); [exact Hi|].
  pose proof (same_next p) as Hn. destruct (p_next p) as [i p1]. cbn [snd] in Hn.
  assert (Hi1 : Inv p1) by (eapply inv_same; eauto).
  destruct (i_typ i); try (apply inv_same with (p := p1); [apply same_add_fatal|exact Hi1]); try exact Hi1.
  all: pose proof (same_match permit_header p1) as Hm; destruct (p_match permit_header p1) as [[ok caps] p2]; cbn [snd] in Hm.
  all: assert (Hi2 : Inv p2) by (eapply inv_same; eauto).
  all: pose proof (parse_exprs_ext (S (2 * length (toks p2))) OComma nesting_limit None true p2) as Hx.
  all: destruct (parse_exprs (S (2 * length (toks p2))) OComma nesting_limit None true p2) as [[r|] p3] eqn:Ee; cbn [snd] in Hx.
  all: try (eapply inv_ext; [exact Hx|exact Hi2]).
  all: apply parse_exprs_spec in Ee as [X1 X2]; [|intros r0 H0; discriminate].
  all: apply IH; apply inv_add_relation; [eapply inv_ext; eauto|].
  all: split; [constructor|]; intros w Hw; inversion Hw; subst w; cbn [rw_children simplify].
  all: apply simplify_children_cov; destruct X1 as (_ & -> & _); exact X2.
Qed.

Lemma parse_permits_inv p : Inv p -> Inv (parse_permits p).
Proof. intros Hi. unfold parse_permits. pose proof (same_match [MStr (c x3d); MStr (c x7b)] p) as Hm.
  destruct (p_match _ p) as [[ok caps] p1]. cbn [snd] in Hm. apply parse_permits_loop_inv. eapply inv_same; eauto. Qed.

Lemma parse_class_loop_inv fuel : forall p, Inv p -> Inv (parse_class_loop fuel p).
Proof.
  induction fuel as [|f IH]; intros p Hi; cbn [parse_class_loop]; [exact Hi|].
  destruct (fatal p); [exact Hi|].
  pose proof (same_next p) as Hn. destruct (p_next p) as [i p1]. cbn [snd] in Hn.
  assert (Hi1 : Inv p1) by (eapply inv_same; eauto).
  destruct (ityp_eqb (i_typ i) BraceR); [apply inv_push; exact Hi1|].
  destruct (bytes_eqb (i_val i) t_related); [apply IH, parse_related_inv; exact Hi1|].
  destruct (bytes_eqb (i_val i) t_permits); [apply IH, parse_permits_inv; exact Hi1|].
  destruct (ityp_eqb (i_typ i) Semicolon); [apply IH; exact Hi1|].
  eapply inv_same; [apply (same_add_fatal i)|exact Hi1].
Qed.
Lemma parse_class_inv p : Inv p -> Inv (parse_class p).
Proof. intros Hi. unfold parse_class. pose proof (same_match [MIdent; MStr t_implements; MStr t_Namespace; MStr (c x7b)] p) as Hm.
  destruct (p_match _ p) as [[ok caps] p1]. cbn [snd] in Hm. apply parse_class_loop_inv. apply inv_set_cur. eapply inv_same; eauto. Qed.
Lemma parse_top_inv fuel : forall p, Inv p -> Inv (parse_top fuel p).
Proof.
  induction fuel as [|f IH]; intros p Hi; cbn [parse_top]; [exact Hi|].
  destruct (fatal p); [exact Hi|].
  pose proof (same_next p) as Hn. destruct (p_next p) as [i p1]. cbn [snd] in Hn.
  assert (Hi1 : Inv p1) by (eapply inv_same; eauto).
  destruct (i_typ i); try (apply IH; exact Hi1); try exact Hi1.
  all: first [eapply inv_same; [apply (same_add_fatal i)|exact Hi1] | apply IH, parse_class_inv; exact Hi1].
Qed.

(* ---- a passing check is the corresponding clause of welltyped ---- *)
Lemma ns_find_eq l n : ns_find l n = find_ns l n.
Proof. induction l as [|x l IH]; cbn; [reflexivity|]. now rewrite IH. Qed.

Section Final.
Variable L : list namespace.
Variable C : list tcheck.
Hypothesis pass : forall t, In t C -> run_check L t = [].

Lemma cur_has_rel n i : In (TCurHasRel n i) C -> declared L n (i_val i) = true.
Proof. intros H. apply pass in H. cbn in H. unfold declared. rewrite <- ns_find_eq.
  destruct (ns_find L n) as [x|]; [|discriminate]. unfold rel_find in H. destruct (find_rel (ns_rels x) (i_val i)); [reflexivity|discriminate]. Qed.

Lemma flat_map_nil {A B} (f : A -> list B) l : flat_map f l = [] -> forall x, In x l -> f x = [].
Proof. induction l as [|a l IH]; cbn; [intros _ x []|]. intros H x [<-|Hx]; apply app_eq_nil in H as [H1 H2]; auto. Qed.

Lemma child_ok_of_cov n : forall ch, child_cov C n ch -> child_ok L n ch = true.
Proof.
  fix IH 1. intros ch. destruct ch as [r|r cr|op cs|c']; cbn.
  - intros [i [Hin <-]]. apply cur_has_rel. exact Hin.
  - intros [i (H1 & H2 & <-)]. rewrite (cur_has_rel n i H1). cbn [andb].
    apply pass in H2. cbn in H2. unfold find_relation in H2. unfold types_of. rewrite <- ns_find_eq.
    destruct (ns_find L n) as [x|]; [|discriminate]. unfold rel_find in H2. destruct (find_rel (ns_rels x) (i_val i)) as [r0|]; [|discriminate].
    apply forallb_forall. intros t Ht. pose proof (flat_map_nil _ _ H2 t Ht) as Hx. cbn in Hx.
    unfold declared. rewrite <- ns_find_eq. destruct (ns_find L (ty_ns t)) as [y|]; [|discriminate]. unfold rel_find in Hx.
    destruct (find_rel (ns_rels y) cr); [reflexivity|discriminate].
  - induction cs as [|x l IHl]; [reflexivity|]. intros [A B]. rewrite (IH x A). cbn [andb]. apply IHl. exact B.
  - apply IH.
Qed.

Lemma type_ok_of_cov t : type_cov C t -> type_ok L t = true.
Proof.
  unfold type_ok, ns_declared, declared. intros [[i (H1 & H2 & H3)]|[i [j (H1 & H2 & H3)]]].
  - rewrite H3. apply pass in H1. cbn in H1. rewrite <- ns_find_eq, <- H2. destruct (ns_find L (i_val i)); [reflexivity|discriminate].
  - apply pass in H1. cbn in H1. rewrite <- ns_find_eq, <- H2, <- H3.
    destruct (ns_find L (i_val i)) as [x|]; [|discriminate]. unfold rel_find in H1.
    destruct (find_rel (ns_rels x) (i_val j)) eqn:Ef; [|discriminate]. destruct (i_val j); [reflexivity|rewrite Ef; reflexivity].
Qed.

Lemma relation_ok_of_cov n x : rel_cov C n x -> relation_ok L n x = true.
Proof.
  intros [A B]. unfold relation_ok. apply andb_true_iff. split.
  - apply forallb_forall. intros t Ht. apply type_ok_of_cov. rewrite Forall_forall in A. auto.
  - destruct (rel_rewrite x) as [w|]; [|reflexivity]. specialize (B w eq_refl). apply forallb_forall. intros ch Hch.
    apply child_ok_of_cov. unfold children_cov in B. rewrite Forall_forall in B. auto.
Qed.

Lemma welltyped_of_cov : Forall (ns_cov C) L -> welltyped L = true.
Proof.
  intros H. unfold welltyped. apply forallb_forall. intros ns Hns. apply forallb_forall. intros x Hx.
  rewrite Forall_forall in H. specialize (H ns Hns). unfold ns_cov in H. rewrite Forall_forall in H. apply relation_ok_of_cov. auto.
Qed.
End Final.

(* ---- the theorem ---- *)
Theorem parse_tokens_welltyped ts : snd (parse_tokens ts) = [] -> welltyped (fst (parse_tokens ts)) = true.
Proof.
  unfold parse_tokens. set (p0 := {| toks := ts; errs := []; fatal := false; nss := []; cur := empty_ns; checks := [] |}).
  assert (Hi0 : Inv p0) by (split; [constructor|unfold ns_cov; cbn; constructor]).
  pose proof (parse_top_inv (S (length ts)) p0 Hi0) as [HI _].
  destruct (errs (parse_top (S (length ts)) p0)) as [|e es]; cbn [fst snd]; [|discriminate].
  intros Hc. eapply welltyped_of_cov; [|exact HI]. intros t Ht. eapply flat_map_nil; eauto.
Qed.
Theorem parse_welltyped s : snd (Parse s) = [] -> welltyped (fst (Parse s)) = true.
Proof. apply parse_tokens_welltyped. Qed.
