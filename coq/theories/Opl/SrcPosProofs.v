(* C12, positions: every reported line lies between 1 and (number of newlines + 1), and positions are monotone. *)
From Coq Require Import List Bool Arith NArith ZArith Lia.
From Coq Require Import Strings.Byte.
From Keto Require Import Base.Bytes Opl.Lexer Opl.SrcPos.
Import ListNotations.

Lemma newlines_skipn k s : newlines (skipn k s) <= newlines s.
Proof. revert s; induction k as [|k IH]; intros [|c s]; cbn; auto. unfold newlines in *. cbn. destruct (beq c x0a); cbn; specialize (IH s); lia. Qed.

Lemma newlines_cons_nl b s : beq b x0a = true -> newlines (b :: s) = S (newlines s).
Proof. intros E. unfold newlines. cbn [filter]. now rewrite E. Qed.
Lemma newlines_cons_other b s : beq b x0a = false -> newlines (b :: s) = newlines s.
Proof. intros E. unfold newlines. cbn [filter]. now rewrite E. Qed.

Lemma src_pos_line fuel : forall s pos line col,
  line <= fst (src_pos fuel s pos line col) <= line + newlines s.
Proof.
  induction fuel as [|f IH]; intros s pos line col; cbn [src_pos fst]; [lia|].
  destruct s as [|b0 s]; cbn [fst]; [lia|].
  destruct (pos - 1 <=? 0)%Z; cbn [fst]; [lia|].
  destruct (beq b0 x0a) eqn:E.
  - specialize (IH (skipn 1 (b0 :: s)) (pos - 1)%Z (S line) 0). change (newlines (skipn 1 (b0 :: s))) with (newlines s) in IH. rewrite (newlines_cons_nl _ _ E). lia.
  - specialize (IH (skipn (rune_width (b0 :: s)) (b0 :: s)) (pos - 1)%Z line (S col)).
    pose proof (newlines_skipn (rune_width (b0 :: s)) (b0 :: s)) as Hs. lia.
Qed.
Theorem line_bounds s pos : 1 <= fst (to_src_pos s pos) <= newlines s + 1.
Proof. unfold to_src_pos. pose proof (src_pos_line (S (length s)) s (Z.of_nat pos) 1 0). lia. Qed.

Lemma src_pos_mono fuel : forall s p1 p2 line col, (p1 <= p2)%Z ->
  fst (src_pos fuel s p1 line col) <= fst (src_pos fuel s p2 line col).
Proof.
  induction fuel as [|f IH]; intros s p1 p2 line col Hp; cbn [src_pos fst]; [lia|].
  destruct s as [|b0 s]; cbn [fst]; [lia|].
  destruct (Z.leb_spec (p1 - 1) 0); destruct (Z.leb_spec (p2 - 1) 0); cbn [fst]; try lia.
  - destruct (beq b0 x0a).
    + pose proof (src_pos_line f (skipn 1 (b0 :: s)) (p2 - 1)%Z (S line) 0). lia.
    + pose proof (src_pos_line f (skipn (rune_width (b0 :: s)) (b0 :: s)) (p2 - 1)%Z line (S col)). lia.
  - destruct (beq b0 x0a); apply IH; lia.
Qed.
Theorem line_monotone s a b : a <= b -> fst (to_src_pos s a) <= fst (to_src_pos s b).
Proof. intros H. unfold to_src_pos. apply src_pos_mono. lia. Qed.
