(* C12, lexer part: on EVERY byte string the lexer makes progress, stops with EOF or one error item after at most
   |s|+1 items, and every item lies inside the input, in order. *)
From Coq Require Import List Bool Arith NArith Lia.
From Coq Require Import Strings.Byte.
From Keto Require Import Base.Bytes Opl.Lexer.
Import ListNotations.

Lemma span_spec p s a b : span p s = (a, b) -> s = a ++ b.
Proof. revert a b; induction s as [|c s IH]; cbn; intros a b H; [inversion H; reflexivity|].
  destruct (p c); [|inversion H; reflexivity]. destruct (span p s) as [a' b']. inversion H; subst. cbn. f_equal. now apply IH. Qed.
Lemma span_len p s a b : span p s = (a, b) -> length s = length a + length b.
Proof. intros H. apply span_spec in H. subst. apply app_length. Qed.
Lemma until_spec p s a b : until p s = Some (a, b) -> s = a ++ b /\ 1 <= length b.
Proof. revert a b; induction s as [|c s IH]; cbn; intros a b H; [discriminate|].
  destruct (p c); [inversion H; subst; cbn; split; [reflexivity|lia]|].
  destruct (until p s) as [[a' b']|]; [|discriminate]. inversion H; subst. destruct (IH a' b eq_refl) as [-> Hl]. split; [reflexivity|exact Hl]. Qed.
Lemma until_close_spec s a b : until_close s = Some (a, b) -> length s = length a + length b /\ 2 <= length a.
Proof.
  revert a b; induction s as [|c s IH]; cbn; intros a b H; [discriminate|].
  destruct (beq c x2a && match s with c2 :: _ => beq c2 x2f | [] => false end) eqn:E.
  - inversion H; subst. destruct s as [|c2 s]; [rewrite andb_false_r in E; discriminate|]. cbn. split; lia.
  - destruct (until_close s) as [[a' b']|]; [|discriminate]. inversion H; subst. destruct (IH a' b eq_refl) as [Hl H2]. cbn. split; lia.
Qed.

Definition terminal (t : ityp) : bool := match t with IEOF | IError => true | _ => false end.

Lemma keyword_not_terminal v : terminal (keyword v) = false.
Proof. unfold keyword. repeat match goal with |- context [if ?b then _ else _] => destruct b end; reflexivity. Qed.
Lemma one_rune_not_terminal c t : one_rune c = Some t -> terminal t = false.
Proof. unfold one_rune. repeat match goal with |- context [if ?b then _ else _] => destruct b end; intros H; inversion H; reflexivity. Qed.

Lemma starts2_len a b s : starts2 a b s = true -> 2 <= length s.
Proof. destruct s as [|c [|c2 s]]; cbn; try discriminate; lia. Qed.

(* one item: position facts and progress *)
Ltac fin := repeat split; intros; try discriminate; try assumption; try lia.

Theorem lex_item_spec s pos it rest stop : lex_item s pos = (it, rest, stop) ->
  pos <= i_start it /\ i_start it <= i_end it /\ i_end it <= pos + length s /\
  length rest <= length s /\ terminal (i_typ it) = stop /\
  (stop = false -> length rest < length s /\ i_end it <= pos + (length s - length rest)).
Proof.
  unfold lex_item. destruct (span is_space s) as [sp s1] eqn:Esp. pose proof (span_len _ _ _ _ Esp) as Hl.
  destruct s1 as [|c r].
  { intros H; inversion H; subst; cbn. fin. }
  cbn [length] in Hl.
  destruct (starts2 x3d x3e (c :: r)) eqn:E1.
  { apply starts2_len in E1. cbn in E1. intros H; inversion H; subst; cbn. destruct r; cbn in *; [lia|]. fin. }
  destruct (starts2 x7c x7c (c :: r)) eqn:E2.
  { apply starts2_len in E2. cbn in E2. intros H; inversion H; subst; cbn. destruct r; cbn in *; [lia|]. fin. }
  destruct (starts2 x26 x26 (c :: r)) eqn:E3.
  { apply starts2_len in E3. cbn in E3. intros H; inversion H; subst; cbn. destruct r; cbn in *; [lia|]. fin. }
  destruct (starts2 x2f x2f (c :: r)) eqn:E4.
  { apply starts2_len in E4. cbn in E4. destruct (span _ (tl r)) as [body rest0] eqn:Eb. pose proof (span_len _ _ _ _ Eb) as Hb.
    intros H; inversion H; subst; cbn. destruct r; cbn in *; [lia|]. fin. }
  destruct (starts2 x2f x2a (c :: r)) eqn:E5.
  { apply starts2_len in E5. cbn in E5. destruct (until_close (tl r)) as [[body rest0]|] eqn:Eb.
    - destruct (until_close_spec _ _ _ Eb) as [Hb H2]. intros H; inversion H; subst; cbn. destruct r; cbn in *; [lia|]. fin.
    - intros H; inversion H; subst; cbn. fin. }
  destruct (one_rune c) as [t|] eqn:Eo.
  { intros H; inversion H; subst; cbn. pose proof (one_rune_not_terminal _ _ Eo). fin. }
  destruct (beq c x27 || beq c x22).
  { destruct (until (beq c) r) as [[body rest0]|] eqn:Eu.
    - destruct (until_spec _ _ _ _ Eu) as [-> Hb]. intros H; inversion H; subst; cbn. rewrite app_length in Hl.
      destruct rest0 as [|q rest0]; cbn in *; [lia|]. fin.
    - intros H; inversion H; subst; cbn. fin. }
  destruct (is_letter c).
  { destruct (span _ r) as [idr rest0] eqn:Ei. pose proof (span_len _ _ _ _ Ei) as Hi.
    intros H; inversion H; subst; cbn. rewrite keyword_not_terminal. fin. }
  intros H; inversion H; subst; cbn. fin.
Qed.

(* the whole run *)
Definition within (n : nat) (it : item) : Prop := i_start it <= i_end it /\ i_end it <= n.

Lemma lex_spec fuel : forall s pos, length s < fuel ->
  let l := lex fuel s pos in
  l <> [] /\ length l <= S (length s) /\
  Forall (fun it => pos <= i_start it /\ within (pos + length s) it) l /\
  terminal (i_typ (last l {| i_typ := IIdent; i_val := []; i_start := 0; i_end := 0 |})) = true /\
  Forall (fun it => terminal (i_typ it) = false) (removelast l).
Proof.
  induction fuel as [|f IH]; intros s pos Hf; [lia|]. cbn [lex].
  destruct (lex_item s pos) as [[it rest] stop] eqn:E. destruct (lex_item_spec _ _ _ _ _ E) as (H1 & H2 & H3 & H4 & H5 & H6).
  destruct stop.
  - cbn. split; [discriminate|]. split; [lia|]. split; [constructor; [unfold within; lia|constructor]|]. split; [exact H5|constructor].
  - destruct (H6 eq_refl) as [Hlt Hend].
    specialize (IH rest (pos + (length s - length rest)) ltac:(lia)). cbn zeta in IH. destruct IH as (I1 & I2 & I3 & I4 & I5).
    set (l := lex f rest (pos + (length s - length rest))) in *.
    split; [discriminate|]. split; [cbn; lia|]. split; [|split].
    + constructor; [unfold within; lia|]. eapply Forall_impl; [|exact I3]. cbn. unfold within. intros a [A1 [A2 A3]]. lia.
    + destruct l as [|x l']; [contradiction|]. exact I4.
    + destruct l as [|x l']; [contradiction|]. cbn [removelast]. constructor; [exact H5|exact I5].
Qed.

Theorem lex_all_total s :
  let l := lex_all s in
  l <> [] /\ length l <= S (length s) /\ Forall (within (length s)) l /\
  terminal (i_typ (last l {| i_typ := IIdent; i_val := []; i_start := 0; i_end := 0 |})) = true /\
  Forall (fun it => terminal (i_typ it) = false) (removelast l).
Proof.
  unfold lex_all. destruct (lex_spec (S (length s)) s 0 (Nat.lt_succ_diag_r _)) as (H1 & H2 & H3 & H4 & H5).
  cbn zeta. split; [exact H1|]. split; [exact H2|]. split; [|split; assumption].
  eapply Forall_impl; [|exact H3]. cbn. intros a [_ Hw]. exact Hw.
Qed.

(* items are emitted in input order *)
Lemma lex_sorted fuel : forall s pos, length s < fuel ->
  forall l1 a l2 b l3, lex fuel s pos = l1 ++ a :: l2 ++ b :: l3 -> i_end a <= i_start b \/ i_typ a = IString /\ i_end a <= i_start b.
Proof.
  induction fuel as [|f IH]; intros s pos Hf l1 a l2 b l3 E; [lia|]. cbn [lex] in E.
  destruct (lex_item s pos) as [[it rest] stop] eqn:Ei. destruct (lex_item_spec _ _ _ _ _ Ei) as (H1 & H2 & H3 & H4 & H5 & H6).
  destruct stop.
  - destruct l1 as [|x l1]; cbn in E; inversion E; destruct l2; discriminate || (destruct l1; discriminate).
  - destruct (H6 eq_refl) as [Hlt Hend].
    destruct l1 as [|x l1]; cbn in E; inversion E; subst.
    + left. destruct (lex_spec f rest (pos + (length s - length rest)) ltac:(lia)) as (_ & _ & I3 & _).
      rewrite H7 in I3. rewrite Forall_forall in I3. specialize (I3 b ltac:(apply in_or_app; right; now left)). lia.
    + eapply IH; [|exact H7]. lia.
Qed.
