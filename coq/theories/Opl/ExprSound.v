(* C10: the permission-expression parser means what TypeScript means - for EVERY expression of the grammar
       or   ::= and ('||' and)*        and ::= unary ('&&' unary)*
       unary ::= ['!'] atom | ['!'] '(' or ')'
   (that is: ! binds tighter than &&, && tighter than ||, parentheses override), in every token spelling (the operator
   and parenthesis items are arbitrary items of the right type, at any position), for every atom spelling the atom
   parser accepts (AtomSpellings below), nested no deeper than the parser's limit: parse_exprs accepts the token list,
   consumes exactly the expression and its closing token, reports no error, and the rewrite it returns evaluates, under
   every valuation of the atoms, to the TypeScript value of the expression. *)
From Coq Require Import List Bool Arith NArith ZArith Lia.
From Coq Require Import Strings.Byte.
From Keto Require Import Base.Bytes Base.ListX Engine.Ast Opl.Lexer Opl.Parser Opl.TsSem.
From Keto Require Import Opl.ParserFuel.
Import ListNotations.

(* ---- the grammar, with the items that spell it ---- *)
Inductive un :=
| UAtom (nt : option item) (ts : list item) (ch : child)
| UParen (nt : option item) (lp : item) (e : orx) (rp : item)
with andx :=
| AUn (u : un)
| AAnd (a : andx) (op : item) (u : un)
with orx :=
| OJust (a : andx)
| OAlt (a : andx) (op : item) (o : orx).

Scheme un_mut := Induction for un Sort Prop
  with andx_mut := Induction for andx Sort Prop
  with orx_mut := Induction for orx Sort Prop.
Combined Scheme expr_mutind from un_mut, andx_mut, orx_mut.

Definition opt_tok (o : option item) : list item := match o with Some t => [t] | None => [] end.
Fixpoint r_un (u : un) : list item :=
  match u with
  | UAtom nt ts _ => opt_tok nt ++ ts
  | UParen nt lp e rp => opt_tok nt ++ lp :: r_or e ++ [rp]
  end
with r_and (a : andx) : list item :=
  match a with
  | AUn u => r_un u
  | AAnd a op u => r_and a ++ op :: r_un u
  end
with r_or (o : orx) : list item :=
  match o with
  | OJust a => r_and a
  | OAlt a op o => r_and a ++ op :: r_or o
  end.

(* TypeScript truth value *)
Definition flip (nt : option item) (b : bool) : bool := match nt with Some _ => negb b | None => b end.
Fixpoint s_un (v : valuation) (u : un) : bool :=
  match u with
  | UAtom nt _ ch => flip nt (eval v ch)
  | UParen nt _ e _ => flip nt (s_or v e)
  end
with s_and (v : valuation) (a : andx) : bool :=
  match a with
  | AUn u => s_un v u
  | AAnd a _ u => s_and v a && s_un v u
  end
with s_or (v : valuation) (o : orx) : bool :=
  match o with
  | OJust a => s_and v a
  | OAlt a _ o => s_and v a || s_or v o
  end.

(* nesting budget the parser needs: a parenthesis costs 1, a '!' costs 1 *)
Definition ncost (nt : option item) : nat := match nt with Some _ => 1 | None => 0 end.
Fixpoint need_un (u : un) : nat :=
  match u with
  | UAtom nt _ _ => 1 + ncost nt
  | UParen nt _ e _ => 1 + ncost nt + need_or e
  end
with need_and (a : andx) : nat :=
  match a with
  | AUn u => need_un u
  | AAnd a _ u => Nat.max (need_and a) (need_un u)
  end
with need_or (o : orx) : nat :=
  match o with
  | OJust a => need_and a
  | OAlt a _ o => Nat.max (need_and a) (need_or o)
  end.

(* what "later state" means: the expected tokens are left, nothing was reported *)
Definition adv (p p' : pst) (rest : list item) : Prop := toks p' = rest /\ fatal p' = false /\ errs p' = errs p.

(* an atom spelling: starts with the keyword this, and the atom parser turns it into ch *)
Definition atom_ok (ts : list item) (ch : child) : Prop :=
  (exists t0 r0, ts = t0 :: r0 /\ i_typ t0 = KThis) /\ wf ch = true /\
  forall p rest, toks p = ts ++ rest -> fatal p = false -> exists p', parse_atom p = (Some ch, p') /\ adv p p' rest.

Definition not_ok (nt : option item) : Prop := match nt with Some t => i_typ t = ONot | None => True end.
Fixpoint wf_un (u : un) : Prop :=
  match u with
  | UAtom nt ts ch => not_ok nt /\ atom_ok ts ch
  | UParen nt lp e rp => not_ok nt /\ i_typ lp = ParenL /\ i_typ rp = ParenR /\ wf_or e
  end
with wf_and (a : andx) : Prop :=
  match a with
  | AUn u => wf_un u
  | AAnd a op u => wf_and a /\ i_typ op = OAnd /\ wf_un u
  end
with wf_or (o : orx) : Prop :=
  match o with
  | OJust a => wf_and a
  | OAlt a op o => wf_and a /\ i_typ op = OOr /\ wf_or o
  end.

(* ---- parser steps ---- *)
Lemma next_cons p t r : toks p = t :: r ->
  exists p1, p_next p = (t, p1) /\ toks p1 = r /\ fatal p1 = fatal p /\ errs p1 = errs p.
Proof. intros H. unfold p_next. rewrite H. eexists. split; [reflexivity|]. cbn. auto. Qed.
Lemma peek_cons p t r : toks p = t :: r -> p_peek p = t.
Proof. intros H. unfold p_peek. now rewrite H. Qed.
Lemma len_cons p t r : toks p = t :: r -> len p = S (length r).
Proof. intros H. unfold len. now rewrite H. Qed.

(* canonical fuel *)
Definition PE final depth root expect p := parse_exprs (S (len p)) final depth root expect p.
Lemma PE_eq f final depth root expect p : len p < f -> parse_exprs f final depth root expect p = PE final depth root expect p.
Proof. intros H. apply parse_exprs_fuel; [exact H|lia]. Qed.

Definition is_final (final : ityp) : Prop := final = OComma \/ final = ParenR.

(* a root that is waiting for an operand: nothing yet, or the left side of an '&&' *)
Definition root_shape (root : option rw) : Prop := root = None \/ exists x, root = Some (OpAnd, [x]) /\ wf x = true.
Definition pre_of (v : valuation) (root : option rw) : bool := match root with Some (_, [x]) => eval v x | _ => true end.

Lemma eval_as_rewrite v ch : eval v (rw_child (as_rewrite ch)) = eval v ch.
Proof. destruct ch; try reflexivity; unfold as_rewrite, rw_child; cbn [fst snd]; rewrite eval_Or; cbn; now rewrite orb_false_r. Qed.
Lemma wf_as_rewrite ch : wf ch = true -> wf (rw_child (as_rewrite ch)) = true.
Proof. intros H. destruct ch; try exact H; unfold as_rewrite, rw_child; cbn [fst snd]; rewrite wf_rewrite; cbn [forallb]; rewrite H; reflexivity. Qed.

(* the operand ch arrives at a waiting root: the new root stands for pre && ch *)
Lemma add_operand root ch : root_shape root -> wf ch = true ->
  exists r, add_child root ch = Some r /\ (forall v, eval v (rw_child r) = pre_of v root && eval v ch) /\ wf (rw_child r) = true.
Proof.
  intros [->|(x & -> & Hx)] Hc.
  - exists (as_rewrite ch). split; [reflexivity|]. split; [intros v; apply eval_as_rewrite|now apply wf_as_rewrite].
  - exists (OpAnd, [x] ++ [ch]). split; [reflexivity|]. split.
    + intros v. unfold rw_child; cbn [fst snd app pre_of]. rewrite eval_And. cbn. now rewrite andb_true_r.
    + unfold rw_child; cbn [fst snd app]. rewrite wf_rewrite. cbn [forallb]. rewrite Hc, Hx. reflexivity.
Qed.

Lemma adv_trans p p1 p2 r1 r2 : adv p p1 r1 -> adv p1 p2 r2 -> adv p p2 r2.
Proof. intros (A1 & A2 & A3) (B1 & B2 & B3). repeat split; congruence. Qed.

Lemma need_un_pos u : 1 <= need_un u. Proof. destruct u; cbn; lia. Qed.
Lemma need_and_pos a : 1 <= need_and a. Proof. induction a; cbn; [apply need_un_pos|lia]. Qed.

Definition P_un (u : un) : Prop := wf_un u ->
  forall final depth root p rest, is_final final -> toks p = r_un u ++ rest -> fatal p = false -> need_un u <= depth ->
  exists ch p', PE final depth root true p = PE final depth (add_child root ch) false p' /\ adv p p' rest /\
                (forall v, eval v ch = s_un v u) /\ wf ch = true.
Definition P_and (a : andx) : Prop := wf_and a ->
  forall final depth root p rest, is_final final -> toks p = r_and a ++ rest -> fatal p = false -> need_and a <= depth ->
  root_shape root ->
  exists r p', PE final depth root true p = PE final depth (Some r) false p' /\ adv p p' rest /\
               (forall v, eval v (rw_child r) = pre_of v root && s_and v a) /\ wf (rw_child r) = true.
Definition P_or (o : orx) : Prop := wf_or o ->
  forall final ft depth p rest, is_final final -> i_typ ft = final -> toks p = r_or o ++ ft :: rest -> fatal p = false ->
  need_or o <= depth ->
  exists r p', PE final depth None true p = (Some r, p') /\ adv p p' rest /\
               (forall v, eval v (rw_child r) = s_or v o) /\ wf (rw_child r) = true.

Ltac advs := unfold adv in *; repeat match goal with H : _ /\ _ |- _ => destruct H end; repeat split; congruence.
Ltac lens := unfold len; repeat match goal with H : toks _ = _ |- _ => rewrite H end; rewrite ?app_length; cbn [length]; rewrite ?app_length; cbn [length]; lia.

Lemma un_atom nt ts ch : P_un (UAtom nt ts ch).
Proof.
  intros [Hnt ((t0 & r0 & -> & Ht0) & Hwf & Hat)] final depth root p rest Hfin Ht Hf Hd.
  destruct nt as [nt|]; cbn [r_un opt_tok app need_un ncost not_ok] in *.
  - (* ! atom *)
    destruct depth as [|[|dm2]]; [lia|lia|].
    destruct (next_cons p nt _ Ht) as (p1 & En & Ht1 & Hf1 & He1). rewrite Hf in Hf1.
    destruct (Hat p1 rest Ht1 Hf1) as (p2 & Ea & Ha).
    exists (CInvert ch), p2. split; [|split; [advs|split; [reflexivity|exact Hwf]]].
    unfold PE at 1. cbn [parse_exprs]. rewrite Hf. cbv zeta. rewrite (peek_cons p nt _ Ht), Hnt.
    destruct Hfin as [-> | ->]; cbn [ityp_eqb orb]; rewrite En; rewrite (peek_cons p1 t0 _ Ht1), Ht0; cbn [ityp_eqb]; rewrite Ea;
      apply PE_eq; destruct Ha as (Ha1 & _); lens.
  - (* atom *)
    destruct depth as [|dm1]; [lia|].
    destruct (Hat p rest Ht Hf) as (p2 & Ea & Ha).
    exists ch, p2. split; [|split; [exact Ha|split; [reflexivity|exact Hwf]]].
    unfold PE at 1. cbn [parse_exprs]. rewrite Hf. cbv zeta. rewrite (peek_cons p t0 _ Ht), Ht0.
    destruct Hfin as [-> | ->]; cbn [ityp_eqb orb negb]; rewrite Ea; apply PE_eq; destruct Ha as (Ha1 & _); lens.
Qed.

Lemma un_paren nt lp e rp : P_or e -> P_un (UParen nt lp e rp).
Proof.
  intros IH (Hnt & Hlp & Hrp & Hwe) final depth root p rest Hfin Ht Hf Hd.
  destruct nt as [nt|]; cbn [r_un opt_tok app need_un ncost not_ok] in *; rewrite <- app_assoc in Ht; cbn [app] in Ht.
  - (* ! ( e ) *)
    destruct depth as [|[|dm2]]; [lia|lia|].
    destruct (next_cons p nt _ Ht) as (p1 & En & Ht1 & Hf1 & He1). rewrite Hf in Hf1.
    destruct (next_cons p1 lp _ Ht1) as (q & En1 & Htq & Hfq & Heq). rewrite Hf1 in Hfq.
    destruct (IH Hwe ParenR rp dm2 q rest (or_intror eq_refl) Hrp Htq Hfq ltac:(lia)) as (r & q2 & Ee & Hq2 & Hev & Hwr).
    exists (CInvert (rw_child r)), q2. split; [|split; [|split; [intros v; cbn [eval s_un flip]; now rewrite Hev|exact Hwr]]].
    + unfold PE at 1. cbn [parse_exprs]. rewrite Hf. cbv zeta. rewrite (peek_cons p nt _ Ht), Hnt.
      destruct Hfin as [-> | ->]; cbn [ityp_eqb orb]; rewrite En; rewrite (peek_cons p1 lp _ Ht1), Hlp; cbn [ityp_eqb]; rewrite En1;
        (rewrite (PE_eq (len p) ParenR dm2 None true q) by lens); rewrite Ee; apply PE_eq; destruct Hq2 as (Ha1 & _); lens.
    + advs.
  - (* ( e ) *)
    destruct depth as [|dm1]; [lia|].
    destruct (next_cons p lp _ Ht) as (p1 & En & Ht1 & Hf1 & He1). rewrite Hf in Hf1.
    destruct (IH Hwe ParenR rp dm1 p1 rest (or_intror eq_refl) Hrp Ht1 Hf1 ltac:(lia)) as (r & p2 & Ee & Hp2 & Hev & Hwr).
    exists (rw_child r), p2. split; [|split; [|split; [intros v; cbn [s_un flip]; apply Hev|exact Hwr]]].
    + unfold PE at 1. cbn [parse_exprs]. rewrite Hf. cbv zeta. rewrite (peek_cons p lp _ Ht), Hlp. cbn [ityp_eqb]. rewrite En.
      (rewrite (PE_eq (len p) ParenR dm1 None true p1) by lens). rewrite Ee. apply PE_eq. destruct Hp2 as (Ha1 & _). lens.
    + advs.
Qed.

Lemma and_un u : P_un u -> P_and (AUn u).
Proof.
  intros IH Hw final depth root p rest Hfin Ht Hf Hd Hr. cbn [r_and need_and wf_and] in *.
  destruct (IH Hw final depth root p rest Hfin Ht Hf Hd) as (ch & p' & E & Ha & Hev & Hwc).
  destruct (add_operand root ch Hr Hwc) as (r & Er & Hre & Hrw).
  exists r, p'. rewrite E, Er. split; [reflexivity|]. split; [exact Ha|]. split; [|exact Hrw].
  intros v. rewrite Hre, Hev. reflexivity.
Qed.

Lemma and_and a op u : P_and a -> P_un u -> P_and (AAnd a op u).
Proof.
  intros IHa IHu (Hwa & Hop & Hwu) final depth root p rest Hfin Ht Hf Hd Hr. cbn [r_and need_and] in *.
  rewrite <- app_assoc in Ht; cbn [app] in Ht.
  destruct (IHa Hwa final depth root p _ Hfin Ht Hf ltac:(lia) Hr) as (r1 & p1 & E1 & (Ht1 & Hf1 & He1) & Hev1 & Hw1).
  destruct (next_cons p1 op _ Ht1) as (p2 & En & Ht2 & Hf2 & He2). rewrite Hf1 in Hf2.
  assert (Hshape : root_shape (Some (OpAnd, [rw_child r1]))) by (right; eauto).
  destruct (IHu Hwu final depth (Some (OpAnd, [rw_child r1])) p2 rest Hfin Ht2 Hf2 ltac:(lia)) as (ch & p3 & E3 & Ha3 & Hev3 & Hw3).
  destruct (add_operand _ ch Hshape Hw3) as (r & Er & Hre & Hrw).
  exists r, p3. split; [|split; [|split; [|exact Hrw]]].
  - rewrite E1. pose proof (need_and_pos a) as Hpos. destruct depth as [|dm1]; [lia|].
    unfold PE at 1. cbn [parse_exprs]. rewrite Hf1. cbv zeta. rewrite (peek_cons p1 op _ Ht1), Hop.
    destruct Hfin as [-> | ->]; cbn [ityp_eqb orb]; rewrite En; (rewrite (PE_eq (len p1) _ (S dm1) (Some (OpAnd, [rw_child r1])) true p2) by lens);
      rewrite E3, Er; reflexivity.
  - advs.
  - intros v. rewrite Hre, Hev3. cbn [pre_of s_and]. rewrite Hev1. now rewrite andb_assoc.
Qed.

Lemma or_and a : P_and a -> P_or (OJust a).
Proof.
  intros IH Hw final ft depth p rest Hfin Hft Ht Hf Hd. cbn [r_or need_or wf_or] in *.
  destruct (IH Hw final depth None p _ Hfin Ht Hf Hd (or_introl eq_refl)) as (r & p1 & E1 & (Ht1 & Hf1 & He1) & Hev & Hwr).
  destruct (next_cons p1 ft _ Ht1) as (p2 & En & Ht2 & Hf2 & He2). rewrite Hf1 in Hf2.
  exists r, p2. split; [|split; [repeat split; congruence|split; [|exact Hwr]]].
  - rewrite E1. pose proof (need_and_pos a) as Hpos. destruct depth as [|dm1]; [lia|].
    unfold PE. cbn [parse_exprs]. rewrite Hf1. cbv zeta. rewrite (peek_cons p1 ft _ Ht1), Hft.
    destruct Hfin as [-> | ->]; cbn [ityp_eqb]; rewrite En; reflexivity.
  - intros v. rewrite Hev. reflexivity.
Qed.

Lemma or_or a op o : P_and a -> P_or o -> P_or (OAlt a op o).
Proof.
  intros IHa IHo (Hwa & Hop & Hwo) final ft depth p rest Hfin Hft Ht Hf Hd. cbn [r_or need_or] in *.
  rewrite <- app_assoc in Ht; cbn [app] in Ht.
  destruct (IHa Hwa final depth None p _ Hfin Ht Hf ltac:(lia) (or_introl eq_refl)) as (r & p1 & E1 & (Ht1 & Hf1 & He1) & Hev & Hwr).
  destruct (next_cons p1 op _ Ht1) as (p2 & En & Ht2 & Hf2 & He2). rewrite Hf1 in Hf2.
  destruct (IHo Hwo final ft depth p2 rest Hfin Hft Ht2 Hf2 ltac:(lia)) as (rhs & p3 & E3 & Ha3 & Hev3 & Hw3).
  exists (OpOr, rw_child r :: match fst rhs with OpOr => snd rhs | OpAnd => [rw_child rhs] end), p3.
  split; [|split; [|split]].
  - rewrite E1. pose proof (need_and_pos a) as Hpos. destruct depth as [|dm1]; [lia|].
    unfold PE at 1. cbn [parse_exprs]. rewrite Hf1. cbv zeta. rewrite (peek_cons p1 op _ Ht1), Hop.
    destruct Hfin as [-> | ->]; cbn [ityp_eqb orb]; rewrite En; (rewrite (PE_eq (len p1) _ (S dm1) None true p2) by lens); rewrite E3; reflexivity.
  - advs.
  - intros v. unfold rw_child at 1; cbn [fst snd]. rewrite or_combination, Hev, Hev3. cbn [pre_of]. reflexivity.
  - unfold rw_child at 1; cbn [fst snd]. rewrite wf_rewrite. cbn [forallb]. rewrite Hwr. cbn [andb].
    destruct rhs as [[|] cs]; cbn [fst snd].
    + unfold rw_child in Hw3; cbn [fst snd] in Hw3. rewrite wf_rewrite in Hw3. exact Hw3.
    + cbn [forallb]. rewrite Hw3. reflexivity.
Qed.

Theorem expr_all : (forall u, P_un u) /\ (forall a, P_and a) /\ (forall o, P_or o).
Proof.
  apply expr_mutind.
  - apply un_atom.
  - intros; now apply un_paren.
  - intros; now apply and_un.
  - intros; now apply and_and.
  - intros; now apply or_and.
  - intros; now apply or_or.
Qed.

(* ---- the statement ---- *)
(* a permission body: parsePermits calls parse_exprs with final = ',' , the nesting limit, no root *)
Theorem expression_means_typescript (o : orx) (ft : item) (p : pst) (rest : list item) :
  wf_or o -> need_or o <= nesting_limit -> i_typ ft = OComma ->
  toks p = r_or o ++ ft :: rest -> fatal p = false ->
  exists r p', parse_exprs (S (2 * length (toks p))) OComma nesting_limit None true p = (Some r, p') /\
               toks p' = rest /\ fatal p' = false /\ errs p' = errs p /\
               forall v, eval v (CRewrite (rw_op (simplify r)) (rw_children (simplify r))) = s_or v o.
Proof.
  intros Hw Hn Hft Ht Hf.
  destruct expr_all as (_ & _ & Hor).
  destruct (Hor o Hw OComma ft nesting_limit p rest (or_introl eq_refl) Hft Ht Hf Hn) as (r & p' & E & (A1 & A2 & A3) & Hev & Hwr).
  exists r, p'. split; [|repeat split; auto].
  - rewrite <- E. apply PE_eq. unfold len. lia.
  - intros v. rewrite simplify_sound by exact Hwr. apply Hev.
Qed.

(* ---- atom spellings ---- *)
Definition tk (ps : nat * nat) (t : ityp) (v : bytes) : item := {| i_typ := t; i_val := v; i_start := fst ps; i_end := snd ps |}.
Section Spellings.
Variable pos : nat -> nat * nat.      (* where each fixed token stands: arbitrary *)
Definition k_this := tk (pos 0) KThis kw_this.
Definition k_dot n := tk (pos n) ODot (c x2e).
Definition k_id n v := tk (pos n) IIdent v.
Definition k_lp n := tk (pos n) ParenL (c x28).
Definition k_rp n := tk (pos n) ParenR (c x29).
Definition k_lb n := tk (pos n) BracketL (c x5b).
Definition k_rb n := tk (pos n) BracketR (c x5d).
Definition k_ctx n := tk (pos n) KCtx kw_ctx.
Definition k_arrow n := tk (pos n) OArrow [x3d; x3e].
Definition k_comma n := tk (pos n) OComma (c x2c).

(* this.related.NAME.includes(ctx.subject) *)
Definition sp_includes (nm : item) : list item :=
  [k_this; k_dot 1; k_id 2 t_related; k_dot 3; nm; k_dot 4; k_id 5 t_includes; k_lp 6; k_ctx 7; k_dot 8; k_id 9 t_subject; k_rp 10].
(* this.related["NAME"].includes(ctx.subject) *)
Definition sp_includes_br (nm : item) : list item :=
  [k_this; k_dot 1; k_id 2 t_related; k_lb 3; nm; k_rb 4; k_dot 5; k_id 6 t_includes; k_lp 7; k_ctx 8; k_dot 9; k_id 10 t_subject; k_rp 11].
(* this.permits.NAME(ctx) *)
Definition sp_permits (nm : item) : list item :=
  [k_this; k_dot 1; k_id 2 t_permits; k_dot 3; nm; k_lp 4; k_ctx 5; k_rp 6].
(* this.related.R.traverse(x => x.related.CR.includes(ctx.subject)), x optionally in parentheses *)
Definition sp_traverse (paren : bool) (r x x' cr : item) : list item :=
  [k_this; k_dot 1; k_id 2 t_related; k_dot 3; r; k_dot 4; k_id 5 t_traverse; k_lp 6] ++
  (if paren then [k_lp 7; x; k_rp 8] else [x]) ++
  [k_arrow 9; x'; k_dot 10; k_id 11 t_related; k_dot 12; cr; k_dot 13; k_id 14 t_includes; k_lp 15; k_ctx 16; k_dot 17; k_id 18 t_subject; k_rp 19; k_rp 20].
(* this.related.R.traverse(x => x.permits.CR(ctx)) *)
Definition sp_traverse_permits (paren : bool) (r x x' cr : item) : list item :=
  [k_this; k_dot 1; k_id 2 t_related; k_dot 3; r; k_dot 4; k_id 5 t_traverse; k_lp 6] ++
  (if paren then [k_lp 7; x; k_rp 8] else [x]) ++
  [k_arrow 9; x'; k_dot 10; k_id 11 t_permits; k_dot 12; cr; k_lp 13; k_ctx 14; k_rp 15; k_rp 16].

Ltac spell :=
  split; [eexists; eexists; split; reflexivity|]; split; [reflexivity|];
  intros p rest Ht Hf; destruct p as [tk0 er fa ns0 cu ch0]; cbn in Ht, Hf; subst tk0 fa.

Lemma ok_includes nm : atom_ok (sp_includes nm) (CComputed (i_val nm)).
Proof. spell. eexists. split; [vm_compute; reflexivity|repeat split]. Qed.
Lemma ok_includes_br nm : atom_ok (sp_includes_br nm) (CComputed (i_val nm)).
Proof. spell. eexists. split; [vm_compute; reflexivity|repeat split]. Qed.
Lemma ok_permits nm : atom_ok (sp_permits nm) (CComputed (i_val nm)).
Proof. spell. eexists. split; [vm_compute; reflexivity|repeat split]. Qed.

Definition name_item (i : item) : Prop := i_typ i = IIdent \/ i_typ i = IString.
Definition arg_item (x : item) : Prop := i_typ x <> ParenL.     (* the parameter of the arrow function is not a parenthesis *)

(* stepping through p_match on an explicit state *)
Definition st (p : pst) (ts : list item) : pst :=
  {| toks := ts; errs := errs p; fatal := false; nss := nss p; cur := cur p; checks := checks p |}.
Lemma st_eq p ts : toks p = ts -> fatal p = false -> p = st p ts.
Proof. destruct p; cbn; intros; subst; reflexivity. Qed.
Lemma pm_nil p r : p_match [] (st p r) = (true, [], st p r). Proof. reflexivity. Qed.
Lemma pm_str p s ms t r : bytes_eqb (i_val t) s = true -> p_match (MStr s :: ms) (st p (t :: r)) = p_match ms (st p r).
Proof. intros H. cbn [p_match fatal st]. unfold p_next; cbn [toks st]. rewrite H. reflexivity. Qed.
Lemma pm_item p ms t r : p_match (MItem :: ms) (st p (t :: r)) = let '(ok, caps, p2) := p_match ms (st p r) in (ok, t :: caps, p2).
Proof. reflexivity. Qed.
Lemma pm_ident p ms t r : is_name t = true ->
  p_match (MIdent :: ms) (st p (t :: r)) = let '(ok, caps, p2) := p_match ms (st p r) in (ok, t :: caps, p2).
Proof. intros H. cbn [p_match fatal st]. unfold p_next; cbn [toks st]. rewrite H. reflexivity. Qed.
Lemma pm_opt_skip p f rs ms t r : bytes_eqb (i_val t) f = false ->
  p_match (MOpt (f :: rs) :: ms) (st p (t :: r)) = p_match ms (st p (t :: r)).
Proof. intros H. cbn [p_match fatal st]. unfold p_peek; cbn [toks st]. rewrite H. reflexivity. Qed.
Lemma next_st p t r : p_next (st p (t :: r)) = (t, st p r). Proof. reflexivity. Qed.
Lemma peek_st p t r : p_peek (st p (t :: r)) = t. Proof. reflexivity. Qed.
Lemma fatal_st p r : fatal (st p r) = false. Proof. reflexivity. Qed.
Lemma is_name_of i : name_item i -> is_name i = true.
Proof. unfold is_name. intros [-> | ->]; reflexivity. Qed.
Lemma ityp_neq a b : a <> b -> ityp_eqb a b = false.
Proof. intros H. destruct (ityp_eqb a b) eqn:E; [apply ityp_eqb_eq in E; contradiction|reflexivity]. Qed.

Ltac evalb :=
  match goal with
  | |- context [bytes_eqb (i_val ?t) ?s] =>
    let b := eval vm_compute in (bytes_eqb (i_val t) s) in
    lazymatch b with true => change (bytes_eqb (i_val t) s) with true | false => change (bytes_eqb (i_val t) s) with false end
  | |- context [ityp_eqb (i_typ ?t) ?s] =>
    let b := eval vm_compute in (ityp_eqb (i_typ t) s) in
    lazymatch b with true => change (ityp_eqb (i_typ t) s) with true | false => change (ityp_eqb (i_typ t) s) with false end
  end.
Ltac pm1 :=
  first [ rewrite pm_nil | rewrite pm_str by (first [reflexivity | assumption]) | rewrite pm_item
        | rewrite pm_ident by assumption | rewrite pm_opt_skip by reflexivity
        | rewrite next_st | rewrite peek_st | rewrite fatal_st | evalb
        | progress cbv beta iota zeta | progress cbn [negb andb cap1 cap2 fst snd strs map] ].

Lemma ok_traverse paren r x x' cr : i_val x' = i_val x -> arg_item x -> name_item cr ->
  atom_ok (sp_traverse paren r x x' cr) (CTuple (i_val r) (i_val cr)).
Proof.
  intros Hx Harg Hcr.
  assert (Hxe : bytes_eqb (i_val x') (i_val x) = true) by (apply bytes_eqb_eq; exact Hx).
  assert (Hn : is_name cr = true) by (apply is_name_of; exact Hcr).
  assert (Hnp : ityp_eqb (i_typ x) ParenL = false) by (apply ityp_neq; exact Harg).
  split; [destruct paren; eexists; eexists; split; reflexivity|]. split; [reflexivity|].
  intros p rest Ht Hf. rewrite (st_eq p _ Ht Hf). clear Ht Hf.
  destruct paren; cbn [sp_traverse app]; unfold parse_atom, match_property, parse_ttu, match_property; repeat pm1.
  - eexists. split; [reflexivity|repeat split].
  - rewrite Hnp. repeat pm1. eexists. split; [reflexivity|repeat split].
Qed.

Lemma ok_traverse_permits paren r x x' cr : i_val x' = i_val x -> arg_item x -> name_item cr ->
  atom_ok (sp_traverse_permits paren r x x' cr) (CTuple (i_val r) (i_val cr)).
Proof.
  intros Hx Harg Hcr.
  assert (Hxe : bytes_eqb (i_val x') (i_val x) = true) by (apply bytes_eqb_eq; exact Hx).
  assert (Hn : is_name cr = true) by (apply is_name_of; exact Hcr).
  assert (Hnp : ityp_eqb (i_typ x) ParenL = false) by (apply ityp_neq; exact Harg).
  split; [destruct paren; eexists; eexists; split; reflexivity|]. split; [reflexivity|].
  intros p rest Ht Hf. rewrite (st_eq p _ Ht Hf). clear Ht Hf.
  destruct paren; cbn [sp_traverse_permits app]; unfold parse_atom, match_property, parse_ttu, match_property; repeat pm1.
  - eexists. split; [reflexivity|repeat split].
  - rewrite Hnp. repeat pm1. eexists. split; [reflexivity|repeat split].
Qed.
End Spellings.

Lemma atom_spellings pos :
  (forall nm, atom_ok (sp_includes pos nm) (CComputed (i_val nm))) /\
  (forall nm, atom_ok (sp_includes_br pos nm) (CComputed (i_val nm))) /\
  (forall nm, atom_ok (sp_permits pos nm) (CComputed (i_val nm))) /\
  (forall paren r x x' cr, i_val x' = i_val x -> arg_item x -> name_item cr ->
     atom_ok (sp_traverse pos paren r x x' cr) (CTuple (i_val r) (i_val cr))) /\
  (forall paren r x x' cr, i_val x' = i_val x -> arg_item x -> name_item cr ->
     atom_ok (sp_traverse_permits pos paren r x x' cr) (CTuple (i_val r) (i_val cr))).
Proof.
  split; [|split; [|split; [|split]]]; intros;
    [apply ok_includes|apply ok_includes_br|apply ok_permits|apply ok_traverse; assumption|apply ok_traverse_permits; assumption].
Qed.

(* ---- the hypotheses are satisfiable: !A && (B || C), atoms in three different spellings, any positions, any names ---- *)
Example theorem_applies pos (na nb r x x' cr : item) (t_not t_and t_or lp rp ft : item) (p : pst) rest :
  i_typ t_not = ONot -> i_typ t_and = Lexer.OAnd -> i_typ t_or = Lexer.OOr -> i_typ lp = ParenL -> i_typ rp = ParenR -> i_typ ft = OComma ->
  i_val x' = i_val x -> arg_item x -> name_item cr ->
  let e := OJust (AAnd (AUn (UAtom (Some t_not) (sp_includes pos na) (CComputed (i_val na)))) t_and
                       (UParen None lp (OAlt (AUn (UAtom None (sp_permits pos nb) (CComputed (i_val nb)))) t_or
                                             (OJust (AUn (UAtom None (sp_traverse pos true r x x' cr) (CTuple (i_val r) (i_val cr)))))) rp)) in
  toks p = r_or e ++ ft :: rest -> fatal p = false ->
  exists rw p', parse_exprs (S (2 * length (toks p))) OComma nesting_limit None true p = (Some rw, p') /\ toks p' = rest /\ fatal p' = false /\ errs p' = errs p /\
    forall v, eval v (CRewrite (rw_op (simplify rw)) (rw_children (simplify rw))) =
              negb (v (i_val na) []) && (v (i_val nb) [] || v (i_val r) (i_val cr)).
Proof.
  intros H1 H2 H3 H4 H5 H6 Hx Ha Hc e Ht Hf.
  assert (Hw : wf_or e).
  { cbn [e wf_or wf_and wf_un not_ok]. repeat match goal with |- _ /\ _ => split end; auto; first [apply ok_includes | apply ok_permits | apply ok_traverse; assumption]. }
  assert (Hn : need_or e <= nesting_limit) by (vm_compute; lia).
  destruct (expression_means_typescript e ft p rest Hw Hn H6 Ht Hf) as (rw & p' & E & A1 & A2 & A3 & Hev).
  exists rw, p'. repeat split; auto.
Qed.
