(* ParseError.toSrcPos (internal/schema/parse_errors.go): byte offset -> (line, column), iterating over the RUNES
   of the input as Go's range-over-string does (invalid UTF-8 counts one byte per rune). *)
From Coq Require Import List Bool Arith NArith ZArith Lia.
From Coq Require Import Strings.Byte.
From Keto Require Import Base.Bytes Opl.Lexer.
Import ListNotations.

Definition bn (b : byte) : N := Byte.to_N b.
Definition cont (b : byte) (lo hi : N) : bool := (lo <=? bn b)%N && (bn b <=? hi)%N.
(* width of the first rune as utf8.DecodeRuneInString reports it *)
Definition rune_width (s : bytes) : nat :=
  match s with
  | [] => 0
  | b0 :: r =>
    let n := bn b0 in
    if (n <? 128)%N then 1
    else if (194 <=? n)%N && (n <=? 223)%N then
      match r with b1 :: _ => if cont b1 128 191 then 2 else 1 | _ => 1 end
    else if (224 <=? n)%N && (n <=? 239)%N then
      let lo := if (n =? 224)%N then 160%N else 128%N in
      let hi := if (n =? 237)%N then 159%N else 191%N in
      match r with b1 :: b2 :: _ => if cont b1 lo hi && cont b2 128 191 then 3 else 1 | _ => 1 end
    else if (240 <=? n)%N && (n <=? 244)%N then
      let lo := if (n =? 240)%N then 144%N else 128%N in
      let hi := if (n =? 244)%N then 143%N else 191%N in
      match r with b1 :: b2 :: b3 :: _ => if cont b1 lo hi && cont b2 128 191 && cont b3 128 191 then 4 else 1 | _ => 1 end
    else 1
  end.

(* for _, c := range input { col++; pos--; if pos <= 0 break; if c == '\n' { line++; col = 0 } } *)
Fixpoint src_pos (fuel : nat) (s : bytes) (pos : Z) (line col : nat) : nat * nat :=
  match fuel with
  | 0 => (line, col)
  | S f =>
    match s with
    | [] => (line, col)
    | b0 :: _ =>
      let col' := S col in
      let pos' := (pos - 1)%Z in
      if (pos' <=? 0)%Z then (line, col')
      else if beq b0 x0a then src_pos f (skipn 1 s) pos' (S line) 0
      else src_pos f (skipn (rune_width s) s) pos' line col'
    end
  end.
Definition to_src_pos (s : bytes) (pos : nat) : nat * nat := src_pos (S (length s)) s (Z.of_nat pos) 1 0.

Definition newlines (s : bytes) : nat := length (filter (fun b => beq b x0a) s).
