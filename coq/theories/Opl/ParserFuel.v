(* C12, termination of the OPL parser on the model: every loop of the parser is given fuel computed from the number of
   remaining tokens; this file proves that the fuel is never what stops a loop: with ANY larger amount of fuel every loop
   returns exactly the same result.  So each loop of the parser runs at most (remaining tokens + 1) times, for every token
   list, and the model's answer is the answer of the unbounded loops of parser.go.
   Method: every parsing primitive never lengthens the token list (the len_ lemmas), every iteration that goes round a loop again has
   consumed at least one token or has set the fatal flag (after which every loop returns at once). *)
From Coq Require Import List Bool Arith NArith ZArith Lia.
From Coq Require Import Strings.Byte.
From Keto Require Import Base.Bytes Base.ListX Engine.Ast Opl.Lexer Opl.Parser.
Import ListNotations.

Definition len (p : pst) : nat := length (toks p).

Lemma len_add_fatal i p : len (add_fatal i p) = len p. Proof. reflexivity. Qed.
Lemma len_add_err i p : len (add_err i p) = len p. Proof. reflexivity. Qed.
Lemma len_add_check t p : len (add_check t p) = len p. Proof. reflexivity. Qed.
Lemma len_set_cur n p : len (set_cur n p) = len p. Proof. reflexivity. Qed.
Lemma len_push_ns p : len (push_ns p) = len p. Proof. reflexivity. Qed.
Lemma len_add_relation r p : len (add_relation r p) = len p. Proof. reflexivity. Qed.
Global Hint Rewrite len_add_fatal len_add_err len_add_check len_set_cur len_push_ns len_add_relation : len.

(* p_next either finds nothing (and returns the broken item, state unchanged) or consumes exactly one token *)
Lemma next_cases p i p1 : p_next p = (i, p1) -> (i = broken_item /\ p1 = p /\ toks p = []) \/ (S (len p1) = len p /\ p_peek p = i).
Proof. unfold p_next, p_peek, len. destruct (toks p) as [|x r] eqn:E; intros H; inversion H; subst; [left; auto|right; cbn; auto]. Qed.
Lemma len_next p : len (snd (p_next p)) <= len p.
Proof. destruct (p_next p) as [i p1] eqn:E. apply next_cases in E as [(_ & -> & _)|[E _]]; cbn [snd]; lia. Qed.
Lemma ityp_eqb_eq a b : ityp_eqb a b = true -> a = b.
Proof. destruct a, b; cbn; congruence. Qed.
Lemma peek_real p : i_typ (p_peek p) <> IError -> S (len (snd (p_next p))) = len p.
Proof. unfold p_peek, p_next, len. destruct (toks p); cbn; [congruence|auto]. Qed.

Lemma len_match_strs ss : forall p, len (snd (match_strs ss p)) <= len p.
Proof. induction ss as [|s ss IH]; intros p; cbn [match_strs]; [cbn [snd]; lia|].
  pose proof (len_next p) as H. destruct (p_next p) as [i p1]. cbn [snd] in H.
  destruct (bytes_eqb (i_val i) s); [specialize (IH p1); lia|cbn [snd]; autorewrite with len; lia]. Qed.
Lemma len_match ts : forall p, len (snd (p_match ts p)) <= len p.
Proof.
  induction ts as [|t ts IH]; intros p; cbn [p_match].
  - destruct (fatal p); cbn [snd]; lia.
  - destruct (fatal p); [cbn [snd]; lia|].
    destruct t as [s| | |ss].
    + pose proof (len_next p) as H. destruct (p_next p) as [i p1]. cbn [snd] in H.
      destruct (bytes_eqb (i_val i) s); [specialize (IH p1); lia|cbn [snd]; autorewrite with len; lia].
    + pose proof (len_next p) as H. destruct (p_next p) as [i p1]. cbn [snd] in H.
      destruct (is_name i); [|cbn [snd]; autorewrite with len; lia].
      pose proof (IH p1) as H2. destruct (p_match ts p1) as [[ok caps] p2]. cbn [snd] in *. lia.
    + pose proof (len_next p) as H. destruct (p_next p) as [i p1]. cbn [snd] in H.
      pose proof (IH p1) as H2. destruct (p_match ts p1) as [[ok caps] p2]. cbn [snd] in *. lia.
    + destruct ss as [|f rest]; [apply IH|].
      destruct (bytes_eqb (i_val (p_peek p)) f); [|apply IH].
      pose proof (len_next p) as H. destruct (p_next p) as [i p1]. cbn [snd] in H.
      pose proof (len_match_strs rest p1) as H2. destruct (match_strs rest p1) as [ok p2]. cbn [snd] in H2.
      destruct ok; [specialize (IH p2); lia|cbn [snd]; lia].
Qed.
(* a successful match that starts with a non-empty literal has consumed a token *)
Lemma match_str_consumes s ts p caps p1 : s <> [] -> p_match (MStr s :: ts) p = (true, caps, p1) -> len p1 < len p.
Proof.
  intros Hs. cbn [p_match]. destruct (fatal p); [discriminate|].
  destruct (p_next p) as [i q] eqn:En. destruct (bytes_eqb (i_val i) s) eqn:Eb; [|discriminate].
  intros H. pose proof (len_match ts q) as Hl. rewrite H in Hl. cbn [snd] in Hl.
  apply next_cases in En as [(-> & _ & _)|[E _]]; [|lia].
  cbn in Eb. destruct s; [congruence|discriminate].
Qed.
Lemma len_match_property w p : len (snd (match_property w p)) <= len p.
Proof. unfold match_property. destruct (fatal p); [cbn [snd]; lia|].
  destruct (ityp_eqb _ BracketL); [|apply len_match].
  pose proof (len_match [MStr (c x5b); w; MStr (c x5d)] p) as H. destruct (p_match _ p) as [[ok caps] p1]. destruct ok; exact H. Qed.
Lemma len_match_subject_set p : len (snd (match_subject_set p)) <= len p.
Proof. unfold match_subject_set. pose proof (len_match [MStr (c x3c); MItem; MStr (c x2c); MItem; MStr (c x3e)] p) as H.
  destruct (p_match _ p) as [[ok caps] p1]. cbn [snd] in *. autorewrite with len. exact H. Qed.

(* one parsing primitive at a time; a fact [len X <= len p0] is carried along and updated *)
Ltac lprim :=
  match goal with
  | Hcar : len ?X <= len ?p0 |- context [p_match ?ts ?X] =>
    let H := fresh "Hm" in pose proof (len_match ts X) as H;
    let ok := fresh "ok" in let caps := fresh "caps" in let q' := fresh "q" in
    destruct (p_match ts X) as [[ok caps] q']; cbn [snd] in H;
    let Hn := fresh "Hcar" in assert (Hn : len q' <= len p0) by lia; clear Hcar H
  | Hcar : len ?X <= len ?p0 |- context [match_property ?w ?X] =>
    let H := fresh "Hm" in pose proof (len_match_property w X) as H;
    let ok := fresh "ok" in let caps := fresh "caps" in let q' := fresh "q" in
    destruct (match_property w X) as [[ok caps] q']; cbn [snd] in H;
    let Hn := fresh "Hcar" in assert (Hn : len q' <= len p0) by lia; clear Hcar H
  | Hcar : len ?X <= len ?p0 |- context [p_next ?X] =>
    let H := fresh "Hm" in pose proof (len_next X) as H;
    let i := fresh "it" in let q' := fresh "q" in
    destruct (p_next X) as [i q']; cbn [snd] in H;
    let Hn := fresh "Hcar" in assert (Hn : len q' <= len p0) by lia; clear Hcar H
  end.
Ltac lcar := match goal with Hc : len _ <= len _ |- _ => Hc end.
Ltac lleaf := cbn [snd]; autorewrite with len; let H := lcar in exact H.
Ltac dneg := match goal with |- context [negb ?b] => destruct b end; cbn [negb].

Lemma len_parse_computed name p : len (snd (parse_computed name p)) <= len p.
Proof. unfold parse_computed. assert (Hcar : len p <= len p) by lia. lprim.
  match goal with |- context [if ?b then _ else _] => destruct b end; lleaf. Qed.

Ltac tail_ttu_len :=
  cbv zeta;
  match goal with |- context [bytes_eqb ?v t_related] => destruct (bytes_eqb v t_related) end;
  [ lprim; dneg; [lprim; lleaf|lleaf]
  | match goal with |- context [bytes_eqb ?v t_permits] => destruct (bytes_eqb v t_permits) end;
    [ lprim; dneg; [lprim; lleaf|lleaf] | lleaf ] ].
Lemma len_parse_ttu relation p : len (snd (parse_ttu relation p)) <= len p.
Proof.
  unfold parse_ttu. assert (Hcar : len p <= len p) by lia.
  lprim. dneg; [|lleaf].
  match goal with |- context [if ?b then _ else _] => destruct b end.
  - lprim. match goal with |- context [if ?b then _ else _] => destruct b end.
    + dneg; [|lleaf]. lprim. tail_ttu_len.
    + lprim. dneg; [|lleaf]. lprim. tail_ttu_len.
  - lprim. dneg; [|lleaf]. lprim. tail_ttu_len.
Qed.
Lemma len_parse_atom p : len (snd (parse_atom p)) <= len p.
Proof.
  unfold parse_atom. assert (Hcar : len p <= len p) by lia.
  lprim. dneg; [|lleaf]. cbv zeta.
  lprim. dneg; [|lleaf].
  match goal with |- context [bytes_eqb ?v t_related] => destruct (bytes_eqb v t_related) end.
  - lprim. dneg; [|lleaf]. lprim.
    match goal with |- context [bytes_eqb ?v t_traverse] => destruct (bytes_eqb v t_traverse) end;
      [|match goal with |- context [bytes_eqb ?v t_includes] => destruct (bytes_eqb v t_includes) end].
    + let HC := lcar in eapply Nat.le_trans; [apply len_parse_ttu|exact HC].
    + let HC := lcar in eapply Nat.le_trans; [apply len_parse_computed|exact HC].
    + lleaf.
  - match goal with |- context [bytes_eqb ?v t_permits] => destruct (bytes_eqb v t_permits) end.
    + lprim. dneg; lleaf.
    + lleaf.
Qed.
(* an atom that was parsed successfully starts with the keyword this: at least one token is gone *)
Lemma atom_consumes p ch p1 : parse_atom p = (Some ch, p1) -> len p1 < len p.
Proof.
  intros H. pose proof (len_parse_atom p) as Hl. rewrite H in Hl. cbn [snd] in Hl.
  unfold parse_atom in H.
  destruct (p_match [MStr kw_this; MStr (c x2e); MItem] p) as [[ok caps] q] eqn:Em.
  destruct ok; cbn [negb] in H; [|discriminate].
  apply match_str_consumes in Em; [|discriminate].
  (* the rest of the atom never gives tokens back *)
  assert (Hrest : len p1 <= len q).
  { clear Hl Em. cbv zeta in H.
    pose proof (len_match_property MItem q) as H1. destruct (match_property MItem q) as [[okn nc] p2]. cbn [snd] in H1.
    destruct okn; cbn [negb] in H; [|discriminate].
    destruct (bytes_eqb (i_val (cap1 caps)) t_related).
    - pose proof (len_match [MStr (c x2e)] p2) as H2. destruct (p_match [MStr (c x2e)] p2) as [[okd cd] p3]. cbn [snd] in H2.
      destruct okd; cbn [negb] in H; [|discriminate].
      pose proof (len_next p3) as H3. destruct (p_next p3) as [i p4]. cbn [snd] in H3.
      destruct (bytes_eqb (i_val i) t_traverse).
      + pose proof (len_parse_ttu (cap1 nc) p4) as H4. rewrite H in H4. cbn [snd] in H4. lia.
      + destruct (bytes_eqb (i_val i) t_includes); [|discriminate].
        pose proof (len_parse_computed (cap1 nc) p4) as H4. rewrite H in H4. cbn [snd] in H4. lia.
    - destruct (bytes_eqb (i_val (cap1 caps)) t_permits); [|discriminate].
      pose proof (len_match (strs [c x28; kw_ctx; c x29]) p2) as H2. destruct (p_match (strs [c x28; kw_ctx; c x29]) p2) as [[okc cc] p3]. cbn [snd] in H2.
      destruct okc; cbn [negb] in H; [|discriminate]. inversion H; subst. autorewrite with len. lia. }
  lia.
Qed.

(* ---- parse_exprs ---- *)
Lemma len_parse_exprs fuel : forall final depth root expect p, len (snd (parse_exprs fuel final depth root expect p)) <= len p.
Proof.
  induction fuel as [|f IH]; intros final depth root expect p; cbn [parse_exprs]; [cbn [snd]; lia|].
  destruct depth as [|dm1]; [cbn [snd]; autorewrite with len; lia|].
  destruct (fatal p); [cbn [snd]; lia|].
  pose proof (len_next p) as Hn.
  destruct (ityp_eqb (i_typ (p_peek p)) ParenL).
  { destruct (p_next p) as [i0 p1]. cbn [snd] in Hn.
    pose proof (IH ParenR dm1 None true p1) as H1. destruct (parse_exprs f ParenR dm1 None true p1) as [[ch|] p2]; cbn [snd] in H1.
    - match goal with |- len (snd (parse_exprs _ ?a ?b ?c ?d ?pp)) <= _ => pose proof (IH a b c d pp) end. lia.
    - cbn [snd]. lia. }
  destruct (ityp_eqb (i_typ (p_peek p)) final).
  { destruct (p_next p) as [i0 p1]. cbn [snd] in *. lia. }
  destruct (ityp_eqb (i_typ (p_peek p)) BraceR); [cbn [snd]; lia|].
  destruct (ityp_eqb (i_typ (p_peek p)) OAnd || ityp_eqb (i_typ (p_peek p)) OOr).
  { destruct (p_next p) as [i0 p1]. cbn [snd] in Hn. destruct root as [r0|]; [|cbn [snd]; lia].
    destruct (ityp_eqb (i_typ (p_peek p)) OOr).
    - pose proof (IH final (S dm1) None true p1) as H1. destruct (parse_exprs f final (S dm1) None true p1) as [[rhs|] p2]; cbn [snd] in *.
      + lia.
      + destruct (fatal p2); autorewrite with len; lia.
    - match goal with |- len (snd (parse_exprs _ ?a ?b ?c ?d ?pp)) <= _ => pose proof (IH a b c d pp) end. lia. }
  destruct (ityp_eqb (i_typ (p_peek p)) ONot).
  { destruct (p_next p) as [i0 p1]. cbn [snd] in Hn.
    destruct dm1 as [|dm2]; [cbn [snd]; autorewrite with len; lia|].
    assert (Hin : len (snd (if ityp_eqb (i_typ (p_peek p1)) ParenL
       then let '(_, q) := p_next p1 in match parse_exprs f ParenR dm2 None true q with (None, q2) => (None, q2) | (Some r1, q2) => (Some (rw_child r1), q2) end
       else parse_atom p1)) <= len p1).
    { destruct (ityp_eqb (i_typ (p_peek p1)) ParenL); [|apply len_parse_atom].
      pose proof (len_next p1) as Hn1. destruct (p_next p1) as [i1 q]. cbn [snd] in Hn1.
      pose proof (IH ParenR dm2 None true q) as H1. destruct (parse_exprs f ParenR dm2 None true q) as [[r1|] q2]; cbn [snd] in *; lia. }
    match goal with |- len (snd (let '(ch, p2) := ?scrut in _)) <= _ => destruct scrut as [[x|] p2] end; cbn [snd] in Hin.
    - match goal with |- len (snd (parse_exprs _ ?a ?b ?c ?d ?pp)) <= _ => pose proof (IH a b c d pp) end. lia.
    - cbn [snd]. lia. }
  destruct (negb expect); [cbn [snd]; autorewrite with len; lia|].
  pose proof (len_parse_atom p) as Ha. destruct (parse_atom p) as [[ch|] p1]; cbn [snd] in Ha.
  - match goal with |- len (snd (parse_exprs _ ?a ?b ?c ?d ?pp)) <= _ => pose proof (IH a b c d pp) end. lia.
  - exact Ha.
Qed.

Theorem parse_exprs_fuel f1 : forall f2 final depth root expect p, len p < f1 -> len p < f2 ->
  parse_exprs f1 final depth root expect p = parse_exprs f2 final depth root expect p.
Proof.
  induction f1 as [|f IH]; intros f2 final depth root expect p H1 H2; [lia|].
  destruct f2 as [|g]; [lia|]. cbn [parse_exprs].
  destruct depth as [|dm1]; [reflexivity|].
  destruct (fatal p); [reflexivity|].
  destruct (ityp_eqb (i_typ (p_peek p)) ParenL) eqn:EL.
  { assert (Hc : S (len (snd (p_next p))) = len p) by (apply peek_real; apply ityp_eqb_eq in EL; rewrite EL; discriminate).
    destruct (p_next p) as [i0 p1]. cbn [snd] in Hc.
    rewrite (IH g ParenR dm1 None true p1) by lia.
    pose proof (len_parse_exprs g ParenR dm1 None true p1) as Hl.
    destruct (parse_exprs g ParenR dm1 None true p1) as [[ch|] p2]; cbn [snd] in Hl; [|reflexivity].
    apply IH; lia. }
  destruct (ityp_eqb (i_typ (p_peek p)) final); [reflexivity|].
  destruct (ityp_eqb (i_typ (p_peek p)) BraceR); [reflexivity|].
  destruct (ityp_eqb (i_typ (p_peek p)) OAnd || ityp_eqb (i_typ (p_peek p)) OOr) eqn:EO.
  { assert (Hc : S (len (snd (p_next p))) = len p).
    { apply peek_real. apply orb_true_iff in EO as [E|E]; apply ityp_eqb_eq in E; rewrite E; discriminate. }
    destruct (p_next p) as [i0 p1]. cbn [snd] in Hc. destruct root as [r0|]; [|reflexivity].
    destruct (ityp_eqb (i_typ (p_peek p)) OOr).
    - rewrite (IH g final (S dm1) None true p1) by lia. reflexivity.
    - apply IH; lia. }
  destruct (ityp_eqb (i_typ (p_peek p)) ONot) eqn:EN.
  { assert (Hc : S (len (snd (p_next p))) = len p) by (apply peek_real; apply ityp_eqb_eq in EN; rewrite EN; discriminate).
    destruct (p_next p) as [i0 p1]. cbn [snd] in Hc.
    destruct dm1 as [|dm2]; [reflexivity|].
    destruct (ityp_eqb (i_typ (p_peek p1)) ParenL) eqn:EL1.
    - assert (Hc1 : S (len (snd (p_next p1))) = len p1) by (apply peek_real; apply ityp_eqb_eq in EL1; rewrite EL1; discriminate).
      destruct (p_next p1) as [i1 q]. cbn [snd] in Hc1.
      rewrite (IH g ParenR dm2 None true q) by lia.
      pose proof (len_parse_exprs g ParenR dm2 None true q) as Hl.
      destruct (parse_exprs g ParenR dm2 None true q) as [[r1|] q2]; cbn [snd] in Hl; [|reflexivity].
      apply IH; lia.
    - pose proof (len_parse_atom p1) as Ha. destruct (parse_atom p1) as [[x|] p2]; cbn [snd] in Ha; [|reflexivity].
      apply IH; lia. }
  destruct (negb expect); [reflexivity|].
  destruct (parse_atom p) as [[ch|] p1] eqn:Ea; [|reflexivity].
  apply atom_consumes in Ea. apply IH; lia.
Qed.

(* ---- type unions ---- *)
Lemma union_fatal f endt acc p : fatal p = true -> parse_type_union f endt acc p = (acc, p).
Proof. intros H. destruct f; cbn [parse_type_union]; [reflexivity|]. rewrite H. reflexivity. Qed.

Lemma len_parse_type_union fuel : forall endt acc p, len (snd (parse_type_union fuel endt acc p)) <= len p.
Proof.
  induction fuel as [|f IH]; intros endt acc p; cbn [parse_type_union]; [cbn [snd]; lia|].
  destruct (fatal p); [cbn [snd]; lia|].
  pose proof (len_match [MItem] p) as H1. destruct (p_match [MItem] p) as [[ok caps] p1]. cbn [snd] in H1. cbv zeta.
  match goal with |- len (snd (let '(acc1, p2) := ?scrut in _)) <= _ => assert (H2 : len (snd scrut) <= len p1); [|destruct scrut as [acc1 p2]; cbn [snd] in H2] end.
  { destruct (bytes_eqb _ t_SubjectSet).
    - pose proof (len_match_subject_set p1) as Hs. destruct (match_subject_set p1) as [t q]. cbn [snd] in *. exact Hs.
    - cbn [snd]. autorewrite with len. lia. }
  pose proof (len_next p2) as H3. destruct (p_next p2) as [i p3]. cbn [snd] in H3.
  destruct (ityp_eqb (i_typ i) endt); [cbn [snd]; lia|].
  destruct (ityp_eqb (i_typ i) TypeUnion).
  - specialize (IH endt acc1 p3). lia.
  - specialize (IH endt acc1 (add_fatal i p3)). autorewrite with len in IH. lia.
Qed.

Theorem parse_type_union_fuel f1 : forall f2 endt acc p, len p < f1 -> len p < f2 ->
  parse_type_union f1 endt acc p = parse_type_union f2 endt acc p.
Proof.
  induction f1 as [|f IH]; intros f2 endt acc p H1 H2; [lia|].
  destruct f2 as [|g]; [lia|]. cbn [parse_type_union].
  destruct (fatal p); [reflexivity|].
  pose proof (len_match [MItem] p) as L1. destruct (p_match [MItem] p) as [[ok caps] p1]. cbn [snd] in L1. cbv zeta.
  match goal with |- (let '(acc1, p2) := ?scrut in _) = _ => assert (L2 : len (snd scrut) <= len p1); [|destruct scrut as [acc1 p2]; cbn [snd] in L2] end.
  { destruct (bytes_eqb _ t_SubjectSet).
    - pose proof (len_match_subject_set p1) as Hs. destruct (match_subject_set p1) as [t q]. cbn [snd] in *. exact Hs.
    - cbn [snd]. autorewrite with len. lia. }
  destruct (p_next p2) as [i p3] eqn:En.
  destruct (ityp_eqb (i_typ i) endt); [reflexivity|].
  destruct (ityp_eqb (i_typ i) TypeUnion) eqn:ET.
  - apply next_cases in En as [(-> & _ & _)|[E _]]; [cbn in ET; discriminate|]. apply IH; lia.
  - rewrite !union_fatal by reflexivity. reflexivity.
Qed.

(* ---- related ---- *)
Lemma related_loop_fatal f p : fatal p = true -> parse_related_loop f p = p.
Proof. intros H. destruct f; cbn [parse_related_loop]; [reflexivity|]. rewrite H. reflexivity. Qed.

(* the state after the type of one relation declaration *)
Definition related_types (j : item) (p3 : pst) : list rtype * pst :=
  if bytes_eqb (i_val j) t_Array then
    let '(_, _, q) := p_match [MStr (c x3c)] p3 in
    let '(ts, q0) := parse_type_union (S (length (toks q))) AngledR [] q in
    let '(_, _, q1) := p_match [MOpt [c x2c]] q0 in (ts, q1)
  else if bytes_eqb (i_val j) t_SubjectSet then
    let '(t, q) := match_subject_set p3 in
    let '(_, _, q1) := p_match arr_suffix q in ([t], q1)
  else if ityp_eqb (i_typ j) ParenL then
    let '(ts, q) := parse_type_union (S (length (toks p3))) ParenR [] p3 in
    let '(_, _, q1) := p_match arr_suffix q in (ts, q1)
  else
    let q := add_check (TNsExists j) p3 in
    let '(_, _, q1) := p_match arr_suffix q in ([{| ty_ns := i_val j; ty_rel := [] |}], q1).
Lemma len_related_types j p3 : len (snd (related_types j p3)) <= len p3.
Proof.
  unfold related_types.
  destruct (bytes_eqb (i_val j) t_Array).
  { pose proof (len_match [MStr (c x3c)] p3) as H. destruct (p_match _ p3) as [[ok caps] q]. cbn [snd] in H.
    pose proof (len_parse_type_union (S (length (toks q))) AngledR [] q) as H1. destruct (parse_type_union _ AngledR [] q) as [ts q0]. cbn [snd] in H1.
    pose proof (len_match [MOpt [c x2c]] q0) as H2. destruct (p_match [MOpt [c x2c]] q0) as [[ok2 caps2] q1]. cbn [snd] in *. lia. }
  destruct (bytes_eqb (i_val j) t_SubjectSet).
  { pose proof (len_match_subject_set p3) as H. destruct (match_subject_set p3) as [t q]. cbn [snd] in H.
    pose proof (len_match arr_suffix q) as H2. destruct (p_match arr_suffix q) as [[ok caps] q1]. cbn [snd] in *. lia. }
  destruct (ityp_eqb (i_typ j) ParenL).
  { pose proof (len_parse_type_union (S (length (toks p3))) ParenR [] p3) as H. destruct (parse_type_union _ ParenR [] p3) as [ts q]. cbn [snd] in H.
    pose proof (len_match arr_suffix q) as H2. destruct (p_match arr_suffix q) as [[ok caps] q1]. cbn [snd] in *. lia. }
  cbv zeta. pose proof (len_match arr_suffix (add_check (TNsExists j) p3)) as H2.
  destruct (p_match arr_suffix (add_check (TNsExists j) p3)) as [[ok caps] q1]. cbn [snd] in *. autorewrite with len in H2. lia.
Qed.

Lemma related_loop_unfold f p :
  parse_related_loop (S f) p =
  if fatal p then p else
  let '(i, p1) := p_next p in
  match i_typ i with
  | Semicolon => parse_related_loop f p1
  | BraceR => p1
  | IIdent | IString =>
    let '(_, _, p2) := p_match [MStr (c x3a)] p1 in
    let '(j, p3) := p_next p2 in
    let '(types, p4) := related_types j p3 in
    parse_related_loop f (add_relation {| rel_name := i_val i; rel_types := types; rel_rewrite := None |} p4)
  | _ => add_fatal i p1
  end.
Proof. reflexivity. Qed.

Lemma len_parse_related_loop fuel : forall p, len (parse_related_loop fuel p) <= len p.
Proof.
  induction fuel as [|f IH]; intros p; [cbn [parse_related_loop]; lia|]. rewrite related_loop_unfold.
  destruct (fatal p); [lia|].
  pose proof (len_next p) as Hn. destruct (p_next p) as [i p1]. cbn [snd] in Hn.
  destruct (i_typ i); autorewrite with len; try lia; try (specialize (IH p1); lia).
  all: pose proof (len_match [MStr (c x3a)] p1) as Hm; destruct (p_match [MStr (c x3a)] p1) as [[ok caps] p2]; cbn [snd] in Hm.
  all: pose proof (len_next p2) as Hn2; destruct (p_next p2) as [j p3]; cbn [snd] in Hn2.
  all: pose proof (len_related_types j p3) as Ht; destruct (related_types j p3) as [types p4]; cbn [snd] in Ht.
  all: match goal with |- len (parse_related_loop _ ?X) <= _ => specialize (IH X); autorewrite with len in IH; lia end.
Qed.

Theorem parse_related_loop_fuel f1 : forall f2 p, len p < f1 -> len p < f2 -> parse_related_loop f1 p = parse_related_loop f2 p.
Proof.
  induction f1 as [|f IH]; intros f2 p H1 H2; [lia|].
  destruct f2 as [|g]; [lia|]. rewrite !related_loop_unfold.
  destruct (fatal p); [reflexivity|].
  destruct (p_next p) as [i p1] eqn:En.
  apply next_cases in En as [(-> & _ & _)|[E _]]; [reflexivity|].
  destruct (i_typ i); try reflexivity; try (apply IH; lia).
  all: pose proof (len_match [MStr (c x3a)] p1) as Hm; destruct (p_match [MStr (c x3a)] p1) as [[ok caps] p2]; cbn [snd] in Hm.
  all: pose proof (len_next p2) as Hn2; destruct (p_next p2) as [j p3]; cbn [snd] in Hn2.
  all: pose proof (len_related_types j p3) as Ht; destruct (related_types j p3) as [types p4]; cbn [snd] in Ht.
  all: apply IH; autorewrite with len; lia.
Qed.

Lemma len_parse_related p : len (parse_related p) <= len p.
Proof. unfold parse_related. pose proof (len_match [MStr (c x3a); MStr (c x7b)] p) as H. destruct (p_match _ p) as [[ok caps] p1]. cbn [snd] in H.
  pose proof (len_parse_related_loop (S (length (toks p1))) p1). lia. Qed.

(* ---- permits ---- *)
Lemma permits_loop_fatal f p : fatal p = true -> parse_permits_loop f p = p.
Proof. intros H. destruct f; cbn [parse_permits_loop]; [reflexivity|]. rewrite H. reflexivity. Qed.

Lemma len_parse_permits_loop fuel : forall p, len (parse_permits_loop fuel p) <= len p.
Proof.
  induction fuel as [|f IH]; intros p; cbn [parse_permits_loop]; [lia|].
  destruct (fatal p); [lia|].
  pose proof (len_next p) as Hn. destruct (p_next p) as [i p1]. cbn [snd] in Hn.
  destruct (i_typ i); autorewrite with len; try lia.
  all: pose proof (len_match permit_header p1) as Hm; destruct (p_match permit_header p1) as [[ok caps] p2]; cbn [snd] in Hm.
  all: pose proof (len_parse_exprs (S (2 * length (toks p2))) OComma nesting_limit None true p2) as Hx.
  all: destruct (parse_exprs (S (2 * length (toks p2))) OComma nesting_limit None true p2) as [[r|] p3]; cbn [snd] in Hx; try lia.
  all: match goal with |- len (parse_permits_loop _ ?X) <= _ => specialize (IH X); autorewrite with len in IH; lia end.
Qed.

Theorem parse_permits_loop_fuel f1 : forall f2 p, len p < f1 -> len p < f2 -> parse_permits_loop f1 p = parse_permits_loop f2 p.
Proof.
  induction f1 as [|f IH]; intros f2 p H1 H2; [lia|].
  destruct f2 as [|g]; [lia|]. cbn [parse_permits_loop].
  destruct (fatal p); [reflexivity|].
  destruct (p_next p) as [i p1] eqn:En.
  apply next_cases in En as [(-> & _ & _)|[E _]]; [reflexivity|].
  destruct (i_typ i); try reflexivity.
  all: pose proof (len_match permit_header p1) as Hm; destruct (p_match permit_header p1) as [[ok caps] p2]; cbn [snd] in Hm.
  all: pose proof (len_parse_exprs (S (2 * length (toks p2))) OComma nesting_limit None true p2) as Hx.
  all: destruct (parse_exprs (S (2 * length (toks p2))) OComma nesting_limit None true p2) as [[r|] p3]; cbn [snd] in Hx; try reflexivity.
  all: apply IH; autorewrite with len; lia.
Qed.

Lemma len_parse_permits p : len (parse_permits p) <= len p.
Proof. unfold parse_permits. pose proof (len_match [MStr (c x3d); MStr (c x7b)] p) as H. destruct (p_match _ p) as [[ok caps] p1]. cbn [snd] in H.
  pose proof (len_parse_permits_loop (S (length (toks p1))) p1). lia. Qed.

(* ---- class, top ---- *)
Lemma len_parse_class_loop fuel : forall p, len (parse_class_loop fuel p) <= len p.
Proof.
  induction fuel as [|f IH]; intros p; cbn [parse_class_loop]; [lia|].
  destruct (fatal p); [lia|].
  pose proof (len_next p) as Hn. destruct (p_next p) as [i p1]. cbn [snd] in Hn.
  destruct (ityp_eqb (i_typ i) BraceR); [autorewrite with len; lia|].
  destruct (bytes_eqb (i_val i) t_related); [pose proof (len_parse_related p1); specialize (IH (parse_related p1)); lia|].
  destruct (bytes_eqb (i_val i) t_permits); [pose proof (len_parse_permits p1); specialize (IH (parse_permits p1)); lia|].
  destruct (ityp_eqb (i_typ i) Semicolon); [specialize (IH p1); lia|].
  autorewrite with len; lia.
Qed.

Theorem parse_class_loop_fuel f1 : forall f2 p, len p < f1 -> len p < f2 -> parse_class_loop f1 p = parse_class_loop f2 p.
Proof.
  induction f1 as [|f IH]; intros f2 p H1 H2; [lia|].
  destruct f2 as [|g]; [lia|]. cbn [parse_class_loop].
  destruct (fatal p); [reflexivity|].
  destruct (p_next p) as [i p1] eqn:En.
  apply next_cases in En as [(-> & _ & _)|[E _]]; [reflexivity|].
  destruct (ityp_eqb (i_typ i) BraceR); [reflexivity|].
  destruct (bytes_eqb (i_val i) t_related); [pose proof (len_parse_related p1); apply IH; lia|].
  destruct (bytes_eqb (i_val i) t_permits); [pose proof (len_parse_permits p1); apply IH; lia|].
  destruct (ityp_eqb (i_typ i) Semicolon); [apply IH; lia|reflexivity].
Qed.

Lemma len_parse_class p : len (parse_class p) <= len p.
Proof. unfold parse_class. pose proof (len_match [MIdent; MStr t_implements; MStr t_Namespace; MStr (c x7b)] p) as H.
  destruct (p_match _ p) as [[ok caps] p1]. cbn [snd] in H.
  match goal with |- len (parse_class_loop ?f ?X) <= _ => pose proof (len_parse_class_loop f X) as H2; autorewrite with len in H2 end. lia. Qed.

Theorem parse_top_fuel f1 : forall f2 p, len p < f1 -> len p < f2 -> parse_top f1 p = parse_top f2 p.
Proof.
  induction f1 as [|f IH]; intros f2 p H1 H2; [lia|].
  destruct f2 as [|g]; [lia|]. cbn [parse_top].
  destruct (fatal p); [reflexivity|].
  destruct (p_next p) as [i p1] eqn:En.
  apply next_cases in En as [(-> & _ & _)|[E _]]; [reflexivity|].
  destruct (i_typ i); try reflexivity; try (apply IH; lia).
  pose proof (len_parse_class p1). apply IH; lia.
Qed.

(* ---- simplify: the fuel children_size+1 is enough as well ---- *)
Lemma child_size_pos ch : 0 < child_size ch. Proof. destruct ch; cbn; lia. Qed.
Lemma children_size_eq cs : (fix sum (l : list child) := match l with [] => 0 | x :: r => child_size x + sum r end) cs = children_size cs.
Proof. induction cs as [|x r IH]; cbn; [reflexivity|]. rewrite IH. reflexivity. Qed.

Theorem simplify_children_fuel f1 : forall f2 op cs, children_size cs < f1 -> children_size cs < f2 ->
  simplify_children f1 op cs = simplify_children f2 op cs.
Proof.
  induction f1 as [|f IH]; intros f2 op cs H1 H2; [lia|].
  destruct f2 as [|g]; [lia|]. cbn [simplify_children].
  induction cs as [|ch r IHr]; [reflexivity|]. cbn [flat_map].
  cbn [children_size fold_right] in H1, H2. fold (children_size r) in H1, H2.
  pose proof (child_size_pos ch) as Hp.
  rewrite IHr by lia. f_equal.
  destruct ch as [x|x y|o cs'|x]; try reflexivity.
  destruct (match op with OpOr => match o with OpOr => true | OpAnd => false end | OpAnd => match o with OpOr => false | OpAnd => true end end); [|reflexivity].
  cbn [child_size] in H1, H2. rewrite children_size_eq in H1, H2. apply IH; lia.
Qed.

(* ---- the statements used by Properties/C12 ---- *)
Definition start (ts : list item) : pst := {| toks := ts; errs := []; fatal := false; nss := []; cur := empty_ns; checks := [] |}.

Lemma parse_tokens_from_start ts :
  parse_tokens ts = (let p := parse_top (S (length ts)) (start ts) in
                     match errs p with [] => (nss p, flat_map (run_check (nss p)) (checks p)) | es => (nss p, es) end).
Proof. reflexivity. Qed.

(* the whole parser: any amount of extra fuel on the top-level loop changes nothing *)
Theorem parser_fuel_is_never_binding ts extra :
  parse_top (S (length ts) + extra) (start ts) = parse_top (S (length ts)) (start ts).
Proof. apply parse_top_fuel; cbn; lia. Qed.

(* and the same for each inner loop, at the fuel the parser actually passes *)
Theorem inner_fuel_is_never_binding extra :
  (forall p, parse_class_loop (S (len p) + extra) p = parse_class_loop (S (len p)) p) /\
  (forall p, parse_related_loop (S (len p) + extra) p = parse_related_loop (S (len p)) p) /\
  (forall p, parse_permits_loop (S (len p) + extra) p = parse_permits_loop (S (len p)) p) /\
  (forall p endt acc, parse_type_union (S (len p) + extra) endt acc p = parse_type_union (S (len p)) endt acc p) /\
  (forall p final depth root expect,
     parse_exprs (S (2 * len p) + extra) final depth root expect p = parse_exprs (S (2 * len p)) final depth root expect p) /\
  (forall op cs, simplify_children (S (children_size cs) + extra) op cs = simplify_children (S (children_size cs)) op cs).
Proof.
  repeat split; intros.
  - apply parse_class_loop_fuel; lia.
  - apply parse_related_loop_fuel; lia.
  - apply parse_permits_loop_fuel; lia.
  - apply parse_type_union_fuel; lia.
  - apply parse_exprs_fuel; lia.
  - apply simplify_children_fuel; lia.
Qed.

(* the number of tokens never grows: the parser only moves forward *)
Theorem parser_only_moves_forward ts f : len (parse_top f (start ts)) <= length ts.
Proof.
  assert (H : forall f p, len (parse_top f p) <= len p).
  { clear. induction f as [|f IH]; intros p; cbn [parse_top]; [lia|].
    destruct (fatal p); [lia|].
    pose proof (len_next p) as Hn. destruct (p_next p) as [i p1]. cbn [snd] in Hn.
    destruct (i_typ i); autorewrite with len; try lia; try (specialize (IH p1); lia).
    pose proof (len_parse_class p1). specialize (IH (parse_class p1)). lia. }
  apply (H f (start ts)).
Qed.
