(* Model of internal/schema/lexer.go on byte strings. Classification only involves ASCII, and a byte of a
   multi-byte UTF-8 sequence (valid or not) is never ASCII, so scanning by bytes finds the same delimiters at the
   same byte offsets as scanning by runes. *)
From Coq Require Import List Bool Arith NArith Lia.
From Coq Require Import Strings.Byte.
From Keto Require Import Base.Bytes.
Import ListNotations.

Inductive ityp :=
| IError | IEOF | IIdent | IComment | IString
| KClass | KImplements | KThis | KCtx
| OAnd | OOr | ONot | OAssign | OArrow | ODot | OColon | OComma
| Semicolon | TypeUnion
| ParenL | ParenR | BraceL | BraceR | BracketL | BracketR | AngledL | AngledR.

Record item := { i_typ : ityp; i_val : bytes; i_start : nat; i_end : nat }.

Definition ityp_eqb (a b : ityp) : bool :=
  match a, b with
  | IError, IError | IEOF, IEOF | IIdent, IIdent | IComment, IComment | IString, IString
  | KClass, KClass | KImplements, KImplements | KThis, KThis | KCtx, KCtx
  | OAnd, OAnd | OOr, OOr | ONot, ONot | OAssign, OAssign | OArrow, OArrow | ODot, ODot | OColon, OColon | OComma, OComma
  | Semicolon, Semicolon | TypeUnion, TypeUnion
  | ParenL, ParenL | ParenR, ParenR | BraceL, BraceL | BraceR, BraceR | BracketL, BracketL | BracketR, BracketR
  | AngledL, AngledL | AngledR, AngledR => true
  | _, _ => false
  end.

Definition byte_n (b : byte) : N := Byte.to_N b.
Definition in_range (b : byte) (lo hi : N) : bool := (lo <=? byte_n b)%N && (byte_n b <=? hi)%N.
Definition is_space (b : byte) : bool := in_range b 9 13 || beq b x20.                 (* tab newline vtab formfeed cr space *)
Definition is_digit (b : byte) : bool := in_range b 48 57.
Definition is_letter (b : byte) : bool := in_range b 97 122 || in_range b 65 90 || beq b x5f.

Definition one_rune (b : byte) : option ityp :=
  if beq b x3a then Some OColon else if beq b x2e then Some ODot else if beq b x28 then Some ParenL else if beq b x29 then Some ParenR
  else if beq b x5b then Some BracketL else if beq b x5d then Some BracketR else if beq b x7b then Some BraceL else if beq b x7d then Some BraceR
  else if beq b x3c then Some AngledL else if beq b x3e then Some AngledR else if beq b x3d then Some OAssign else if beq b x2c then Some OComma
  else if beq b x3b then Some Semicolon else if beq b x7c then Some TypeUnion else if beq b x21 then Some ONot else None.

Definition kw_class : bytes := [x63;x6c;x61;x73;x73].
Definition kw_implements : bytes := [x69;x6d;x70;x6c;x65;x6d;x65;x6e;x74;x73].
Definition kw_this : bytes := [x74;x68;x69;x73].
Definition kw_ctx : bytes := [x63;x74;x78].
Definition keyword (v : bytes) : ityp :=
  if bytes_eqb v kw_class then KClass else if bytes_eqb v kw_implements then KImplements
  else if bytes_eqb v kw_this then KThis else if bytes_eqb v kw_ctx then KCtx else IIdent.

(* acceptRun *)
Fixpoint span (p : byte -> bool) (s : bytes) : bytes * bytes :=
  match s with
  | c :: r => if p c then let '(a, b) := span p r in (c :: a, b) else ([], s)
  | [] => ([], [])
  end.
(* up to (not including) the first byte satisfying p; None if there is none *)
Fixpoint until (p : byte -> bool) (s : bytes) : option (bytes * bytes) :=
  match s with
  | [] => None
  | c :: r => if p c then Some ([], s) else match until p r with Some (a, b) => Some (c :: a, b) | None => None end
  end.
(* block comment body: up to and including the first star-slash; None if unclosed *)
Fixpoint until_close (s : bytes) : option (bytes * bytes) :=
  match s with
  | [] => None
  | c :: r =>
    if beq c x2a && match r with c2 :: _ => beq c2 x2f | [] => false end then Some ([x2a; x2f], tl r)
    else match until_close r with Some (a, b) => Some (c :: a, b) | None => None end
  end.

Definition starts2 (a b : byte) (s : bytes) : bool :=
  match s with c :: c2 :: _ => beq c a && beq c2 b | _ => false end.

(* one call of the state machine from lexCode until an item is emitted.
   Returns the item, the rest of the input, and whether the lexer stops (EOF or error). *)
Definition lex_item (s : bytes) (pos : nat) : item * bytes * bool :=
  let '(sp, s1) := span is_space s in
  let start := pos + length sp in
  let mk t v rest stop := ({| i_typ := t; i_val := v; i_start := start; i_end := start + length v |}, rest, stop) in
  match s1 with
  | [] => mk IEOF [] [] true
  | c :: r =>
    if starts2 x3d x3e s1 then mk OArrow [x3d; x3e] (tl r) false                 (* => *)
    else if starts2 x7c x7c s1 then mk OOr [x7c; x7c] (tl r) false               (* || *)
    else if starts2 x26 x26 s1 then mk OAnd [x26; x26] (tl r) false              (* && *)
    else if starts2 x2f x2f s1 then                                              (* line comment, up to newline or end *)
      let '(body, rest) := span (fun b => negb (beq b x0a)) (tl r) in
      mk IComment (x2f :: x2f :: body) rest false
    else if starts2 x2f x2a s1 then                                              (* block comment *)
      match until_close (tl r) with
      | Some (body, rest) => mk IComment (x2f :: x2a :: body) rest false
      | None => ({| i_typ := IError; i_val := []; i_start := start; i_end := start + length s1 |}, [], true)
      end
    else
      match one_rune c with
      | Some t => mk t [c] r false
      | None =>
        if beq c x27 || beq c x22 then                                           (* single or double quote: string literal *)
          match until (beq c) r with
          | Some (body, rest) =>
            ({| i_typ := IString; i_val := body; i_start := start + 1; i_end := start + 1 + length body |}, tl rest, false)
          | None => ({| i_typ := IError; i_val := []; i_start := start + 1; i_end := start + length s1 |}, [], true)
          end
        else if is_letter c then
          let '(idr, rest) := span (fun b => is_letter b || is_digit b) r in
          mk (keyword (c :: idr)) (c :: idr) rest false
        else ({| i_typ := IError; i_val := []; i_start := start; i_end := start |}, [], true)   (* unexpected token *)
      end
  end.

(* all items, comments included; the list ends with the EOF or the error item *)
Fixpoint lex (fuel : nat) (s : bytes) (pos : nat) : list item :=
  match fuel with
  | 0 => []
  | S f =>
    let '(it, rest, stop) := lex_item s pos in
    if stop then [it] else it :: lex f rest (pos + (length s - length rest))
  end.
Definition lex_all (s : bytes) : list item := lex (S (length s)) s 0.
(* nextNonCommentItem *)
Definition tokens (s : bytes) : list item := filter (fun i => negb (ityp_eqb (i_typ i) IComment)) (lex_all s).
