(* Model of the namespace file watchers: internal/driver/config/namespace_watcher.go (one namespace per JSON/YAML/TOML
   file) and opl_config_namespace_watcher.go after fix D14 (the namespaces of one OPL document per file).
   An event carries the outcome of parsing the new content: Some namespaces = valid, None = does not parse/type-check. *)
From Coq Require Import List Bool Arith Lia.
From Keto Require Import Base.Bytes.
Import ListNotations.

Definition version := option (list bytes).                 (* names of the namespaces of a valid version *)
(* WTouch: the MAIN configuration file changed in a way that does not concern the namespaces (Config.watcher ->
   ShouldReload = false after fix D21 for OPL; the legacy watcher compares its target) *)
Inductive wevent := WChange (f : bytes) (v : version) | WRemove (f : bytes) | WTouch.

(* per watched file: the last valid version, if any (legacy: an entry may exist without a valid version) *)
Definition wstate := list (bytes * version).

Fixpoint wget (s : wstate) (f : bytes) : option version :=
  match s with [] => None | (g, v) :: r => if bytes_eqb g f then Some v else wget r f end.
Fixpoint wset (s : wstate) (f : bytes) (v : version) : wstate :=
  match s with
  | [] => [(f, v)]
  | (g, w) :: r => if bytes_eqb g f then (g, v) :: r else (g, w) :: wset r f v
  end.
Fixpoint wdel (s : wstate) (f : bytes) : wstate :=
  match s with [] => [] | (g, w) :: r => if bytes_eqb g f then wdel r f else (g, w) :: wdel r f end.

(* NamespaceWatcher.handleChange / handleRemove *)
Definition legacy_step (s : wstate) (e : wevent) : wstate :=
  match e with
  | WRemove f => wdel s f
  | WChange f (Some ns) => wset s f (Some ns)
  | WChange f None =>
    match wget s f with
    | Some _ => s                         (* parse failed: the previous working version stays *)
    | None => wset s f None               (* remembered without a namespace *)
    end
  | WTouch => s
  end.
(* oplConfigWatcher.loadFile / handleRemove *)
Definition opl_step (s : wstate) (e : wevent) : wstate :=
  match e with
  | WRemove f => wdel s f
  | WChange f (Some ns) => wset s f (Some ns)
  | WChange f None => s
  | WTouch => s
  end.

(* what the API shows: all namespaces of the last valid version of every file *)
Definition visible (s : wstate) : list bytes := flat_map (fun p => match snd p with Some ns => ns | None => [] end) s.
Definition visible_of (s : wstate) (f : bytes) : list bytes :=
  match wget s f with Some (Some ns) => ns | _ => [] end.

(* ---- specification: per file, the last valid version since the file was last removed ---- *)
Fixpoint last_good (evs : list wevent) (f : bytes) (acc : version) : version :=
  match evs with
  | [] => acc
  | WChange g (Some ns) :: r => last_good r f (if bytes_eqb g f then Some ns else acc)
  | WChange g None :: r => last_good r f acc
  | WRemove g :: r => last_good r f (if bytes_eqb g f then None else acc)
  | WTouch :: r => last_good r f acc
  end.
