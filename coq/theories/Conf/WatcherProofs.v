From Coq Require Import List Bool Arith Lia.
From Keto Require Import Base.Bytes Conf.Watcher.
Import ListNotations.

Lemma wget_wset_same s f v : wget (wset s f v) f = Some v.
Proof. induction s as [|[g w] s IH]; cbn; [now rewrite bytes_eqb_refl|]. destruct (bytes_eqb g f) eqn:E; cbn; rewrite E; auto. Qed.
Lemma wget_wset_other s f g v : bytes_eqb f g = false -> wget (wset s f v) g = wget s g.
Proof.
  intros Hfg. induction s as [|[h w] s IH]; cbn.
  - now rewrite Hfg.
  - destruct (bytes_eqb h f) eqn:E; cbn.
    + apply bytes_eqb_eq in E. subst h. now rewrite Hfg.
    + destruct (bytes_eqb h g); auto.
Qed.
Lemma wget_wdel_same s f : wget (wdel s f) f = None.
Proof. induction s as [|[g w] s IH]; cbn; auto. destruct (bytes_eqb g f) eqn:E; cbn; [auto|now rewrite E]. Qed.
Lemma wget_wdel_other s f g : bytes_eqb f g = false -> wget (wdel s f) g = wget s g.
Proof.
  intros Hfg. induction s as [|[h w] s IH]; cbn; auto.
  destruct (bytes_eqb h f) eqn:E; cbn.
  - apply bytes_eqb_eq in E. subst h. now rewrite Hfg.
  - destruct (bytes_eqb h g); auto.
Qed.

Definition good (o : option version) : version := match o with Some v => v | None => None end.

(* one step of either watcher changes only the file of the event, and in the specified way *)
Lemma step_spec (step : wstate -> wevent -> wstate) :
  (step = legacy_step \/ step = opl_step) ->
  forall s e f, good (wget (step s e) f) =
    match e with
    | WChange g (Some ns) => if bytes_eqb g f then Some ns else good (wget s f)
    | WChange g None => good (wget s f)
    | WRemove g => if bytes_eqb g f then None else good (wget s f)
    | WTouch => good (wget s f)
    end.
Proof.
  intros Hs s e f. destruct e as [g [ns|]|g|].
  - assert (step s (WChange g (Some ns)) = wset s g (Some ns)) as -> by (destruct Hs; subst; reflexivity).
    destruct (bytes_eqb g f) eqn:E; [apply bytes_eqb_eq in E; subst; now rewrite wget_wset_same|now rewrite wget_wset_other].
  - destruct Hs; subst; cbn; [|reflexivity].
    destruct (wget s g) eqn:Eg; [reflexivity|].
    destruct (bytes_eqb g f) eqn:E; [apply bytes_eqb_eq in E; subst; now rewrite wget_wset_same, Eg|now rewrite wget_wset_other].
  - assert (step s (WRemove g) = wdel s g) as -> by (destruct Hs; subst; reflexivity).
    destruct (bytes_eqb g f) eqn:E; [apply bytes_eqb_eq in E; subst; now rewrite wget_wdel_same|now rewrite wget_wdel_other].
  - destruct Hs; subst; reflexivity.
Qed.

(* C19: after ANY event history, for every file, the visible version is exactly the last valid version of that
   file since it was last removed: never an invalid one, never a partial one, never nothing while a valid one exists *)
Theorem watcher_refines step : (step = legacy_step \/ step = opl_step) ->
  forall evs s f, good (wget (fold_left step evs s) f) = last_good evs f (good (wget s f)).
Proof.
  intros Hs. induction evs as [|e evs IH]; intros s f; cbn [fold_left last_good]; [reflexivity|].
  rewrite IH, (step_spec step Hs). destruct e as [g [ns|]|g|]; reflexivity.
Qed.
Corollary keep_last_good step : (step = legacy_step \/ step = opl_step) ->
  forall s f g, good (wget (step s (WChange g None)) f) = good (wget s f).
Proof. intros Hs s f g. now rewrite (step_spec step Hs). Qed.
Corollary valid_takes_effect step : (step = legacy_step \/ step = opl_step) ->
  forall s f ns, good (wget (step s (WChange f (Some ns))) f) = Some ns.
Proof. intros Hs s f ns. rewrite (step_spec step Hs). now rewrite bytes_eqb_refl. Qed.
Corollary other_files_untouched step : (step = legacy_step \/ step = opl_step) ->
  forall s e f, (match e with WChange g _ | WRemove g => bytes_eqb g f | WTouch => false end) = false -> good (wget (step s e) f) = good (wget s f).
Proof. intros Hs s e f H. rewrite (step_spec step Hs). destruct e as [g [ns|]|g|]; try rewrite H; reflexivity. Qed.
(* a change of the main configuration that does not concern the namespaces changes nothing (fix D21) *)
Corollary config_touch_changes_nothing step : (step = legacy_step \/ step = opl_step) -> forall s, step s WTouch = s.
Proof. intros [->| ->] s; reflexivity. Qed.

(* the visible set is the union of the per-file versions *)
Lemma visible_spec s n : In n (visible s) <-> exists f ns, In (f, Some ns) s /\ In n ns.
Proof.
  unfold visible. rewrite in_flat_map. split.
  - intros [[f v] [Hin Hn]]. destruct v as [ns|]; [|contradiction]. eauto.
  - intros [f [ns [Hin Hn]]]. exists (f, Some ns). auto.
Qed.

(* ---- never partial: what is visible is, file by file, one whole valid version ---- *)
Lemma wset_keys s f v : map fst (wset s f v) = if existsb (fun g => bytes_eqb g f) (map fst s) then map fst s else map fst s ++ [f].
Proof. induction s as [|[g w] s IH]; cbn; [reflexivity|]. destruct (bytes_eqb g f) eqn:E; cbn; [reflexivity|]. rewrite IH.
  destruct (existsb _ (map fst s)); reflexivity. Qed.
Lemma wdel_keys s f : map fst (wdel s f) = filter (fun g => negb (bytes_eqb g f)) (map fst s).
Proof. induction s as [|[g w] s IH]; cbn; [reflexivity|]. destruct (bytes_eqb g f); cbn; [exact IH|]. now rewrite IH. Qed.
Lemma nodup_filter {A} (p : A -> bool) l : NoDup l -> NoDup (filter p l).
Proof. induction 1 as [|x l Hx Hl IH]; cbn; [constructor|]. destruct (p x); [constructor; [|exact IH]|exact IH].
  intros Hin. apply filter_In in Hin. tauto. Qed.
Lemma nodup_wset s f v : NoDup (map fst s) -> NoDup (map fst (wset s f v)).
Proof. intros H. rewrite wset_keys. destruct (existsb _ (map fst s)) eqn:E; [exact H|].
  assert (Hn : ~ In f (map fst s)).
  { intros Hin. assert (existsb (fun g => bytes_eqb g f) (map fst s) = true); [|congruence].
    apply existsb_exists. exists f. split; [exact Hin|apply bytes_eqb_refl]. }
  clear E. induction (map fst s) as [|a l IH]; cbn; [constructor; [tauto|constructor]|].
  inversion H; subst. constructor.
  - intros Hin. apply in_app_or in Hin as [Hin|[->|[]]]; [tauto|]. apply Hn. now left.
  - apply IH; [assumption|]. intros Hin. apply Hn. now right. Qed.
Lemma nodup_step step : (step = legacy_step \/ step = opl_step) -> forall s e, NoDup (map fst s) -> NoDup (map fst (step s e)).
Proof. intros [->| ->] s e H; destruct e as [g [ns|]|g|]; cbn.
  all: try (apply nodup_wset; exact H). all: try (rewrite wdel_keys; apply nodup_filter; exact H). all: try exact H.
  destruct (wget s g); [exact H|apply nodup_wset; exact H]. Qed.

Definition ns_of (v : version) : list bytes := match v with Some ns => ns | None => [] end.
Lemma visible_by_file s : NoDup (map fst s) -> visible s = flat_map (fun f => ns_of (good (wget s f))) (map fst s).
Proof.
  induction s as [|[g v] s IH]; intros H; [reflexivity|]. cbn [map fst] in H. inversion H as [|? ? Hg Hs]; subst.
  unfold visible in *. cbn [flat_map map fst snd wget]. rewrite bytes_eqb_refl. cbn [good]. f_equal.
  rewrite (IH Hs). clear IH H Hs. revert Hg. generalize (map fst s) as l. induction l as [|a l IHl]; intros Hg; [reflexivity|]. cbn [flat_map].
  assert (Ea : bytes_eqb g a = false) by (apply bytes_eqb_neq; intros ->; apply Hg; now left).
  rewrite Ea. f_equal. apply IHl. intros Hin; apply Hg; now right. Qed.

(* the whole statement over histories: after ANY sequence of file events, the visible namespaces are the concatenation,
   over the files the watcher tracks, of each file's last valid version (all of it, never the invalid one, never part) *)
Theorem visible_history step : (step = legacy_step \/ step = opl_step) ->
  forall evs, let s := fold_left step evs [] in
  visible s = flat_map (fun f => ns_of (last_good evs f None)) (map fst s).
Proof.
  intros Hs evs s.
  assert (Hnd : NoDup (map fst s)).
  { unfold s. assert (G : forall s0, NoDup (map fst s0) -> NoDup (map fst (fold_left step evs s0))).
    { induction evs as [|e evs IH]; intros s0 H0; cbn; [exact H0|]. apply IH, nodup_step; assumption. }
    apply G. constructor. }
  rewrite (visible_by_file s Hnd). apply flat_map_ext. intros f. unfold s. now rewrite (watcher_refines step Hs). Qed.
(* a file with a valid version is tracked, so its namespaces are shown (never "nothing once a valid version has been loaded") *)
Theorem valid_version_is_tracked s f ns : good (wget s f) = Some ns -> In f (map fst s).
Proof. induction s as [|[g v] s IH]; cbn; [discriminate|]. destruct (bytes_eqb g f) eqn:E; [apply bytes_eqb_eq in E; auto|]. intros H; right; auto. Qed.
