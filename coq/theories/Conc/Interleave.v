(* C14: requests as threads with PRIVATE state over a shared, unchanging store, run under an arbitrary schedule.
   The model is deliberately small: what matters is which state a step may touch.
     - private: the visited set (a fresh one per check: Engine.ctx0 / init_visited), pagination cursor, result slot
     - shared : the store (read only), the registry's lazily created members (created once: fix D15)
   Theorems: under every schedule each request goes through exactly the states it goes through alone;
   the batch result slots do not depend on completion order; and the counter-model in which the visited set
   is shared is refuted by a concrete two-request schedule (what InitVisited on a shared context would do). *)
From Coq Require Import List Arith Lia Bool.
Import ListNotations.

Section Private.
Variable store pst res : Type.
Variable tstep : store -> pst -> pst + res.      (* one scheduling quantum of one request *)

Definition thread := (pst + res)%type.
Definition run_one (st : store) (t : thread) : thread := match t with inl p => tstep st p | inr r => inr r end.
Fixpoint alone (k : nat) (st : store) (t : thread) : thread :=
  match k with 0 => t | S n => alone n st (run_one st t) end.

Fixpoint upd (i : nat) (f : thread -> thread) (ts : list thread) : list thread :=
  match ts, i with
  | [], _ => []
  | t :: r, 0 => f t :: r
  | t :: r, S j => t :: upd j f r
  end.
(* a schedule is the list of thread indices that get the next quantum *)
Fixpoint run_sched (st : store) (ts : list thread) (sch : list nat) : list thread :=
  match sch with [] => ts | i :: r => run_sched st (upd i (run_one st) ts) r end.

Lemma nth_upd_same i f ts d : i < length ts -> nth i (upd i f ts) d = f (nth i ts d).
Proof. revert i; induction ts as [|t ts IH]; intros [|i] H; cbn in *; try lia; [reflexivity|]. apply IH; lia. Qed.
Lemma nth_upd_other i j f ts d : i <> j -> nth j (upd i f ts) d = nth j ts d.
Proof. revert i j; induction ts as [|t ts IH]; intros [|i] [|j] H; cbn; try reflexivity; try congruence. apply IH; congruence. Qed.
Lemma upd_length i f ts : length (upd i f ts) = length ts.
Proof. revert i; induction ts as [|t ts IH]; intros [|i]; cbn; auto. Qed.
Lemma alone_S k st t : alone (S k) st t = alone k st (run_one st t).
Proof. reflexivity. Qed.

(* non-interference: whatever the schedule, request i is in the state it reaches alone after as many quanta as it got *)
Theorem schedule_independent st sch : forall ts i d, i < length ts ->
  nth i (run_sched st ts sch) d = alone (count_occ Nat.eq_dec sch i) st (nth i ts d).
Proof.
  induction sch as [|j sch IH]; intros ts i d Hi; cbn [run_sched count_occ]; [reflexivity|].
  rewrite IH by (rewrite upd_length; exact Hi).
  destruct (Nat.eq_dec j i) as [->|Hne].
  - rewrite nth_upd_same by exact Hi. reflexivity.
  - rewrite nth_upd_other by exact Hne. reflexivity.
Qed.

(* a finished request stays finished with the same answer *)
Lemma alone_done k st r : alone k st (inr r) = inr r.
Proof. induction k; cbn; auto. Qed.
Lemma alone_add a b st t : alone (a + b) st t = alone b st (alone a st t).
Proof. revert t; induction a as [|a IH]; intros t; cbn; [reflexivity|]. apply IH. Qed.
(* the answer: if the request finishes alone within k quanta with r, then under EVERY schedule that gives it
   at least k quanta it has finished with exactly r *)
Corollary same_answer st sch ts i d k r : i < length ts ->
  alone k st (nth i ts d) = inr r -> k <= count_occ Nat.eq_dec sch i ->
  nth i (run_sched st ts sch) d = inr r.
Proof.
  intros Hi Hk Hle. rewrite schedule_independent by exact Hi.
  replace (count_occ Nat.eq_dec sch i) with (k + (count_occ Nat.eq_dec sch i - k)) by lia.
  rewrite alone_add, Hk. apply alone_done.
Qed.
End Private.

(* ---- BatchCheck: one worker per tuple, each writing its own slot; any completion order gives the same slice ---- *)
Section Slots.
Variable A : Type.
Fixpoint set_slot (i : nat) (x : A) (l : list A) : list A :=
  match l, i with
  | [], _ => []
  | _ :: r, 0 => x :: r
  | y :: r, S j => y :: set_slot j x r
  end.
Definition fill (init : list A) (writes : list (nat * A)) : list A :=
  fold_left (fun l w => set_slot (fst w) (snd w) l) writes init.

Lemma set_slot_length i x l : length (set_slot i x l) = length l.
Proof. revert i; induction l as [|y l IH]; intros [|i]; cbn; auto. Qed.
Lemma nth_set_slot_same i x l d : i < length l -> nth i (set_slot i x l) d = x.
Proof. revert i; induction l as [|y l IH]; intros [|i] H; cbn in *; try lia; auto. apply IH; lia. Qed.
Lemma nth_set_slot_other i j x l d : i <> j -> nth j (set_slot i x l) d = nth j l d.
Proof. revert i j; induction l as [|y l IH]; intros [|i] [|j] H; cbn; try reflexivity; try congruence. apply IH; congruence. Qed.
Lemma fill_length ws : forall init, length (fill init ws) = length init.
Proof. induction ws as [|w ws IH]; intros init; cbn; [reflexivity|]. unfold fill in IH. rewrite IH. apply set_slot_length. Qed.

(* each slot holds the value of the (only) write addressed to it, wherever that write is in the order *)
Theorem slot_value ws : forall init i x d, NoDup (map fst ws) -> In (i, x) ws -> i < length init ->
  nth i (fill init ws) d = x.
Proof.
  induction ws as [|[j y] ws IH]; intros init i x d Hnd Hin Hi; [contradiction|].
  cbn [map fst] in Hnd. inversion Hnd as [|? ? Hj Hnd']; subst. cbn [fill fold_left fst snd].
  destruct Hin as [Heq|Hin].
  - inversion Heq; subst. clear IH.
    assert (G : forall l, i < length l -> nth i l d = x -> nth i (fold_left (fun l w => set_slot (fst w) (snd w) l) ws l) d = x).
    { clear Hnd Hnd' Hi. induction ws as [|[k z] ws IHw]; intros l Hl Hx; cbn; [exact Hx|].
      apply IHw.
      - intros Hk. apply Hj. now right.
      - rewrite set_slot_length; exact Hl.
      - rewrite nth_set_slot_other; [exact Hx|]. intros ->. apply Hj. now left. }
    apply G; [rewrite set_slot_length; exact Hi|apply nth_set_slot_same; exact Hi].
  - apply (IH (set_slot j y init) i x d Hnd' Hin). rewrite set_slot_length; exact Hi.
Qed.
End Slots.

(* completion order does not matter: two orders of the same writes (distinct slots, all slots written) fill alike *)
Theorem completion_order_irrelevant {A} (init : list A) ws1 ws2 :
  NoDup (map fst ws1) -> NoDup (map fst ws2) ->
  (forall w, In w ws1 <-> In w ws2) ->
  (forall i, i < length init -> exists x, In (i, x) ws1) ->
  fill A init ws1 = fill A init ws2.
Proof.
  intros N1 N2 Hsame Hall.
  destruct init as [|a0 init']; [unfold fill; clear; revert ws2; induction ws1 as [|w ws1 IH]; intros ws2; cbn;
    [induction ws2 as [|w ws2 IH2]; cbn; [reflexivity|destruct (fst w); exact IH2] |destruct (fst w); apply IH]|].
  apply (nth_ext _ _ a0 a0); [now rewrite !fill_length|].
  intros i Hi. rewrite fill_length in Hi. destruct (Hall i Hi) as [x Hx].
  rewrite (slot_value A ws1 _ i x a0 N1 Hx Hi).
  rewrite (slot_value A ws2 _ i x a0 N2 (proj1 (Hsame _) Hx) Hi). reflexivity.
Qed.

(* ---- the counter-model: a visited set shared between requests ---- *)
(* a request asks "is node n reachable from my start?" in a graph given as successor lists; the shared variant
   keeps ONE visited list for all requests (what graph.InitVisited does when the context already carries a set) *)
Section SharedVisited.
Definition graph := list (nat * list nat).
Definition succs (g : graph) (n : nat) : list nat :=
  match find (fun p => Nat.eqb (fst p) n) g with Some p => snd p | None => [] end.
(* depth-first search with an explicit visited list; returns (found, visited) *)
Fixpoint dfs (fuel : nat) (g : graph) (target : nat) (todo : list nat) (visited : list nat) : bool * list nat :=
  match fuel with
  | 0 => (false, visited)
  | S f =>
    match todo with
    | [] => (false, visited)
    | n :: r =>
      if Nat.eqb n target then (true, visited)
      else if existsb (Nat.eqb n) visited then dfs f g target r visited
      else dfs f g target (succs g n ++ r) (n :: visited)
    end
  end.
Definition reach_private (g : graph) (s t : nat) : bool := fst (dfs 100 g t [s] []).
(* two requests one after the other on ONE visited list *)
Definition reach_shared_second (g : graph) (s1 t1 s2 t2 : nat) : bool :=
  let '(_, v) := dfs 100 g t1 [s1] [] in fst (dfs 100 g t2 [s2] v).

(* 0 -> 1 -> 2.  Alone, "2 from 0" holds.  After a request that already walked 0 and 1 on the same list, it fails. *)
Example shared_visited_interferes :
  let g := [(0, [1]); (1, [2])] in
  reach_private g 0 2 = true /\ reach_shared_second g 0 7 0 2 = false.
Proof. vm_compute. split; reflexivity. Qed.
End SharedVisited.
