(* C09 — Expand returns a sound and complete picture of a subject set. *)
From Coq Require Import List Bool NArith ZArith.
From Keto Require Import Base.Bytes Store.Sql Engine.Engine Engine.Expand Engine.ExpandProofs Engine.ExpandMore.
Import ListNotations.

(* every parent->child edge is a stored relationship of the parent subject set; the tree is rooted at the request;
   its height never exceeds the effective depth — any store (cycles, duplicates, wide nodes), any depth *)
Theorem C09_sound_and_bounded : forall nid d global, (1 <= global)%Z -> forall gas V s depth t V',
  build nid d global gas V s depth = Some (Some t, V') ->
  root t = s /\ Forall (edge_ok nid d) (edges t) /\ (Z.of_nat (height t) <= clamp global depth)%Z.
Proof. intros nid d global Hg. exact (build_sound nid d global Hg). Qed.
(* expand terminates on every store: recursion depth is at most the global max depth *)
Theorem C09_terminates : forall nid d global, (1 <= global)%Z -> forall s depth,
  BuildTree nid d global (S (Z.to_nat global)) s depth <> None.
Proof. intros nid d global Hg. exact (BuildTree_total nid d global Hg). Qed.
(* FULL completeness clause: every subject reachable within the effective depth appears in the tree.
   False of the faithful model and of the code: known finding D7 (order-dependent). *)
Theorem C09_complete_within_depth_refuted :
  exists t, BuildTree 1%N d7_db 3 10 (e_set Byte.x72) 0 = Some (Some t) /\
            In (ISid (1%N, [Byte.x75])) (reach_within 1%N d7_db 2 (e_set Byte.x72)) /\
            ~ In (ISid (1%N, [Byte.x75])) (subjects t).
Proof. exact expand_complete_within_depth_refuted. Qed.
(* every Union node lists, in order, exactly the members of its subject set: all pages, nothing dropped or added *)
Theorem C09_levels_complete : forall nid d global gas V s depth t V',
  build nid d global gas V s depth = Some (Some t, V') -> Forall (level_ok nid d) (union_nodes t).
Proof. exact levels_complete. Qed.
(* each subject set is expanded (is a Union node) at most once in the whole tree *)
Theorem C09_expanded_once : forall nid d global gas s depth t,
  BuildTree nid d global gas s depth = Some (Some t) -> NoDup (map key (unions t)).
Proof. exact expanded_once. Qed.
(* Not proved in Coq (decided by the EXPAND suite's oracles on the real engine): with a non-binding depth the
   subject-id leaves are exactly the reachable subject ids (the bounded version is false: known finding D7). *)
