(* C10 — OPL permission expressions mean what the same TypeScript means.
   PARTIAL: acceptance of every documented spelling and the denotation of whole documents are decided by the
   differential check (generated ASTs in random spellings through the real parser, truth tables compared);
   proved here are the meaning-preservation of the parser's AST combinators and fixed precedence examples run
   through the full lexer+parser model inside Coq. *)
From Coq Require Import List Bool NArith Strings.String.
Open Scope string_scope.
From Keto Require Import Base.Bytes Engine.Ast Opl.Lexer Opl.Parser Opl.TsSem.
Import ListNotations.

(* flattening of associative operators (simplifyExpression) preserves the truth table, for every expression *)
Theorem C10_flattening_preserves_meaning : forall v (r : rw), wf (rw_child r) = true ->
  eval v (CRewrite (rw_op (simplify r)) (rw_children (simplify r))) = eval v (rw_child r).
Proof. exact simplify_sound. Qed.
(* the node built for 'l || rest' means l || rest, whatever rest is: '&&' chains inside rest stay grouped (fix D8) *)
Theorem C10_or_combination : forall v (r rhs : rw),
  eval v (CRewrite OpOr (rw_child r :: match fst rhs with OpOr => snd rhs | OpAnd => [rw_child rhs] end)) = eval v (rw_child r) || eval v (rw_child rhs).
Proof. exact or_combination. Qed.
Theorem C10_and_combination : forall v (r : rw) (ch : child),
  eval v (CRewrite OpAnd ([rw_child r] ++ [ch])) = eval v (rw_child r) && eval v ch.
Proof. exact and_combination. Qed.
(* real source text through lexer + parser + type checks: ! over && over ||, parentheses override, juxtaposition rejected *)
Theorem C10_precedence_examples :
  table (perm_p (src_of (A ++ " || " ++ B ++ " && " ++ C))) = [false;false;false;true;true;true;true;true] /\
  table (perm_p (src_of (A ++ " && " ++ B ++ " || " ++ C))) = [false;true;false;true;false;true;true;true] /\
  table (perm_p (src_of ("!" ++ A ++ " && (" ++ B ++ " || " ++ C ++ ")"))) = [false;true;true;true;false;false;false;false] /\
  table (perm_p (src_of ("!(" ++ A ++ " || " ++ B ++ ") || " ++ C))) = [true;true;false;true;false;true;false;true] /\
  perm_p (src_of (A ++ " " ++ B)) = None.
Proof. exact precedence_examples. Qed.
