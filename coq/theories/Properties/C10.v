(* C10 — OPL permission expressions mean what the same TypeScript means.
   Proved on the parser model for EVERY permission expression of the grammar (or / and / unary / parentheses, any
   nesting the parser's limit admits, any operator and parenthesis items, the atom spellings listed below): the parser
   accepts it, consumes exactly it, and the rewrite it builds has the TypeScript truth value under every valuation.
   PARTIAL for the rest of a document (type declarations, separators, comments): decided by the differential check
   (generated ASTs in random spellings through the real parser, truth tables compared). *)
From Coq Require Import List Bool NArith Strings.String.
Open Scope string_scope.
From Keto Require Import Base.Bytes Engine.Ast Opl.Lexer Opl.Parser Opl.TsSem Opl.ExprSound.
Import ListNotations.

(* flattening of associative operators (simplifyExpression) preserves the truth table, for every expression *)
Theorem C10_flattening_preserves_meaning : forall v (r : rw), wf (rw_child r) = true ->
  eval v (CRewrite (rw_op (simplify r)) (rw_children (simplify r))) = eval v (rw_child r).
Proof. exact simplify_sound. Qed.
(* the node built for 'l || rest' means l || rest, whatever rest is: '&&' chains inside rest stay grouped (fix D8) *)
Theorem C10_or_combination : forall v (r rhs : rw),
  eval v (CRewrite OpOr (rw_child r :: match fst rhs with OpOr => snd rhs | OpAnd => [rw_child rhs] end)) = eval v (rw_child r) || eval v (rw_child rhs).
Proof. exact or_combination. Qed.
Theorem C10_and_combination : forall v (r : rw) (ch : child),
  eval v (CRewrite OpAnd ([rw_child r] ++ [ch])) = eval v (rw_child r) && eval v ch.
Proof. exact and_combination. Qed.
(* real source text through lexer + parser + type checks: ! over && over ||, parentheses override, juxtaposition rejected *)
Theorem C10_precedence_examples :
  table (perm_p (src_of (A ++ " || " ++ B ++ " && " ++ C))) = [false;false;false;true;true;true;true;true] /\
  table (perm_p (src_of (A ++ " && " ++ B ++ " || " ++ C))) = [false;true;false;true;false;true;true;true] /\
  table (perm_p (src_of ("!" ++ A ++ " && (" ++ B ++ " || " ++ C ++ ")"))) = [false;true;true;true;false;false;false;false] /\
  table (perm_p (src_of ("!(" ++ A ++ " || " ++ B ++ ") || " ++ C))) = [true;true;false;true;false;true;false;true] /\
  perm_p (src_of (A ++ " " ++ B)) = None.
Proof. exact precedence_examples. Qed.

(* the whole expression parser: for every expression o of the grammar  or ::= and ('||' and)*, and ::= unary ('&&' unary)*,
   unary ::= ['!'] atom | ['!'] '(' or ')'  whose items are well-formed (wf_or: operator and parenthesis items of the
   right type at any position, atoms in a spelling the atom parser accepts) and whose nesting fits the parser's limit:
   from any non-failed parser state whose tokens are the expression, the closing ',' and anything else, the permission
   parser returns a rewrite, has consumed exactly the expression and the ',', has reported nothing, and the rewrite -
   after simplifyExpression - evaluates to the TypeScript value s_or of the expression under every valuation *)
Theorem C10_expression_means_typescript : forall (o : orx) (ft : item) (p : pst) (rest : list item),
  wf_or o -> need_or o <= nesting_limit -> i_typ ft = OComma ->
  toks p = (r_or o ++ ft :: rest)%list -> fatal p = false ->
  exists r p', parse_exprs (S (2 * List.length (toks p))) OComma nesting_limit None true p = (Some r, p') /\
               toks p' = rest /\ fatal p' = false /\ errs p' = errs p /\
               forall v, eval v (CRewrite (rw_op (simplify r)) (rw_children (simplify r))) = s_or v o.
Proof. exact expression_means_typescript. Qed.
(* the atom spellings of the documentation are accepted and denote the right node, at any positions, for any names:
   this.related.R.includes(ctx.subject), this.related["R"].includes(ctx.subject), this.permits.P(ctx),
   this.related.R.traverse(x => x.related.CR.includes(ctx.subject)) and ...traverse((x) => ...), ...x.permits.CR(ctx) *)
Theorem C10_atom_spellings : forall pos,
  (forall nm, atom_ok (sp_includes pos nm) (CComputed (i_val nm))) /\
  (forall nm, atom_ok (sp_includes_br pos nm) (CComputed (i_val nm))) /\
  (forall nm, atom_ok (sp_permits pos nm) (CComputed (i_val nm))) /\
  (forall paren r x x' cr, i_val x' = i_val x -> arg_item x -> name_item cr ->
     atom_ok (sp_traverse pos paren r x x' cr) (CTuple (i_val r) (i_val cr))) /\
  (forall paren r x x' cr, i_val x' = i_val x -> arg_item x -> name_item cr ->
     atom_ok (sp_traverse_permits pos paren r x x' cr) (CTuple (i_val r) (i_val cr))).
Proof. exact atom_spellings. Qed.
(* the hypotheses are satisfiable: !A && (B || C) with three different atom spellings, any positions and names *)
Theorem C10_expression_theorem_applies : forall pos (na nb r x x' cr : item) (t_not t_and t_or lp rp ft : item) (p : pst) rest,
  i_typ t_not = ONot -> i_typ t_and = Lexer.OAnd -> i_typ t_or = Lexer.OOr -> i_typ lp = ParenL -> i_typ rp = ParenR -> i_typ ft = OComma ->
  i_val x' = i_val x -> arg_item x -> name_item cr ->
  let e := OJust (AAnd (AUn (UAtom (Some t_not) (sp_includes pos na) (CComputed (i_val na)))) t_and
                       (UParen None lp (OAlt (AUn (UAtom None (sp_permits pos nb) (CComputed (i_val nb)))) t_or
                                             (OJust (AUn (UAtom None (sp_traverse pos true r x x' cr) (CTuple (i_val r) (i_val cr)))))) rp)) in
  toks p = (r_or e ++ ft :: rest)%list -> fatal p = false ->
  exists rw p', parse_exprs (S (2 * List.length (toks p))) OComma nesting_limit None true p = (Some rw, p') /\ toks p' = rest /\ fatal p' = false /\ errs p' = errs p /\
    forall v, eval v (CRewrite (rw_op (simplify rw)) (rw_children (simplify rw))) =
              negb (v (i_val na) []) && (v (i_val nb) [] || v (i_val r) (i_val cr)).
Proof. exact theorem_applies. Qed.
