(* C06 — Networks sharing a database are isolated. *)
From Coq Require Import List NArith ZArith.
From Keto Require Import Base.Bytes Api.Codec Store.Sql Store.SqlProofs Store.Mapping Store.Spec Store.Api Store.ApiProofs.
Import ListNotations.

(* any history of API operations in network A leaves the rows of every other network B untouched *)
Theorem C06_frame : forall names A ops d, db_inv d ->
  forall B, B <> A -> filter (in_net B) (rows (fst (run names A ops d))) = filter (in_net B) (rows d).
Proof.
  intros names A ops d Hi B HB. pose proof (run_refines names A ops d Hi) as H.
  destruct (run names A ops d) as [d' rs]. cbn. destruct H as (_ & _ & _ & Hf). auto.
Qed.
(* statement level, for every fault plan: statements of network A never touch rows of B *)
Theorem C06_statements_frame : forall A B f ss, A <> B -> Forall (stmt_net A) ss -> forall k d d',
  exec_stmts f k ss d = ROk d' -> filter (in_net B) (rows d') = filter (in_net B) (rows d).
Proof. exact exec_stmts_frame. Qed.
(* and the statements keto builds for network A are statements of A *)
Theorem C06_built_statements : forall nid sh ins del, Forall (stmt_net nid) (transact_stmts nid sh ins del).
Proof. exact transact_stmts_net. Qed.
(* observations in B are functions of B's rows only (no leak from A) *)
Theorem C06_exists_own_rows : forall B q d d', filter (in_net B) (rows d) = filter (in_net B) (rows d') ->
  ExistsRelationTuples B q d = ExistsRelationTuples B q d'.
Proof. exact exists_only_own_rows. Qed.
Theorem C06_list_own_rows : forall B q size tok d d', filter (in_net B) (rows d) = filter (in_net B) (rows d') ->
  GetRelationTuples B q size tok d = GetRelationTuples B q size tok d'.
Proof. exact get_only_own_rows. Qed.
