(* C08 — All check transports agree with the engine and with each other. *)
From Coq Require Import List Bool NArith ZArith.
From Keto Require Import Base.Bytes Store.Sql Engine.Ast Engine.Engine Engine.Top Api.Transports Api.TransportsProofs.
Import ListNotations.

(* the premise [wf] holds for every engine result: *)
Theorem C08_engine_results_wf : forall gas cfg strict nid d maxWidth F ns obj rel sub request global o bad,
  CheckRelationTuple gas cfg strict nid d maxWidth F ns obj rel sub request global = Some o -> wf (ERes (o_res o) bad).
Proof. intros. cbn. eapply check_err_not_member; eauto. Qed.

(* REST GET/POST (mirror and openapi), gRPC Check, and each REST / gRPC batch entry report the engine's decision *)
Theorem C08_agree : forall rt e, wf e -> reported (observe rt e) = decision e.
Proof. exact all_transports_agree. Qed.
Theorem C08_unknown_namespace_never_allowed : forall rt, reported (observe rt EUnknownNs) = false.
Proof. exact unknown_namespace_never_allowed. Qed.
Theorem C08_allowed_never_with_error : forall rt e, wf e -> t_allowed (observe rt e) = Some true -> t_error (observe rt e) = false.
Proof. exact allowed_flag_never_with_error. Qed.
(* the status-mirroring endpoints answer 200 exactly when allowed and 403 exactly when denied *)
Theorem C08_mirror_status : forall e, wf e ->
  (t_status (single true false e) = 200 <-> decision e = true) /\
  (t_status (single true false e) = 403 <-> (decision e = false /\ t_error (single true false e) = false)).
Proof. exact mirror_status. Qed.
(* batch results come back in request order, one per tuple, each equal to the single answer; entries are independent *)
Theorem C08_batch_pointwise : forall rt es, length (observe_batch rt es) = length es /\
  forall i e, nth_error es i = Some e -> nth_error (observe_batch rt es) i = Some (observe rt e).
Proof. exact batch_pointwise. Qed.
Theorem C08_batch_entry_local : forall rt es1 e es2 es1' es2', length es1 = length es1' ->
  nth_error (observe_batch rt (es1 ++ e :: es2)) (length es1) = nth_error (observe_batch rt (es1' ++ e :: es2')) (length es1').
Proof. exact batch_entry_local. Qed.
