(* C16 — Names survive the string-to-UUID mapping unchanged and unaliased. *)
From Coq Require Import List NArith.
From Keto Require Import Base.Bytes Api.Codec Store.Sql Store.SqlProofs Store.Mapping Store.Spec Store.MappingProofs Store.ApiProofs.
Import ListNotations.

Theorem C16_injective : forall n s n' s', uuid5 n s = uuid5 n' s' <-> n = n' /\ s = s'.
Proof. exact uuid5_inj. Qed.
(* batches of any size, any repeats, any page size >= 1: position-wise lookup *)
Theorem C16_batch_lookup : forall ps ids table, 1 <= ps -> NoDup (map fst table) ->
  batchFromUUIDs ps ids table = map (fun u => mlookup u table) ids.
Proof. exact batch_lookup. Qed.
(* what FromTuple wrote is what ToTuple returns, position by position (all byte strings) *)
Theorem C16_roundtrip : forall names nid ts its stmts d,
  FromTuple names false nid ts = ROk (its, stmts) -> maps_wf (maps d) ->
  let d' := apply_stmts stmts d in
  maps_wf (maps d') /\ rows d' = rows d /\ ToTuple its d' = Some (map norm ts).
Proof. exact mapper_roundtrip. Qed.
Theorem C16_from_tuple_positionwise : forall names ro nid ts its stmts,
  FromTuple names ro nid ts = ROk (its, stmts) ->
  forallb (valid_tuple names) ts = true /\ its = map (direct nid) ts /\
  stmts = if ro then [] else map_stmts nid (strs ts).
Proof. exact FromTuple_spec. Qed.
(* expand trees (Mapper.ToTree): the names whose ids the engine put into a tree come back at the same node, in the same
   field, for every tree shape; type and number of children of every node are untouched whatever the table holds;
   the only refusal is an unknown namespace *)
Theorem C16_tree_positionwise : forall names nid d t,
  maps_wf (maps d) -> (forall u, In u (tree_uids (tree_ids nid t)) -> In u (map fst (maps d))) ->
  tree_ns_ok names t = true -> ToTree names d (tree_ids nid t) = ROk t.
Proof. exact ToTree_roundtrip. Qed.
Theorem C16_tree_shape : forall names d t a, ToTree names d t = ROk a -> ashape a = ishape t.
Proof. exact ToTree_shape. Qed.
Theorem C16_tree_rejects : forall names d t e, ToTree names d t = RErr e -> e = E_NotFound.
Proof. exact ToTree_rejects. Qed.
(* queries (Mapper.FromQuery): a list / delete query by names selects exactly the stored rows that carry those names in
   those fields - object, subject id, subject-set object - whatever other strings share a prefix, a case or a UUID shape *)
Theorem C16_query_by_name : forall names nid q iq r,
  FromQuery names nid q = ROk iq -> row_wf r -> r_nid r = nid -> matches_q iq r = matches_api q (row_api r).
Proof. exact FromQuery_matches. Qed.
