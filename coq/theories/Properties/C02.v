(* C02 — Depth and width limits fail closed and can only be lowered per request. *)
From Coq Require Import List Bool NArith ZArith.
From Keto Require Import Base.Bytes Store.Sql Engine.Ast Engine.Engine Engine.RefSem Engine.Top.
Import ListNotations.

(* a request behaves exactly like the same request against a server whose global limit is the effective value *)
Theorem C02_effective_depth : forall gas cfg strict nid d maxWidth F ns obj rel sub request global,
  CheckRelationTuple gas cfg strict nid d maxWidth F ns obj rel sub request global =
  CheckRelationTuple gas cfg strict nid d maxWidth F ns obj rel sub 0 (eff_depth request global).
Proof. exact check_eff_depth. Qed.
(* values <= 0 or above the global limit mean the global limit; the effective depth never exceeds it *)
Theorem C02_eff_depth_spec : forall r g, (1 <= g)%Z ->
  (eff_depth r g = if (r <=? 0)%Z || (g <? r)%Z then g else r) /\ (1 <= eff_depth r g <= g)%Z.
Proof. exact eff_depth_spec. Qed.

(* fail closed, configurations without '!': whatever is allowed under ANY depth and width is allowed by the unbounded semantics *)
Theorem C02_fail_closed_partial : forall gas cfg strict nid d maxWidth F ns obj rel sub request global o,
  config_nf cfg = true ->
  CheckRelationTuple gas cfg strict nid d maxWidth F ns obj rel sub request global = Some o ->
  allowed_of (o_res o) = true -> Holds cfg nid d sub (ns, obj, rel).
Proof. exact check_sound. Qed.

(* FULL statement (also with '!'):  allowed_of (o_res o) = true -> ref ... = Some b -> b = true.
   It is false of the faithful model and of the code: known finding D2 (a cut below '!' becomes 'allowed'). *)
Theorem C02_fail_closed_refuted :
  exists depth o o',
    CheckRelationTuple 100 d2_cfg false 1%N d2_db 100 no_faults wDoc wz wnota wbob depth 50 = Some o /\ allowed_of (o_res o) = true /\ o_cut_neg o = true /\
    CheckRelationTuple 100 d2_cfg false 1%N d2_db 100 no_faults wDoc wz wnota wbob 0 50 = Some o' /\ allowed_of (o_res o') = false /\ o_cut o' = false /\
    ref d2_cfg 1%N d2_db wbob 100 [] (wDoc, wz, wnota) = Some false.
Proof. exact fail_closed_refuted. Qed.
