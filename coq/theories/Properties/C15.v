(* C15 — Every check terminates, honours cancellation and releases its goroutines.
   PARTIAL: goroutine release and promptness are runtime facts; they are decided on the real engine by the TERM suite. *)
From Coq Require Import List Bool NArith ZArith.
From Keto Require Import Base.Bytes Store.Sql Engine.Ast Engine.Engine Engine.Top Engine.Expand Engine.ExpandProofs.
Import ListNotations.

(* a storage failure at ANY position is answered: the model has no "no result sent" outcome after fixes D5/D3;
   whatever the fault plan, a produced result that carries an error is not a positive answer *)
Theorem C15_faults_are_answered : forall gas cfg strict nid d maxWidth F ns obj rel sub request global o,
  CheckRelationTuple gas cfg strict nid d maxWidth F ns obj rel sub request global = Some o ->
  r_err (o_res o) = true -> r_m (o_res o) <> IsMember.
Proof. exact check_err_not_member. Qed.
(* expansion (the same visited-set mechanism) terminates for every store within max-depth nested calls *)
Theorem C15_expand_terminates : forall nid d global, (1 <= global)%Z -> forall s depth,
  BuildTree nid d global (S (Z.to_nat global)) s depth <> None.
Proof. intros nid d global Hg. exact (BuildTree_total nid d global Hg). Qed.
