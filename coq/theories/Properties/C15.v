(* C15 — Every check terminates, honours cancellation and releases its goroutines.
   PARTIAL: goroutine release and promptness are runtime facts; they are decided on the real engine by the TERM suite. *)
From Coq Require Import List Bool NArith ZArith.
From Keto Require Import Base.Bytes Store.Sql Engine.Ast Engine.Engine Engine.Top Engine.Termination Engine.Expand Engine.ExpandProofs.
Import ListNotations.

(* a storage failure at ANY position is answered: the model has no "no result sent" outcome after fixes D5/D3;
   whatever the fault plan, a produced result that carries an error is not a positive answer *)
Theorem C15_faults_are_answered : forall gas cfg strict nid d maxWidth F ns obj rel sub request global o,
  CheckRelationTuple gas cfg strict nid d maxWidth F ns obj rel sub request global = Some o ->
  r_err (o_res o) = true -> r_m (o_res o) <> IsMember.
Proof. exact check_err_not_member. Qed.
(* expansion (the same visited-set mechanism) terminates for every store within max-depth nested calls *)
Theorem C15_expand_terminates : forall nid d global, (1 <= global)%Z -> forall s depth,
  BuildTree nid d global (S (Z.to_nat global)) s depth <> None.
Proof. intros nid d global Hg. exact (BuildTree_total nid d global Hg). Qed.

(* TERMINATION of a check: for every configuration (recursive permissions, &&, !, traversals), every store (cycles
   included), width, fault plan and request, the fuelled engine model does not run out of gas once the gas is
   1 + depth * (2 * height of the deepest rewrite + 3): every re-entry of checkIsAllowed has consumed one unit of
   depth and in between the engine only descends one finite syntax tree.  (The D6 witness p = x && this.permits.p
   made this statement false before the fix: the computed subject set re-entered with the SAME depth.) *)
Theorem C15_check_terminates : forall cfg strict nid d maxWidth F sub ns obj rel request global gas,
  need cfg (Z.to_nat (eff_depth request global)) <= gas ->
  CheckRelationTuple gas cfg strict nid d maxWidth F ns obj rel sub request global <> None.
Proof. exact check_terminates. Qed.
(* non-vacuity: the D6 configuration, answered within the bound *)
Example C15_d6_answered :
  let x := [Byte.x78] in let p := [Byte.x70] in let doc := [Byte.x44] in
  let cfg := [{| ns_name := doc; ns_rels := [ {| rel_name := x; rel_types := []; rel_rewrite := None |};
               {| rel_name := p; rel_types := []; rel_rewrite := Some {| rw_op := OpAnd; rw_children := [CComputed x; CComputed p] |} |} ] |}] in
  need cfg 5 = 26 /\
  exists o, CheckRelationTuple (need cfg 5) cfg false 1%N empty_db 100 (fun _ => false) doc (1%N, [Byte.x6f]) p (ISid (1%N, [Byte.x75])) 0 5 = Some o.
Proof. vm_compute. split; [reflexivity|eexists; reflexivity]. Qed.
