(* C04 — The relationship store behaves as a per-network multiset under any API history. *)
From Coq Require Import List NArith ZArith Permutation.
From Keto Require Import Base.Bytes Api.Codec Store.Sql Store.Mapping Store.Spec Store.Api Store.PagingProofs Store.MappingProofs Store.ApiProofs.
Import ListNotations.

(* Any history of create / delete / delete-by-query / patch / transact / list requests (REST or gRPC, valid or not):
   the API view of the stored rows equals the multiset model run with the same operations, where an operation
   takes effect exactly when it was answered 2xx; the invariant (well-formed ids, complete name mapping) is kept. *)
Theorem C04_refines_multiset : forall names nid ops d, db_inv d ->
  let '(d', rs) := run names nid ops d in
  db_inv d' /\ length rs = length ops /\
  abs nid d' = spec_run ops rs (abs nid d) /\
  (forall B, B <> nid -> filter (in_net B) (rows d') = filter (in_net B) (rows d)).
Proof. exact run_refines. Qed.

(* one step: rejected calls (status not 2xx) leave BOTH tables exactly as they were *)
Theorem C04_step : forall names nid d o, db_inv d ->
  let '(d', r) := step names nid no_faults d o in
  db_inv d' /\
  abs nid d' = (if is_2xx (status r) then op_effect o (abs nid d) else abs nid d) /\
  (forall B, B <> nid -> filter (in_net B) (rows d') = filter (in_net B) (rows d)) /\
  (is_2xx (status r) = false -> d' = d).
Proof. exact step_refines. Qed.

(* a write that names an unknown namespace or carries no subject is never accepted *)
Theorem C04_invalid_rejected : forall names nid ins del d d', db_inv d ->
  tx_write names nid no_faults (ins ++ del)
    (fun its sh => transact_stmts nid sh (firstn (length ins) its) (skipn (length ins) its)) (length ins) d = (d', ROk tt) ->
  forallb (valid_tuple names) (ins ++ del) = true.
Proof. intros names nid ins del d d' Hi H. exact (proj1 (proj2 (proj2 (tx_refines names nid ins del d d' Hi H)))). Qed.

(* a delete removes all and only the matching relationships *)
Theorem C04_delete_exact : forall names nid q iq d d', db_inv d -> FromQuery names nid q = ROk iq ->
  DeleteAllRelationTuples no_faults nid iq d = (d', ROk tt) ->
  abs nid d' = spec_delete_q q (abs nid d) /\ db_inv d' /\
  (forall B, B <> nid -> filter (in_net B) (rows d') = filter (in_net B) (rows d)).
Proof. exact delete_q_refines. Qed.

(* listing with any query, following the page tokens, returns exactly the model's matching relationships,
   each with the exact strings it was written with *)
Theorem C04_list : forall names nid q iq size d,
  db_inv d -> FromQuery names nid q = ROk iq -> (0 <= size)%Z ->
  NoDup (map r_shard (rows d)) -> (forall r, In r (rows d) -> (0 < r_shard r)%N) ->
  exists pages, iterate (S (length (matching nid iq d))) nid iq size TokEmpty d = Some pages /\
    Forall (fun p => (Z.of_nat (length p) <= per_page size)%Z /\ ToTuple (map to_ituple p) d = Some (map row_api p)) pages /\
    Permutation (map row_api (concat pages)) (spec_list q (abs nid d)).
Proof. exact list_refines. Qed.

Theorem C04_nonvacuous : db_inv empty_db.
Proof. exact empty_db_inv. Qed.
