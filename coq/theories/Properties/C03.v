(* C03 — Storage failures during a check never produce 'allowed'. *)
From Coq Require Import List Bool NArith ZArith.
From Keto Require Import Base.Bytes Store.Sql Engine.Ast Engine.Engine Engine.RefSem Engine.Top.
Import ListNotations.

(* every configuration, mode, depth, width and EVERY fault plan (which storage operations fail):
   a result that carries an error never says IsMember; so no transport can answer allowed + error *)
Theorem C03_error_never_member : forall gas cfg strict nid d maxWidth F ns obj rel sub request global o,
  CheckRelationTuple gas cfg strict nid d maxWidth F ns obj rel sub request global = Some o ->
  r_err (o_res o) = true -> r_m (o_res o) <> IsMember.
Proof. exact check_err_not_member. Qed.

(* configurations without '!': under every fault plan, 'allowed' is justified by the stored relationships ... *)
Theorem C03_no_fail_open : forall gas cfg strict nid d maxWidth F ns obj rel sub request global o,
  config_nf cfg = true ->
  CheckRelationTuple gas cfg strict nid d maxWidth F ns obj rel sub request global = Some o ->
  allowed_of (o_res o) = true -> Holds cfg nid d sub (ns, obj, rel).
Proof. exact check_sound. Qed.
(* ... hence, for plain-relation configurations, never 'allowed' when the fault-free check (not cut) denies *)
Theorem C03_never_allowed_when_denied : forall gas gas' cfg nid d maxWidth F ns obj rel sub request global o o',
  config_has_rewrites cfg = false ->
  CheckRelationTuple gas cfg false nid d maxWidth no_faults ns obj rel sub request global = Some o ->
  o_cut o = false -> r_err (o_res o) = false -> allowed_of (o_res o) = false ->
  CheckRelationTuple gas' cfg false nid d maxWidth F ns obj rel sub request global = Some o' ->
  allowed_of (o_res o') = false.
Proof.
  intros gas gas' cfg nid d maxWidth F ns obj rel sub request global o o' Hnr H Hc He Ha H'.
  destruct (allowed_of (o_res o')) eqn:E; auto. exfalso.
  assert (Hh : Holds cfg nid d sub (ns, obj, rel)) by (eapply check_sound; eauto; now apply no_rewrites_nf).
  apply (check_correct_plain _ _ _ _ _ _ _ _ _ _ _ _ Hnr H Hc He) in Hh. congruence.
Qed.
(* With '!' the "never allowed when denied" clause is not proved in Coq; it is decided by fault injection at every
   storage-call position of the real engine (FAULT suite). *)
