(* C14 — Concurrent requests do not interfere with each other. *)
From Coq Require Import List Arith.
From Coq Require Import NArith ZArith Bool.
From Keto Require Import Base.Bytes Store.Sql Engine.Ast Conc.Interleave Engine.Engine Engine.Frame Api.Transports Api.TransportsProofs.
Import ListNotations.

(* requests whose steps read the shared store and touch only their own state: under EVERY schedule request i is in
   exactly the state it reaches alone after the quanta it was given *)
Theorem C14_schedule_independent : forall (store pst res : Type) (tstep : store -> pst -> pst + res) st sch ts i d,
  i < length ts ->
  nth i (run_sched store pst res tstep st ts sch) d = alone store pst res tstep (count_occ Nat.eq_dec sch i) st (nth i ts d).
Proof. exact schedule_independent. Qed.
(* ... hence it returns exactly the answer it returns alone, under every schedule that lets it finish *)
Theorem C14_same_answer : forall (store pst res : Type) (tstep : store -> pst -> pst + res) st sch ts i d k r,
  i < length ts -> alone store pst res tstep k st (nth i ts d) = inr r -> k <= count_occ Nat.eq_dec sch i ->
  nth i (run_sched store pst res tstep st ts sch) d = inr r.
Proof. exact same_answer. Qed.
(* batch check: one worker per tuple writing its own slot; the slice does not depend on the completion order *)
Theorem C14_completion_order_irrelevant : forall (A : Type) (init : list A) ws1 ws2,
  NoDup (map fst ws1) -> NoDup (map fst ws2) -> (forall w, In w ws1 <-> In w ws2) ->
  (forall i, i < length init -> exists x, In (i, x) ws1) -> fill A init ws1 = fill A init ws2.
Proof. exact @completion_order_irrelevant. Qed.
(* batch answers are the single answers, entry by entry *)
Theorem C14_batch_pointwise : forall rt es, length (observe_batch rt es) = length es /\
  forall i e, nth_error es i = Some e -> nth_error (observe_batch rt es) i = Some (observe rt e).
Proof. exact batch_pointwise. Qed.
(* every check starts without a visited set in its context (a fresh set is allocated on first use) *)
Theorem C14_check_starts_private : vh ctx0 = None /\ heap est0 = [].
Proof. split; reflexivity. Qed.
(* the hypothesis "private state" is necessary: with ONE visited list for two requests the second answer changes *)
Theorem C14_shared_visited_refuted :
  let g := [(0, [1]); (1, [2])] in
  reach_private g 0 2 = true /\ reach_shared_second g 0 7 0 2 = false.
Proof. exact shared_visited_interferes. Qed.

(* the evaluation state of a check is private, on the engine model: started in ANY state other requests left behind
   (their visited sets P on the heap, k storage operations counted, any flags) the check returns what it returns from
   the empty state, changes its own part of the state in the same way, and leaves P exactly as it was; the fault plan
   is indexed by the check's own operation count *)
Theorem C14_check_state_is_private : forall cfg strict nid d maxWidth (F : nat -> bool) sub P k b1 b2 b3 gas ns obj rel depth skip,
  match check_allowed cfg strict nid d maxWidth F sub gas ctx0 ns obj rel depth skip est0 with
  | None => check_allowed cfg strict nid d maxWidth (F' F k) sub gas ctx0 ns obj rel depth skip (start_state P k b1 b2 b3) = None
  | Some (r, t) =>
    exists t', check_allowed cfg strict nid d maxWidth (F' F k) sub gas ctx0 ns obj rel depth skip (start_state P k b1 b2 b3) = Some (r, t') /\
               heap t' = P ++ heap t /\ calls t' = k + calls t /\
               cut t' = b1 || cut t /\ cut_neg t' = b2 || cut_neg t /\ revisit t' = b3 || revisit t
  end.
Proof. exact check_state_is_private. Qed.
Theorem C14_other_requests_untouched : forall cfg strict nid d maxWidth (F : nat -> bool) sub P k b1 b2 b3 gas ns obj rel depth skip r t',
  check_allowed cfg strict nid d maxWidth (F' F k) sub gas ctx0 ns obj rel depth skip (start_state P k b1 b2 b3) = Some (r, t') ->
  firstn (length P) (heap t') = P.
Proof. exact other_requests_visited_sets_untouched. Qed.
(* a batch evaluated entry after entry on ONE shared evaluation state: every entry gets exactly the answer it gets alone *)
Theorem C14_batch_entries_answer_as_alone : forall cfg strict nid d maxWidth gas qs s l u,
  run_batch cfg strict nid d maxWidth gas qs s = Some (l, u) ->
  Forall2 (fun q r => exists t, alone_q cfg strict nid d maxWidth gas q = Some (r, t)) qs l.
Proof. exact batch_entries_answer_as_alone. Qed.
Theorem C14_batch_runs_when_entries_run : forall cfg strict nid d maxWidth gas qs s,
  Forall (fun q => alone_q cfg strict nid d maxWidth gas q <> None) qs -> run_batch cfg strict nid d maxWidth gas qs s <> None.
Proof. exact batch_runs_when_entries_run. Qed.
