(* C14 — Concurrent requests do not interfere with each other. *)
From Coq Require Import List Arith.
From Keto Require Import Conc.Interleave Engine.Engine Api.Transports Api.TransportsProofs.
Import ListNotations.

(* requests whose steps read the shared store and touch only their own state: under EVERY schedule request i is in
   exactly the state it reaches alone after the quanta it was given *)
Theorem C14_schedule_independent : forall (store pst res : Type) (tstep : store -> pst -> pst + res) st sch ts i d,
  i < length ts ->
  nth i (run_sched store pst res tstep st ts sch) d = alone store pst res tstep (count_occ Nat.eq_dec sch i) st (nth i ts d).
Proof. exact schedule_independent. Qed.
(* ... hence it returns exactly the answer it returns alone, under every schedule that lets it finish *)
Theorem C14_same_answer : forall (store pst res : Type) (tstep : store -> pst -> pst + res) st sch ts i d k r,
  i < length ts -> alone store pst res tstep k st (nth i ts d) = inr r -> k <= count_occ Nat.eq_dec sch i ->
  nth i (run_sched store pst res tstep st ts sch) d = inr r.
Proof. exact same_answer. Qed.
(* batch check: one worker per tuple writing its own slot; the slice does not depend on the completion order *)
Theorem C14_completion_order_irrelevant : forall (A : Type) (init : list A) ws1 ws2,
  NoDup (map fst ws1) -> NoDup (map fst ws2) -> (forall w, In w ws1 <-> In w ws2) ->
  (forall i, i < length init -> exists x, In (i, x) ws1) -> fill A init ws1 = fill A init ws2.
Proof. exact @completion_order_irrelevant. Qed.
(* batch answers are the single answers, entry by entry *)
Theorem C14_batch_pointwise : forall rt es, length (observe_batch rt es) = length es /\
  forall i e, nth_error es i = Some e -> nth_error (observe_batch rt es) i = Some (observe rt e).
Proof. exact batch_pointwise. Qed.
(* every check starts without a visited set in its context (a fresh set is allocated on first use) *)
Theorem C14_check_starts_private : vh ctx0 = None /\ heap est0 = [].
Proof. split; reflexivity. Qed.
(* the hypothesis "private state" is necessary: with ONE visited list for two requests the second answer changes *)
Theorem C14_shared_visited_refuted :
  let g := [(0, [1]); (1, [2])] in
  reach_private g 0 2 = true /\ reach_shared_second g 0 7 0 2 = false.
Proof. exact shared_visited_interferes. Qed.
