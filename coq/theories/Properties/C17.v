(* C17 — The read API never modifies stored state. *)
From Coq Require Import List NArith ZArith String Bool.
From Keto Require Import Base.Bytes Api.Codec Store.Sql Store.Mapping Store.Api Store.ApiProofs Store.MappingProofs.
From Keto Require Gen.Generated.
Import ListNotations.

(* the route table regenerated from the source: no handler reachable from the read or syntax API uses the writing Mapper() *)
Definition read_routes_ro : bool :=
  forallb (fun r => match Generated.rt_api r with
                    | Generated.ReadAPI | Generated.SyntaxAPI => negb (Generated.rt_uses_rw_mapper r)
                    | _ => true end) Generated.routes.
Lemma read_routes_ro_true : read_routes_ro = true. Proof. vm_compute. reflexivity. Qed.
Theorem C17_read_routes_use_ro : forall r, In r Generated.routes ->
  Generated.rt_api r = Generated.ReadAPI \/ Generated.rt_api r = Generated.SyntaxAPI -> Generated.rt_uses_rw_mapper r = false.
Proof.
  intros r Hr Ha. pose proof read_routes_ro_true as H. unfold read_routes_ro in H. rewrite forallb_forall in H.
  specialize (H r Hr). destruct Ha as [-> | ->] in H; now apply negb_true_iff in H.
Qed.
(* the table is not trivially empty: the write API is there and does use the writing mapper *)
Example C17_table_nonvacuous :
  existsb (fun r => Generated.rt_uses_rw_mapper r) Generated.routes = true /\ 15 <= List.length Generated.routes.
Proof. vm_compute. split; [reflexivity|]. repeat constructor. Qed.

(* model: the read-only mapper issues no statement at all *)
Theorem C17_ro_mapper_no_statements : forall names nid ts its stmts,
  FromTuple names true nid ts = ROk (its, stmts) -> stmts = [].
Proof. intros names nid ts its stmts H. apply FromTuple_spec in H as (_ & _ & ->). reflexivity. Qed.
(* model: list requests (REST and gRPC, valid or not) return the state unchanged, both tables *)
Theorem C17_list_no_effect : forall names nid f d v size tok q zsize,
  fst (step names nid f d (OpListREST v size tok)) = d /\ fst (step names nid f d (OpListGRPC q zsize tok)) = d.
Proof.
  intros. split; cbn [step].
  - destruct (query_from_url v); try reflexivity. destruct size; reflexivity.
  - destruct q; reflexivity.
Qed.
