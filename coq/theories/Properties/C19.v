(* C19 — Namespace configuration reloads are keep-last-good and never partial. *)
From Coq Require Import List.
From Keto Require Import Base.Bytes Conf.Watcher Conf.WatcherProofs.
Import ListNotations.

(* for both watchers (legacy one-namespace-per-file, and OPL after fix D14) and every history of file events
   (valid content, invalid content, removal; any files, any order): each file's effective version is the last
   valid version written since the file was last removed *)
Theorem C19_refines_last_good : forall step, (step = legacy_step \/ step = opl_step) ->
  forall evs s f, good (wget (fold_left step evs s) f) = last_good evs f (good (wget s f)).
Proof. exact watcher_refines. Qed.
(* invalid content keeps the last valid version of that file, and of every other file *)
Theorem C19_keep_last_good : forall step, (step = legacy_step \/ step = opl_step) ->
  forall s f g, good (wget (step s (WChange g None)) f) = good (wget s f).
Proof. exact keep_last_good. Qed.
(* valid content takes effect (in the model: with the event; in the implementation: eventually, see the WATCH suite) *)
Theorem C19_valid_takes_effect : forall step, (step = legacy_step \/ step = opl_step) ->
  forall s f ns, good (wget (step s (WChange f (Some ns))) f) = Some ns.
Proof. exact valid_takes_effect. Qed.
(* an event on one file never changes what another file contributes *)
Theorem C19_other_files_untouched : forall step, (step = legacy_step \/ step = opl_step) ->
  forall s e f, (match e with WChange g _ | WRemove g => bytes_eqb g f | WTouch => false end) = false -> good (wget (step s e) f) = good (wget s f).
Proof. exact other_files_untouched. Qed.
(* never partial: the visible namespaces are, file by file, the whole last valid version *)
Theorem C19_visible : forall step, (step = legacy_step \/ step = opl_step) ->
  forall evs, let s := fold_left step evs [] in
  visible s = flat_map (fun f => ns_of (last_good evs f None)) (map fst s).
Proof. exact visible_history. Qed.
Theorem C19_never_nothing : forall s f ns, good (wget s f) = Some ns -> In f (map fst s).
Proof. exact valid_version_is_tracked. Qed.
(* an edit of the main configuration file that does not concern the namespaces changes nothing (fix D21) *)
Theorem C19_config_touch : forall step, (step = legacy_step \/ step = opl_step) -> forall s, step s WTouch = s.
Proof. exact config_touch_changes_nothing. Qed.
