(* C18 — Relationship encodings are faithful on their documented domains.
   Only statements; every proof is [exact lemma]. *)
From Coq Require Import List.
From Keto Require Import Base.Bytes Api.Codec Api.CodecProofs.
Import ListNotations.

(* decode (encode x) = x for URL query parameters, all byte strings *)
Theorem C18_url_query_roundtrip : forall q, atmost_one_subject q = true -> query_from_url (query_to_url q) = Ok q.
Proof. exact url_query_roundtrip. Qed.
Theorem C18_url_tuple_roundtrip : forall t, one_subject t = true -> tuple_from_url (tuple_to_url t) = Ok t.
Proof. exact url_tuple_roundtrip. Qed.
(* protobuf, both decoders; subject id / subject set distinction preserved *)
Theorem C18_proto_tuple_roundtrip : forall t, one_subject t = true ->
  exists p, tuple_to_proto t = Ok p /\ tuple_from_proto p = Ok t /\ tuple_from_data_provider p = Ok t.
Proof. exact proto_tuple_roundtrip. Qed.
Theorem C18_proto_query_roundtrip : forall q, atmost_one_subject q = true -> query_from_data_provider (query_to_proto q) = q.
Proof. exact proto_query_roundtrip. Qed.
Theorem C18_proto_subject_kind : forall p t, tuple_from_data_provider p = Ok t ->
  (exists s, p_sub p = Some (Some (PId s)) /\ t_sid t = Some s /\ t_sset t = None) \/
  (exists n o r, p_sub p = Some (Some (PSet n o r)) /\ t_sid t = None /\ t_sset t = Some {| ss_ns := n; ss_obj := o; ss_rel := r |}).
Proof. exact proto_subject_kind. Qed.
Theorem C18_proto_decoders_total : forall p, tuple_from_proto p <> Panic /\ tuple_from_data_provider p <> Panic.
Proof. exact proto_decoders_total. Qed.
(* JSON (field presence level; encoding/json is trusted on valid UTF-8) *)
Theorem C18_json_tuple_roundtrip : forall t, tuple_from_json (tuple_to_json t) = Ok t.
Proof. exact json_tuple_roundtrip. Qed.
Theorem C18_json_query_roundtrip : forall q, query_from_json (query_to_json q) = Ok q.
Proof. exact json_query_roundtrip. Qed.
(* the human-readable form on its domain *)
Theorem C18_string_roundtrip : forall t, dom_string t = true -> tuple_from_string (tuple_string t) = Ok t.
Proof. exact string_roundtrip. Qed.
Theorem C18_malformed_rejected : forall s,
  has COLON s = false \/ has HASH s = false \/ has AT s = false -> tuple_from_string s = Err E_MALFORMED.
Proof. exact string_malformed_rejected. Qed.
Theorem C18_parsed_has_one_subject : forall s t, tuple_from_string s = Ok t -> one_subject t = true.
Proof. exact from_string_one_subject. Qed.

(* FULL statement of the last clause of the property:
     forall s t, tuple_from_string s = Ok t -> tuple_from_string (tuple_string t) = Ok t
   It is false of the faithful model (and of the code): known finding D13. *)
Theorem C18_print_parse_idempotent_refuted :
  exists s t t', tuple_from_string s = Ok t /\ tuple_from_string (tuple_string t) = Ok t' /\ t <> t'.
Proof. exact print_parse_idempotent_refuted. Qed.
(* proved outside exactly the class that characterises D13 *)
Theorem C18_print_parse_idempotent_partial : forall s t,
  tuple_from_string s = Ok t -> d13_class t = false -> tuple_from_string (tuple_string t) = Ok t.
Proof. exact print_parse_idempotent_partial. Qed.

(* the CLI file format (cmd/relationtuple/parse.go): one relationship per line, // comments and blank lines ignored *)
Theorem C18_file_roundtrip : forall ts, forallb dom_line ts = true -> parse_file (print_file ts) = Ok ts.
Proof. exact file_roundtrip. Qed.
Theorem C18_file_skips_comment : forall row rest, is_comment (trim_ws row) = true -> parse_rows (row :: rest) = parse_rows rest.
Proof. exact file_skips_comment. Qed.
Theorem C18_file_total : forall s, parse_file s <> Panic.
Proof. exact file_total. Qed.
