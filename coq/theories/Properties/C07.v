(* C07 — Pagination returns every matching relationship exactly once. *)
From Coq Require Import List Bool NArith ZArith Permutation.
From Keto Require Import Base.Bytes Store.Sql Store.SqlProofs Store.PagingProofs Store.PagingStable.
Import ListNotations.

(* following next_page_token from the first page until it is empty: the pages concatenate to the
   matching rows in shard order (each exactly once), every page has at most page_size rows
   (0 = default), and the iteration stops exactly at the first empty token. Any size >= 0, any table. *)
Theorem C07_all_once : forall nid q size d,
  (0 <= size)%Z -> NoDup (map r_shard (rows d)) -> (forall r, In r (rows d) -> (0 < r_shard r)%N) ->
  exists pages, iterate (S (length (matching nid q d))) nid q size TokEmpty d = Some pages /\
                concat pages = matching nid q d /\
                Forall (fun p => Z.of_nat (length p) <= per_page size)%Z pages.
Proof. exact pagination_all_once. Qed.
Theorem C07_matching_is_the_filter : forall nid q d,
  Permutation (matching nid q d) (filter (fun r => in_net nid r && matches_q q r) (rows d)).
Proof. exact matching_perm. Qed.
(* one page in closed form: the first k rows after the token; token empty iff nothing is left *)
Theorem C07_page : forall nid q size tok d, (0 <= size)%Z -> tok <> TokMalformed ->
  let A := after (tok_last tok) (matching nid q d) in
  let k := Z.to_nat (per_page size) in
  GetRelationTuples nid q size tok d =
    if length A <=? k then ROk (A, TokEmpty)
    else ROk (firstn k A, TokId (r_shard (last (firstn k A) dummy_row))).
Proof. exact get_spec. Qed.
(* a malformed token is rejected (and the handlers answer 400, see Store/Api.status_of) *)
Theorem C07_bad_token : forall nid q size d, (0 <= size)%Z -> GetRelationTuples nid q size TokMalformed d = RErr E_BadToken.
Proof. exact get_bad_token. Qed.
(* a negative page size is rejected too (fix D19) *)
Theorem C07_negative_size : forall nid q size tok d, (size < 0)%Z -> GetRelationTuples nid q size tok d = RErr E_BadRequest.
Proof. exact get_negative_size. Qed.
Theorem C07_default_page_size_positive : 1 <= defaultPageSize.
Proof. exact page_size_pos. Qed.

(* STABILITY UNDER WRITES: every page is fetched from the table as it is at that moment (ds = the snapshots, any
   inserts and deletes in between).  No row id is ever returned twice, and every matching row that is present in
   all snapshots is returned: exactly once. *)
Theorem C07_stable_under_writes : forall nid q size, (0 <= size)%Z -> forall ds pages,
  (forall d, In d ds -> NoDup (map r_shard (rows d))) ->
  iterate_seq ds nid q size TokEmpty = Some pages ->
  NoDup (map r_shard (concat pages)) /\
  forall r, (0 < r_shard r)%N -> (forall d, In d ds -> In r (matching nid q d)) -> In r (concat pages).
Proof. exact stable_rows_exactly_once. Qed.
Theorem C07_ids_strictly_increase : forall nid q size, (0 <= size)%Z -> forall ds tok pages,
  (forall d, In d ds -> NoDup (map r_shard (rows d))) -> tok <> TokMalformed ->
  iterate_seq ds nid q size tok = Some pages ->
  ssorted (concat pages) /\ forall r, In r (concat pages) -> (tok_last tok < r_shard r)%N.
Proof. exact pages_strictly_increasing. Qed.
