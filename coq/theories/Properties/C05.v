(* C05 — Multi-relationship writes are atomic (all statements of a request run in one transaction). *)
From Coq Require Import List NArith.
From Keto Require Import Base.Bytes Store.Sql Store.SqlProofs.
Import ListNotations.

(* whatever statement fails (fault plan f), the state after a failed request is the state before;
   after a successful one it is the result of all statements *)
Theorem C05_all_or_nothing : forall f ss d,
  let '(d', r) := transaction f ss d in
  match r with RErr _ => d' = d | ROk _ => exec_stmts f 0 ss d = ROk d' end.
Proof. exact transaction_all_or_nothing. Qed.

(* a fault at ANY statement position makes the request fail (so, by the above, nothing is kept) *)
Theorem C05_fault_anywhere_fails : forall f ss k d, (exists i, i < length ss /\ f (k + i) = true) -> exists e, exec_stmts f k ss d = RErr e.
Proof. exact exec_fault_fails. Qed.

(* chunked DELETE (any length, across the 100-row chunks) = one exact delete *)
Theorem C05_delete_chunks_exact : forall nid ts d, has_nil_subject ts = false ->
  let d' := apply_stmts (delete_stmts nid ts) d in
  rows d' = filter (fun r => negb (del_pred nid ts r)) (rows d) /\ maps d' = maps d.
Proof. exact delete_exact. Qed.

(* the chunk sizes read from the source are positive, so chunking loses nothing *)
Theorem C05_chunk_sizes_positive : 1 <= chunkSizeInsertTuple /\ 1 <= chunkSizeDeleteTuple /\ 1 <= chunkSizeInsertUUIDMappings.
Proof. exact (conj chunk_insert_pos (conj chunk_delete_pos chunk_map_pos)). Qed.
