(* C11 — A configuration that type-checks cannot fail at check time. *)
From Coq Require Import List Bool NArith ZArith.
From Keto Require Import Base.Bytes Store.Sql Engine.Ast Engine.Engine Opl.Lexer Opl.Parser Opl.Typecheck Opl.TypecheckProofs Opl.ParserTyped.
Import ListNotations.

(* For every well-typed configuration (the predicate the type checks establish; the check verifies on every run that
   the real parser only accepts documents whose AST satisfies it), every store whose relationships conform to the
   declared types, every mode, depth and width: a check on a declared (namespace, relation) never carries an error
   (without storage faults the only error source is "relation does not exist"). *)
Theorem C11_no_schema_error : forall cfg strict nid d maxWidth sub,
  welltyped cfg = true ->
  (forall x, In x (rows d) -> in_net nid x = true -> row_conforms cfg x = true) ->
  forall gas ns obj rel request global o,
  Decl cfg ns rel ->
  CheckRelationTuple gas cfg strict nid d maxWidth (fun _ => false) ns obj rel sub request global = Some o ->
  r_err (o_res o) = false.
Proof. intros cfg strict nid d maxWidth sub WT CONF. exact (no_schema_error cfg strict nid d maxWidth sub WT CONF). Qed.
(* a declared relation is a legal goal *)
Theorem C11_declared_is_goal : forall cfg n r, declared cfg n r = true -> Decl cfg n r.
Proof. exact declared_Decl. Qed.
(* The converse clause (an undeclared reference is rejected with an error at the offending token) is decided by the
   TYPECHK suite for each of the seven reference kinds on the real parser and on the parser model (Opl/Parser.v). *)

(* THE TIE TO THE PARSER, for every source text: whatever bytes are given, if the parser (model of internal/schema:
   lexer, parser and the type checks of typechecks.go) reports no error, the namespaces it returns are well-typed.
   Proof: every reference the parser builds into the AST is covered by a registered type check (an invariant of all
   parse functions), and a passing check is exactly the corresponding clause of the predicate. *)
Theorem C11_accepted_is_welltyped : forall s, snd (Parse s) = [] -> welltyped (fst (Parse s)) = true.
Proof. exact parse_welltyped. Qed.
(* ... hence: a document accepted by the parser cannot produce a schema error at check time on conforming data *)
Theorem C11_accepted_cannot_fail : forall s strict nid d maxWidth sub,
  snd (Parse s) = [] ->
  (forall x, In x (rows d) -> in_net nid x = true -> row_conforms (fst (Parse s)) x = true) ->
  forall gas ns obj rel request global o,
  Decl (fst (Parse s)) ns rel ->
  CheckRelationTuple gas (fst (Parse s)) strict nid d maxWidth (fun _ => false) ns obj rel sub request global = Some o ->
  r_err (o_res o) = false.
Proof. intros s strict nid d maxWidth sub Hacc CONF. exact (no_schema_error (fst (Parse s)) strict nid d maxWidth sub (parse_welltyped s Hacc) CONF). Qed.
