(* C11 — A configuration that type-checks cannot fail at check time. *)
From Coq Require Import List Bool NArith ZArith.
From Keto Require Import Base.Bytes Store.Sql Engine.Ast Engine.Engine Opl.Typecheck Opl.TypecheckProofs.
Import ListNotations.

(* For every well-typed configuration (the predicate the type checks establish; the check verifies on every run that
   the real parser only accepts documents whose AST satisfies it), every store whose relationships conform to the
   declared types, every mode, depth and width: a check on a declared (namespace, relation) never carries an error
   (without storage faults the only error source is "relation does not exist"). *)
Theorem C11_no_schema_error : forall cfg strict nid d maxWidth sub,
  welltyped cfg = true ->
  (forall x, In x (rows d) -> in_net nid x = true -> row_conforms cfg x = true) ->
  forall gas ns obj rel request global o,
  Decl cfg ns rel ->
  CheckRelationTuple gas cfg strict nid d maxWidth (fun _ => false) ns obj rel sub request global = Some o ->
  r_err (o_res o) = false.
Proof. intros cfg strict nid d maxWidth sub WT CONF. exact (no_schema_error cfg strict nid d maxWidth sub WT CONF). Qed.
(* a declared relation is a legal goal *)
Theorem C11_declared_is_goal : forall cfg n r, declared cfg n r = true -> Decl cfg n r.
Proof. exact declared_Decl. Qed.
(* The converse clause (an undeclared reference is rejected with an error at the offending token) is decided by the
   TYPECHK suite for each of the seven reference kinds on the real parser and on the parser model (Opl/Parser.v). *)
