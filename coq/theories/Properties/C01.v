(* C01 — Check decisions equal the relationship-graph semantics. *)
From Coq Require Import List Bool NArith ZArith Permutation.
From Keto Require Import Base.Bytes Store.Sql Engine.Ast Engine.Engine Engine.RefSem Engine.Top.
Import ListNotations.

(* Plain-relation configurations (direct relationships, subject-set indirection, cycles, duplicates), default mode:
   whenever no limit was hit, the answer is 'allowed' EXACTLY when the subject is in the subject set (Holds),
   for every store, storage order, depth and width. *)
Theorem C01_plain_correct : forall gas cfg nid d maxWidth ns obj rel sub request global o,
  config_has_rewrites cfg = false ->
  CheckRelationTuple gas cfg false nid d maxWidth no_faults ns obj rel sub request global = Some o ->
  o_cut o = false -> r_err (o_res o) = false ->
  (allowed_of (o_res o) = true <-> Holds cfg nid d sub (ns, obj, rel)).
Proof. exact check_correct_plain. Qed.

(* the answer does not depend on storage order *)
Theorem C01_order_independent : forall gas gas' cfg nid d d' maxWidth ns obj rel sub request global o o',
  config_has_rewrites cfg = false -> Permutation (rows d) (rows d') ->
  CheckRelationTuple gas cfg false nid d maxWidth no_faults ns obj rel sub request global = Some o ->
  CheckRelationTuple gas' cfg false nid d' maxWidth no_faults ns obj rel sub request global = Some o' ->
  o_cut o = false -> o_cut o' = false -> r_err (o_res o) = false -> r_err (o_res o') = false ->
  allowed_of (o_res o) = allowed_of (o_res o').
Proof. exact check_order_independent. Qed.

(* Configurations with permission rewrites built from includes / traverse / this.permits / || / && (no '!'),
   BOTH modes, ANY depth/width/visited state: 'allowed' is always justified by the stored relationships. *)
Theorem C01_sound : forall gas cfg strict nid d maxWidth F ns obj rel sub request global o,
  config_nf cfg = true ->
  CheckRelationTuple gas cfg strict nid d maxWidth F ns obj rel sub request global = Some o ->
  allowed_of (o_res o) = true -> Holds cfg nid d sub (ns, obj, rel).
Proof. exact check_sound. Qed.

(* EXACTNESS with rewrites (unions, intersections, traversals, this.permits; no '!'), non-strict mode, no storage faults:
   a run in which no sub-check was cut by max-depth/max-width and no subject set was skipped as already visited
   answers allowed EXACTLY when the subject is in the subject set.  (Runs that skipped a visited node are covered
   for rewrite-free configurations by C01_plain_correct, and otherwise by the executable reference as an oracle.) *)
Theorem C01_exact_clean : forall gas cfg nid d maxWidth ns obj rel sub request global o,
  config_nf cfg = true ->
  CheckRelationTuple gas cfg false nid d maxWidth (fun _ => false) ns obj rel sub request global = Some o ->
  o_cut o = false -> o_revisit o = false -> r_err (o_res o) = false ->
  (r_m (o_res o) = IsMember <-> Holds cfg nid d sub (ns, obj, rel)).
Proof. exact check_exact_clean. Qed.
(* non-vacuity: an intersection over a traversal, a clean run, both answers *)
Example C01_exact_clean_nonvacuous :
  let own := [Byte.x6f] in let par := [Byte.x70] in let edt := [Byte.x65] in let view := [Byte.x76] in
  let cfg := [ {| ns_name := wDoc; ns_rels := [
      {| rel_name := own; rel_types := []; rel_rewrite := None |}; {| rel_name := par; rel_types := []; rel_rewrite := None |};
      {| rel_name := edt; rel_types := []; rel_rewrite := None |};
      {| rel_name := view; rel_types := []; rel_rewrite := Some {| rw_op := OpAnd; rw_children := [CTuple par own; CComputed edt] |} |} ] |} ] in
  let c := (1%N, [Byte.x63]) in let r := (1%N, [Byte.x72]) in
  let row sh o rl s := {| r_shard := sh; r_nid := 1; r_ns := wDoc; r_obj := o; r_rel := rl; r_sub := s |} in
  let db := {| rows := [row 2%N c par (ISet wDoc r []); row 4%N r own wbob; row 6%N c edt wbob]; maps := []; next := 1 |} in
  config_nf cfg = true /\
  (exists o, CheckRelationTuple 100 cfg false 1%N db 100 (fun _ => false) wDoc c view wbob 0 5 = Some o /\
             o_cut o = false /\ o_revisit o = false /\ r_err (o_res o) = false /\ r_m (o_res o) = IsMember) /\
  (exists o, CheckRelationTuple 100 cfg false 1%N db 100 (fun _ => false) wDoc r view wbob 0 5 = Some o /\
             o_cut o = false /\ o_revisit o = false /\ r_err (o_res o) = false /\ r_m (o_res o) = NotMember).
Proof. vm_compute. split; [reflexivity|]. split; eexists; repeat split. Qed.

(* FULL statement for configurations with rewrites (both directions, with '!'):
     o_cut o = false -> r_err (o_res o) = false -> ref cfg nid d sub gas' [] (ns,obj,rel) = Some (allowed_of (o_res o))
   The "denied => not in the set" direction with rewrites and the '!' cases are NOT proved in Coq; they are decided
   by the differential check of the real engine and the model against the executable reference [ref]
   (ENGINE suite, oracle 'denied-but-allowed-by-the-semantics-with-limits-not-binding'). *)
Definition C01_full_statement : Prop := forall gas gas' cfg strict nid d maxWidth ns obj rel sub request global o b,
  CheckRelationTuple gas cfg strict nid d maxWidth no_faults ns obj rel sub request global = Some o ->
  o_cut o = false -> r_err (o_res o) = false -> ref cfg nid d sub gas' [] (ns, obj, rel) = Some b -> allowed_of (o_res o) = b.

Example C01_nonvacuous :
  config_has_rewrites plain_cfg = false /\
  (exists o, CheckRelationTuple 100 plain_cfg false 1%N plain_db 100 no_faults wG wg1 wm wbob 0 5 = Some o /\ o_cut o = false /\ allowed_of (o_res o) = true) /\
  (exists o, CheckRelationTuple 100 plain_cfg false 1%N plain_db 100 no_faults wG wg1 wm (ISid (1%N, [Byte.x63])) 0 5 = Some o /\ o_cut o = false /\ r_err (o_res o) = false /\ allowed_of (o_res o) = false).
Proof. exact plain_example. Qed.
