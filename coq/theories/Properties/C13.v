(* C13 — No request can crash a handler; malformed requests are client errors. *)
From Coq Require Import List NArith ZArith.
From Keto Require Import Base.Bytes Api.Codec Api.CodecProofs Store.Sql Store.Mapping Store.Api Store.ApiProofs Store.Robust
  Engine.Engine Api.Transports Api.TransportsProofs.
Import ListNotations.

(* Relationship read/write handlers, over every decoded request (REST and gRPC: null elements, absent sub-messages,
   unknown namespaces, no/two subjects, any page size, any token) and every state satisfying the store invariant:
   the answer is 200/201/204/400/404 — never the panicked outcome (0) and, with a working database, never 5xx. *)
Theorem C13_status : forall names nid d o, db_inv d -> good_status (status (snd (step names nid no_faults d o))).
Proof. exact step_status. Qed.
Theorem C13_status_set : forall n, good_status n <-> In n store_statuses.
Proof. exact good_status_in. Qed.
(* every response of every history from a consistent state *)
Theorem C13_history : forall names nid ops d, db_inv d -> Forall (fun r => good_status (status r)) (snd (run names nid ops d)).
Proof. exact run_status. Qed.
(* a request that is not answered 2xx leaves BOTH tables exactly as they were *)
Theorem C13_refused_changes_nothing : forall names nid d o, db_inv d ->
  let '(d', r) := step names nid no_faults d o in is_2xx (status r) = false -> d' = d.
Proof. intros names nid d o H. pose proof (step_refines names nid d o H) as S. destruct (step names nid no_faults d o). tauto. Qed.
(* the decoders have no panicking outcome *)
Theorem C13_string_decoder_total : forall s, tuple_from_string s <> Panic.
Proof. exact string_decoder_total. Qed.
Theorem C13_url_decoders_total : forall v, query_from_url v <> Panic /\ tuple_from_url v <> Panic.
Proof. intros v; split; [apply url_query_decoder_total|apply url_tuple_decoder_total]. Qed.
Theorem C13_proto_decoders_total : forall p, tuple_from_proto p <> Panic /\ tuple_from_data_provider p <> Panic.
Proof. exact proto_decoders_total. Qed.
(* the validation loop of PATCH is total (a null element is a 400, fix D11a) *)
Theorem C13_patch_validation_total : forall ds, exists r, patch_validate ds = inl r.
Proof. exact patch_validate_total. Qed.
(* a negative page size and a malformed token are client errors (fixes D19, D12) *)
Theorem C13_negative_size : forall nid q size tok d, (size < 0)%Z -> GetRelationTuples nid q size tok d = RErr E_BadRequest.
Proof. exact Store.PagingProofs.get_negative_size. Qed.
(* check routes: a 5xx answer can only be the engine's own storage error *)
Theorem C13_check_routes : forall rt e, t_status (observe rt e) = 500 -> exists r, e = ERes r false /\ r_err r = true.
Proof. exact server_error_only_from_engine. Qed.
