(* C12 — The OPL parser is total: any input terminates with a diagnosis.
   Proved for the lexer and for the position arithmetic, on ALL byte strings; the parser proper is a fuelled model
   whose agreement with the real parser (namespaces, every error and its position) is checked on every run. *)
From Coq Require Import List Bool Arith NArith.
From Keto Require Import Base.Bytes Opl.Lexer Opl.LexerProofs Opl.SrcPos Opl.SrcPosProofs.
Import ListNotations.

(* every state function makes progress: unless it stops, an item consumes at least one byte and lies inside the input *)
Theorem C12_lex_progress : forall s pos it rest stop, lex_item s pos = (it, rest, stop) ->
  pos <= i_start it /\ i_start it <= i_end it /\ i_end it <= pos + length s /\
  length rest <= length s /\ terminal (i_typ it) = stop /\
  (stop = false -> length rest < length s /\ i_end it <= pos + (length s - length rest)).
Proof. exact lex_item_spec. Qed.
(* the lexer terminates on every byte string (invalid UTF-8, unterminated comments and strings included) after at
   most |s|+1 items, ends with EOF or exactly one error item, and all items lie inside the input *)
Theorem C12_lex_total : forall s,
  let l := lex_all s in
  l <> [] /\ length l <= S (length s) /\ Forall (within (length s)) l /\
  terminal (i_typ (last l {| i_typ := IIdent; i_val := []; i_start := 0; i_end := 0 |})) = true /\
  Forall (fun it => terminal (i_typ it) = false) (removelast l).
Proof. exact lex_all_total. Qed.
(* every reported source position: 1 <= line <= lines(s)+1, and start line <= end line whenever start <= end *)
Theorem C12_line_bounds : forall s pos, 1 <= fst (to_src_pos s pos) <= newlines s + 1.
Proof. exact line_bounds. Qed.
Theorem C12_line_monotone : forall s a b, a <= b -> fst (to_src_pos s a) <= fst (to_src_pos s b).
Proof. exact line_monotone. Qed.
