(* C12 — The OPL parser is total: any input terminates with a diagnosis.
   Proved for the lexer and for the position arithmetic, on ALL byte strings, and for the parser proper on ALL token
   lists: every loop of the parser model runs on fuel computed from the number of remaining tokens, and that fuel is
   never what stops it (any larger amount gives the same result), so every loop runs at most (remaining tokens + 1)
   times; the agreement of the model with the real parser (namespaces, every error and its position) is checked on
   every run. *)
From Coq Require Import List Bool Arith NArith.
From Keto Require Import Base.Bytes Engine.Ast Opl.Lexer Opl.LexerProofs Opl.SrcPos Opl.SrcPosProofs Opl.Parser Opl.ParserFuel.
Import ListNotations.

(* every state function makes progress: unless it stops, an item consumes at least one byte and lies inside the input *)
Theorem C12_lex_progress : forall s pos it rest stop, lex_item s pos = (it, rest, stop) ->
  pos <= i_start it /\ i_start it <= i_end it /\ i_end it <= pos + length s /\
  length rest <= length s /\ terminal (i_typ it) = stop /\
  (stop = false -> length rest < length s /\ i_end it <= pos + (length s - length rest)).
Proof. exact lex_item_spec. Qed.
(* the lexer terminates on every byte string (invalid UTF-8, unterminated comments and strings included) after at
   most |s|+1 items, ends with EOF or exactly one error item, and all items lie inside the input *)
Theorem C12_lex_total : forall s,
  let l := lex_all s in
  l <> [] /\ length l <= S (length s) /\ Forall (within (length s)) l /\
  terminal (i_typ (last l {| i_typ := IIdent; i_val := []; i_start := 0; i_end := 0 |})) = true /\
  Forall (fun it => terminal (i_typ it) = false) (removelast l).
Proof. exact lex_all_total. Qed.
(* every reported source position: 1 <= line <= lines(s)+1, and start line <= end line whenever start <= end *)
Theorem C12_line_bounds : forall s pos, 1 <= fst (to_src_pos s pos) <= newlines s + 1.
Proof. exact line_bounds. Qed.
Theorem C12_line_monotone : forall s a b, a <= b -> fst (to_src_pos s a) <= fst (to_src_pos s b).
Proof. exact line_monotone. Qed.

(* the parser proper, on every token list: the fuel of the top-level loop is never binding ... *)
Theorem C12_parser_fuel_never_binding : forall ts extra,
  parse_top (S (length ts) + extra) (ParserFuel.start ts) = parse_top (S (length ts)) (ParserFuel.start ts).
Proof. exact parser_fuel_is_never_binding. Qed.
(* ... (start ts is the state parse_tokens starts from) ... *)
Theorem C12_parse_tokens_from_start : forall ts,
  parse_tokens ts = (let p := parse_top (S (length ts)) (ParserFuel.start ts) in
                     match errs p with [] => (nss p, flat_map (run_check (nss p)) (checks p)) | es => (nss p, es) end).
Proof. exact parse_tokens_from_start. Qed.
(* ... nor is the fuel of any inner loop, at the amount the parser passes: class bodies, related blocks, permits blocks,
   type unions, permission expressions, and the flattening of rewrites *)
Theorem C12_inner_loops_fuel_never_binding : forall extra,
  (forall p, parse_class_loop (S (len p) + extra) p = parse_class_loop (S (len p)) p) /\
  (forall p, parse_related_loop (S (len p) + extra) p = parse_related_loop (S (len p)) p) /\
  (forall p, parse_permits_loop (S (len p) + extra) p = parse_permits_loop (S (len p)) p) /\
  (forall p endt acc, parse_type_union (S (len p) + extra) endt acc p = parse_type_union (S (len p)) endt acc p) /\
  (forall p final depth root expect,
     parse_exprs (S (2 * len p) + extra) final depth root expect p = parse_exprs (S (2 * len p)) final depth root expect p) /\
  (forall op cs, simplify_children (S (children_size cs) + extra) op cs = simplify_children (S (children_size cs)) op cs).
Proof. exact inner_fuel_is_never_binding. Qed.
(* the parser only moves forward: no step ever gives tokens back *)
Theorem C12_parser_moves_forward : forall ts f, len (parse_top f (ParserFuel.start ts)) <= length ts.
Proof. exact parser_only_moves_forward. Qed.
