(* The specification the user relies on for the relationship store: per network, a multiset
   (here: list up to permutation) of API relationships. No UUIDs, no SQL, no chunking. *)
From Coq Require Import List Bool Arith NArith ZArith.
From Keto Require Import Base.Bytes Api.Codec.
Import ListNotations.

Definition sset_eqb (a b : sset) : bool :=
  bytes_eqb (ss_ns a) (ss_ns b) && bytes_eqb (ss_obj a) (ss_obj b) && bytes_eqb (ss_rel a) (ss_rel b).
(* a stored relationship has exactly one subject; a request naming both is read as the subject id *)
Definition norm (t : tuple) : tuple :=
  match t_sid t with
  | Some _ => {| t_ns := t_ns t; t_obj := t_obj t; t_rel := t_rel t; t_sid := t_sid t; t_sset := None |}
  | None => t
  end.
Definition subj_eqb (a b : tuple) : bool :=
  match t_sid a, t_sid b with
  | Some x, Some y => bytes_eqb x y
  | None, None => match t_sset a, t_sset b with
                  | Some x, Some y => sset_eqb x y
                  | None, None => true
                  | _, _ => false end
  | _, _ => false
  end.
Definition tuple_eqb (a b : tuple) : bool :=
  bytes_eqb (t_ns a) (t_ns b) && bytes_eqb (t_obj a) (t_obj b) && bytes_eqb (t_rel a) (t_rel b) && subj_eqb (norm a) (norm b).

Definition omatch (o : option bytes) (x : bytes) : bool := match o with None => true | Some y => bytes_eqb y x end.
(* does stored relationship t match query q; a query naming both subject forms is read as the subject set *)
Definition matches_api (q : query) (t : tuple) : bool :=
  omatch (q_ns q) (t_ns t) && omatch (q_obj q) (t_obj t) && omatch (q_rel q) (t_rel t) &&
  match q_sset q, q_sid q with
  | Some ss, _ => match t_sid t, t_sset t with None, Some ts => sset_eqb ss ts | _, _ => false end
  | None, Some s => match t_sid t with Some x => bytes_eqb s x | None => false end
  | None, None => true
  end.

Definition spec := list tuple.    (* one network *)
Definition spec_insert (ts : list tuple) (S : spec) : spec := S ++ map norm ts.
Definition spec_delete (ts : list tuple) (S : spec) : spec := filter (fun x => negb (existsb (fun t => tuple_eqb t x) ts)) S.
Definition spec_delete_q (q : query) (S : spec) : spec := filter (fun x => negb (matches_api q x)) S.
Definition spec_transact (ins del : list tuple) (S : spec) : spec := spec_delete del (spec_insert ins S).
Definition spec_list (q : query) (S : spec) : list tuple := filter (matches_api q) S.
