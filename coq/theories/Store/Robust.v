(* C13 on the handler model: whatever the decoded request is, the handler answers with a client status
   (never the "panicked" outcome 0, never a 5xx without a storage failure), and a refused request
   leaves the store unchanged (that half is step_refines). *)
From Coq Require Import List Bool Arith NArith ZArith Lia Permutation.
From Coq Require Import Strings.Byte.
From Keto Require Import Base.Bytes Base.ListX Api.Codec Store.Sql Store.SqlProofs Store.Mapping Store.MappingProofs Store.Spec Store.Api Store.PagingProofs Store.ApiProofs.
Import ListNotations.

Lemma rows_of_err_kind nid ts : forall sh e, rows_of nid sh ts = RErr e -> e = E_NilSubject.
Proof. induction ts as [|t ts IH]; intros sh e H; cbn in H; [discriminate|].
  destruct (i_sub t); [|inversion H; reflexivity]. destruct (rows_of nid (N.succ sh) ts) eqn:E; [discriminate|]. inversion H; subst. eauto. Qed.
Lemma insert_stmts_errors nid : forall chunks sh, build_errors_are (fun e => e = E_NilSubject) (insert_stmts nid sh chunks).
Proof. induction chunks as [|c cs IH]; intros sh e H; cbn in H; [contradiction|].
  destruct (rows_of nid sh c) eqn:E; destruct H as [H|H]; try discriminate; try contradiction.
  - eapply IH; eauto. - inversion H; subst. eapply rows_of_err_kind; eauto. Qed.
Lemma delete_stmts_errors nid : forall chunks, build_errors_are (fun e => e = E_NilSubject) (delete_stmts_chunks nid chunks).
Proof. induction chunks as [|c cs IH]; intros e H; cbn in H; [contradiction|].
  destruct (has_nil_subject c); destruct H as [H|H]; try discriminate; try contradiction; try (inversion H; reflexivity). eapply IH; eauto. Qed.
Lemma map_stmts_errors nid ss : build_errors_are (fun _ => False) (map_stmts nid ss).
Proof. unfold map_stmts. intros e H. apply in_map_iff in H as [x [Hx _]]. discriminate. Qed.
Lemma transact_stmts_errors nid sh ins del : build_errors_are (fun e => e = E_NilSubject) (transact_stmts nid sh ins del).
Proof. intros e H. unfold transact_stmts, write_stmts, delete_stmts in H. apply in_app_or in H as [H|H]; [eapply insert_stmts_errors|eapply delete_stmts_errors]; eauto. Qed.

Lemma ft_strings_err names ts : forall e, ft_strings names ts = RErr e -> e = E_NotFound \/ e = E_NilSubject.
Proof.
  induction ts as [|t ts IH]; intros e Es; cbn in Es; [discriminate|].
  destruct (negb (ns_known names (t_ns t))); [inversion Es; auto|].
  destruct (t_sid t).
  - destruct (ft_strings names ts) eqn:E2; [discriminate|]. inversion Es; subst. eauto.
  - destruct (t_sset t); [|inversion Es; auto]. destruct (negb (ns_known names (ss_ns s))); [inversion Es; auto|].
    destruct (ft_strings names ts) eqn:E2; [discriminate|]. inversion Es; subst. eauto.
Qed.

Lemma tx_write_status names nid ts mk n d d' e :
  (forall its sh, build_errors_are (fun e => e = E_NilSubject) (mk its sh)) ->
  tx_write names nid no_faults ts mk n d = (d', RErr e) -> e = E_NotFound \/ e = E_NilSubject.
Proof.
  intros Hmk H. unfold tx_write in H.
  destruct (FromTuple names false nid ts) as [[its mst]|e0] eqn:Eft.
  - destruct (transaction no_faults (mst ++ mk its (next d)) d) as [d1 [[]|e1]] eqn:Et; inversion H; subst.
    right. eapply (transaction_error (fun e => e = E_NilSubject)); [|exact Et].
    apply FromTuple_spec in Eft as (_ & _ & ->). intros e0 Hin. apply in_app_or in Hin as [Hin|Hin].
    + exfalso. eapply map_stmts_errors; eauto. + eapply Hmk; eauto.
  - inversion H; subst. unfold FromTuple in Eft. destruct (ft_strings names ts) eqn:Es; [discriminate|]. inversion Eft; subst.
    eapply ft_strings_err; eauto.
Qed.

Lemma good_of_tx e : e = E_NotFound \/ e = E_NilSubject -> good_status (status_of e).
Proof. intros [->| ->]; cbn; unfold good_status; auto 8. Qed.

Lemma patch_validate_total ds : exists r, patch_validate ds = inl r.
Proof. induction ds as [|[[a [t|]]|] ds IH]; cbn; eauto.
  destruct (negb _); eauto. destruct a; eauto; destruct IH as [r ->]; destruct r; eauto. Qed.

Lemma patch_validate_err ds : forall e, patch_validate ds = inl (RErr e) -> e = E_BadRequest \/ e = E_NilSubject.
Proof. induction ds as [|[[a [t|]]|] ds IH]; cbn; intros e H; try (inversion H; auto; fail).
  destruct (negb _); [inversion H; auto|]. destruct a; try (inversion H; auto; fail).
  all: destruct (patch_validate ds) as [[l|e0]|[]]; inversion H; subst; eauto. Qed.

Lemma FromQuery_err names nid q e : FromQuery names nid q = RErr e -> e = E_NotFound.
Proof. unfold FromQuery. destruct (q_ns q) as [n|]; [destruct (ns_known names n)|]; cbv zeta iota.
  all: try (intros H; inversion H; reflexivity).
  all: destruct (q_sid q), (q_sset q) as [ss|]; try discriminate.
  all: destruct (negb (ns_known names (ss_ns ss))); intros H; inversion H; reflexivity. Qed.

Lemma In_removelast {A} (l : list A) x : In x (removelast l) -> In x l.
Proof. induction l as [|a l IH]; cbn; [tauto|]. destruct l; [cbn; tauto|]. intros [->|H]; [now left|right; now apply IH]. Qed.

Lemma getrel_rows nid q size tok d rs nt : GetRelationTuples nid q size tok d = ROk (rs, nt) -> forall r, In r rs -> In r (rows d).
Proof.
  intros Eg. unfold GetRelationTuples in Eg. destruct (size <? 0)%Z; [discriminate|].
  assert (Hsub : forall last x, In x (filter (fun r => (last <? r_shard r)%N) (matching nid q d)) -> In x (rows d)).
  { intros last x Hx. apply filter_In in Hx as [Hx _]. eapply Permutation_in in Hx; [|apply matching_perm]. apply filter_In in Hx; tauto. }
  destruct tok as [|n|]; [| |discriminate]; cbv zeta in Eg.
  all: match type of Eg with context [filter ?p (matching ?a ?b ?c)] => set (A := filter p (matching a b c)) in *; specialize (Hsub _ : forall x, In x A -> In x (rows d)) end.
  all: match type of Eg with context [match ?g with [] => _ | _ => _ end] => set (got := g) in * end.
  all: assert (Hgot : forall x, In x got -> In x A) by (intros x Hx; unfold got in Hx; destruct (per_page size + 1 <? 0)%Z; [exact Hx | eapply In_firstn; exact Hx]).
  all: clearbody got; destruct got as [|g0 g']; [inversion Eg; subst; intros r []|].
  all: destruct (per_page size <? Z.of_nat (length (g0 :: g')))%Z; [|inversion Eg; subst; intros r Hr; apply Hsub, Hgot; exact Hr].
  all: destruct (rev (removelast (g0 :: g'))) as [|z zs]; inversion Eg; subst; intros r Hr; apply Hsub, Hgot, In_removelast; exact Hr.
Qed.

Lemma getrel_err nid q size tok d e : GetRelationTuples nid q size tok d = RErr e -> e = E_BadRequest \/ e = E_BadToken.
Proof.
  unfold GetRelationTuples. destruct (size <? 0)%Z; [intros H; inversion H; auto|].
  destruct tok; try (intros H; inversion H; auto; fail); cbv zeta.
  all: repeat match goal with |- context [match ?x with _ => _ end] => destruct x end; discriminate.
Qed.

Lemma do_list_status nid iq size tok d : db_inv d ->
  (forall e, iq = RErr e -> e = E_NotFound) ->
  good_status (status (do_list nid iq size tok d)).
Proof.
  intros (Hrw & Hmw & Hmc) Hiq. unfold do_list. destruct iq as [q|e].
  2:{ rewrite (Hiq e eq_refl). cbn. unfold good_status; auto 8. }
  destruct (GetRelationTuples nid q size tok d) as [[rs nt]|e] eqn:Eg.
  - rewrite (ToTuple_rows d rs Hmw); [cbn; unfold good_status; auto|].
    intros r Hr. apply Hmc. eapply getrel_rows; eauto.
  - apply getrel_err in Eg as [->| ->]; cbn; unfold good_status; auto 8.
Qed.

Lemma good_status_in n : good_status n <-> In n store_statuses.
Proof. unfold good_status, store_statuses; cbn; intuition. Qed.

(* ---- the C13 statement on the handler model ---- *)
Theorem step_status names nid d o : db_inv d -> good_status (status (snd (step names nid no_faults d o))).
Proof.
  intros Hinv.
  assert (G400 : good_status 400) by (unfold good_status; auto 8).
  assert (G200 : good_status 200) by (unfold good_status; auto 8).
  assert (G201 : good_status 201) by (unfold good_status; auto 8).
  assert (G204 : good_status 204) by (unfold good_status; auto 8).
  destruct o as [t|v be|ds|ds|[pq|]|v size tok|[pq|] size tok]; cbn [step].
  - destruct (negb (one_subject t || _)); [exact G400|].
    destruct (tx_write names nid no_faults [t] _ 1 d) as [d1 [[]|e]] eqn:E; cbn; [exact G201|].
    apply good_of_tx. eapply tx_write_status; [|exact E]. intros its sh. unfold write_stmts. apply insert_stmts_errors.
  - destruct (negb _ || negb _ || negb be); [exact G400|].
    destruct (query_from_url v) as [q| |]; [|exact G400|exact G400].
    destruct (FromQuery names nid q) as [iq|e] eqn:Efq; [|cbn; apply FromQuery_err in Efq; subst; cbn; unfold good_status; auto 8].
    destruct (DeleteAllRelationTuples no_faults nid iq d) as [d1 [[]|e]] eqn:E; cbn; [exact G204|].
    unfold DeleteAllRelationTuples, transaction in E. cbn in E. discriminate.
  - destruct (patch_validate_total ds) as [r Hr]. rewrite Hr. destruct r as [l|e].
    + destruct (split_deltas l) as [ins del].
      destruct (tx_write names nid no_faults (ins ++ del) _ (length ins) d) as [d1 [[]|e]] eqn:E; cbn; [exact G204|].
      apply good_of_tx. eapply tx_write_status; [|exact E]. intros its sh. apply transact_stmts_errors.
    + cbn. apply patch_validate_err in Hr as [->| ->]; cbn; exact G400.
  - destruct (transact_tuples AInsert ds) as [ins|e1]; [|exact G400].
    destruct (transact_tuples ADelete ds) as [del|e2]; [|exact G400].
    destruct (tx_write names nid no_faults (ins ++ del) _ (length ins) d) as [d1 [[]|e]] eqn:E; cbn; [exact G200|].
    apply good_of_tx. eapply tx_write_status; [|exact E]. intros its sh. apply transact_stmts_errors.
  - destruct (FromQuery names nid (query_from_data_provider pq)) as [iq|e] eqn:Efq; [|cbn; apply FromQuery_err in Efq; subst; cbn; unfold good_status; auto 8].
    destruct (DeleteAllRelationTuples no_faults nid iq d) as [d1 [[]|e]] eqn:E; cbn; [exact G200|].
    unfold DeleteAllRelationTuples, transaction in E. cbn in E. discriminate.
  - exact G400.
  - destruct (query_from_url v); [|exact G400|exact G400].
    destruct size; [|exact G400|]; cbn [snd]; apply do_list_status; auto; intros e He; eapply FromQuery_err; eauto.
  - cbn [snd]. apply do_list_status; auto; intros e He; eapply FromQuery_err; eauto.
  - exact G400.
Qed.

(* every response of a whole history *)
Theorem run_status names nid ops : forall d, db_inv d -> Forall (fun r => good_status (status r)) (snd (run names nid ops d)).
Proof.
  induction ops as [|o ops IH]; intros d Hinv; cbn [run]; [constructor|].
  pose proof (step_refines names nid d o Hinv) as Hs. pose proof (step_status names nid d o Hinv) as Hg.
  destruct (step names nid no_faults d o) as [d1 x]. destruct Hs as (Hi1 & _).
  specialize (IH d1 Hi1). destruct (run names nid ops d1) as [d2 xs]. constructor; assumption.
Qed.
