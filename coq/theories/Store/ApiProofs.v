(* C04: the handlers refine the per-network multiset specification (Store/Spec.v). *)
From Coq Require Import List Bool Arith NArith ZArith Lia Permutation.
From Coq Require Import Strings.Byte.
From Keto Require Import Base.Bytes Base.ListX Api.Codec Store.Sql Store.SqlProofs Store.Mapping Store.MappingProofs Store.Spec Store.Api Store.PagingProofs.
Import ListNotations.

(* ---- abstraction: the API view of the rows of one network ---- *)
Definition sub_api (s : isub) : option bytes * option sset :=
  match s with
  | ISid u => (Some (snd u), None)
  | ISet n o r => (None, Some {| ss_ns := n; ss_obj := snd o; ss_rel := r |})
  end.
Definition row_api (r : row) : tuple :=
  {| t_ns := r_ns r; t_obj := snd (r_obj r); t_rel := r_rel r;
     t_sid := fst (sub_api (r_sub r)); t_sset := snd (sub_api (r_sub r)) |}.
Definition abs (nid : N) (d : db) : spec := map row_api (filter (in_net nid) (rows d)).

Definition sub_wf (nid : N) (s : isub) : Prop := match s with ISid u => fst u = nid | ISet _ o _ => fst o = nid end.
Definition row_wf (r : row) : Prop := fst (r_obj r) = r_nid r /\ sub_wf (r_nid r) (r_sub r).
Definition rows_wf (d : db) : Prop := Forall row_wf (rows d).

Lemma uid_eqb_uuid5 nid s (u : uid) : fst u = nid -> uid_eqb (uuid5 nid s) u = bytes_eqb s (snd u).
Proof. destruct u as [n x]; cbn. intros ->. unfold uid_eqb, uuid5; cbn. now rewrite N.eqb_refl. Qed.

Lemma has_subject_dec (t : tuple) : {t_sid t = None /\ t_sset t = None} + {one_subject (norm t) = true}.
Proof. destruct t as [n o r [sid|] [ss|]]; cbn; auto. Qed.

(* the OR-list comparison of buildDelete is equality of API relationships *)
Lemma row_is_direct nid t r : row_wf r -> r_nid r = nid -> row_is (direct nid t) r = tuple_eqb t (row_api r).
Proof.
  intros [Ho Hs] Hn. rewrite Hn in *. unfold row_is, direct, tuple_eqb, row_api; cbn [i_ns i_obj i_rel i_sub t_ns t_obj t_rel].
  rewrite uid_eqb_uuid5 by exact Ho.
  destruct (bytes_eqb (t_ns t) (r_ns r)); cbn [andb]; [|reflexivity].
  destruct (bytes_eqb (t_obj t) (snd (r_obj r))); cbn [andb]; [|reflexivity].
  destruct (bytes_eqb (t_rel t) (r_rel r)); cbn [andb]; [|reflexivity].
  destruct t as [tn tob tr [sid|] [[sn so sr]|]]; destruct (r_sub r) as [u|n o rl]; cbn in *;
    unfold subj_eqb, norm, sset_eqb; cbn; rewrite ?uid_eqb_uuid5 by exact Hs; try reflexivity.
Qed.

Lemma row_api_direct nid sh t s :
  i_sub (direct nid t) = Some s ->
  row_api {| r_shard := sh; r_nid := nid; r_ns := t_ns t; r_obj := uuid5 nid (t_obj t); r_rel := t_rel t; r_sub := s |} = norm t.
Proof.
  destruct t as [tn tob tr [sid|] [[sn so sr]|]]; unfold direct, row_api, norm; cbn; intros H; inversion H; subst; cbn; reflexivity.
Qed.

(* ---- executing statement lists that succeeded ---- *)
Lemma exec_ok_apply ss : forall k d d', exec_stmts no_faults k ss d = ROk d' -> d' = apply_stmts ss d.
Proof.
  induction ss as [|s ss IH]; intros k d d' H; cbn in *; [inversion H; reflexivity|].
  destruct (exec_stmt s d) as [d1|] eqn:E; [|discriminate]. eauto.
Qed.
Lemma exec_app ss1 ss2 : forall k d d', exec_stmts no_faults k (ss1 ++ ss2) d = ROk d' ->
  exists d1, exec_stmts no_faults k ss1 d = ROk d1 /\ exec_stmts no_faults (k + length ss1) ss2 d1 = ROk d'.
Proof.
  induction ss1 as [|s ss1 IH]; intros k d d' H; cbn in *.
  - exists d. rewrite Nat.add_0_r. auto.
  - destruct (exec_stmt s d) as [d0|] eqn:E; [|discriminate].
    apply IH in H as [d1 [H1 H2]]. exists d1. split; auto. replace (k + S (length ss1)) with (S k + length ss1) by lia. exact H2.
Qed.

Lemma exec_map_stmts nid strs0 k d d' : exec_stmts no_faults k (map_stmts nid strs0) d = ROk d' ->
  rows d' = rows d /\ (maps_wf (maps d) -> maps_wf (maps d')) /\ next d' = next d.
Proof.
  intros H. apply exec_ok_apply in H. subst d'. unfold map_stmts.
  destruct (apply_map_stmts (chunk chunkSizeInsertUUIDMappings (dedupe_ids (map (fun s => (uuid5 nid s, s)) strs0))) d) as [Hr Hm].
  split; [exact Hr|]. split.
  - intros Hwf. rewrite Hm, concat_chunk by apply chunk_map_pos. apply insert_absent_wf; auto.
    intros u s Hin. apply dedupe_sub in Hin. apply in_map_iff in Hin as [x [E _]]. inversion E; reflexivity.
  - clear. generalize (chunk chunkSizeInsertUUIDMappings (dedupe_ids (map (fun s => (uuid5 nid s, s)) strs0))).
    intros cs. revert d. induction cs as [|c cs IH]; intros d; cbn; auto. rewrite IH. reflexivity.
Qed.

(* INSERT chunks that all succeeded *)
Lemma exec_insert_chunks nid (ts_of : list (list tuple)) : forall sh k d d',
  exec_stmts no_faults k (insert_stmts nid sh (map (map (direct nid)) ts_of)) d = ROk d' ->
  exists R, rows d' = rows d ++ R /\ maps d' = maps d /\ map row_api R = map norm (concat ts_of) /\
            Forall (fun r => r_nid r = nid /\ row_wf r) R.
Proof.
  induction ts_of as [|c cs IH]; intros sh k d d' H; cbn [map insert_stmts] in H.
  - cbn in H. inversion H; subst. exists []. rewrite app_nil_r. repeat split; auto.
  - destruct (rows_of nid sh (map (direct nid) c)) as [rs|e] eqn:Er; [|cbn in H; discriminate].
    cbn [exec_stmts no_faults exec_stmt] in H.
    apply IH in H as (R & H1 & H2 & H3 & H4). cbn [rows maps] in *.
    exists (rs ++ R). rewrite H1, <- app_assoc. split; [reflexivity|]. split; [exact H2|].
    assert (G : map row_api rs = map norm c /\ Forall (fun r => r_nid r = nid /\ row_wf r) rs).
    { clear - Er. revert sh rs Er. induction c as [|t c IHc]; intros sh rs Er; cbn [map rows_of] in Er.
      - inversion Er; subst. split; constructor.
      - destruct (i_sub (direct nid t)) as [s|] eqn:Es; [|discriminate].
        destruct (rows_of nid (N.succ sh) (map (direct nid) c)) as [rs'|] eqn:Er'; [|discriminate].
        inversion Er; subst. destruct (IHc _ _ Er') as [G1 G2]. split.
        + cbn [map]. rewrite G1. f_equal. cbn [i_ns i_obj i_rel direct]. now apply row_api_direct.
        + constructor; [|exact G2]. split; [reflexivity|]. split; cbn; [reflexivity|].
          unfold direct in Es; cbn in Es. destruct (t_sid t), (t_sset t); inversion Es; subst; cbn; reflexivity. }
    destruct G as [G1 G2]. split.
    + rewrite map_app, G1, H3. cbn [concat]. now rewrite map_app.
    + apply Forall_app. split; assumption.
Qed.

Lemma map_chunk {A B} (f : A -> B) n (l : list A) : chunk n (map f l) = map (map f) (chunk n l).
Proof.
  unfold chunk. rewrite map_length. generalize (length l) as fuel. intros fuel. revert l.
  induction fuel as [|fuel IH]; intros l; cbn; [reflexivity|].
  destruct l as [|a l]; cbn [map]; [reflexivity|].
  change (f a :: map f l) with (map f (a :: l)). rewrite firstn_map, skipn_map, IH. reflexivity.
Qed.

Lemma abs_app_own nid R rest :
  Forall (fun r => r_nid r = nid /\ row_wf r) R ->
  map row_api (filter (in_net nid) (rest ++ R)) = map row_api (filter (in_net nid) rest) ++ map row_api R.
Proof.
  intros H. rewrite filter_app, map_app. f_equal. f_equal. apply filter_true.
  intros r Hr. rewrite Forall_forall in H. destruct (H r Hr) as [E _]. unfold in_net. rewrite E. apply N.eqb_refl.
Qed.

(* ---- create ---- *)
Theorem create_refines names nid t d :
  rows_wf d -> maps_wf (maps d) ->
  let '(d', r) := step names nid no_faults d (OpCreate t) in
  (status r = 201 -> abs nid d' = spec_insert [t] (abs nid d) /\ rows_wf d' /\ maps_wf (maps d') /\
                     forallb (valid_tuple names) [t] = true) /\
  (status r <> 201 -> d' = d).
Proof.
  intros Hrw Hmw. cbn [step].
  destruct (negb (one_subject t || _)) eqn:Ev; [split; [cbn; intros; discriminate|reflexivity]|].
  unfold tx_write. destruct (FromTuple names false nid [t]) as [[its mst]|e] eqn:Eft.
  2:{ split; [cbn; destruct e; intros; discriminate|reflexivity]. }
  apply FromTuple_spec in Eft as (Hv & -> & ->).
  unfold transaction. destruct (exec_stmts no_faults 0 _ d) as [d1|e] eqn:Eex.
  2:{ split; [cbn; destruct e; intros; discriminate|reflexivity]. }
  split; [|cbn; intros; congruence]. intros _.
  apply exec_app in Eex as (dm & Em & Ew).
  apply exec_map_stmts in Em as (Hr1 & Hm1 & _).
  unfold write_stmts in Ew. rewrite map_chunk in Ew.
  apply exec_insert_chunks in Ew as (R & H1 & H2 & H3 & H4).
  rewrite concat_chunk in H3 by apply chunk_insert_pos.
  unfold abs, bump; cbn [rows maps]. rewrite H1, Hr1. split; [|split; [|split]].
  - rewrite (abs_app_own nid) by exact H4. rewrite H3. reflexivity.
  - unfold rows_wf; cbn [rows]. apply Forall_app. split; [exact Hrw|]. eapply Forall_impl; [|exact H4]. cbn; tauto.
  - rewrite H2. auto.
  - exact Hv.
Qed.

(* ---- the mapping table covers every id that occurs in a row ---- *)
Definition sub_uid (s : isub) : uid := match s with ISid u => u | ISet _ o _ => o end.
Definition maps_complete (d : db) : Prop :=
  forall r, In r (rows d) -> In (r_obj r) (map fst (maps d)) /\ In (sub_uid (r_sub r)) (map fst (maps d)).
Definition db_inv (d : db) : Prop := rows_wf d /\ maps_wf (maps d) /\ maps_complete d.

Lemma exec_map_stmts_keys nid strs0 k d d' : exec_stmts no_faults k (map_stmts nid strs0) d = ROk d' ->
  (forall u, In u (map fst (maps d)) -> In u (map fst (maps d'))) /\
  (forall s, In s strs0 -> In (uuid5 nid s) (map fst (maps d'))).
Proof.
  intros H. apply exec_ok_apply in H. subst d'. unfold map_stmts.
  destruct (apply_map_stmts (chunk chunkSizeInsertUUIDMappings (dedupe_ids (map (fun s => (uuid5 nid s, s)) strs0))) d) as [_ Hm].
  rewrite Hm, concat_chunk by apply chunk_map_pos. split.
  - intros u Hu. apply in_map_iff in Hu as [p [<- Hp]]. apply in_map. now apply insert_absent_keeps.
  - intros s Hs. apply insert_absent_has. apply dedupe_keeps_ids. rewrite map_map. cbn. apply in_map_iff. eauto.
Qed.

Lemma strs_in_obj t ts : In t ts -> In (t_obj t) (strs ts) /\ In (sub_str t) (strs ts).
Proof. intros H. unfold strs. split; apply in_flat_map; exists t; cbn; auto. Qed.

(* rows produced from [direct nid t] mention only ids of strs *)
Lemma rows_of_direct_ids nid c : forall sh rs, rows_of nid sh (map (direct nid) c) = ROk rs ->
  forall r, In r rs -> exists t, In t c /\ r_obj r = uuid5 nid (t_obj t) /\ sub_uid (r_sub r) = uuid5 nid (sub_str t).
Proof.
  induction c as [|t c IHc]; intros sh rs Er r Hin; cbn [map rows_of] in Er.
  - inversion Er; subst. contradiction.
  - destruct (i_sub (direct nid t)) as [s|] eqn:Es; [|discriminate].
    destruct (rows_of nid (N.succ sh) (map (direct nid) c)) as [rs'|] eqn:Er'; [|discriminate].
    inversion Er; subst. destruct Hin as [<-|Hin].
    + exists t. split; [now left|]. cbn. split; [reflexivity|].
      unfold direct in Es; cbn in Es. unfold sub_str. destruct (t_sid t), (t_sset t); inversion Es; subst; reflexivity.
    + destruct (IHc _ _ Er' r Hin) as [t' [Ht' Hx]]. exists t'. split; [now right|exact Hx].
Qed.
Lemma insert_chunks_ids nid (ts_of : list (list tuple)) : forall sh k d d',
  exec_stmts no_faults k (insert_stmts nid sh (map (map (direct nid)) ts_of)) d = ROk d' ->
  forall r, In r (rows d') -> In r (rows d) \/
    exists t, In t (concat ts_of) /\ r_obj r = uuid5 nid (t_obj t) /\ sub_uid (r_sub r) = uuid5 nid (sub_str t).
Proof.
  induction ts_of as [|c cs IH]; intros sh k d d' H r Hr; cbn [map insert_stmts] in H.
  - cbn in H. inversion H; subst. now left.
  - destruct (rows_of nid sh (map (direct nid) c)) as [rs|e] eqn:Er; [|cbn in H; discriminate].
    cbn [exec_stmts no_faults exec_stmt] in H.
    destruct (IH _ _ _ _ H r Hr) as [Hin|[t [Ht Hx]]].
    + cbn [rows] in Hin. apply in_app_or in Hin as [Hin|Hin]; [now left|]. right.
      destruct (rows_of_direct_ids nid c _ _ Er r Hin) as [t [Ht Hx]]. exists t. split; auto. cbn. apply in_or_app. now left.
    + right. exists t. split; auto. cbn. apply in_or_app. now right.
Qed.

(* ---- delete chunks ---- *)
Lemma direct_has_subject names nid ts : forallb (valid_tuple names) ts = true -> has_nil_subject (map (direct nid) ts) = false.
Proof.
  unfold has_nil_subject. induction ts as [|t ts IH]; cbn; intros H; [reflexivity|]. apply andb_true_iff in H as [Ht H]. rewrite (IH H).
  unfold valid_tuple in Ht. apply andb_true_iff in Ht as [_ Ht]. destruct (t_sid t), (t_sset t); cbn; auto; discriminate.
Qed.

Lemma exec_delete nid its k d d' : has_nil_subject its = false ->
  exec_stmts no_faults k (delete_stmts nid its) d = ROk d' ->
  rows d' = filter (fun r => negb (del_pred nid its r)) (rows d) /\ maps d' = maps d.
Proof. intros Hn H. apply exec_ok_apply in H. subst d'. now apply delete_exact. Qed.

Lemma del_pred_api nid del r : row_wf r -> in_net nid r = true ->
  del_pred nid (map (direct nid) del) r = existsb (fun t => tuple_eqb t (row_api r)) del.
Proof.
  intros Hw Hn. unfold del_pred. rewrite Hn. cbn [andb]. rewrite existsb_map_compat.
  apply existsb_ext_in'. intros t _. apply row_is_direct; auto. unfold in_net in Hn. now apply N.eqb_eq in Hn.
Qed.

Lemma firstn_map_app {A B} (f : A -> B) a b : firstn (length a) (map f (a ++ b)) = map f a.
Proof. rewrite map_app. rewrite <- (map_length f a). rewrite firstn_app, Nat.sub_diag, firstn_all. cbn. apply app_nil_r. Qed.
Lemma skipn_map_app {A B} (f : A -> B) a b : skipn (length a) (map f (a ++ b)) = map f b.
Proof. rewrite map_app. rewrite <- (map_length f a). rewrite skipn_app, Nat.sub_diag, skipn_all. reflexivity. Qed.

Lemma valid_app names a b : forallb (valid_tuple names) (a ++ b) = true ->
  forallb (valid_tuple names) a = true /\ forallb (valid_tuple names) b = true.
Proof. rewrite forallb_app. apply andb_true_iff. Qed.

(* the core of create / patch / transact: one transaction = mapping inserts, INSERT chunks, DELETE chunks *)
Theorem tx_refines names nid ins del d d' :
  db_inv d ->
  tx_write names nid no_faults (ins ++ del)
    (fun its sh => transact_stmts nid sh (firstn (length ins) its) (skipn (length ins) its)) (length ins) d = (d', ROk tt) ->
  abs nid d' = spec_transact ins del (abs nid d) /\ db_inv d' /\
  forallb (valid_tuple names) (ins ++ del) = true /\
  (forall B, B <> nid -> filter (in_net B) (rows d') = filter (in_net B) (rows d)).
Proof.
  intros (Hrw & Hmw & Hmc) H. unfold tx_write in H.
  destruct (FromTuple names false nid (ins ++ del)) as [[its mst]|e] eqn:Eft; [|discriminate].
  apply FromTuple_spec in Eft as (Hv & -> & ->).
  rewrite firstn_map_app, skipn_map_app in H.
  unfold transaction in H. destruct (exec_stmts no_faults 0 _ d) as [d1|e] eqn:Eex; [|discriminate].
  inversion H; subst d'; clear H.
  apply exec_app in Eex as (dm & Em & Ew).
  pose proof (exec_map_stmts_keys _ _ _ _ _ Em) as [Hkeep Hnew].
  apply exec_map_stmts in Em as (Hr1 & Hm1 & _).
  unfold transact_stmts in Ew. apply exec_app in Ew as (di & Ei & Ed).
  unfold write_stmts in Ei. rewrite map_chunk in Ei.
  pose proof (insert_chunks_ids _ _ _ _ _ _ Ei) as Hids.
  apply exec_insert_chunks in Ei as (R & H1 & H2 & H3 & H4).
  rewrite concat_chunk in H3, Hids by apply chunk_insert_pos.
  destruct (valid_app _ _ _ Hv) as [Hvi Hvd].
  apply exec_delete in Ed as [H5 H6]; [|eapply direct_has_subject; eauto].
  assert (Hwf_i : Forall row_wf (rows di)).
  { rewrite H1, Hr1. apply Forall_app. split; [exact Hrw|]. eapply Forall_impl; [|exact H4]. cbn; tauto. }
  split; [|split; [|split]].
  - (* abstraction *)
    unfold abs, bump, spec_transact, spec_insert, spec_delete; cbn [rows]. rewrite H5, H1, Hr1.
    rewrite filter_filter.
    rewrite (filter_ext_in' _ (fun r => negb (existsb (fun t => tuple_eqb t (row_api r)) del) && in_net nid r)).
    2:{ intros r Hr. destruct (in_net nid r) eqn:En; [|now rewrite !andb_false_r].
        rewrite !andb_true_r. f_equal. apply del_pred_api; auto.
        rewrite <- Hr1, <- H1 in Hr. rewrite Forall_forall in Hwf_i. auto. }
    rewrite (filter_ext _ (fun r => in_net nid r && negb (existsb (fun t => tuple_eqb t (row_api r)) del))) by (intros; apply andb_comm).
    rewrite <- (filter_filter (fun r => negb (existsb (fun t => tuple_eqb t (row_api r)) del)) (in_net nid)).
    rewrite <- (filter_map_comm row_api (fun x => negb (existsb (fun t => tuple_eqb t x) del))).
    f_equal. rewrite abs_app_own by exact H4. now rewrite H3.
  - (* invariant *)
    unfold db_inv, bump; cbn [rows maps]. split; [|split].
    + unfold rows_wf. rewrite H5. rewrite Forall_forall in *. intros r Hr. apply filter_In in Hr as [Hr _]. auto.
    + rewrite H6, H2. auto.
    + intros r Hr. rewrite H5 in Hr. apply filter_In in Hr as [Hr _]. rewrite H6, H2.
      destruct (Hids r Hr) as [Hold|[t [Ht [Eo Es]]]].
      * rewrite Hr1 in Hold. destruct (Hmc r Hold). split; apply Hkeep; auto.
      * assert (Ht' : In t (ins ++ del)) by (apply in_or_app; now left).
        destruct (strs_in_obj t _ Ht') as [Ho Hsu]. rewrite Eo, Es. split; apply Hnew; auto.
  - exact Hv.
  - intros B HB. cbn [rows bump]. rewrite H5, H1, Hr1.
    rewrite filter_filter. rewrite filter_app.
    rewrite (filter_false _ R).
    2:{ intros r Hr. rewrite Forall_forall in H4. destruct (H4 r Hr) as [E _]. unfold del_pred, in_net. rewrite E.
        destruct (N.eqb_spec nid B); [congruence|]. now rewrite andb_false_r. }
    rewrite app_nil_r. apply filter_ext_in'. intros r _. unfold del_pred, in_net.
    destruct (N.eqb_spec (r_nid r) B); [|now rewrite andb_false_r].
    destruct (N.eqb_spec (r_nid r) nid); [congruence|]. reflexivity.
Qed.

(* ---- queries ---- *)
Lemma FromQuery_matches names nid q iq r :
  FromQuery names nid q = ROk iq -> row_wf r -> r_nid r = nid -> matches_q iq r = matches_api q (row_api r).
Proof.
  intros H [Ho Hs] Hn. rewrite Hn in *. unfold FromQuery in H.
  destruct (match q_ns q with Some n => if ns_known names n then ROk tt else RErr E_NotFound | None => ROk tt end) as [[]|]; [|discriminate].
  assert (Hobj : opt_match uid_eqb (option_map (uuid5 nid) (q_obj q)) (r_obj r) = omatch (q_obj q) (snd (r_obj r))).
  { destruct (q_obj q); cbn; [now apply uid_eqb_uuid5|reflexivity]. }
  unfold matches_q, matches_api, row_api; cbn [t_ns t_obj t_rel t_sid t_sset].
  destruct (q_sset q) as [ss|] eqn:Ess.
  - destruct (ns_known names (ss_ns ss)); cbn in H; [|destruct (q_sid q); discriminate].
    assert (iq = {| iq_ns := q_ns q; iq_obj := option_map (uuid5 nid) (q_obj q); iq_rel := q_rel q;
                    iq_sub := Some (ISet (ss_ns ss) (uuid5 nid (ss_obj ss)) (ss_rel ss)) |}) as -> by (destruct (q_sid q); inversion H; reflexivity).
    cbn [iq_ns iq_obj iq_rel iq_sub]. rewrite Hobj. unfold opt_match at 1 2, omatch.
    f_equal. cbn [opt_match]. destruct (r_sub r) as [u|n o rl]; cbn; [reflexivity|].
    unfold sset_eqb; cbn. cbn in Hs. now rewrite uid_eqb_uuid5 by exact Hs.
  - destruct (q_sid q) as [sid|] eqn:Esid; inversion H; subst; cbn [iq_ns iq_obj iq_rel iq_sub]; rewrite Hobj; unfold opt_match at 1 2, omatch; f_equal.
    cbn [opt_match]. destruct (r_sub r) as [u|n o rl]; cbn; [|reflexivity]. cbn in Hs. now rewrite uid_eqb_uuid5 by exact Hs.
Qed.

Theorem delete_q_refines names nid q iq d d' :
  db_inv d -> FromQuery names nid q = ROk iq ->
  DeleteAllRelationTuples no_faults nid iq d = (d', ROk tt) ->
  abs nid d' = spec_delete_q q (abs nid d) /\ db_inv d' /\
  (forall B, B <> nid -> filter (in_net B) (rows d') = filter (in_net B) (rows d)).
Proof.
  intros (Hrw & Hmw & Hmc) Hq H. unfold DeleteAllRelationTuples, transaction in H. cbn in H. inversion H; subst d'; clear H.
  split; [|split].
  - unfold abs, spec_delete_q; cbn [rows]. rewrite filter_filter.
    rewrite (filter_ext_in' _ (fun r => in_net nid r && negb (matches_api q (row_api r)))).
    2:{ intros r Hr. destruct (in_net nid r) eqn:En; cbn; [|reflexivity].
        rewrite andb_true_r. f_equal. eapply FromQuery_matches; eauto.
        - unfold rows_wf in Hrw; rewrite Forall_forall in Hrw; auto. - unfold in_net in En. now apply N.eqb_eq in En. }
    rewrite <- (filter_filter (fun r => negb (matches_api q (row_api r))) (in_net nid)).
    now rewrite <- (filter_map_comm row_api (fun x => negb (matches_api q x))).
  - unfold db_inv; cbn [rows maps]. split; [|split; [exact Hmw|]].
    + unfold rows_wf in *; cbn. rewrite Forall_forall in *. intros r Hr. apply filter_In in Hr as [Hr _]. auto.
    + intros r Hr. cbn in Hr. apply filter_In in Hr as [Hr _]. auto.
  - intros B HB. cbn [rows]. rewrite filter_filter. apply filter_ext_in'. intros r _. unfold in_net.
    destruct (N.eqb_spec (r_nid r) B); [|now rewrite andb_false_r].
    destruct (N.eqb_spec (r_nid r) nid); [congruence|]. reflexivity.
Qed.

(* ---- listing: every page shows the exact strings that were written ---- *)
Definition row_strs (rs : list row) : list bytes := flat_map (fun r => [snd (sub_uid (r_sub r)); snd (r_obj r)]) rs.
Lemma tt_ids_rows rs : tt_ids (map to_ituple rs) = flat_map (fun r => [sub_uid (r_sub r); r_obj r]) rs.
Proof. induction rs as [|r rs IH]; cbn; [reflexivity|]. destruct (r_sub r); cbn; now rewrite IH. Qed.
Lemma tt_build_rows rs : forall pre i, length pre = 2 * i ->
  tt_build (pre ++ row_strs rs) i (map to_ituple rs) = Some (map row_api rs).
Proof.
  induction rs as [|r rs IH]; intros pre i Hl; cbn [tt_build row_strs flat_map map app]; [reflexivity|].
  rewrite (nth_error_app_len1 pre _ _ _ (2 * i) Hl).
  specialize (IH (pre ++ [snd (sub_uid (r_sub r)); snd (r_obj r)]) (S i)). rewrite <- app_assoc in IH. cbn [app] in IH. unfold row_strs in IH.
  rewrite IH by (rewrite app_length; cbn; lia).
  rewrite (nth_error_app_len pre _ _ (2 * i) Hl).
  unfold to_ituple, row_api; cbn. destruct (r_sub r); cbn; reflexivity.
Qed.
Theorem ToTuple_rows d rs : maps_wf (maps d) ->
  (forall r, In r rs -> In (r_obj r) (map fst (maps d)) /\ In (sub_uid (r_sub r)) (map fst (maps d))) ->
  ToTuple (map to_ituple rs) d = Some (map row_api rs).
Proof.
  intros Hwf Hc. unfold ToTuple, MapUUIDsToStrings. rewrite tt_ids_rows.
  rewrite batch_lookup; [|apply page_size_pos|apply Hwf].
  replace (map (fun u => mlookup u (maps d)) (flat_map (fun r => [sub_uid (r_sub r); r_obj r]) rs)) with (row_strs rs).
  - apply (tt_build_rows rs [] 0). reflexivity.
  - unfold row_strs. induction rs as [|r rs IH]; cbn; [reflexivity|].
    destruct (Hc r (or_introl eq_refl)) as [H1 H2]. rewrite !mlookup_wf by auto. f_equal. f_equal. apply IH. intros; apply Hc; now right.
Qed.

Lemma matching_api names nid q iq d : db_inv d -> FromQuery names nid q = ROk iq ->
  Permutation (map row_api (matching nid iq d)) (spec_list q (abs nid d)).
Proof.
  intros (Hrw & _ & _) Hq. rewrite (Permutation_map row_api (matching_perm nid iq d)).
  unfold spec_list, abs. rewrite filter_map_comm.
  rewrite <- filter_filter.
  rewrite (filter_ext_in' (matches_q iq) (fun r => matches_api q (row_api r)) (filter (in_net nid) (rows d))); [reflexivity|].
  intros r Hr. apply filter_In in Hr as [Hr En]. eapply FromQuery_matches; eauto.
  - unfold rows_wf in Hrw; rewrite Forall_forall in Hrw; auto. - unfold in_net in En. now apply N.eqb_eq in En.
Qed.

(* following the page tokens of a list request returns exactly the relationships the multiset model predicts *)
Theorem list_refines names nid q iq size d :
  db_inv d -> FromQuery names nid q = ROk iq -> (0 <= size)%Z ->
  NoDup (map r_shard (rows d)) -> (forall r, In r (rows d) -> (0 < r_shard r)%N) ->
  exists pages, iterate (S (length (matching nid iq d))) nid iq size TokEmpty d = Some pages /\
    Forall (fun p => (Z.of_nat (length p) <= per_page size)%Z /\ ToTuple (map to_ituple p) d = Some (map row_api p)) pages /\
    Permutation (map row_api (concat pages)) (spec_list q (abs nid d)).
Proof.
  intros Hinv Hq Hsz Hnd Hpos.
  destruct (pagination_all_once nid iq size d Hsz Hnd Hpos) as (pages & H1 & H2 & H3).
  exists pages. split; [exact H1|]. split.
  - rewrite Forall_forall in *. intros p Hp. split; [auto|].
    destruct Hinv as (_ & Hmw & Hmc). apply ToTuple_rows; auto. intros r Hr. apply Hmc.
    assert (In r (matching nid iq d)) by (rewrite <- H2; apply in_concat; eauto).
    eapply Permutation_in in H; [|apply matching_perm]. apply filter_In in H. tauto.
  - rewrite H2. eapply matching_api; eauto.
Qed.

(* ---- every write operation, as one step of a history ---- *)
Definition is_2xx (n : nat) : bool := (200 <=? n) && (n <? 300).

Definition op_effect (o : op) (S : spec) : spec :=
  match o with
  | OpCreate t => spec_insert [t] S
  | OpDeleteREST v _ => match query_from_url v with Ok q => spec_delete_q q S | _ => S end
  | OpPatch ds => match patch_validate ds with
                  | inl (ROk l) => spec_transact (fst (split_deltas l)) (snd (split_deltas l)) S
                  | _ => S end
  | OpTransact ds => match transact_tuples AInsert ds, transact_tuples ADelete ds with
                     | ROk i, ROk dl => spec_transact i dl S
                     | _, _ => S end
  | OpDeleteGRPC (Some pq) => spec_delete_q (query_from_data_provider pq) S
  | _ => S
  end.

Lemma delete_stmts_nil nid : delete_stmts nid [] = [].
Proof. reflexivity. Qed.

Lemma tx_write_create_eq names nid f t d :
  tx_write names nid f [t] (fun its sh => write_stmts nid sh its) 1 d =
  tx_write names nid f ([t] ++ []) (fun its sh => transact_stmts nid sh (firstn (length [t]) its) (skipn (length [t]) its)) (length [t]) d.
Proof.
  unfold tx_write. cbn [app length]. destruct (FromTuple names false nid [t]) as [[its mst]|e] eqn:E; [|reflexivity].
  apply FromTuple_spec in E as (_ & -> & _). cbn [map firstn skipn]. unfold transact_stmts. rewrite delete_stmts_nil, app_nil_r. reflexivity.
Qed.

Lemma spec_transact_nil t S : spec_transact [t] [] S = spec_insert [t] S.
Proof. unfold spec_transact, spec_delete. apply filter_true. intros; reflexivity. Qed.

Lemma tx_write_err_or_ok names nid f ts mk n d : snd (tx_write names nid f ts mk n d) = ROk tt \/ exists e, snd (tx_write names nid f ts mk n d) = RErr e.
Proof. destruct (snd (tx_write names nid f ts mk n d)) as [[]|e]; eauto. Qed.

Theorem step_refines names nid d o :
  db_inv d ->
  let '(d', r) := step names nid no_faults d o in
  db_inv d' /\
  abs nid d' = (if is_2xx (status r) then op_effect o (abs nid d) else abs nid d) /\
  (forall B, B <> nid -> filter (in_net B) (rows d') = filter (in_net B) (rows d)) /\
  (is_2xx (status r) = false -> d' = d).
Proof.
  intros Hinv.
  Local Ltac same := (split; [eassumption|]; split; [reflexivity|]; split; auto).
  assert (Hsame : forall n, db_inv d /\ abs nid d = (if is_2xx n then abs nid d else abs nid d) /\
                            (forall B, B <> nid -> filter (in_net B) (rows d) = filter (in_net B) (rows d)) /\ (is_2xx n = false -> d = d)).
  { intros n. split; [exact Hinv|]. split; [now destruct (is_2xx n)|]. split; auto. }
  destruct o as [t|v be|ds|ds|[pq|]|v size tok|[pq|] size tok]; cbn [step].
  - (* create *)
    destruct (negb (one_subject t || _)); [apply (Hsame 400)|].
    rewrite tx_write_create_eq.
    destruct (tx_write names nid no_faults ([t] ++ []) _ (length [t]) d) as [d1 [[]|e]] eqn:E.
    + destruct (tx_refines _ _ _ _ _ _ Hinv E) as (H1 & H2 & _ & H4). cbn [status r_status is_2xx Nat.leb Nat.ltb].
      split; [exact H2|]. split; [|split; [exact H4|discriminate]]. rewrite H1. cbn. apply spec_transact_nil.
    + cbn [status r_status]. destruct e; cbn; same.
  - (* REST delete *)
    destruct (negb _ || negb _ || negb be); [apply (Hsame 400)|].
    destruct (query_from_url v) as [q| |] eqn:Eq; [|apply (Hsame 400)|apply (Hsame 400)].
    destruct (FromQuery names nid q) as [iq|e] eqn:Efq; [|destruct e; cbn; same].
    destruct (DeleteAllRelationTuples no_faults nid iq d) as [d1 [[]|e]] eqn:E.
    + destruct (delete_q_refines _ _ _ _ _ _ Hinv Efq E) as (H1 & H2 & H3). cbn. rewrite Eq. split; [exact H2|]. split; [exact H1|]. split; [exact H3|discriminate].
    + unfold DeleteAllRelationTuples, transaction in E. cbn in E. discriminate.
  - (* patch *)
    destruct (patch_validate ds) as [[l|e]|[]] eqn:Ev; [|destruct e; cbn; same|apply (Hsame 0)].
    destruct (split_deltas l) as [ins del] eqn:Es.
    destruct (tx_write names nid no_faults (ins ++ del) _ (length ins) d) as [d1 [[]|e]] eqn:E.
    + destruct (tx_refines _ _ _ _ _ _ Hinv E) as (H1 & H2 & _ & H4). cbn. rewrite Ev. cbn. unfold split_deltas in Es. inversion Es; subst ins del. split; [exact H2|]. split; [exact H1|]. split; [exact H4|discriminate].
    + destruct e; cbn; same.
  - (* gRPC transact *)
    destruct (transact_tuples AInsert ds) as [ins|e1] eqn:Ei; [|apply (Hsame 400)].
    destruct (transact_tuples ADelete ds) as [del|e2] eqn:Ed; [|apply (Hsame 400)].
    destruct (tx_write names nid no_faults (ins ++ del) _ (length ins) d) as [d1 [[]|e]] eqn:E.
    + destruct (tx_refines _ _ _ _ _ _ Hinv E) as (H1 & H2 & _ & H4). cbn. rewrite Ei, Ed. split; [exact H2|]. split; [exact H1|]. split; [exact H4|discriminate].
    + destruct e; cbn; rewrite ?Ei, ?Ed; same.
  - (* gRPC delete *)
    destruct (FromQuery names nid (query_from_data_provider pq)) as [iq|e] eqn:Efq; [|destruct e; cbn; same].
    destruct (DeleteAllRelationTuples no_faults nid iq d) as [d1 [[]|e]] eqn:E.
    + destruct (delete_q_refines _ _ _ _ _ _ Hinv Efq E) as (H1 & H2 & H3). cbn. split; [exact H2|]. split; [exact H1|]. split; [exact H3|discriminate].
    + unfold DeleteAllRelationTuples, transaction in E. cbn in E. discriminate.
  - apply (Hsame 400).
  - (* REST list: reads never change the state *)
    destruct (query_from_url v); [|apply (Hsame 400)|apply (Hsame 400)].
    destruct size; [|apply (Hsame 400)|]; cbn [fst snd]; (split; [exact Hinv|]; split; [destruct (is_2xx _); reflexivity|]; split; auto).
  - split; [exact Hinv|]; split; [destruct (is_2xx _); reflexivity|]; split; auto.
  - apply (Hsame 400).
Qed.

(* ---- whole histories (C04): by induction over the operation sequence ---- *)
Fixpoint spec_run (ops : list op) (rs : list resp) (S : spec) : spec :=
  match ops, rs with
  | o :: ops', r :: rs' => spec_run ops' rs' (if is_2xx (status r) then op_effect o S else S)
  | _, _ => S
  end.

Theorem run_refines names nid ops : forall d, db_inv d ->
  let '(d', rs) := run names nid ops d in
  db_inv d' /\ length rs = length ops /\
  abs nid d' = spec_run ops rs (abs nid d) /\
  (forall B, B <> nid -> filter (in_net B) (rows d') = filter (in_net B) (rows d)).
Proof.
  induction ops as [|o ops IH]; intros d Hinv; cbn [run].
  - split; [exact Hinv|]. repeat split; auto.
  - pose proof (step_refines names nid d o Hinv) as Hs.
    destruct (step names nid no_faults d o) as [d1 x]. destruct Hs as (Hi1 & Ha1 & Hf1 & _).
    specialize (IH d1 Hi1). destruct (run names nid ops d1) as [d2 xs]. destruct IH as (Hi2 & Hl & Ha2 & Hf2).
    split; [exact Hi2|]. split; [cbn; now rewrite Hl|]. split.
    + cbn [spec_run]. rewrite Ha2, Ha1. reflexivity.
    + intros B HB. rewrite Hf2, Hf1; auto.
Qed.

Lemma empty_db_inv : db_inv empty_db.
Proof. unfold db_inv, rows_wf, maps_wf, maps_complete; cbn. repeat split; try constructor; intros; contradiction. Qed.

(* non-vacuity: a concrete history meets the hypotheses and exercises insert, duplicate, delete *)
Example run_example :
  let n := [x6e] in let t := {| t_ns := n; t_obj := [x6f]; t_rel := [x72]; t_sid := Some [x75]; t_sset := None |} in
  let '(d', rs) := run [n] 1%N [OpCreate t; OpCreate t; OpPatch [Some (ADelete, Some t)]; OpCreate t] empty_db in
  map status rs = [201; 201; 204; 201] /\ abs 1%N d' = [t].
Proof. vm_compute. split; reflexivity. Qed.

(* ---- C13 on the handler model: no panic outcome, no 5xx without a storage failure, errors change nothing ---- *)
Definition good_status (n : nat) : Prop := n = 200 \/ n = 201 \/ n = 204 \/ n = 400 \/ n = 404.

Lemma status_of_good e : e <> E_Storage -> good_status (status_of e).
Proof. destruct e; cbn; unfold good_status; intros H; try tauto; congruence. Qed.

(* the only way a fault-free transaction fails is a statement that could not be built *)
Definition build_errors_are (P : serr -> Prop) (ss : list stmt) : Prop := forall e, In (SFailBuild e) ss -> P e.
Lemma exec_stmts_error P ss : build_errors_are P ss -> forall k d e, exec_stmts no_faults k ss d = RErr e -> P e.
Proof.
  induction ss as [|s ss IH]; intros HP k d e E; cbn [exec_stmts] in E; [discriminate|].
  change (no_faults k) with false in E. cbv iota in E.
  destruct (exec_stmt s d) as [d1|e1] eqn:Es.
  - eapply IH; [|exact E]. intros e0 H0. apply HP. now right.
  - inversion E; subst. destruct s; cbn in Es; try discriminate. inversion Es; subst. apply HP. now left.
Qed.
Lemma transaction_error P ss d d' e : build_errors_are P ss -> transaction no_faults ss d = (d', RErr e) -> P e.
Proof.
  unfold transaction. intros HP H. destruct (exec_stmts no_faults 0 ss d) as [d1|e1] eqn:E; [discriminate|]. inversion H; subst.
  eapply exec_stmts_error; eauto.
Qed.
