(* C16: names survive the string <-> UUID mapping. *)
From Coq Require Import List Bool Arith NArith ZArith Lia Permutation.
From Keto Require Import Base.Bytes Base.ListX Api.Codec Store.Sql Store.SqlProofs Store.Mapping Store.Spec.
Import ListNotations.

(* ---- injectivity ---- *)
Theorem uuid5_inj n s n' s' : uuid5 n s = uuid5 n' s' <-> n = n' /\ s = s'.
Proof. unfold uuid5. split; [intros H; inversion H; auto|intros [-> ->]; reflexivity]. Qed.

(* ---- the mapping table: keys are unique and every row maps uuid5(n, s) to s ---- *)
Definition maps_wf (m : list (uid * bytes)) : Prop :=
  NoDup (map fst m) /\ forall u s, In (u, s) m -> snd u = s.

Definition mlookup (u : uid) (table : list (uid * bytes)) : bytes :=
  match find (fun p => uid_eqb (fst p) u) table with Some p => snd p | None => [] end.

Lemma map_has_In u m : map_has u m = true <-> In u (map fst m).
Proof. unfold map_has. rewrite existsb_exists. split.
  - intros [p [Hp E]]. apply uid_eqb_eq in E. subst. now apply in_map.
  - intros H. apply in_map_iff in H as [p [E Hp]]. exists p. split; auto. subst. apply uid_eqb_refl. Qed.
Lemma map_has_false u m : map_has u m = false <-> ~ In u (map fst m).
Proof. rewrite <- map_has_In. destruct (map_has u m); intuition congruence. Qed.

Lemma nodup_snoc {A} (l : list A) (x : A) : NoDup l -> ~ In x l -> NoDup (l ++ [x]).
Proof. induction l as [|a l IH]; cbn; intros H Hn; [repeat constructor; auto|]. inversion H; subst.
  constructor; [|apply IH; auto]. intros Hin. apply in_app_or in Hin as [Hin|[<-|[]]]; auto. Qed.

Lemma insert_absent_wf ms m : maps_wf m -> (forall u s, In (u, s) ms -> snd u = s) -> maps_wf (map_insert_absent ms m).
Proof.
  revert m; induction ms as [|[u s] ms IH]; intros m Hm Hms; cbn; [exact Hm|].
  apply IH; [|intros; apply Hms; now right].
  cbn [fst]. destruct (map_has u m) eqn:E; [exact Hm|].
  destruct Hm as [Hn Hk]. split.
  - rewrite map_app. cbn. apply map_has_false in E.
    apply nodup_snoc; auto.
  - intros u' s' Hin. apply in_app_or in Hin as [Hin|[Hin|[]]]; [eauto|]. inversion Hin; subst. apply Hms. now left.
Qed.
Lemma insert_absent_keeps ms m p : In p m -> In p (map_insert_absent ms m).
Proof. revert m; induction ms as [|q ms IH]; intros m H; cbn; auto. apply IH. destruct (map_has (fst q) m); auto. apply in_or_app; now left. Qed.
Lemma insert_absent_has ms m u : In u (map fst ms) -> In u (map fst (map_insert_absent ms m)).
Proof.
  revert m; induction ms as [|q ms IH]; intros m H; cbn in *; [contradiction|].
  destruct H as [<-|H]; [|now apply IH].
  destruct (map_has (fst q) m) eqn:E.
  - apply map_has_In in E. apply in_map_iff in E as [p [Ep Hp]]. rewrite <- Ep. apply in_map. now apply insert_absent_keeps.
  - apply in_map. apply insert_absent_keeps. apply in_or_app; right; now left.
Qed.

Lemma mlookup_wf u table : maps_wf table -> In u (map fst table) -> mlookup u table = snd u.
Proof.
  intros [_ Hk] Hin. unfold mlookup. destruct (find _ table) as [p|] eqn:E.
  - apply find_some in E as [Hp He]. apply uid_eqb_eq in He. destruct p as [u' s]. cbn in *. subst. symmetry. eauto.
  - apply in_map_iff in Hin as [p [Ep Hp]]. eapply find_none in E; eauto. cbn in E. rewrite Ep, uid_eqb_refl in E. discriminate.
Qed.

(* ---- batchFromUUIDs is a position-wise lookup, for any page size >= 1 and any repeats ---- *)
Definition sc_val (id : uid) (cur : bytes) (L : list (uid * bytes)) : bytes :=
  fold_left (fun cur m => if uid_eqb id (fst m) then snd m else cur) L cur.

Lemma combine_map_snd {A B C} (g : A * B -> C) (a : list A) (b : list B) :
  combine a (map g (combine a b)) = map (fun p => (fst p, g p)) (combine a b).
Proof. revert b; induction a as [|x a IH]; intros [|y b]; cbn; auto. now rewrite IH. Qed.

Lemma map_snd_combine {A B} (a : list A) (b : list B) : length a = length b -> map snd (combine a b) = b.
Proof. revert b; induction a as [|x a IH]; intros [|y b] H; cbn in *; try lia; auto. f_equal. apply IH. lia. Qed.
Lemma scatter_length ids res m : length res = length ids -> length (scatter ids res m) = length ids.
Proof. intros H. unfold scatter. rewrite map_length, combine_length. lia. Qed.

Lemma fold_scatter ids L : forall res, length res = length ids ->
  fold_left (scatter ids) L res = map (fun p => sc_val (fst p) (snd p) L) (combine ids res).
Proof.
  induction L as [|m L IH]; intros res Hl; cbn [fold_left].
  - unfold sc_val; cbn. symmetry. now apply map_snd_combine.
  - rewrite IH by (now apply scatter_length). unfold scatter at 1. rewrite combine_map_snd, map_map.
    apply map_ext. intros [id cur]. cbn. reflexivity.
Qed.

Lemma sc_val_none id cur L : (forall m, In m L -> fst m <> id) -> sc_val id cur L = cur.
Proof. revert cur; induction L as [|m L IH]; intros cur H; cbn; auto. unfold sc_val in *. cbn.
  assert (uid_eqb id (fst m) = false) as -> by (apply uid_eqb_neq; intros E; apply (H m); [now left|auto]).
  apply IH. intros; apply H; now right. Qed.
Lemma sc_val_some id cur L v : (forall m, In m L -> fst m = id -> snd m = v) -> (exists m, In m L /\ fst m = id) -> sc_val id cur L = v.
Proof.
  revert cur; induction L as [|m L IH]; intros cur Hall [m0 [Hin Hid]]; [contradiction|].
  unfold sc_val in *. cbn [fold_left].
  destruct (uid_eqb id (fst m)) eqn:E.
  - apply uid_eqb_eq in E.
    destruct (existsb (fun x => uid_eqb id (fst x)) L) eqn:Ex.
    + apply IH; [intros; apply Hall; auto; now right|]. apply existsb_exists in Ex as [x [Hx Ex]]. apply uid_eqb_eq in Ex. eauto.
    + fold (sc_val id (snd m) L). rewrite sc_val_none.
      * apply Hall; [now left|auto].
      * intros x Hx Ex'. assert (existsb (fun x => uid_eqb id (fst x)) L = true); [|congruence].
        apply existsb_exists. exists x. split; auto. rewrite Ex'. apply uid_eqb_refl.
  - apply IH; [intros; apply Hall; auto; now right|].
    destruct Hin as [<-|Hin]; [subst; rewrite uid_eqb_refl in E; discriminate|eauto].
Qed.

Lemma uid_eq_dec' (a b : uid) : a = b \/ a <> b.
Proof. destruct (uid_eqb a b) eqn:E; [left; now apply uid_eqb_eq|right; now apply uid_eqb_neq]. Qed.

Lemma distinct_spec ids : forall seen, (forall x, In x (distinct ids seen) <-> In x ids /\ ~ In x seen).
Proof.
  induction ids as [|i ids IH]; intros seen x; cbn; [tauto|].
  destruct (existsb (uid_eqb i) seen) eqn:E.
  - apply existsb_exists in E as [y [Hy Ey]]. apply uid_eqb_eq in Ey; subst y. rewrite IH. split; [tauto|].
    intros [[<-|H] Hn]; [contradiction|tauto].
  - assert (Hni : ~ In i seen).
    { intros Hin. assert (existsb (uid_eqb i) seen = true); [|congruence]. apply existsb_exists. exists i; split; auto. apply uid_eqb_refl. }
    cbn. rewrite IH. cbn. split.
    + intros [<-|[H Hn]]; [tauto|]. split; [tauto|]. intros Hs; apply Hn; now right.
    + intros [[<-|H] Hn]; [now left|]. destruct (uid_eq_dec' i x) as [->|Hne]; [now left|]. right. split; auto. intros [E'|Hs]; [congruence|contradiction].
Qed.

Lemma fold_left_concat {A B} (f : A -> B -> A) (ls : list (list B)) (a : A) :
  fold_left (fun acc l => fold_left f l acc) ls a = fold_left f (concat ls) a.
Proof. revert a; induction ls as [|l ls IH]; intros a; cbn; auto. rewrite fold_left_app. apply IH. Qed.

Lemma fold_left_concat_map {A B C} (f : A -> B -> A) (g : C -> list B) (ls : list C) (a : A) :
  fold_left (fun acc c => fold_left f (g c) acc) ls a = fold_left f (concat (map g ls)) a.
Proof. revert a; induction ls as [|l ls IH]; intros a; cbn; auto. rewrite fold_left_app. apply IH. Qed.

Lemma nodup_fst_unique {A B} (t : list (A * B)) m p : NoDup (map fst t) -> In m t -> In p t -> fst m = fst p -> m = p.
Proof.
  induction t as [|q t IH]; cbn; intros Hnd Hm Hp E; [contradiction|]. inversion Hnd; subst.
  destruct Hm as [Hm|Hm], Hp as [Hp|Hp]; subst; auto.
  - exfalso. apply H1. rewrite E. now apply in_map.
  - exfalso. apply H1. rewrite <- E. now apply in_map.
Qed.

Theorem batch_lookup ps ids table : 1 <= ps -> NoDup (map fst table) ->
  batchFromUUIDs ps ids table = map (fun u => mlookup u table) ids.
Proof.
  intros Hps Hnd. unfold batchFromUUIDs.
  rewrite (fold_left_concat_map (scatter ids) (lookup_page table)).
  set (L := concat (map (lookup_page table) (chunk ps (distinct ids [])))).
  rewrite fold_scatter by (now rewrite repeat_length).
  assert (HL : forall m, In m L <-> In m table /\ In (fst m) ids).
  { intros m. unfold L. rewrite in_concat. split.
    - intros [l [Hl Hm]]. apply in_map_iff in Hl as [page [<- Hpage]]. unfold lookup_page in Hm.
      apply filter_In in Hm as [Hm Hex]. split; auto. apply existsb_exists in Hex as [y [Hy Ey]]. apply uid_eqb_eq in Ey. subst y.
      assert (In (fst m) (distinct ids [])).
      { rewrite <- (concat_chunk ps (distinct ids []) Hps). apply in_concat. eauto. }
      apply distinct_spec in H. tauto.
    - intros [Hm Hid]. assert (Hd : In (fst m) (distinct ids [])) by (apply distinct_spec; split; auto).
      rewrite <- (concat_chunk ps (distinct ids []) Hps) in Hd. apply in_concat in Hd as [page [Hpage Hin]].
      exists (lookup_page table page). split; [now apply in_map|]. unfold lookup_page. apply filter_In. split; auto.
      apply existsb_exists. exists (fst m). split; auto. apply uid_eqb_refl. }
  (* position-wise *)
  assert (G : forall l, (forall u, In u l -> In u ids) ->
            map (fun p => sc_val (fst p) (snd p) L) (combine l (repeat [] (length l))) = map (fun u => mlookup u table) l).
  { induction l as [|u l IHl]; intros Hsub; cbn; [reflexivity|]. f_equal; [|apply IHl; intros; apply Hsub; now right].
    unfold mlookup. destruct (find (fun p => uid_eqb (fst p) u) table) as [p|] eqn:Ef.
    - apply find_some in Ef as [Hp Ep]. apply uid_eqb_eq in Ep.
      apply sc_val_some.
      + intros m Hm Em. apply HL in Hm as [Hm _].
        (* unique keys *)
        assert (m = p) by (eapply nodup_fst_unique; eauto; congruence). now subst.
      + exists p. split; auto. apply HL. split; auto. rewrite Ep. apply Hsub. now left.
    - apply sc_val_none. intros m Hm Em. apply HL in Hm as [Hm _]. eapply find_none in Ef; eauto. cbn in Ef. rewrite Em, uid_eqb_refl in Ef. discriminate. }
  apply G. auto.
Qed.

(* ---- Mapper.FromTuple / ToTuple ---- *)
Definition sub_str (t : tuple) : bytes :=
  match t_sid t, t_sset t with Some s, _ => s | None, Some ss => ss_obj ss | None, None => [] end.
Definition strs (ts : list tuple) : list bytes := flat_map (fun t => [sub_str t; t_obj t]) ts.
Definition valid_tuple (names : list bytes) (t : tuple) : bool :=
  ns_known names (t_ns t) &&
  match t_sid t, t_sset t with None, None => false | Some _, _ => true | None, Some ss => ns_known names (ss_ns ss) end.
Definition direct (nid : N) (t : tuple) : ituple :=
  {| i_ns := t_ns t; i_obj := uuid5 nid (t_obj t); i_rel := t_rel t;
     i_sub := match t_sid t, t_sset t with
              | Some s, _ => Some (ISid (uuid5 nid s))
              | None, Some ss => Some (ISet (ss_ns ss) (uuid5 nid (ss_obj ss)) (ss_rel ss))
              | None, None => None end |}.

Lemma ft_strings_ok names ts s : ft_strings names ts = ROk s -> forallb (valid_tuple names) ts = true /\ s = strs ts.
Proof.
  revert s; induction ts as [|t ts IH]; intros s H; cbn in *; [inversion H; auto|].
  unfold valid_tuple at 1. destruct (ns_known names (t_ns t)); cbn in *; [|discriminate].
  destruct (t_sid t) as [sid|] eqn:Esid.
  - destruct (ft_strings names ts) as [s'|]; [|discriminate]. inversion H; subst. destruct (IH s' eq_refl) as [-> ->].
    unfold sub_str. rewrite Esid. split; reflexivity.
  - destruct (t_sset t) as [ss|] eqn:Ess; [|discriminate].
    destruct (ns_known names (ss_ns ss)); cbn in *; [|discriminate].
    destruct (ft_strings names ts) as [s'|]; [|discriminate]. inversion H; subst. destruct (IH s' eq_refl) as [-> ->].
    unfold sub_str. rewrite Esid, Ess. split; reflexivity.
Qed.
(* a rejected batch: some tuple is invalid (unknown namespace or no subject) *)
Lemma ft_strings_err names ts e : ft_strings names ts = RErr e -> forallb (valid_tuple names) ts = false.
Proof.
  induction ts as [|t ts IH]; intros H; cbn in *; [discriminate|].
  unfold valid_tuple at 1. destruct (ns_known names (t_ns t)); cbn in *; [|reflexivity].
  destruct (t_sid t) as [sid|].
  - destruct (ft_strings names ts); [discriminate|]. now apply IH.
  - destruct (t_sset t) as [ss|]; [|reflexivity]. destruct (ns_known names (ss_ns ss)); cbn in *; [|reflexivity].
    destruct (ft_strings names ts); [discriminate|]. now apply IH.
Qed.

Lemma nth_app_len {A} (pre : list A) x rest d n : length pre = n -> nth n (pre ++ x :: rest) d = x.
Proof. intros <-. rewrite app_nth2 by lia. now rewrite Nat.sub_diag. Qed.
Lemma nth_app_len1 {A} (pre : list A) x y rest d n : length pre = n -> nth (n + 1) (pre ++ x :: y :: rest) d = y.
Proof. intros <-. rewrite app_nth2 by lia. replace (length pre + 1 - length pre) with 1 by lia. reflexivity. Qed.
Lemma nth_error_app_len {A} (pre : list A) x rest n : length pre = n -> nth_error (pre ++ x :: rest) n = Some x.
Proof. intros <-. rewrite nth_error_app2 by lia. now rewrite Nat.sub_diag. Qed.
Lemma nth_error_app_len1 {A} (pre : list A) x y rest n : length pre = n -> nth_error (pre ++ x :: y :: rest) (n + 1) = Some y.
Proof. intros <-. rewrite nth_error_app2 by lia. replace (length pre + 1 - length pre) with 1 by lia. reflexivity. Qed.

Lemma ft_build_spec nid ts : forall pre i, length pre = 2 * i ->
  ft_build (pre ++ map (uuid5 nid) (strs ts)) i ts = map (direct nid) ts.
Proof.
  induction ts as [|t ts IH]; intros pre i Hl; cbn [ft_build strs flat_map map app]; [reflexivity|].
  cbn [map app].
  rewrite (nth_app_len1 pre _ _ _ nil_uid (2 * i) Hl), (nth_app_len pre _ _ nil_uid (2 * i) Hl).
  f_equal.
  - unfold direct. f_equal. unfold sub_str. destruct (t_sid t), (t_sset t); reflexivity.
  - specialize (IH (pre ++ [uuid5 nid (sub_str t); uuid5 nid (t_obj t)]) (S i)).
    rewrite <- app_assoc in IH. cbn [app] in IH. unfold strs in IH. apply IH. rewrite app_length. cbn. lia.
Qed.

Theorem FromTuple_spec names ro nid ts its stmts :
  FromTuple names ro nid ts = ROk (its, stmts) ->
  forallb (valid_tuple names) ts = true /\ its = map (direct nid) ts /\
  stmts = if ro then [] else map_stmts nid (strs ts).
Proof.
  unfold FromTuple. destruct (ft_strings names ts) as [s|] eqn:E; [|discriminate].
  apply ft_strings_ok in E as [Hv ->]. intros H. inversion H; subst. split; [exact Hv|]. split; [|reflexivity].
  apply (ft_build_spec nid ts [] 0). reflexivity.
Qed.
Theorem FromTuple_rejects names ro nid ts e :
  FromTuple names ro nid ts = RErr e -> forallb (valid_tuple names) ts = false.
Proof. unfold FromTuple. destruct (ft_strings names ts) eqn:E; [discriminate|]. intros _. eapply ft_strings_err; eauto. Qed.

Lemma tt_ids_direct nid ts : forallb (fun t => match t_sid t, t_sset t with None, None => false | _, _ => true end) ts = true ->
  tt_ids (map (direct nid) ts) = map (uuid5 nid) (strs ts).
Proof.
  induction ts as [|t ts IH]; cbn; intros H; [reflexivity|]. apply andb_true_iff in H as [Ht H].
  unfold sub_str. destruct (t_sid t), (t_sset t); try discriminate; cbn; now rewrite IH.
Qed.

Lemma tt_build_spec nid ts : forall pre i, length pre = 2 * i ->
  forallb (fun t => match t_sid t, t_sset t with None, None => false | _, _ => true end) ts = true ->
  tt_build (pre ++ strs ts) i (map (direct nid) ts) = Some (map norm ts).
Proof.
  induction ts as [|t ts IH]; intros pre i Hl Hv; cbn [tt_build strs flat_map map app]; [reflexivity|].
  cbn in Hv. apply andb_true_iff in Hv as [Ht Hv].
  rewrite (nth_error_app_len1 pre _ _ _ (2 * i) Hl).
  specialize (IH (pre ++ [sub_str t; t_obj t]) (S i)). rewrite <- app_assoc in IH. cbn [app] in IH. unfold strs in IH.
  rewrite IH by (auto; rewrite app_length; cbn; lia).
  rewrite (nth_error_app_len pre _ _ (2 * i) Hl).
  destruct t as [tn tob tr sid ss]. unfold direct, norm, sub_str; cbn in *.
  destruct sid as [sid|], ss as [[sn so sr]|]; try discriminate; cbn; reflexivity.
Qed.

Lemma dedupe_keeps_ids l u : In u (map fst (dedupe_ids l)) <-> In u (map fst l).
Proof.
  induction l as [|p l IH]; cbn; [tauto|]. destruct (map_has (fst p) l) eqn:E.
  - rewrite IH. split; [tauto|]. intros [<-|H]; auto. now apply map_has_In.
  - cbn. rewrite IH. tauto.
Qed.
Lemma dedupe_sub l p : In p (dedupe_ids l) -> In p l.
Proof. induction l as [|q l IH]; cbn; [tauto|]. destruct (map_has (fst q) l); cbn; intuition. Qed.

Lemma apply_map_stmts chunks : forall d,
  rows (apply_stmts (map SMapInsert chunks) d) = rows d /\
  maps (apply_stmts (map SMapInsert chunks) d) = map_insert_absent (concat chunks) (maps d).
Proof.
  induction chunks as [|c cs IH]; intros d; cbn; [auto|].
  destruct (IH {| rows := rows d; maps := map_insert_absent c (maps d); next := next d |}) as [H1 H2].
  rewrite H1, H2. cbn. split; [reflexivity|].
  clear. generalize (maps d). induction c as [|p c IHc]; intros m; cbn; auto.
Qed.

(* C16 round trip: what FromTuple wrote is what ToTuple reads, position by position, any batch size, any repeats *)
Theorem mapper_roundtrip names nid ts its stmts d :
  FromTuple names false nid ts = ROk (its, stmts) -> maps_wf (maps d) ->
  let d' := apply_stmts stmts d in
  maps_wf (maps d') /\ rows d' = rows d /\ ToTuple its d' = Some (map norm ts).
Proof.
  intros H Hwf. apply FromTuple_spec in H as (Hv & -> & ->). cbn zeta.
  unfold map_stmts. destruct (apply_map_stmts (chunk chunkSizeInsertUUIDMappings (dedupe_ids (map (fun s => (uuid5 nid s, s)) (strs ts)))) d) as [Hr Hm].
  rewrite concat_chunk in Hm by apply chunk_map_pos.
  set (d' := apply_stmts _ d) in *.
  assert (Hwf' : maps_wf (maps d')).
  { rewrite Hm. apply insert_absent_wf; auto. intros u s Hin. apply dedupe_sub in Hin. apply in_map_iff in Hin as [x [E _]]. inversion E; reflexivity. }
  split; [exact Hwf'|]. split; [exact Hr|].
  assert (Hsub : forallb (fun t => match t_sid t, t_sset t with None, None => false | _, _ => true end) ts = true).
  { clear - Hv. induction ts as [|t ts IH]; cbn in *; auto. apply andb_true_iff in Hv as [Ht Hv]. rewrite IH by auto.
    unfold valid_tuple in Ht. apply andb_true_iff in Ht as [_ Ht]. destruct (t_sid t), (t_sset t); auto. }
  unfold ToTuple, MapUUIDsToStrings. rewrite tt_ids_direct by exact Hsub.
  rewrite batch_lookup; [|apply page_size_pos|apply Hwf'].
  rewrite map_map.
  rewrite (map_ext_in _ (fun s => s)).
  - rewrite map_id. apply (tt_build_spec nid ts [] 0); auto.
  - intros s Hs. rewrite mlookup_wf; auto. rewrite Hm. apply insert_absent_has. apply dedupe_keeps_ids.
    rewrite map_map. cbn. apply in_map_iff. exists s. auto.
Qed.

(* ---- Mapper.ToTree ---- *)
Definition sub_ids (nid : N) (s : asub) : isub :=
  match s with ASid x => ISid (uuid5 nid x) | ASet n o r => ISet n (uuid5 nid o) r end.
Fixpoint tree_ids (nid : N) (t : atree) : itree :=
  match t with ANode ty s cs => INode ty (option_map (sub_ids nid) s) (map (tree_ids nid) cs) end.
Fixpoint tree_uids (t : itree) : list uid :=
  match t with INode _ s cs => node_ids s ++ flat_map tree_uids cs end.
Fixpoint tree_ns_ok (names : list bytes) (t : atree) : bool :=
  match t with ANode _ s cs =>
    match s with Some (ASet n _ _) => ns_known names n | _ => true end && forallb (tree_ns_ok names) cs end.
Fixpoint ishape (t : itree) : list N := match t with INode ty _ cs => ty :: N.of_nat (length cs) :: flat_map ishape cs end.
Fixpoint ashape (t : atree) : list N := match t with ANode ty _ cs => ty :: N.of_nat (length cs) :: flat_map ashape cs end.

Section AInd.
Variable P : atree -> Prop.
Hypothesis H : forall ty s cs, Forall P cs -> P (ANode ty s cs).
Fixpoint atree_ind' (t : atree) : P t :=
  match t with ANode ty s cs =>
    H ty s cs ((fix go (cs : list atree) : Forall P cs :=
                  match cs with [] => Forall_nil _ | c :: r => Forall_cons _ (atree_ind' c) (go r) end) cs) end.
End AInd.
Section IInd.
Variable P : itree -> Prop.
Hypothesis H : forall ty s cs, Forall P cs -> P (INode ty s cs).
Fixpoint itree_ind' (t : itree) : P t :=
  match t with INode ty s cs =>
    H ty s cs ((fix go (cs : list itree) : Forall P cs :=
                  match cs with [] => Forall_nil _ | c :: r => Forall_cons _ (itree_ind' c) (go r) end) cs) end.
End IInd.

Definition tt_children (names : list bytes) (d : db) :=
  fix go (cs : list itree) : res (list atree) :=
    match cs with
    | [] => ROk []
    | c :: r => match ToTree names d c with
                | RErr e => RErr e
                | ROk c' => match go r with RErr e => RErr e | ROk r' => ROk (c' :: r') end
                end
    end.
Lemma ToTree_unfold names d ty s cs : ToTree names d (INode ty s cs) =
  match (match s with
         | Some (ISet n _ _) => if ns_known names n then ROk tt else RErr E_NotFound
         | _ => ROk tt end) with
  | RErr e => RErr e
  | ROk _ =>
    match tt_children names d cs with
    | RErr e => RErr e
    | ROk cs' =>
      let strs := MapUUIDsToStrings (node_ids s) d in
      ROk (ANode ty (match s with
                     | Some (ISid _) => Some (ASid (nth 0 strs []))
                     | Some (ISet n _ r) => Some (ASet n (nth 0 strs []) r)
                     | None => None end) cs')
    end
  end.
Proof. reflexivity. Qed.
Lemma tt_children_nil names d : tt_children names d [] = ROk []. Proof. reflexivity. Qed.
Lemma tt_children_cons names d c r : tt_children names d (c :: r) =
  match ToTree names d c with
  | RErr e => RErr e
  | ROk c' => match tt_children names d r with RErr e => RErr e | ROk r' => ROk (c' :: r') end
  end.
Proof. reflexivity. Qed.

Lemma lookup_one d u : maps_wf (maps d) -> In u (map fst (maps d)) -> nth 0 (MapUUIDsToStrings [u] d) [] = snd u.
Proof.
  intros Hwf Hin. unfold MapUUIDsToStrings. rewrite batch_lookup; [|apply page_size_pos|apply Hwf].
  cbn [map nth]. now apply mlookup_wf.
Qed.

(* what the engine built from ids of names comes back as exactly those names, at every node, in the same shape *)
Theorem ToTree_roundtrip names nid d t :
  maps_wf (maps d) -> (forall u, In u (tree_uids (tree_ids nid t)) -> In u (map fst (maps d))) ->
  tree_ns_ok names t = true -> ToTree names d (tree_ids nid t) = ROk t.
Proof.
  intros Hwf. induction t as [ty s cs IH] using atree_ind'. intros Hin Hns.
  cbn [tree_ids]. rewrite ToTree_unfold.
  cbn [tree_ns_ok] in Hns. apply andb_true_iff in Hns as [Hn Hcs].
  cbn [tree_ids tree_uids] in Hin.
  assert (Hch : tt_children names d (map (tree_ids nid) cs) = ROk cs).
  { assert (Hin' : forall u, In u (flat_map tree_uids (map (tree_ids nid) cs)) -> In u (map fst (maps d)))
      by (intros u Hu; apply Hin, in_or_app; now right).
    clear Hin Hn. induction cs as [|c r IHr]; [reflexivity|].
    cbn [map]. rewrite tt_children_cons. cbn [forallb] in Hcs. apply andb_true_iff in Hcs as [Hc Hr].
    inversion IH as [|? ? IHc IHrest]; subst.
    rewrite IHc; [|intros u Hu; apply Hin'; cbn [map flat_map]; apply in_or_app; now left|exact Hc].
    rewrite IHr; auto. intros u Hu; apply Hin'; cbn [map flat_map]; apply in_or_app; now right. }
  destruct s as [[x|n o r]|]; cbn [option_map sub_ids node_ids] in *.
  - rewrite Hch. cbn zeta. rewrite lookup_one; [reflexivity|exact Hwf|apply Hin; now left].
  - rewrite Hn, Hch. cbn zeta. rewrite lookup_one; [reflexivity|exact Hwf|apply Hin; now left].
  - now rewrite Hch.
Qed.

(* whatever the mapping table holds: the type and the number of children of every node are untouched, and the only
   refusal is an unknown namespace of a subject set *)
Theorem ToTree_shape names d t a : ToTree names d t = ROk a -> ashape a = ishape t.
Proof.
  revert a. induction t as [ty s cs IH] using itree_ind'. intros a H. rewrite ToTree_unfold in H.
  destruct (match s with Some (ISet n _ _) => if ns_known names n then ROk tt else RErr E_NotFound | _ => ROk tt end); [|discriminate].
  destruct (tt_children names d cs) as [cs'|] eqn:Hch; [|discriminate].
  cbn zeta in H. inversion H; subst a. cbn [ashape ishape].
  assert (G : length cs' = length cs /\ flat_map ashape cs' = flat_map ishape cs).
  { clear H. revert cs' Hch. induction cs as [|c r IHr]; intros cs' Hch.
    - rewrite tt_children_nil in Hch. inversion Hch; auto.
    - rewrite tt_children_cons in Hch. inversion IH as [|? ? IHc IHrest]; subst.
      destruct (ToTree names d c) as [c'|] eqn:Hc; [|discriminate].
      destruct (tt_children names d r) as [r'|] eqn:Hr; [|discriminate].
      inversion Hch; subst cs'. destruct (IHr IHrest r' eq_refl) as [Hl Hf].
      cbn [length flat_map]. rewrite Hl, Hf, (IHc c' eq_refl). auto. }
  destruct G as [-> ->]. reflexivity.
Qed.
Theorem ToTree_rejects names d t e : ToTree names d t = RErr e -> e = E_NotFound.
Proof.
  induction t as [ty s cs IH] using itree_ind'. intros H. rewrite ToTree_unfold in H.
  destruct s as [[u|n o r]|]; try destruct (ns_known names n); try (inversion H; reflexivity);
  (destruct (tt_children names d cs) as [cs'|e'] eqn:Hch; [discriminate|]; inversion H; subst e';
   clear H; induction cs as [|c r0 IHr]; [rewrite tt_children_nil in Hch; discriminate|];
   rewrite tt_children_cons in Hch; inversion IH as [|? ? IHc IHrest]; subst;
   destruct (ToTree names d c) as [c'|e1]; [|inversion Hch; subst; now apply IHc];
   destruct (tt_children names d r0) as [r'|e2]; [discriminate|]; inversion Hch; subst; now apply IHr).
Qed.
