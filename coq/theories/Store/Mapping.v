(* Model of internal/relationtuple/uuid_mapping.go (Mapper) and the mapping-table part of
   internal/persistence/sql/uuid_mapping.go. *)
From Coq Require Import List Bool Arith NArith Lia.
From Keto Require Import Base.Bytes Base.ListX Api.Codec Store.Sql.
Import ListNotations.

Definition uuid5 (nid : N) (s : bytes) : uid := (nid, s).

Definition ns_known (names : list bytes) (n : bytes) : bool := existsb (bytes_eqb n) names.

(* ---- MapStringsToUUIDs: compute ids, then insert-if-absent the deduplicated (id, string) pairs ---- *)
Fixpoint dedupe_ids (ms : list (uid * bytes)) : list (uid * bytes) :=
  match ms with
  | [] => []
  | p :: r => if map_has (fst p) r then dedupe_ids r else p :: dedupe_ids r
  end.
Definition map_stmts (nid : N) (ss : list bytes) : list stmt :=
  map SMapInsert (chunk chunkSizeInsertUUIDMappings (dedupe_ids (map (fun s => (uuid5 nid s, s)) ss))).

(* ---- batchFromUUIDs: distinct ids, looked up page by page, scattered to every position ---- *)
Fixpoint distinct (ids : list uid) (seen : list uid) : list uid :=
  match ids with
  | [] => []
  | i :: r => if existsb (uid_eqb i) seen then distinct r seen else i :: distinct r (i :: seen)
  end.
Definition scatter (ids : list uid) (res : list bytes) (m : uid * bytes) : list bytes :=
  map (fun p => if uid_eqb (fst p) (fst m) then snd m else snd p) (combine ids res).
Definition lookup_page (table : list (uid * bytes)) (page : list uid) : list (uid * bytes) :=
  filter (fun m => existsb (uid_eqb (fst m)) page) table.
Definition batchFromUUIDs (pageSize : nat) (ids : list uid) (table : list (uid * bytes)) : list bytes :=
  fold_left (fun res page => fold_left (scatter ids) (lookup_page table page) res)
            (chunk pageSize (distinct ids []))
            (repeat [] (length ids)).
Definition MapUUIDsToStrings (ids : list uid) (d : db) : list bytes := batchFromUUIDs defaultPageSize ids (maps d).

(* ---- Mapper.FromTuple ---- *)
(* pass 1 of the loop: validation and the list s of strings, two per tuple: subject string, then object *)
Fixpoint ft_strings (names : list bytes) (ts : list tuple) : res (list bytes) :=
  match ts with
  | [] => ROk []
  | t :: r =>
    if negb (ns_known names (t_ns t)) then RErr E_NotFound else
    match t_sid t, t_sset t with
    | None, None => RErr E_NilSubject
    | Some sid, _ =>
      match ft_strings names r with ROk s => ROk (sid :: t_obj t :: s) | RErr e => RErr e end
    | None, Some ss =>
      if negb (ns_known names (ss_ns ss)) then RErr E_NotFound else
      match ft_strings names r with ROk s => ROk (ss_obj ss :: t_obj t :: s) | RErr e => RErr e end
    end
  end.
Definition nil_uid : uid := (0%N, []).
(* pass 2 (the deferred onSuccess closures): tuple i reads u[2i] and u[2i+1] *)
Fixpoint ft_build (u : list uid) (i : nat) (ts : list tuple) : list ituple :=
  match ts with
  | [] => []
  | t :: r =>
    {| i_ns := t_ns t; i_obj := nth (2 * i + 1) u nil_uid; i_rel := t_rel t;
       i_sub := match t_sid t, t_sset t with
                | Some _, _ => Some (ISid (nth (2 * i) u nil_uid))
                | None, Some ss => Some (ISet (ss_ns ss) (nth (2 * i) u nil_uid) (ss_rel ss))
                | None, None => None
                end |} :: ft_build u (S i) r
  end.
(* returns the internal tuples and the mapping statements to run (none for the read-only mapper) *)
Definition FromTuple (names : list bytes) (read_only : bool) (nid : N) (ts : list tuple) : res (list ituple * list stmt) :=
  match ft_strings names ts with
  | RErr e => RErr e
  | ROk s =>
    let u := map (uuid5 nid) s in
    ROk (ft_build u 0 ts, if read_only then [] else map_stmts nid s)
  end.

(* ---- Mapper.ToTuple ---- *)
Fixpoint tt_ids (ts : list ituple) : list uid :=
  match ts with
  | [] => []
  | t :: r => match i_sub t with
              | Some (ISid u) => u :: i_obj t :: tt_ids r
              | Some (ISet _ o _) => o :: i_obj t :: tt_ids r
              | None => i_obj t :: tt_ids r          (* no case matches a nil Subject: only the object is appended *)
              end
  end.
Fixpoint tt_build (s : list bytes) (i : nat) (ts : list ituple) : option (list tuple) :=
  match ts with
  | [] => Some []
  | t :: r =>
    match nth_error s (2 * i + 1), tt_build s (S i) r with
    | Some ob, Some rest =>
      match i_sub t with
      | Some (ISid _) =>
        match nth_error s (2 * i) with
        | Some x => Some ({| t_ns := i_ns t; t_obj := ob; t_rel := i_rel t; t_sid := Some x; t_sset := None |} :: rest)
        | None => None end
      | Some (ISet n _ rl) =>
        match nth_error s (2 * i) with
        | Some x => Some ({| t_ns := i_ns t; t_obj := ob; t_rel := i_rel t; t_sid := None;
                             t_sset := Some {| ss_ns := n; ss_obj := x; ss_rel := rl |} |} :: rest)
        | None => None end
      | None => Some ({| t_ns := i_ns t; t_obj := ob; t_rel := i_rel t; t_sid := None; t_sset := None |} :: rest)
      end
    | _, _ => None      (* index out of range: Go panics *)
    end
  end.
Definition ToTuple (ts : list ituple) (d : db) : option (list tuple) :=
  tt_build (MapUUIDsToStrings (tt_ids ts) d) 0 ts.

(* ---- Mapper.FromQuery (read-only in every caller) ---- *)
Definition FromQuery (names : list bytes) (nid : N) (q : query) : res iquery :=
  let r1 : res unit :=
    match q_ns q with
    | Some n => if ns_known names n then ROk tt else RErr E_NotFound
    | None => ROk tt
    end in
  match r1 with
  | RErr e => RErr e
  | ROk _ =>
    match q_sid q, q_sset q with
    | _, Some ss =>
      if negb (ns_known names (ss_ns ss)) then RErr E_NotFound else
      (* both SubjectID and SubjectSet given: the closures run in order, the subject set wins *)
      ROk {| iq_ns := q_ns q; iq_obj := option_map (uuid5 nid) (q_obj q); iq_rel := q_rel q;
             iq_sub := Some (ISet (ss_ns ss) (uuid5 nid (ss_obj ss)) (ss_rel ss)) |}
    | Some sid, None =>
      ROk {| iq_ns := q_ns q; iq_obj := option_map (uuid5 nid) (q_obj q); iq_rel := q_rel q;
             iq_sub := Some (ISid (uuid5 nid sid)) |}
    | None, None =>
      ROk {| iq_ns := q_ns q; iq_obj := option_map (uuid5 nid) (q_obj q); iq_rel := q_rel q; iq_sub := None |}
    end
  end.

(* ---- Mapper.ToTree (uuid_mapping.go:351): the subject of every node is looked up on its own
   (one MapUUIDsToStrings call per node, after the children), a subject set's namespace must be known ---- *)
Inductive itree := INode (ty : N) (s : option isub) (cs : list itree).
Inductive asub := ASid (s : bytes) | ASet (n o r : bytes).
Inductive atree := ANode (ty : N) (s : option asub) (cs : list atree).

Definition node_ids (s : option isub) : list uid :=
  match s with Some (ISid u) => [u] | Some (ISet _ o _) => [o] | None => [] end.

Fixpoint ToTree (names : list bytes) (d : db) (t : itree) {struct t} : res atree :=
  match t with
  | INode ty s cs =>
    match (match s with
           | Some (ISet n _ _) => if ns_known names n then ROk tt else RErr E_NotFound
           | _ => ROk tt end) with
    | RErr e => RErr e
    | ROk _ =>
      match (fix go (cs : list itree) : res (list atree) :=
               match cs with
               | [] => ROk []
               | c :: r => match ToTree names d c with
                           | RErr e => RErr e
                           | ROk c' => match go r with RErr e => RErr e | ROk r' => ROk (c' :: r') end
                           end
               end) cs with
      | RErr e => RErr e
      | ROk cs' =>
        let strs := MapUUIDsToStrings (node_ids s) d in
        ROk (ANode ty (match s with
                       | Some (ISid _) => Some (ASid (nth 0 strs []))
                       | Some (ISet n _ r) => Some (ASet n (nth 0 strs []) r)
                       | None => None end) cs')
      end
    end
  end.
