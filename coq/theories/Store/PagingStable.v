(* C07, second half: pagination while the table changes.  Each page is fetched from the database as it is at that
   moment (d_0, d_1, ...: arbitrary inserts and deletes of OTHER rows in between).  Whatever the changes:
   the concatenation of the pages is strictly increasing in the row id (no row is ever returned twice), and every
   matching row that is present in all the snapshots is returned (exactly once). *)
From Coq Require Import List Bool Arith NArith ZArith Lia Permutation.
From Keto Require Import Base.Bytes Base.ListX Store.Sql Store.SqlProofs Store.PagingProofs.
Import ListNotations.

Fixpoint iterate_seq (ds : list db) (nid : N) (q : iquery) (size : Z) (tok : token) : option (list (list row)) :=
  match ds with
  | [] => None                                   (* no snapshot left although a next-page token was handed out *)
  | d :: rest =>
    match GetRelationTuples nid q size tok d with
    | ROk (rs, TokEmpty) => Some [rs]
    | ROk (rs, nt) => option_map (cons rs) (iterate_seq rest nid q size nt)
    | RErr _ => None
    end
  end.

Lemma ssorted_le_last l : ssorted l -> forall a, In a l -> (r_shard a <= r_shard (last l dummy_row))%N.
Proof.
  induction l as [|x l IH]; intros Hs a Ha; [contradiction|]. destruct Hs as [Hx Hl].
  destruct l as [|y l']; [destruct Ha as [<-|[]]; cbn; lia|].
  change (last (x :: y :: l') dummy_row) with (last (y :: l') dummy_row).
  destruct Ha as [<-|Ha]; [|apply IH; assumption].
  assert (Hin : In (last (y :: l') dummy_row) (y :: l')).
  { clear. generalize y. induction l' as [|z l IH]; intros y0; [now left|]. right. apply IH. }
  rewrite Forall_forall in Hx. specialize (Hx _ Hin). lia.
Qed.
Lemma ssorted_app l1 l2 : ssorted l1 -> ssorted l2 -> (forall a b, In a l1 -> In b l2 -> (r_shard a < r_shard b)%N) -> ssorted (l1 ++ l2).
Proof.
  induction l1 as [|x l1 IH]; cbn; intros H1 H2 H3; [exact H2|]. destruct H1 as [Hx H1]. split.
  - apply Forall_app. split; [exact Hx|]. apply Forall_forall. intros b Hb. apply H3; [now left|exact Hb].
  - apply IH; auto.
Qed.

(* one page, characterised by the two tokens *)
Lemma page_exact nid q size tok d page nt :
  (0 <= size)%Z -> tok <> TokMalformed -> ssorted (matching nid q d) ->
  GetRelationTuples nid q size tok d = ROk (page, nt) ->
  nt <> TokMalformed /\ ssorted page /\
  (forall r, In r page -> In r (matching nid q d) /\ (tok_last tok < r_shard r)%N /\ (nt <> TokEmpty -> (r_shard r <= tok_last nt)%N)) /\
  (forall r, In r (matching nid q d) -> (tok_last tok < r_shard r)%N -> (nt = TokEmpty \/ (r_shard r <= tok_last nt)%N) -> In r page) /\
  (nt <> TokEmpty -> (tok_last tok < tok_last nt)%N).
Proof.
  intros Hsz Htok Hs Hg. rewrite get_spec in Hg by assumption. cbv zeta in Hg.
  set (A := after (tok_last tok) (matching nid q d)) in *. set (k := Z.to_nat (per_page size)) in *.
  assert (HsA : ssorted A) by (apply ssorted_filter; exact Hs).
  assert (HA : forall r, In r A <-> In r (matching nid q d) /\ (tok_last tok < r_shard r)%N).
  { intros r. unfold A, after. rewrite filter_In, N.ltb_lt. tauto. }
  destruct (Nat.leb_spec (length A) k) as [Hle|Hgt]; inversion Hg; subst; clear Hg.
  - split; [discriminate|]. split; [exact HsA|]. split; [|split].
    + intros r Hr. apply HA in Hr. split; [tauto|]. split; [tauto|congruence].
    + intros r Hr Hlt _. apply HA. auto.
    + congruence.
  - assert (Hsplit : A = firstn k A ++ skipn k A) by (symmetry; apply firstn_skipn).
    assert (Hs2 := HsA). rewrite Hsplit in Hs2. apply ssorted_app_inv in Hs2 as (Hs1 & _ & Hlt).
    assert (Hne : firstn k A <> []).
    { intros E. apply (f_equal (@length row)) in E. rewrite firstn_length in E. cbn in E.
      assert (1 <= k). { unfold k, per_page. destruct (Z.eqb_spec size 0); [pose proof page_size_pos|]; lia. } lia. }
    assert (Hlast : In (last (firstn k A) dummy_row) (firstn k A)).
    { destruct (firstn k A) as [|y l']; [congruence|]. clear. generalize y. induction l' as [|z l IH]; intros y0; [now left|]. right. apply IH. }
    cbn [tok_last]. split; [discriminate|]. split; [exact Hs1|]. split; [|split].
    + intros r Hr. assert (HrA : In r A) by (eapply In_firstn; exact Hr). apply HA in HrA. split; [tauto|]. split; [tauto|].
      intros _. apply ssorted_le_last; assumption.
    + intros r Hr Hgt0 [Hc|Hle]; [discriminate|].
      assert (HrA : In r A) by (apply HA; auto). rewrite Hsplit in HrA. apply in_app_or in HrA as [H1|H2]; [exact H1|].
      specialize (Hlt _ _ Hlast H2). lia.
    + intros _. assert (HlA : In (last (firstn k A) dummy_row) A) by (eapply In_firstn; exact Hlast). apply HA in HlA. tauto.
Qed.

Section Stable.
Variable nid : N.
Variable q : iquery.
Variable size : Z.
Hypothesis Hsz : (0 <= size)%Z.

(* no row id is ever returned twice, and ids only grow: for ANY sequence of snapshots *)
Theorem pages_strictly_increasing : forall ds tok pages,
  (forall d, In d ds -> NoDup (map r_shard (rows d))) -> tok <> TokMalformed ->
  iterate_seq ds nid q size tok = Some pages ->
  ssorted (concat pages) /\ forall r, In r (concat pages) -> (tok_last tok < r_shard r)%N.
Proof.
  induction ds as [|d ds IH]; intros tok pages Hnd Htok Hit; cbn in Hit; [discriminate|].
  destruct (GetRelationTuples nid q size tok d) as [[page nt]|e] eqn:Eg; [|discriminate].
  destruct (page_exact nid q size tok d page nt Hsz Htok (matching_ssorted nid q d (Hnd d (or_introl eq_refl))) Eg) as (Hnt & Hsp & Hin & _ & Hmono).
  destruct nt as [|n|] eqn:Ent.
  - inversion Hit; subst. cbn. rewrite app_nil_r. split; [exact Hsp|]. intros r Hr. apply Hin in Hr. tauto.
  - destruct (iterate_seq ds nid q size (TokId n)) as [rest|] eqn:Er; [|discriminate]. inversion Hit; subst. cbn [concat].
    destruct (IH (TokId n) rest (fun d0 H0 => Hnd d0 (or_intror H0)) Hnt Er) as [Hsr Hgr]. cbn [tok_last] in *.
    split.
    + apply ssorted_app; [exact Hsp|exact Hsr|]. intros a b Ha Hb. apply Hin in Ha as (_ & _ & Hle). specialize (Hle ltac:(discriminate)). specialize (Hgr b Hb). lia.
    + intros r Hr. apply in_app_or in Hr as [Hr|Hr]; [apply Hin in Hr; tauto|]. specialize (Hgr r Hr). specialize (Hmono ltac:(discriminate)). lia.
  - congruence.
Qed.

(* every matching row that is there in all snapshots is returned *)
Theorem stable_rows_returned : forall ds tok pages,
  (forall d, In d ds -> NoDup (map r_shard (rows d))) -> tok <> TokMalformed ->
  iterate_seq ds nid q size tok = Some pages ->
  forall r, (forall d, In d ds -> In r (matching nid q d)) -> (tok_last tok < r_shard r)%N -> In r (concat pages).
Proof.
  induction ds as [|d ds IH]; intros tok pages Hnd Htok Hit r Hr Hgt; cbn in Hit; [discriminate|].
  destruct (GetRelationTuples nid q size tok d) as [[page nt]|e] eqn:Eg; [|discriminate].
  destruct (page_exact nid q size tok d page nt Hsz Htok (matching_ssorted nid q d (Hnd d (or_introl eq_refl))) Eg) as (Hnt & _ & _ & Hall & _).
  destruct nt as [|n|] eqn:Ent.
  - inversion Hit; subst. cbn. rewrite app_nil_r. apply Hall; auto. apply Hr. now left.
  - destruct (iterate_seq ds nid q size (TokId n)) as [rest|] eqn:Er; [|discriminate]. inversion Hit; subst. cbn [concat].
    apply in_or_app. destruct (N.le_gt_cases (r_shard r) n) as [Hle|Hlt].
    + left. apply Hall; auto. apply Hr. now left.
    + right. apply (IH (TokId n) rest (fun d0 H0 => Hnd d0 (or_intror H0)) Hnt Er r); [intros d0 H0; apply Hr; now right|cbn [tok_last]; lia].
  - congruence.
Qed.

(* together: exactly once *)
Corollary stable_rows_exactly_once ds pages :
  (forall d, In d ds -> NoDup (map r_shard (rows d))) ->
  iterate_seq ds nid q size TokEmpty = Some pages ->
  NoDup (map r_shard (concat pages)) /\
  forall r, (0 < r_shard r)%N -> (forall d, In d ds -> In r (matching nid q d)) -> In r (concat pages).
Proof.
  intros Hnd Hit. destruct (pages_strictly_increasing ds TokEmpty pages Hnd ltac:(discriminate) Hit) as [Hs _]. split.
  - clear - Hs. induction (concat pages) as [|a l IH]; cbn; [constructor|]. destruct Hs as [Ha Hl]. constructor; [|auto].
    intros Hin. apply in_map_iff in Hin as [b [Eb Hb]]. rewrite Forall_forall in Ha. specialize (Ha b Hb). lia.
  - intros r Hpos Hr. eapply stable_rows_returned; eauto. discriminate.
Qed.
End Stable.

(* non-vacuity: three rows, page size 1, a row inserted and one deleted between the fetches *)
Example stable_example :
  let row sh o := {| r_shard := sh; r_nid := 1; r_ns := [Byte.x6e]; r_obj := (1%N, [o]); r_rel := [Byte.x72]; r_sub := ISid (1%N, [Byte.x75]) |} in
  let q := {| iq_ns := Some [Byte.x6e]; iq_obj := None; iq_rel := None; iq_sub := None |} in
  let d0 := {| rows := [row 2%N Byte.x61; row 4%N Byte.x62; row 6%N Byte.x63]; maps := []; next := 1 |} in
  let d1 := {| rows := [row 2%N Byte.x61; row 3%N Byte.x78; row 4%N Byte.x62; row 6%N Byte.x63]; maps := []; next := 1 |} in
  let d2 := {| rows := [row 3%N Byte.x78; row 4%N Byte.x62; row 6%N Byte.x63]; maps := []; next := 1 |} in
  option_map (map (map r_shard)) (iterate_seq [d0; d1; d2; d2] 1%N q 1 TokEmpty) = Some [[2%N]; [3%N]; [4%N]; [6%N]].
Proof. vm_compute. reflexivity. Qed.
