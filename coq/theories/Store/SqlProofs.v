From Coq Require Import List Bool Arith NArith ZArith Lia Permutation Sorted.
From Keto Require Import Base.Bytes Base.ListX Store.Sql.
Import ListNotations.

(* ------------------------------------------------------------------ *)
(* constants taken from the source are >= 1, so chunking is well defined *)
Lemma chunk_insert_pos : 1 <= chunkSizeInsertTuple. Proof. unfold chunkSizeInsertTuple. vm_compute. lia. Qed.
Lemma chunk_delete_pos : 1 <= chunkSizeDeleteTuple. Proof. unfold chunkSizeDeleteTuple. vm_compute. lia. Qed.
Lemma chunk_map_pos : 1 <= chunkSizeInsertUUIDMappings. Proof. unfold chunkSizeInsertUUIDMappings. vm_compute. lia. Qed.
Lemma page_size_pos : 1 <= defaultPageSize. Proof. unfold defaultPageSize. vm_compute. lia. Qed.

(* ------------------------------------------------------------------ *)
(* atomicity (C05): a transaction changes nothing when it fails, whatever statement fails *)
Theorem transaction_all_or_nothing f ss d :
  let '(d', r) := transaction f ss d in
  match r with
  | RErr _ => d' = d
  | ROk _ => exec_stmts f 0 ss d = ROk d'
  end.
Proof. unfold transaction. destruct (exec_stmts f 0 ss d); reflexivity. Qed.

(* without faults and build errors the statements are simply applied in order *)
Fixpoint apply_stmts (ss : list stmt) (d : db) : db :=
  match ss with
  | [] => d
  | s :: r => match exec_stmt s d with ROk d' => apply_stmts r d' | RErr _ => d end
  end.
Definition buildable (ss : list stmt) : Prop := forall s, In s ss -> match s with SFailBuild _ => False | _ => True end.
Lemma exec_no_faults ss : buildable ss -> forall k d, exec_stmts no_faults k ss d = ROk (apply_stmts ss d).
Proof.
  induction ss as [|s ss IH]; intros Hb k d; cbn; [reflexivity|].
  assert (Hs := Hb s (or_introl eq_refl)).
  destruct s; cbn in *; try contradiction; apply IH; intros x Hx; apply Hb; now right.
Qed.
(* any fault or build error anywhere makes the whole request fail: no prefix is committed *)
Lemma exec_fault_fails f ss : forall k d, (exists i, i < length ss /\ f (k + i) = true) -> exists e, exec_stmts f k ss d = RErr e.
Proof.
  induction ss as [|s ss IH]; intros k d [i [Hi Hf]]; cbn in *; [lia|].
  destruct (f k) eqn:Hk; [eauto|].
  destruct i as [|i]; [rewrite Nat.add_0_r in Hf; congruence|].
  destruct (exec_stmt s d) as [d'|e]; [|eauto].
  apply IH. exists i. split; [lia|]. rewrite <- Hf. f_equal. lia.
Qed.

(* ------------------------------------------------------------------ *)
(* chunked INSERT = one INSERT of all rows (given every tuple has a subject) *)
Lemma rows_of_length nid sh ts rs : rows_of nid sh ts = ROk rs -> length rs = length ts.
Proof. revert sh rs; induction ts as [|t ts IH]; intros sh rs H; cbn in *; [inversion H; reflexivity|].
  destruct (i_sub t); [|discriminate]. destruct (rows_of nid (N.succ sh) ts) eqn:E; [|discriminate].
  inversion H; subst. cbn. f_equal. eauto. Qed.
Lemma rows_of_ok nid sh ts : has_nil_subject ts = false -> exists rs, rows_of nid sh ts = ROk rs.
Proof. revert sh; induction ts as [|t ts IH]; intros sh H; cbn in *; [eauto|].
  destruct (i_sub t); [|discriminate]. cbn in H. destruct (IH (N.succ sh) H) as [rs ->]. eauto. Qed.
Lemma rows_of_err nid sh ts : has_nil_subject ts = true -> rows_of nid sh ts = RErr E_NilSubject.
Proof. revert sh; induction ts as [|t ts IH]; intros sh H; cbn in *; [discriminate|].
  destruct (i_sub t); [|reflexivity]. cbn in H. now rewrite IH. Qed.

(* rows of the inserted tuples, as a function of the tuples only (shards aside) *)
Definition row_matches_tuple (t : ituple) (r : row) : Prop :=
  r_ns r = i_ns t /\ r_obj r = i_obj t /\ r_rel r = i_rel t /\ i_sub t = Some (r_sub r).
Lemma rows_of_spec nid sh ts rs : rows_of nid sh ts = ROk rs ->
  Forall2 (fun t r => row_matches_tuple t r /\ r_nid r = nid) ts rs.
Proof. revert sh rs; induction ts as [|t ts IH]; intros sh rs H; cbn in *.
  - inversion H; constructor.
  - destruct (i_sub t) eqn:Es; [|discriminate]. destruct (rows_of nid (N.succ sh) ts) eqn:E; [|discriminate].
    inversion H; subst. constructor; [|eauto]. unfold row_matches_tuple; cbn. auto. Qed.

(* ------------------------------------------------------------------ *)
(* DELETE semantics: removes all and only the rows of the network equal to one of the tuples *)
Definition del_pred (nid : N) (ts : list ituple) (r : row) : bool := in_net nid r && existsb (fun t => row_is t r) ts.
Lemma exec_delete_rows nid ts d d' : exec_stmt (SDelete nid ts) d = ROk d' ->
  rows d' = filter (fun r => negb (del_pred nid ts r)) (rows d) /\ maps d' = maps d.
Proof. cbn. intros H; inversion H; subst; cbn. auto. Qed.

(* deleting chunk by chunk = deleting by the whole list *)
Lemma filter_del_app nid a b l :
  filter (fun r => negb (del_pred nid b r)) (filter (fun r => negb (del_pred nid a r)) l)
  = filter (fun r => negb (del_pred nid (a ++ b) r)) l.
Proof. rewrite filter_filter. apply filter_ext. intros r. unfold del_pred. rewrite existsb_app.
  destruct (in_net nid r); cbn; [|reflexivity]. destruct (existsb _ a), (existsb _ b); reflexivity. Qed.

Lemma delete_chunks_apply nid chunks : forall d,
  (forall c, In c chunks -> has_nil_subject c = false) ->
  rows (apply_stmts (delete_stmts_chunks nid chunks) d) = filter (fun r => negb (del_pred nid (concat chunks) r)) (rows d)
  /\ maps (apply_stmts (delete_stmts_chunks nid chunks) d) = maps d.
Proof.
  induction chunks as [|c cs IH]; intros d Hn; cbn [delete_stmts_chunks concat apply_stmts].
  - split; [|reflexivity]. symmetry. apply filter_true. intros r _. unfold del_pred. cbn. now rewrite andb_false_r.
  - rewrite (Hn c (or_introl eq_refl)). cbn [apply_stmts exec_stmt].
    destruct (IH {| rows := filter (fun r => negb (in_net nid r && existsb (fun t => row_is t r) c)) (rows d); maps := maps d; next := next d |}) as [H1 H2].
    { intros; apply Hn; now right. }
    rewrite H1, H2. cbn [rows maps]. split; [|reflexivity]. apply filter_del_app.
Qed.

Theorem delete_exact nid ts d :
  has_nil_subject ts = false ->
  let d' := apply_stmts (delete_stmts nid ts) d in
  rows d' = filter (fun r => negb (del_pred nid ts r)) (rows d) /\ maps d' = maps d.
Proof.
  intros Hn. unfold delete_stmts.
  destruct (delete_chunks_apply nid (chunk chunkSizeDeleteTuple ts) d) as [H1 H2].
  - intros c Hc. destruct (has_nil_subject c) eqn:E; auto.
    unfold has_nil_subject in *. apply existsb_exists in E as [t [Ht Hs]].
    assert (In t ts). { rewrite <- (concat_chunk chunkSizeDeleteTuple ts chunk_delete_pos). apply in_concat. eauto. }
    assert (existsb (fun t => match i_sub t with None => true | _ => false end) ts = true) by (apply existsb_exists; eauto).
    congruence.
  - cbn zeta. rewrite H1, H2, concat_chunk by apply chunk_delete_pos. auto.
Qed.
Lemma delete_stmts_buildable nid ts : has_nil_subject ts = false -> buildable (delete_stmts nid ts).
Proof.
  intros Hn. unfold delete_stmts.
  assert (G : forall cs, (forall c, In c cs -> has_nil_subject c = false) -> buildable (delete_stmts_chunks nid cs)).
  { induction cs as [|c cs IH]; intros H s Hs; cbn in *; [contradiction|].
    rewrite (H c (or_introl eq_refl)) in Hs. destruct Hs as [<-|Hs]; [exact I|]. apply IH; auto. }
  apply G. intros c Hc. destruct (has_nil_subject c) eqn:E; auto.
  unfold has_nil_subject in *. apply existsb_exists in E as [t [Ht Hs]].
  assert (In t ts). { rewrite <- (concat_chunk chunkSizeDeleteTuple ts chunk_delete_pos). apply in_concat. eauto. }
  assert (existsb (fun t => match i_sub t with None => true | _ => false end) ts = true) by (apply existsb_exists; eauto).
  congruence.
Qed.

(* ------------------------------------------------------------------ *)
(* network isolation (C06): statements of network A leave the rows of every other network untouched *)
Definition stmt_net (A : N) (s : stmt) : Prop :=
  match s with
  | SInsert rs => Forall (fun r => r_nid r = A) rs
  | SDelete nid _ | SDeleteQ nid _ => nid = A
  | SMapInsert _ | SFailBuild _ => True
  end.
Lemma exec_stmt_frame A B s d d' : A <> B -> stmt_net A s -> exec_stmt s d = ROk d' ->
  filter (in_net B) (rows d') = filter (in_net B) (rows d).
Proof.
  intros HAB Hs H. destruct s; cbn in *; inversion H; subst; cbn; clear H.
  - rewrite filter_app. rewrite (filter_false (in_net B) rs); [apply app_nil_r|].
    intros r Hr. rewrite Forall_forall in Hs. unfold in_net. rewrite (Hs r Hr). apply N.eqb_neq; exact HAB.
  - rewrite filter_filter. apply filter_ext. intros r. unfold in_net.
    destruct (N.eqb_spec (r_nid r) A), (N.eqb_spec (r_nid r) B); cbn; try congruence; auto; now rewrite ?andb_true_r, ?andb_false_r.
  - rewrite filter_filter. apply filter_ext. intros r. unfold in_net.
    destruct (N.eqb_spec (r_nid r) A), (N.eqb_spec (r_nid r) B); cbn; try congruence; auto; now rewrite ?andb_true_r, ?andb_false_r.
  - reflexivity.
Qed.
Lemma exec_stmts_frame A B f ss : A <> B -> Forall (stmt_net A) ss -> forall k d d',
  exec_stmts f k ss d = ROk d' -> filter (in_net B) (rows d') = filter (in_net B) (rows d).
Proof.
  intros HAB. induction 1 as [|s ss Hs Hss IH]; intros k d d' H; cbn in H.
  - inversion H; reflexivity.
  - destruct (f k); [discriminate|]. destruct (exec_stmt s d) as [d1|] eqn:E; [|discriminate].
    rewrite (IH _ _ _ H). eapply exec_stmt_frame; eauto.
Qed.

Lemma rows_of_net nid sh ts rs : rows_of nid sh ts = ROk rs -> Forall (fun r => r_nid r = nid) rs.
Proof. intros H. apply rows_of_spec in H. induction H; constructor; intuition. Qed.
Lemma insert_stmts_net nid : forall chunks sh, Forall (stmt_net nid) (insert_stmts nid sh chunks).
Proof. induction chunks as [|c cs IH]; intros sh; cbn; [constructor|].
  destruct (rows_of nid sh c) eqn:E; repeat constructor; auto. cbn. eapply rows_of_net; eauto. Qed.
Lemma delete_stmts_net nid : forall chunks, Forall (stmt_net nid) (delete_stmts_chunks nid chunks).
Proof. induction chunks as [|c cs IH]; cbn; [constructor|]. destruct (has_nil_subject c); repeat constructor; auto. Qed.
Lemma transact_stmts_net nid sh ins del : Forall (stmt_net nid) (transact_stmts nid sh ins del).
Proof. unfold transact_stmts. apply Forall_app. split; [apply insert_stmts_net|apply delete_stmts_net]. Qed.

(* observations of network B are functions of the rows of B *)
Lemma exists_only_own_rows B q d d' : filter (in_net B) (rows d) = filter (in_net B) (rows d') ->
  ExistsRelationTuples B q d = ExistsRelationTuples B q d'.
Proof.
  intros H. unfold ExistsRelationTuples.
  assert (G : forall l, existsb (fun r => in_net B r && matches_q q r) l = existsb (matches_q q) (filter (in_net B) l)).
  { induction l as [|r l IH]; cbn; auto. destruct (in_net B r); cbn; now rewrite IH. }
  now rewrite !G, H.
Qed.
Lemma matching_only_own_rows B q d d' : filter (in_net B) (rows d) = filter (in_net B) (rows d') ->
  matching B q d = matching B q d'.
Proof.
  intros H. unfold matching. f_equal.
  assert (G : forall l, filter (fun r => in_net B r && matches_q q r) l = filter (matches_q q) (filter (in_net B) l)).
  { intros l. now rewrite filter_filter. }
  now rewrite !G, H.
Qed.
Lemma get_only_own_rows B q size tok d d' : filter (in_net B) (rows d) = filter (in_net B) (rows d') ->
  GetRelationTuples B q size tok d = GetRelationTuples B q size tok d'.
Proof. intros H. unfold GetRelationTuples. now rewrite (matching_only_own_rows B q d d' H). Qed.
