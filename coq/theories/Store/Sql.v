(* Model of internal/persistence/sql: the relation-tuple table, the UUID mapping table and the
   statements keto issues against them (relationtuples.go, persister.go, traverser.go, uuid_mapping.go). *)
From Coq Require Import List Bool Arith NArith ZArith Lia.
From Keto Require Import Base.Bytes Base.ListX.
Import ListNotations.

(* uuid.NewV5(network id, string) is represented by the pair itself: injective by construction
   (trusted: SHA-1 collision freeness). *)
Definition uid := (N * bytes)%type.
Definition uid_eqb (a b : uid) : bool := N.eqb (fst a) (fst b) && bytes_eqb (snd a) (snd b).
Lemma uid_eqb_eq a b : uid_eqb a b = true <-> a = b.
Proof. destruct a as [n s], b as [m t]; unfold uid_eqb; cbn. rewrite andb_true_iff, N.eqb_eq, bytes_eqb_eq.
 split; [intros [-> ->]; reflexivity|intros H; inversion H; auto]. Qed.
Lemma uid_eqb_refl a : uid_eqb a a = true. Proof. now apply uid_eqb_eq. Qed.
Lemma uid_eqb_neq a b : uid_eqb a b = false <-> a <> b.
Proof. split; [intros H E; subst; rewrite uid_eqb_refl in H; discriminate|].
 intros H; destruct (uid_eqb a b) eqn:E; auto. apply uid_eqb_eq in E; contradiction. Qed.

Inductive isub := ISid (u : uid) | ISet (n : bytes) (o : uid) (r : bytes).
Definition isub_eqb (a b : isub) : bool :=
  match a, b with
  | ISid u, ISid v => uid_eqb u v
  | ISet n o r, ISet n' o' r' => bytes_eqb n n' && uid_eqb o o' && bytes_eqb r r'
  | _, _ => false
  end.
Lemma isub_eqb_eq a b : isub_eqb a b = true <-> a = b.
Proof. destruct a, b; cbn; try (split; intros; discriminate).
 - rewrite uid_eqb_eq. split; [intros ->; auto|intros H; inversion H; auto].
 - rewrite !andb_true_iff, !bytes_eqb_eq, uid_eqb_eq. split; [intros [[-> ->] ->]; auto|intros H; inversion H; auto]. Qed.
Lemma isub_eqb_refl a : isub_eqb a a = true. Proof. now apply isub_eqb_eq. Qed.

(* relationtuple.RelationTuple / RelationQuery (internal, UUID form); Subject interface may be nil *)
Record ituple := { i_ns : bytes; i_obj : uid; i_rel : bytes; i_sub : option isub }.
Record iquery := { iq_ns : option bytes; iq_obj : option uid; iq_rel : option bytes; iq_sub : option isub }.
(* one row of keto_relation_tuples (commit_time ignored) *)
Record row := { r_shard : N; r_nid : N; r_ns : bytes; r_obj : uid; r_rel : bytes; r_sub : isub }.

Record db := { rows : list row; maps : list (uid * bytes); next : N }.
Definition empty_db := {| rows := []; maps := []; next := 1%N |}.

(* generated from the source on every run *)
From Keto Require Gen.Generated.
Definition chunkSizeInsertTuple : nat := N.to_nat Gen.Generated.chunkSizeInsertTuple.
Definition chunkSizeDeleteTuple : nat := N.to_nat Gen.Generated.chunkSizeDeleteTuple.
Definition chunkSizeInsertUUIDMappings : nat := N.to_nat Gen.Generated.chunkSizeInsertUUIDMappings.
Definition defaultPageSize : nat := N.to_nat Gen.Generated.defaultPageSize.

(* ---- whereQuery / whereSubject as row predicates ---- *)
Definition opt_match {A} (eqb : A -> A -> bool) (o : option A) (x : A) : bool :=
  match o with None => true | Some y => eqb y x end.
Definition matches_q (q : iquery) (r : row) : bool :=
  opt_match bytes_eqb (iq_ns q) (r_ns r) && opt_match uid_eqb (iq_obj q) (r_obj r) &&
  opt_match bytes_eqb (iq_rel q) (r_rel r) && opt_match isub_eqb (iq_sub q) (r_sub r).
Definition in_net (nid : N) (r : row) : bool := N.eqb (r_nid r) nid.

(* row = tuple, as the OR-list of buildDelete compares them *)
Definition row_is (t : ituple) (r : row) : bool :=
  bytes_eqb (i_ns t) (r_ns r) && uid_eqb (i_obj t) (r_obj r) && bytes_eqb (i_rel t) (r_rel r) &&
  match i_sub t with Some s => isub_eqb s (r_sub r) | None => false end.

Inductive serr := E_NilSubject | E_Malformed | E_Storage | E_BadToken | E_NotFound | E_BadRequest.
Inductive res (A : Type) := ROk (a : A) | RErr (e : serr).
Arguments ROk {A}. Arguments RErr {A}.

(* ---- statements, executed inside one SQL transaction ---- *)
Inductive stmt :=
| SInsert (rs : list row)                      (* one multi-row INSERT *)
| SDelete (nid : N) (ts : list ituple)         (* DELETE ... WHERE (t1 OR t2 ...) AND nid = ? *)
| SDeleteQ (nid : N) (q : iquery)              (* DELETE with whereQuery *)
| SMapInsert (ms : list (uid * bytes))         (* INSERT ... ON CONFLICT (id) DO NOTHING *)
| SFailBuild (e : serr).                       (* the statement could not be built: abort *)

Definition map_has (u : uid) (m : list (uid * bytes)) : bool := existsb (fun p => uid_eqb (fst p) u) m.
Fixpoint map_insert_absent (ms : list (uid * bytes)) (m : list (uid * bytes)) : list (uid * bytes) :=
  match ms with
  | [] => m
  | p :: r => map_insert_absent r (if map_has (fst p) m then m else m ++ [p])
  end.

Definition exec_stmt (s : stmt) (d : db) : res db :=
  match s with
  | SInsert rs => ROk {| rows := rows d ++ rs; maps := maps d; next := next d |}
  | SDelete nid ts =>
      ROk {| rows := filter (fun r => negb (in_net nid r && existsb (fun t => row_is t r) ts)) (rows d);
             maps := maps d; next := next d |}
  | SDeleteQ nid q =>
      ROk {| rows := filter (fun r => negb (in_net nid r && matches_q q r)) (rows d); maps := maps d; next := next d |}
  | SMapInsert ms => ROk {| rows := rows d; maps := map_insert_absent ms (maps d); next := next d |}
  | SFailBuild e => RErr e
  end.

(* a fault plan says which statement (by position in the transaction) fails at the SQL engine *)
Definition faults := nat -> bool.
Definition no_faults : faults := fun _ => false.

Fixpoint exec_stmts (f : faults) (k : nat) (ss : list stmt) (d : db) : res db :=
  match ss with
  | [] => ROk d
  | s :: r =>
    if f k then RErr E_Storage else
    match exec_stmt s d with
    | ROk d' => exec_stmts f (S k) r d'
    | RErr e => RErr e
    end
  end.
(* popx.Transaction: all statements or none (atomicity of the SQL engine is assumed, see trusted base) *)
Definition transaction (f : faults) (ss : list stmt) (d : db) : db * res unit :=
  match exec_stmts f 0 ss d with
  | ROk d' => (d', ROk tt)
  | RErr e => (d, RErr e)
  end.

(* ---- statement lists built by the Persister methods ---- *)
(* shard ids are fresh (uuid.NewV4); the model numbers them, only their order and distinctness matter *)
Fixpoint rows_of (nid : N) (sh : N) (ts : list ituple) : res (list row) :=
  match ts with
  | [] => ROk []
  | t :: r =>
    match i_sub t with
    | None => RErr E_NilSubject
    | Some s =>
      match rows_of nid (N.succ sh) r with
      | ROk rs => ROk ({| r_shard := sh; r_nid := nid; r_ns := i_ns t; r_obj := i_obj t; r_rel := i_rel t; r_sub := s |} :: rs)
      | RErr e => RErr e
      end
    end
  end.
Fixpoint insert_stmts (nid : N) (sh : N) (chunks : list (list ituple)) : list stmt :=
  match chunks with
  | [] => []
  | c :: r =>
    match rows_of nid sh c with
    | ROk rs => SInsert rs :: insert_stmts nid (sh + N.of_nat (length c))%N r
    | RErr e => [SFailBuild e]
    end
  end.
Definition write_stmts (nid : N) (sh : N) (ts : list ituple) : list stmt :=
  insert_stmts nid sh (chunk chunkSizeInsertTuple ts).

Definition has_nil_subject (ts : list ituple) : bool := existsb (fun t => match i_sub t with None => true | _ => false end) ts.
Fixpoint delete_stmts_chunks (nid : N) (chunks : list (list ituple)) : list stmt :=
  match chunks with
  | [] => []
  | c :: r => if has_nil_subject c then [SFailBuild E_NilSubject] else SDelete nid c :: delete_stmts_chunks nid r
  end.
Definition delete_stmts (nid : N) (ts : list ituple) : list stmt :=
  delete_stmts_chunks nid (chunk chunkSizeDeleteTuple ts).

Definition bump (n : nat) (d : db) : db := {| rows := rows d; maps := maps d; next := (next d + N.of_nat n)%N |}.

(* Manager methods (each its own transaction when called alone; nested calls join the outer one) *)
Definition transact_stmts (nid : N) (sh : N) (ins del : list ituple) : list stmt :=
  write_stmts nid sh ins ++ delete_stmts nid del.

Definition WriteRelationTuples (f : faults) (nid : N) (ts : list ituple) (d : db) : db * res unit :=
  let '(d', r) := transaction f (write_stmts nid (next d) ts) d in (bump (length ts) d', r).
Definition DeleteRelationTuples (f : faults) (nid : N) (ts : list ituple) (d : db) : db * res unit :=
  transaction f (delete_stmts nid ts) d.
Definition DeleteAllRelationTuples (f : faults) (nid : N) (q : iquery) (d : db) : db * res unit :=
  transaction f [SDeleteQ nid q] d.
Definition TransactRelationTuples (f : faults) (nid : N) (ins del : list ituple) (d : db) : db * res unit :=
  let '(d', r) := transaction f (transact_stmts nid (next d) ins del) d in (bump (length ins) d', r).

Definition ExistsRelationTuples (nid : N) (q : iquery) (d : db) : bool :=
  existsb (fun r => in_net nid r && matches_q q r) (rows d).

(* ---- GetRelationTuples: keyset pagination ---- *)
(* insertion sort by shard id (ORDER BY shard_id) *)
Fixpoint insert_sorted (r : row) (l : list row) : list row :=
  match l with
  | [] => [r]
  | x :: l' => if (r_shard r <=? r_shard x)%N then r :: l else x :: insert_sorted r l'
  end.
Definition sort_rows (l : list row) : list row := fold_right insert_sorted [] l.

Definition to_ituple (r : row) : ituple :=
  {| i_ns := r_ns r; i_obj := r_obj r; i_rel := r_rel r; i_sub := Some (r_sub r) |}.

(* page token: "" | decimal shard id ; uuid.Nil is 0 ; a malformed token is modelled by None *)
Inductive token := TokEmpty | TokId (n : N) | TokMalformed.

Definition matching (nid : N) (q : iquery) (d : db) : list row :=
  sort_rows (filter (fun r => in_net nid r && matches_q q r) (rows d)).

(* size is Go's int: zero means default; negative: SQLite LIMIT with a negative bound is unbounded *)
Definition per_page (size : Z) : Z := if Z.eqb size 0 then Z.of_nat defaultPageSize else size.

Definition GetRelationTuples (nid : N) (q : iquery) (size : Z) (tok : token) (d : db) : res (list row * token) :=
  if (size <? 0)%Z then RErr E_BadRequest else     (* after fix D19 (was: no LIMIT, then an index panic on a one-row page) *)
  match tok with
  | TokMalformed => RErr E_BadToken
  | _ =>
    let last := match tok with TokId n => n | _ => 0%N end in
    let pp := per_page size in
    let after := filter (fun r => (last <? r_shard r)%N) (matching nid q d) in
    let limit := (pp + 1)%Z in
    let got := if (limit <? 0)%Z then after else firstn (Z.to_nat limit) after in
    match got with
    | [] => ROk ([], TokEmpty)
    | _ =>
      if (pp <? Z.of_nat (length got))%Z then
        (* res = res[:len(res)-1] ; token = last remaining id *)
        let kept := removelast got in
        match rev kept with
        | l :: _ => ROk (kept, TokId (r_shard l))
        | [] => ROk (kept, TokMalformed)   (* res[len(res)-1] on an empty slice: index panic; unreachable for pp >= 1 *)
        end
      else ROk (got, TokEmpty)
    end
  end.

(* ---- traverser.go ---- *)
(* TraverseSubjectSetExpansion: all subject-set rows of start's object#relation in shard order, each with
   "found" = the requested subject is a direct member of that set; stops after the first found row *)
Record trav := { tv_ns : bytes; tv_obj : uid; tv_rel : bytes; tv_found : bool }.
Definition is_set (s : isub) : bool := match s with ISet _ _ _ => true | _ => false end.

Fixpoint take_until_found (l : list trav) : list trav :=
  match l with [] => [] | x :: r => if tv_found x then [x] else x :: take_until_found r end.

Definition TraverseSubjectSetExpansion (nid : N) (ns : bytes) (obj : uid) (rel : bytes) (sub : isub) (d : db) : list trav :=
  let cur := sort_rows (filter (fun r => in_net nid r && bytes_eqb (r_ns r) ns && uid_eqb (r_obj r) obj &&
                                         bytes_eqb (r_rel r) rel && is_set (r_sub r)) (rows d)) in
  take_until_found
    (map (fun r => match r_sub r with
                   | ISet n o rl =>
                     {| tv_ns := n; tv_obj := o; tv_rel := rl;
                        tv_found := existsb (fun x => in_net nid x && bytes_eqb (r_ns x) n && uid_eqb (r_obj x) o &&
                                                      bytes_eqb (r_rel x) rl && isub_eqb (r_sub x) sub) (rows d) |}
                   | ISid _ => {| tv_ns := []; tv_obj := (0%N, []); tv_rel := []; tv_found := false |}
                   end) cur).

(* TraverseSubjectSetRewrite's database part: is there a row ns:obj#r@sub with r among relations *)
Definition exists_relation_in (nid : N) (ns : bytes) (obj : uid) (sub : isub) (rels : list bytes) (d : db) : bool :=
  existsb (fun r => in_net nid r && bytes_eqb (r_ns r) ns && uid_eqb (r_obj r) obj && isub_eqb (r_sub r) sub &&
                    existsb (bytes_eqb (r_rel r)) rels) (rows d).
Lemma uid_eqb_sym a b : uid_eqb a b = uid_eqb b a.
Proof. destruct (uid_eqb a b) eqn:E.
 - apply uid_eqb_eq in E; subst; symmetry; apply uid_eqb_refl.
 - symmetry; apply uid_eqb_neq; apply uid_eqb_neq in E; congruence. Qed.
Lemma isub_eqb_sym a b : isub_eqb a b = isub_eqb b a.
Proof. destruct (isub_eqb a b) eqn:E.
 - apply isub_eqb_eq in E; subst; symmetry; apply isub_eqb_refl.
 - symmetry. destruct (isub_eqb b a) eqn:E2; auto. apply isub_eqb_eq in E2; subst. rewrite isub_eqb_refl in E; discriminate. Qed.
