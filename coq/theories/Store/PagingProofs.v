(* C07: keyset pagination returns every matching row exactly once. *)
From Coq Require Import List Bool Arith NArith ZArith Lia Permutation.
From Keto Require Import Base.Bytes Base.ListX Store.Sql Store.SqlProofs.
Import ListNotations.

(* strictly increasing shard ids *)
Fixpoint ssorted (l : list row) : Prop :=
  match l with [] => True | a :: r => Forall (fun b => (r_shard a < r_shard b)%N) r /\ ssorted r end.
Fixpoint lsorted (l : list row) : Prop :=
  match l with [] => True | a :: r => Forall (fun b => (r_shard a <= r_shard b)%N) r /\ lsorted r end.

Lemma insert_perm r l : Permutation (insert_sorted r l) (r :: l).
Proof. induction l as [|x l IH]; cbn; [reflexivity|]. destruct (r_shard r <=? r_shard x)%N; [reflexivity|].
  rewrite IH. apply perm_swap. Qed.
Lemma sort_perm l : Permutation (sort_rows l) l.
Proof. induction l as [|x l IH]; cbn; [reflexivity|]. unfold sort_rows in *. cbn. rewrite insert_perm. now constructor. Qed.
Lemma insert_lsorted r l : lsorted l -> lsorted (insert_sorted r l).
Proof.
  induction l as [|x l IH]; cbn; intros H; [split; [constructor|exact I]|].
  destruct H as [Hx Hl]. destruct (r_shard r <=? r_shard x)%N eqn:E.
  - apply N.leb_le in E. cbn. split; [|split; assumption].
    constructor; [exact E|]. eapply Forall_impl; [|exact Hx]. cbn. intros; lia.
  - apply N.leb_gt in E. cbn. split; [|apply IH; exact Hl].
    eapply Permutation_Forall; [symmetry; apply insert_perm|]. constructor; [lia|exact Hx].
Qed.
Lemma sort_lsorted l : lsorted (sort_rows l).
Proof. induction l as [|x l IH]; cbn; [exact I|]. unfold sort_rows in *. cbn. now apply insert_lsorted. Qed.
Lemma lsorted_nodup_ssorted l : lsorted l -> NoDup (map r_shard l) -> ssorted l.
Proof.
  induction l as [|a l IH]; cbn; intros Hs Hn; [exact I|]. destruct Hs as [Ha Hl]. inversion Hn as [|? ? Hnin Hn']; subst.
  split; [|apply IH; assumption].
  rewrite Forall_forall in *. intros b Hb. specialize (Ha b Hb).
  assert (r_shard a <> r_shard b). { intros E. apply Hnin. rewrite E. now apply in_map. }
  lia.
Qed.
Lemma nodup_map_filter {A B} (g : A -> B) (p : A -> bool) l : NoDup (map g l) -> NoDup (map g (filter p l)).
Proof. induction l as [|a l IH]; cbn; intros H; [constructor|]. inversion H; subst.
  destruct (p a); cbn; [constructor|]; auto. intros Hin. apply in_map_iff in Hin as [x [Hx Hi]]. apply filter_In in Hi as [Hi _].
  apply H2. rewrite <- Hx. now apply in_map. Qed.

Theorem matching_ssorted nid q d : NoDup (map r_shard (rows d)) -> ssorted (matching nid q d).
Proof.
  intros H. unfold matching. apply lsorted_nodup_ssorted; [apply sort_lsorted|].
  eapply Permutation_NoDup; [apply Permutation_map; symmetry; apply sort_perm|]. now apply nodup_map_filter.
Qed.
Theorem matching_perm nid q d : Permutation (matching nid q d) (filter (fun r => in_net nid r && matches_q q r) (rows d)).
Proof. apply sort_perm. Qed.

(* ---- filter (> x) on strictly sorted lists ---- *)
Lemma ssorted_filter p l : ssorted l -> ssorted (filter p l).
Proof. induction l as [|a l IH]; cbn; intros H; [exact I|]. destruct H as [Ha Hl].
  destruct (p a); cbn; [split|]; auto. rewrite Forall_forall in *. intros b Hb. apply filter_In in Hb as [Hb _]. auto. Qed.
Lemma ssorted_app_inv l1 l2 : ssorted (l1 ++ l2) -> ssorted l1 /\ ssorted l2 /\ forall a b, In a l1 -> In b l2 -> (r_shard a < r_shard b)%N.
Proof.
  induction l1 as [|x l1 IH]; cbn; intros H; [repeat split; auto; intros; contradiction|].
  destruct H as [Hx Hl]. apply IH in Hl as (H1 & H2 & H3). apply Forall_app in Hx as [Hx1 Hx2].
  repeat split; auto. intros a b [<-|Ha] Hb; [|auto]. rewrite Forall_forall in Hx2; auto.
Qed.
Lemma filter_gt_split l1 x l2 : ssorted (l1 ++ x :: l2) ->
  filter (fun r => (r_shard x <? r_shard r)%N) (l1 ++ x :: l2) = l2.
Proof.
  intros H. apply ssorted_app_inv in H as (H1 & H2 & H3). cbn in H2. destruct H2 as [Hx H2].
  rewrite filter_app. rewrite (filter_false _ l1).
  2:{ intros a Ha. apply N.ltb_ge. specialize (H3 a x Ha (or_introl eq_refl)). lia. }
  cbn. rewrite N.ltb_irrefl. apply filter_true. intros a Ha. rewrite Forall_forall in Hx. apply N.ltb_lt; auto.
Qed.

(* ---- following the tokens ---- *)
Fixpoint iterate (fuel : nat) (nid : N) (q : iquery) (size : Z) (tok : token) (d : db) : option (list (list row)) :=
  match fuel with
  | 0 => None
  | S f =>
    match GetRelationTuples nid q size tok d with
    | ROk (rs, TokEmpty) => Some [rs]
    | ROk (rs, nt) => option_map (cons rs) (iterate f nid q size nt d)
    | RErr _ => None
    end
  end.

Definition after (last : N) (M : list row) := filter (fun r => (last <? r_shard r)%N) M.
Definition tok_last (t : token) : N := match t with TokId n => n | _ => 0%N end.

Lemma removelast_firstn_S {A} k (l : list A) : k < length l -> removelast (firstn (S k) l) = firstn k l.
Proof. revert l; induction k as [|k IH]; intros l H; destruct l as [|a l]; cbn in *; try lia; auto.
  destruct l as [|b l]; cbn in *; [lia|]. f_equal. specialize (IH (b :: l)). cbn in IH. apply IH. lia. Qed.

Definition dummy_row : row := {| r_shard := 0; r_nid := 0; r_ns := []; r_obj := (0%N, []); r_rel := []; r_sub := ISid (0%N, []) |}.

(* one page, in closed form *)
Lemma get_spec nid q size tok d :
  (0 <= size)%Z -> tok <> TokMalformed ->
  let A := after (tok_last tok) (matching nid q d) in
  let k := Z.to_nat (per_page size) in
  GetRelationTuples nid q size tok d =
    if length A <=? k then ROk (A, TokEmpty)
    else ROk (firstn k A, TokId (r_shard (last (firstn k A) dummy_row))).
Proof.
  intros Hsz Htok A k.
  assert (Hpp : (1 <= per_page size)%Z).
  { unfold per_page. destruct (Z.eqb_spec size 0); [|lia]. pose proof page_size_pos. lia. }
  unfold GetRelationTuples.
  assert (Hnn : (size <? 0)%Z = false) by (apply Z.ltb_ge; lia). rewrite Hnn; clear Hnn.
  assert (EA : filter (fun r => (match tok with TokId n => n | _ => 0%N end <? r_shard r)%N) (matching nid q d) = A).
  { unfold A, after, tok_last. reflexivity. }
  destruct tok as [|n|]; [| |congruence]; rewrite EA; clear EA.
  all: destruct ((per_page size + 1 <? 0)%Z) eqn:Eneg; [apply Z.ltb_lt in Eneg; lia|].
  all: replace (Z.to_nat (per_page size + 1)) with (S k) by (unfold k; lia).
  all: destruct (Nat.leb_spec (length A) k) as [Hle|Hgt].
  all: try (rewrite firstn_all2 by lia; destruct A as [|a A']; [reflexivity|];
            assert (Hlt : (per_page size <? Z.of_nat (length (a :: A')))%Z = false) by (apply Z.ltb_ge; unfold k in Hle; lia);
            rewrite Hlt; reflexivity).
  all: assert (Hfl : length (firstn (S k) A) = S k) by (rewrite firstn_length; lia).
  all: destruct (firstn (S k) A) as [|g0 g'] eqn:Eg; [cbn in Hfl; lia|].
  all: assert (Hrl : removelast (g0 :: g') = firstn k A) by (rewrite <- Eg; apply removelast_firstn_S; lia).
  all: assert (Hlt : (per_page size <? Z.of_nat (length (g0 :: g')))%Z = true) by (apply Z.ltb_lt; rewrite Hfl; unfold k; lia).
  all: rewrite Hlt, Hrl.
  all: assert (Hkl : length (firstn k A) = k) by (rewrite firstn_length; lia).
  all: destruct (rev (firstn k A)) as [|x rk] eqn:Er;
       [apply (f_equal (@length row)) in Er; rewrite rev_length, Hkl in Er; cbn in Er; unfold k in Er; lia|].
  all: assert (Hfk : firstn k A = rev rk ++ [x]) by (rewrite <- (rev_involutive (firstn k A)), Er; reflexivity).
  all: rewrite Hfk, last_last; reflexivity.
Qed.

Lemma get_bad_token nid q size d : (0 <= size)%Z -> GetRelationTuples nid q size TokMalformed d = RErr E_BadToken.
Proof. intros H. unfold GetRelationTuples. assert (Hnn : (size <? 0)%Z = false) by (apply Z.ltb_ge; lia). now rewrite Hnn. Qed.
Lemma get_negative_size nid q size tok d : (size < 0)%Z -> GetRelationTuples nid q size tok d = RErr E_BadRequest.
Proof. intros H. unfold GetRelationTuples. apply Z.ltb_lt in H. now rewrite H. Qed.

Lemma pages_from nid q size d :
  (0 <= size)%Z -> ssorted (matching nid q d) ->
  forall n tok, tok <> TokMalformed -> length (after (tok_last tok) (matching nid q d)) <= n ->
  exists pages, iterate (S n) nid q size tok d = Some pages /\
                concat pages = after (tok_last tok) (matching nid q d) /\
                Forall (fun p => Z.of_nat (length p) <= per_page size)%Z pages.
Proof.
  intros Hsz Hs. set (M := matching nid q d) in *.
  assert (Hpp : (1 <= per_page size)%Z).
  { unfold per_page. destruct (Z.eqb_spec size 0); [|lia]. pose proof page_size_pos. lia. }
  induction n as [n IH] using lt_wf_ind. intros tok Htok Hlen.
  cbn [iterate]. rewrite get_spec by assumption. fold M. cbv zeta.
  set (A := after (tok_last tok) M) in *. set (k := Z.to_nat (per_page size)) in *.
  assert (HsA : ssorted A) by (apply ssorted_filter; exact Hs).
  destruct (Nat.leb_spec (length A) k) as [Hle|Hgt].
  - eexists; split; [reflexivity|]. split; [cbn; apply app_nil_r|]. constructor; [unfold k in Hle; lia|constructor].
  - assert (Hk1 : 1 <= k) by (unfold k; lia).
    assert (Hkl : length (firstn k A) = k) by (rewrite firstn_length; lia).
    destruct (rev (firstn k A)) as [|x rk] eqn:Er;
      [apply (f_equal (@length row)) in Er; rewrite rev_length, Hkl in Er; cbn in Er; lia|].
    assert (Hfk : firstn k A = rev rk ++ [x]) by (rewrite <- (rev_involutive (firstn k A)), Er; reflexivity).
    assert (HA : A = rev rk ++ x :: skipn k A).
    { rewrite <- (firstn_skipn k A) at 1. rewrite Hfk, <- app_assoc. reflexivity. }
    rewrite Hfk, last_last. rewrite <- Hfk.
    assert (Hxin : In x A) by (rewrite HA; apply in_or_app; right; now left).
    assert (Hxgt : (tok_last tok < r_shard x)%N).
    { unfold A, after in Hxin. apply filter_In in Hxin as [_ Hx]. now apply N.ltb_lt in Hx. }
    assert (Hnext : after (r_shard x) M = skipn k A).
    { transitivity (filter (fun r => (r_shard x <? r_shard r)%N) A).
      - unfold A, after. rewrite filter_filter. apply filter_ext. intros r.
        destruct (N.ltb_spec (r_shard x) (r_shard r)); [rewrite andb_true_r; symmetry; apply N.ltb_lt; lia|now rewrite andb_false_r].
      - rewrite HA at 1. apply filter_gt_split. rewrite <- HA. exact HsA. }
    assert (Hsk : length (skipn k A) < n) by (rewrite skipn_length; lia).
    destruct n as [|n']; [lia|].
    destruct (IH n' (Nat.lt_succ_diag_r n') (TokId (r_shard x))) as (pages & Hit & Hc & Hf);
      [discriminate | cbn [tok_last]; fold M; rewrite Hnext; lia |].
    rewrite Hit. cbn [option_map]. eexists; split; [reflexivity|]. split.
    + cbn [concat]. rewrite Hc. cbn [tok_last]. fold M. rewrite Hnext. apply firstn_skipn.
    + constructor; [rewrite Hkl; unfold k; lia|exact Hf].
Qed.

Lemma after_zero M : (forall r, In r M -> (0 < r_shard r)%N) -> after 0 M = M.
Proof. intros H. apply filter_true. intros r Hr. apply N.ltb_lt. auto. Qed.

(* the token is empty exactly on the last page, and every page but the last is full *)
Theorem pagination_all_once nid q size d :
  (0 <= size)%Z -> NoDup (map r_shard (rows d)) -> (forall r, In r (rows d) -> (0 < r_shard r)%N) ->
  exists pages, iterate (S (length (matching nid q d))) nid q size TokEmpty d = Some pages /\
                concat pages = matching nid q d /\
                Forall (fun p => Z.of_nat (length p) <= per_page size)%Z pages.
Proof.
  intros Hsz Hnd Hpos.
  destruct (pages_from nid q size d Hsz (matching_ssorted nid q d Hnd) (length (matching nid q d)) TokEmpty) as (pages & H1 & H2 & H3).
  - discriminate.
  - cbn [tok_last]. unfold after. apply filter_length_le'.
  - exists pages. split; [exact H1|]. split; [|exact H3]. rewrite H2. cbn [tok_last]. apply after_zero.
    intros r Hr. apply Hpos. eapply Permutation_in in Hr; [|apply matching_perm]. apply filter_In in Hr. tauto.
Qed.
