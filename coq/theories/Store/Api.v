(* Model of the relationship read/write handlers (internal/relationtuple/transact_server.go,
   read_server.go) over decoded request values.  step : state -> op -> state * response. *)
From Coq Require Import List Bool Arith NArith ZArith Lia.
From Keto Require Import Base.Bytes Base.ListX Api.Codec Store.Sql Store.Mapping.
Import ListNotations.

Inductive action := AInsert | ADelete | AOther.

Inductive psize := SizeAbsent | SizeBad | SizeVal (z : Z).

Inductive op :=
| OpCreate (t : tuple)                                         (* PUT /admin/relation-tuples, decoded body *)
| OpDeleteREST (v : values) (body_empty : bool)                (* DELETE /admin/relation-tuples?... *)
| OpPatch (deltas : list (option (action * option tuple)))     (* PATCH; None = JSON null element *)
| OpTransact (deltas : list (action * ptuple))                 (* gRPC TransactRelationTuples *)
| OpDeleteGRPC (q : option pquery)                             (* gRPC DeleteRelationTuples; None = no query given *)
| OpListREST (v : values) (size : psize) (tok : token)         (* GET /relation-tuples *)
| OpListGRPC (q : option pquery) (size : Z) (tok : token).     (* gRPC ListRelationTuples *)

(* HTTP status (gRPC codes are mapped to their HTTP equivalent by the harness); 0 = handler panicked *)
Record resp := { status : nat; listed : list tuple; next_tok : token }.
Definition r_status (n : nat) : resp := {| status := n; listed := []; next_tok := TokEmpty |}.
Definition status_of (e : serr) : nat :=
  match e with
  | E_NilSubject | E_Malformed | E_BadRequest => 400
  | E_NotFound => 404
  | E_Storage => 500
  | E_BadToken => 400      (* after fix D12 (was 500) *)
  end.

(* the statuses the relationship handlers can answer with while the database works (Store/Robust.v proves it) *)
Definition store_statuses : list nat := [200; 201; 204; 400; 404].

(* protoTuplesWithAction: the deltas of one action, decoded with FromDataProvider *)
Definition transact_tuples (a : action) (ds : list (action * ptuple)) : res (list tuple) :=
  fold_right (fun (x : action * ptuple) (acc : res (list tuple)) =>
                match fst x, a with
                | AInsert, AInsert | ADelete, ADelete =>
                  match tuple_from_data_provider (snd x), acc with
                  | Ok t, ROk l => ROk (t :: l)
                  | Ok _, RErr e => RErr e
                  | _, _ => RErr E_NilSubject
                  end
                | _, _ => acc
                end) (ROk []) ds.

Section Handlers.
Variable names : list bytes.     (* configured namespaces *)
Variable nid : N.                (* network of the serving registry *)
Variable f : faults.             (* SQL statement failures, numbered inside the request's transaction *)

(* Transactor().Transaction(FromTuple(rw) ; manager call): one transaction *)
Definition tx_write (ts : list tuple) (mk : list ituple -> N -> list stmt) (nins : nat) (d : db) : db * res unit :=
  match FromTuple names false nid ts with
  | RErr e => (d, RErr e)
  | ROk (its, mstmts) =>
    let '(d', r) := transaction f (mstmts ++ mk its (next d)) d in
    (bump nins d', r)
  end.

Definition valid_keys : list bytes :=
  [K_namespace; K_object; K_relation; K_subject_id; K_ss_namespace; K_ss_object; K_ss_relation; K_subject].

Definition code_of {A} (o : outcome A) : nat := match o with Ok _ => 200 | Err _ => 400 | Panic => 0 end.

Definition split_deltas (ds : list (action * tuple)) : list tuple * list tuple :=
  (map snd (filter (fun d => match fst d with AInsert => true | _ => false end) ds),
   map snd (filter (fun d => match fst d with ADelete => true | _ => false end) ds)).

(* the validation loop of patchRelationTuples: first offending delta decides *)
Fixpoint patch_validate (ds : list (option (action * option tuple))) : res (list (action * tuple)) + unit :=
  match ds with
  | [] => inl (ROk [])
  | None :: _ => inl (RErr E_BadRequest)                 (* null element: 400 after fix D11a (was a nil dereference) *)
  | Some (a, None) :: _ => inl (RErr E_BadRequest)       (* relation_tuple is missing *)
  | Some (a, Some t) :: r =>
    if negb (one_subject t || (match t_sid t, t_sset t with Some _, Some _ => true | _, _ => false end))
    then inl (RErr E_NilSubject)
    else match a with
         | AOther => inl (RErr E_BadRequest)
         | _ => match patch_validate r with
                | inl (ROk l) => inl (ROk ((a, t) :: l))
                | x => x
                end
         end
  end.

Definition do_list (iq : res iquery) (size : Z) (tok : token) (d : db) : resp :=
  match iq with
  | RErr e => r_status (status_of e)
  | ROk q =>
    match GetRelationTuples nid q size tok d with
    | RErr e => r_status (status_of e)
    | ROk (rs, nt) =>
      match ToTuple (map to_ituple rs) d with
      | Some ts => {| status := 200; listed := ts; next_tok := nt |}
      | None => r_status 0
      end
    end
  end.

Definition step (d : db) (o : op) : db * resp :=
  match o with
  | OpCreate t =>
    if negb (one_subject t || (match t_sid t, t_sset t with Some _, Some _ => true | _, _ => false end))
    then (d, r_status 400)
    else
      let '(d', r) := tx_write [t] (fun its sh => write_stmts nid sh its) 1 d in
      (match r with ROk _ => d' | RErr _ => d end,
       r_status (match r with ROk _ => 201 | RErr e => status_of e end))
  | OpDeleteREST v body_empty =>
    if negb (forallb (fun p => existsb (bytes_eqb (fst p)) valid_keys) v) || negb (vhas K_namespace v) || negb body_empty
    then (d, r_status 400)
    else match query_from_url v with
         | Err _ | Panic => (d, r_status 400)
         | Ok q =>
           match FromQuery names nid q with
           | RErr e => (d, r_status (status_of e))
           | ROk iq =>
             let '(d', r) := DeleteAllRelationTuples f nid iq d in
             (d', r_status (match r with ROk _ => 204 | RErr _ => 500 end))
           end
         end
  | OpPatch ds =>
    match patch_validate ds with
    | inr _ => (d, r_status 0)
    | inl (RErr e) => (d, r_status (status_of e))
    | inl (ROk l) =>
      let '(ins, del) := split_deltas l in
      let '(d', r) := tx_write (ins ++ del)
                        (fun its sh => transact_stmts nid sh (firstn (length ins) its) (skipn (length ins) its))
                        (length ins) d in
      (match r with ROk _ => d' | RErr _ => d end,
       r_status (match r with ROk _ => 204 | RErr e => status_of e end))
    end
  | OpTransact ds =>
    (* protoTuplesWithAction stops at the FIRST failing delta of that action; any failure is the same class *)
    match transact_tuples AInsert ds, transact_tuples ADelete ds with
    | ROk ins, ROk del =>
      let '(d', r) := tx_write (ins ++ del)
                        (fun its sh => transact_stmts nid sh (firstn (length ins) its) (skipn (length ins) its))
                        (length ins) d in
      (match r with ROk _ => d' | RErr _ => d end,
       r_status (match r with ROk _ => 200 | RErr e => status_of e end))
    | _, _ => (d, r_status 400)
    end
  | OpDeleteGRPC None => (d, r_status 400)
  | OpDeleteGRPC (Some pq) =>
    match FromQuery names nid (query_from_data_provider pq) with
    | RErr e => (d, r_status (status_of e))
    | ROk iq =>
      let '(d', r) := DeleteAllRelationTuples f nid iq d in
      (d', r_status (match r with ROk _ => 200 | RErr _ => 500 end))
    end
  | OpListREST v size tok =>
    match query_from_url v with
    | Err _ | Panic => (d, r_status 400)
    | Ok q =>
      match size with
      | SizeBad => (d, r_status 400)
      | _ => (d, do_list (FromQuery names nid q) (match size with SizeVal z => z | _ => 0%Z end) tok d)
      end
    end
  | OpListGRPC None _ _ => (d, r_status 400)
  | OpListGRPC (Some pq) size tok =>
    (d, do_list (FromQuery names nid (query_from_data_provider pq)) size tok d)
  end.
End Handlers.

Fixpoint run (names : list bytes) (nid : N) (ops : list op) (d : db) : db * list resp :=
  match ops with
  | [] => (d, [])
  | o :: r => let '(d1, x) := step names nid no_faults d o in
              let '(d2, xs) := run names nid r d1 in (d2, x :: xs)
  end.
