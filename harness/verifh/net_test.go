//go:build verif

package verifh

import (
	"context"
	"fmt"
	"strings"
	"testing"

	"github.com/gofrs/uuid"
	"github.com/ory/x/configx"
	"github.com/ory/x/networkx"

	"github.com/ory/keto/internal/driver"
	"github.com/ory/keto/internal/x/dbx"
)

func init() { suites["NET"] = suiteNet }

type fixedNet struct{ id uuid.UUID }

func (f *fixedNet) Network(context.Context, uuid.UUID) uuid.UUID { return f.id }
func (f *fixedNet) Config(_ context.Context, c *configx.Provider) *configx.Provider {
	return c
}

// ctxNet takes the network from the request context (how a multi-tenant embedder uses ONE registry for all its networks)
type netKey struct{}
type ctxNet struct{}

func (ctxNet) Network(ctx context.Context, def uuid.UUID) uuid.UUID {
	if v, ok := ctx.Value(netKey{}).(uuid.UUID); ok {
		return v
	}
	return def
}
func (ctxNet) Config(_ context.Context, c *configx.Provider) *configx.Provider { return c }

// newEnvPair: two complete server stacks (registry, routers, gRPC servers) on ONE database, serving different networks
func newEnvPair(t *testing.T) (*env, *env) {
	dsn := dbx.GetSqlite(t, dbx.SQLiteMemory)
	a := newEnvDSN(t, dsn, driver.WithNamespaces(nsList(stNamespaces...)))
	n2 := networkx.NewNetwork()
	if err := a.reg.Persister().Connection(a.ctx).Create(n2); err != nil {
		t.Fatalf("create network: %v", err)
	}
	b := newEnvDSN(t, &dbx.DsnT{Name: dsn.Name, Conn: dsn.Conn}, driver.WithNamespaces(nsList(stNamespaces...)),
		driver.VerifWithContextualizer(&fixedNet{id: n2.ID}))
	if b.nid != n2.ID || a.nid == b.nid {
		t.Fatalf("network setup failed: %v %v %v", a.nid, b.nid, n2.ID)
	}
	return a, b
}

func suiteNet(t *testing.T, cfg cfgT) {
	out := newSink(cfg, "cases.txt")
	defer out.close(cfg)
	r := newRng(cfg.seed)
	steps := 0
	for steps < cfg.n {
		hr := r.fork()
		a, b := newEnvPair(t)
		pool := newPool()
		for _, l := range [][]string{stObjects, stSubjects} {
			for _, s := range l {
				pool.add(s)
			}
		}
		pool.addNet(a.nid, 1)
		pool.addNet(b.nid, 2)
		var names []string
		for _, n := range stNamespaces {
			names = append(names, hx(n))
		}
		out.emit("reset 1 "+strings.Join(names, " ")+" .", "-")
		ra := &storeRunner{e: a, pool: pool, out: out}
		rb := &storeRunner{e: b, pool: pool, out: out}
		cur := 1
		n := 10 + hr.intn(20)
		bad := []int{0, 10}[hr.intn(2)]
		for i := 0; i < n; i++ {
			want := 1
			if hr.chance(2, 5) {
				want = 2
			}
			if want != cur {
				out.emit(fmt.Sprintf("use %d", want), "-")
				cur = want
			}
			if cur == 1 {
				ra.step(hr, bad)
			} else {
				rb.step(hr, bad)
			}
			steps++
		}
		a.close()
		b.close()
		out.stat("histories")
	}
}
