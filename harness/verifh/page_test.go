//go:build verif

package verifh

import (
	"context"
	"encoding/json"
	"fmt"
	"net/url"
	"strconv"
	"strings"
	"testing"

	"github.com/ory/keto/internal/driver"
	ksql "github.com/ory/keto/internal/persistence/sql"
	"github.com/ory/keto/ketoapi"
	rts "github.com/ory/keto/proto/ory/keto/relation_tuples/v1alpha2"
)

func init() { suites["PAGE"] = suitePage }

// rowsInOrder returns the rows of the env's network ordered by shard_id as the database orders them,
// each as "<shard hex> <T ...>"
func (e *env) rowsInOrder(p *namePool) ([]string, []string) {
	conn := e.reg.Persister().Connection(e.ctx)
	var rows []*ksql.RelationTuple
	if err := conn.RawQuery("SELECT * FROM keto_relation_tuples WHERE nid = ? ORDER BY shard_id", e.nid).All(&rows); err != nil {
		panic(err)
	}
	var out, ids []string
	for _, r := range rows {
		obj := p.byID[r.Object]
		t := &ketoapi.RelationTuple{Namespace: r.Namespace, Object: obj[1], Relation: r.Relation}
		if r.SubjectID.Valid {
			s := p.byID[r.SubjectID.UUID][1]
			t.SubjectID = &s
		} else {
			t.SubjectSet = &ketoapi.SubjectSet{Namespace: r.SubjectSetNamespace.String, Object: p.byID[r.SubjectSetObject.UUID][1], Relation: r.SubjectSetRelation.String}
		}
		id := strings.ReplaceAll(r.ID.String(), "-", "")
		out = append(out, "h"+id+" "+fmtTuple(t))
		ids = append(ids, r.ID.String())
	}
	return out, ids
}

func pgTuple(r *rng, nobj int) *ketoapi.RelationTuple {
	t := &ketoapi.RelationTuple{Namespace: r.pick(stNamespaces), Object: fmt.Sprintf("o%d", r.intn(nobj)), Relation: r.pick([]string{"r", "s", "s", ""})}
	if r.chance(2, 3) {
		s := fmt.Sprintf("u%d", r.intn(7))
		t.SubjectID = &s
	} else {
		t.SubjectSet = &ketoapi.SubjectSet{Namespace: r.pick(stNamespaces), Object: fmt.Sprintf("o%d", r.intn(nobj)), Relation: r.pick([]string{"r", ""})}
	}
	return t
}

func suitePage(t *testing.T, cfg cfgT) {
	out := newSink(cfg, "cases.txt")
	defer out.close(cfg)
	r := newRng(cfg.seed)
	ctx := context.Background()
	sizesN := []int{0, 1, 2, 5, 30, 99, 100, 101, 150, 201, 250}
	emitted := 0
	envNo := 0
	// internal consumers of keyset pagination: the traverser pages through the subject sets of one object#relation 1000 at
	// a time; with 999 / 1000 / 1001 / 2003 of them every row must come back exactly once
	for _, n := range []int{999, 1000, 1001, 2003} {
		e := newEnv(t, driver.WithNamespaces(nsList(stNamespaces...)))
		var ts []*ketoapi.RelationTuple
		for i := 0; i < n; i++ {
			ts = append(ts, &ketoapi.RelationTuple{Namespace: "n", Object: "wide", Relation: "r",
				SubjectSet: &ketoapi.SubjectSet{Namespace: "m", Object: fmt.Sprintf("g%d", i), Relation: "s"}})
		}
		its, err := e.reg.Mapper().FromTuple(ctx, ts...)
		if err == nil {
			err = e.reg.RelationTupleManager().WriteRelationTuples(ctx, its...)
		}
		if err != nil {
			t.Fatalf("wide insert: %v", err)
		}
		q, _ := e.reg.ReadOnlyMapper().FromTuple(ctx, &ketoapi.RelationTuple{Namespace: "n", Object: "wide", Relation: "r", SubjectID: strp("nobody")})
		res, err := e.reg.Traverser().TraverseSubjectSetExpansion(ctx, q[0])
		want := map[string]int{}
		for _, it := range its {
			want[it.Subject.String()]++
		}
		got := map[string]int{}
		for _, x := range res {
			got[fmt.Sprintf("%s:%s#%s", x.To.Namespace, x.To.Object, x.To.Relation)]++
		}
		missing, extra := 0, 0
		for k, c := range want {
			if got[k] < c {
				missing += c - got[k]
			}
		}
		for k, c := range got {
			if want[k] < c {
				extra += c - want[k]
			}
		}
		obs := "complete"
		if err != nil || missing > 0 || extra > 0 {
			obs = fmt.Sprintf("returned %d of %d: %d missing, %d unexpected or repeated, err=%v", len(res), n, missing, extra, err != nil)
		}
		out.emit(fmt.Sprintf("pinternal traverser-expansion %d", n), obs)
		out.stat("internal.traverser")
		emitted++
		e.close()
	}
	{ // a malformed page token is a client error - whatever its length (a UUID has 36 characters)
		e := newEnv(t, driver.WithNamespaces(nsList(stNamespaces...)))
		its, _ := e.reg.Mapper().FromTuple(ctx, &ketoapi.RelationTuple{Namespace: "n", Object: "o", Relation: "r", SubjectID: strp("u")})
		_ = e.reg.RelationTupleManager().WriteRelationTuples(ctx, its...)
		for _, tok := range []string{"zzz", "123", "6df0ce80-8b1d-460e-851b-889db595b00z", "not-a-uuid-but-36-characters-long-xx", "zzzzzzzz-zzzz-zzzz-zzzz-zzzzzzzzzzzz",
			"6df0ce808b1d460e851b889db595b00z", "6df0ce80-8b1d-460e-851b-889db595b00", "6df0ce80-8b1d-460e-851b-889db595b00aa"} {
			code, _ := rest(e.read, "GET", "/relation-tuples?namespace=n&page_token="+url.QueryEscape(tok), nil)
			_, gerr := rts.NewReadServiceClient(e.rconn).ListRelationTuples(ctx, &rts.ListRelationTuplesRequest{RelationQuery: &rts.RelationQuery{}, PageToken: tok})
			obs := "complete"
			if code != 400 || grpcCode(gerr) != 400 {
				obs = fmt.Sprintf("malformed token answered REST %d gRPC %d", code, grpcCode(gerr))
			}
			out.emit("pinternal malformed-token "+hx(tok), obs)
			out.stat("internal.bad_token")
			emitted++
		}
		e.close()
	}
	for emitted < cfg.n {
		hr := r.fork()
		e := newEnv(t, driver.WithNamespaces(nsList(stNamespaces...)))
		pool := newPool()
		nobj := 1 + hr.intn(4)
		if hr.chance(1, 3) {
			nobj = 120 + hr.intn(60) // many distinct names: one page then needs more than one chunk of the name lookup
		}
		for i := 0; i < 8 || i < nobj; i++ {
			pool.add(fmt.Sprintf("o%d", i))
			pool.add(fmt.Sprintf("u%d", i))
		}
		pool.addNet(e.nid, 1)
		n := sizesN[hr.intn(len(sizesN))]
		bigEnv := envNo == 0 // the first environment: a table larger than any internal cap, asked for in pages of 1000 and more
		envNo++
		if bigEnv {
			n = 2300
		}
		insert := func(k int) {
			req := &rts.TransactRelationTuplesRequest{}
			for i := 0; i < k; i++ {
				req.RelationTupleDeltas = append(req.RelationTupleDeltas, &rts.RelationTupleDelta{Action: rts.RelationTupleDelta_ACTION_INSERT, RelationTuple: tupleToProto(pgTuple(hr, nobj))})
			}
			if _, err := rts.NewWriteServiceClient(e.wconn).TransactRelationTuples(ctx, req); err != nil {
				t.Fatalf("insert: %v", err)
			}
		}
		if n > 0 {
			insert(n)
		}
		out.emit("reset 1 "+hx("n")+" "+hx("m")+" .", "-")
		out.stat(fmt.Sprintf("tables.n%d", n))
		iters := 3 + hr.intn(3)
		if bigEnv {
			iters = 6
		}
		for it := 0; it < iters; it++ {
			// query shape
			var pairs [][2]string
			if hr.chance(4, 5) {
				pairs = append(pairs, [2]string{"namespace", hr.pick(stNamespaces)})
			}
			if hr.chance(1, 3) {
				pairs = append(pairs, [2]string{"object", fmt.Sprintf("o%d", hr.intn(nobj))})
			}
			if hr.chance(1, 3) {
				pairs = append(pairs, [2]string{"relation", hr.pick([]string{"r", "s", ""})}) // "" is a relation like any other
			}
			if hr.chance(1, 5) {
				pairs = append(pairs, [2]string{"subject_id", fmt.Sprintf("u%d", hr.intn(7))})
			} else if hr.chance(1, 6) {
				pairs = append(pairs, [2]string{"subject_set.namespace", hr.pick(stNamespaces)}, [2]string{"subject_set.object", fmt.Sprintf("o%d", hr.intn(nobj))},
					[2]string{"subject_set.relation", hr.pick([]string{"r", ""})})
			}
			sizes := []int{0, 99, 100, 101, 250, n - 1, n, n + 1, 7, 33, n/2 + 1, n/3 + 1, n/4 + 1}
			if n <= 30 {
				sizes = append(sizes, 1, 2, 3)
			}
			size := sizes[hr.intn(len(sizes))]
			if size < 0 {
				size = 0
			}
			if bigEnv {
				pairs = nil
				size = []int{1000, 1001, 1500, 2000, 2299, 5000}[it%6]
			}
			grpc := hr.chance(1, 3)
			interleave := hr.chance(1, 3)
			out.emit(fmt.Sprintf("iterstart %s %d", fmtPairs(pairs), size), "-")
			out.stat("iterations")
			if interleave {
				out.stat("iterations.interleaved")
			}
			tok := ""
			for page := 0; page < 400; page++ {
				rows, ids := e.rowsInOrder(pool)
				out.emit(fmt.Sprintf("table %d %s", len(rows), strings.Join(rows, " ")), "-")
				tokIdx := "-"
				if tok != "" {
					tokIdx = "gone"
					for i, id := range ids {
						if id == tok {
							tokIdx = strconv.Itoa(i + 1)
						}
					}
					if tokIdx == "gone" {
						// the token row was deleted in between: give the model the rank it would have
						k := 0
						for _, id := range ids {
							if id < tok {
								k++
							}
						}
						tokIdx = "after" + strconv.Itoa(k)
					}
				}
				var code int
				var got []*ketoapi.RelationTuple
				var next string
				if grpc {
					q := &rts.RelationQuery{}
					var ssN, ssO, ssR string
					hasSS := false
					for _, kv := range pairs {
						v := kv[1]
						switch kv[0] {
						case "namespace":
							q.Namespace = &v
						case "object":
							q.Object = &v
						case "relation":
							q.Relation = &v
						case "subject_id":
							q.Subject = rts.NewSubjectID(v)
						case "subject_set.namespace":
							ssN = v
							hasSS = true
						case "subject_set.object":
							ssO = v
						case "subject_set.relation":
							ssR = v
						}
					}
					if hasSS {
						q.Subject = rts.NewSubjectSet(ssN, ssO, ssR)
					}
					resp, err := rts.NewReadServiceClient(e.rconn).ListRelationTuples(ctx, &rts.ListRelationTuplesRequest{RelationQuery: q, PageSize: int32(size), PageToken: tok})
					code = grpcCode(err)
					if err == nil {
						for _, pt := range resp.RelationTuples {
							got = append(got, (&ketoapi.RelationTuple{}).FromProto(pt))
						}
						next = resp.NextPageToken
					}
				} else {
					qs := encodePairs(pairs)
					if size != 0 || hr.chance(1, 2) {
						qs += "&page_size=" + strconv.Itoa(size)
					}
					if tok != "" {
						qs += "&page_token=" + url.QueryEscape(tok)
					}
					var body []byte
					code, body = rest(e.read, "GET", "/relation-tuples?"+qs, nil)
					if code == 200 {
						var resp ketoapi.GetResponse
						if err := json.Unmarshal(body, &resp); err != nil {
							t.Fatal(err)
						}
						got, next = resp.RelationTuples, resp.NextPageToken
					}
				}
				var ts []string
				for _, g := range got {
					ts = append(ts, fmtTuple(g))
				}
				nextIdx := "-"
				if next != "" {
					nextIdx = "?"
					for i, id := range ids {
						if id == next {
							nextIdx = strconv.Itoa(i + 1)
						}
					}
				}
				out.emit(fmt.Sprintf("page %s %d %s", fmtPairs(pairs), size, tokIdx), fmt.Sprintf("%d %d %s %s", code, len(ts), strings.Join(ts, " "), nextIdx))
				emitted++
				out.stat("pages")
				if code != 200 || next == "" {
					break
				}
				tok = next
				if interleave {
					switch hr.intn(4) {
					case 3: // delete exactly the row the token points at (the last row of the page just fetched): the token stays a valid lower bound
						if len(got) > 0 {
							rest(e.write, "DELETE", "/admin/relation-tuples?"+got[len(got)-1].ToURLQuery().Encode(), nil)
							out.stat("iterations.token_row_deleted")
						}
					case 0:
						insert(1 + hr.intn(3))
					case 1: // delete a few arbitrary relationships by query
						p := [][2]string{{"namespace", hr.pick(stNamespaces)}, {"object", fmt.Sprintf("o%d", hr.intn(nobj))}, {"subject_id", fmt.Sprintf("u%d", hr.intn(7))}}
						rest(e.write, "DELETE", "/admin/relation-tuples?"+encodePairs(p), nil)
					}
				}
			}
			out.emit("iterend", "-")
		}
		e.close()
	}
}
