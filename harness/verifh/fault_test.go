//go:build verif

package verifh

import (
	"context"
	"errors"
	"fmt"
	"io"
	"runtime"
	"strings"
	"sync"
	"testing"
	"time"

	"github.com/ory/keto/internal/check"
	"github.com/ory/keto/internal/driver"
	"github.com/ory/keto/internal/namespace"
	"github.com/ory/keto/internal/namespace/ast"
	"github.com/ory/keto/internal/relationtuple"
	"github.com/ory/keto/internal/x"
	"github.com/ory/keto/ketoapi"
)

func init() {
	suites["FAULT"] = suiteFault
	suites["TERM"] = suiteTerm
}

var errInjected = errors.New("injected storage failure: connection refused")

// the kinds of error a database driver hands up: a storage failure is a storage failure whatever its type; in
// particular one that merely LOOKS like a cancellation / timeout / not-found while the request is alive
var injectedKinds = []error{
	errInjected,
	fmt.Errorf("driver: bad connection: %w", context.Canceled),
	fmt.Errorf("statement timeout: %w", context.DeadlineExceeded),
	io.ErrUnexpectedEOF,
	fmt.Errorf("pq: the database system is shutting down: %w", errInjected),
}

// (not-found errors are deliberately not among them: the engine documents herodot.ErrNotFound from a traversal as
// "nothing there", that is a result, not a failure)

func kindOf(k int, persistent bool) int {
	if persistent {
		return 0
	}
	return k
}

func (p *storagePlan) err() error { return injectedKinds[p.kind%len(injectedKinds)] }

// storagePlan decides, per storage operation (numbered in the order they are issued), whether it fails,
// and can cancel the request after a given operation.
type storagePlan struct {
	mu         sync.Mutex
	n          int
	failAt     int  // fail the failAt-th operation (1-based); 0 = never
	persistent bool // and every later one
	cancelAt   int  // cancel the request context when the cancelAt-th operation is issued
	cancel     context.CancelFunc
	kind       int // which of injectedKinds a failing operation returns
}

func (p *storagePlan) hit() bool {
	p.mu.Lock()
	defer p.mu.Unlock()
	p.n++
	if p.cancelAt != 0 && p.n == p.cancelAt && p.cancel != nil {
		p.cancel()
	}
	if p.failAt != 0 && (p.n == p.failAt || (p.persistent && p.n > p.failAt)) {
		return true
	}
	return false
}
func (p *storagePlan) count() int { p.mu.Lock(); defer p.mu.Unlock(); return p.n }

type fManager struct {
	relationtuple.Manager
	p *storagePlan
}

func (m *fManager) GetRelationTuples(ctx context.Context, q *relationtuple.RelationQuery, o ...x.PaginationOptionSetter) ([]*relationtuple.RelationTuple, string, error) {
	if m.p.hit() {
		return nil, "", m.p.err()
	}
	return m.Manager.GetRelationTuples(ctx, q, o...)
}
func (m *fManager) ExistsRelationTuples(ctx context.Context, q *relationtuple.RelationQuery) (bool, error) {
	if m.p.hit() {
		return false, m.p.err()
	}
	return m.Manager.ExistsRelationTuples(ctx, q)
}

type fTraverser struct {
	relationtuple.Traverser
	p *storagePlan
}

func (t *fTraverser) TraverseSubjectSetExpansion(ctx context.Context, tu *relationtuple.RelationTuple) ([]*relationtuple.TraversalResult, error) {
	if t.p.hit() {
		return nil, t.p.err()
	}
	return t.Traverser.TraverseSubjectSetExpansion(ctx, tu)
}
func (t *fTraverser) TraverseSubjectSetRewrite(ctx context.Context, tu *relationtuple.RelationTuple, rels []string) ([]*relationtuple.TraversalResult, error) {
	if t.p.hit() {
		return nil, t.p.err()
	}
	return t.Traverser.TraverseSubjectSetRewrite(ctx, tu, rels)
}

// fDeps are the engine's dependencies with the storage operations wrapped; everything else is the real registry
type fDeps struct {
	*driver.RegistryDefault
	m *fManager
	t *fTraverser
}

func (d *fDeps) RelationTupleManager() relationtuple.Manager { return d.m }
func (d *fDeps) Traverser() relationtuple.Traverser          { return d.t }

func (ee *engineEnv) faultyEngine(p *storagePlan) *check.Engine {
	reg := ee.e.reg
	return check.NewEngine(&fDeps{RegistryDefault: reg, m: &fManager{Manager: reg.RelationTupleManager(), p: p}, t: &fTraverser{Traverser: reg.Traverser(), p: p}})
}

// runPlan runs one check under a plan with a hard timeout; returns obs "mem err" or "hang"
func (ee *engineEnv) runPlan(tu *ketoapi.RelationTuple, depth int, p *storagePlan, timeout time.Duration) (obs string, latency time.Duration, cancelledAt time.Time) {
	ctx, cancel := context.WithCancel(context.Background())
	defer cancel()
	p.cancel = cancel
	its, err := ee.e.reg.ReadOnlyMapper().FromTuple(ctx, tu)
	if err != nil {
		return "maperr", 0, time.Time{}
	}
	eng := ee.faultyEngine(p)
	type out struct{ s string }
	ch := make(chan out, 1)
	start := time.Now()
	go func() {
		res := eng.CheckRelationTuple(ctx, its[0], depth)
		er := 0
		if res.Err != nil {
			er = 1
		}
		ch <- out{fmt.Sprintf("%s %d", memTok(res.Membership), er)}
	}()
	select {
	case o := <-ch:
		return o.s, time.Since(start), time.Time{}
	case <-time.After(timeout):
		cancel() // release the goroutines of a hanging check
		select {
		case <-ch:
		case <-time.After(2 * time.Second):
		}
		return "hang", timeout, time.Time{}
	}
}

func suiteFault(t *testing.T, cfg cfgT) {
	out := newSink(cfg, "cases.txt")
	defer out.close(cfg)
	r := newRng(cfg.seed)
	cases := 0
	cases += faultCorpus(t, out)
	for cases < cfg.n {
		hr := r.fork()
		allowNot := hr.chance(2, 3)
		nss := genConfig(hr, allowNot)
		strict := hr.chance(1, 5)
		ee := newEngineEnv(t, nss, strict, strict || hr.chance(1, 3), 40, 100)
		ee.header(out)
		ee.insert(t, egTuples(hr, nss, 4+hr.intn(18), strict || hr.chance(1, 2)))
		ee.table(out)
		out.stat("envs")
		for i := 0; i < 8 && cases < cfg.n; i++ {
			q := egQuery(hr, nss)
			base := &storagePlan{cancelAt: costBudget} // see costBudget: exponentially expensive requests are cancelled there and skipped
			obs0, _, _ := ee.runPlan(q, 0, base, 20*time.Second)
			if base.count() >= costBudget {
				out.emit(fmt.Sprintf("echeck %s %d", fmtTuple(q), 0), "costly")
				out.stat("costly")
				cases++
				continue
			}
			out.emit(fmt.Sprintf("echeck %s %d", fmtTuple(q), 0), obs0)
			n := base.count()
			out.stat(fmt.Sprintf("calls.%d", min(n, 20)))
			if obs0 == "maperr" {
				continue
			}
			for k := 1; k <= n; k++ {
				for _, persistent := range []bool{false, true} {
					p := &storagePlan{failAt: k, persistent: persistent, kind: kindOf(k, persistent)}
					obs, _, _ := ee.runPlan(q, 0, p, 20*time.Second)
					mode := "transient"
					if persistent {
						mode = "persistent"
					}
					out.emit(fmt.Sprintf("efault %s %d %d %s", fmtTuple(q), 0, k, mode), obs)
					out.stat("fault." + mode + "." + strings.Fields(obs)[0])
					cases++
				}
			}
		}
		ee.e.close()
	}
}

func settleGoroutines(base int) (int, bool) {
	deadline := time.Now().Add(3 * time.Second)
	n := runtime.NumGoroutine()
	for time.Now().Before(deadline) {
		n = runtime.NumGoroutine()
		if n <= base {
			return n, true
		}
		time.Sleep(10 * time.Millisecond)
	}
	return n, false
}

// suiteTerm: every check returns (also under faults and cancellation), promptly after a cancel, and leaves no goroutine behind (C15)
func suiteTerm(t *testing.T, cfg cfgT) {
	out := newSink(cfg, "cases.txt")
	defer out.close(cfg)
	r := newRng(cfg.seed)
	cases := 0
	termHung = false
	termCorpus(t, out, &cases)
	for cases < cfg.n && !termHung {
		hr := r.fork()
		nss := genConfig(hr, hr.chance(1, 2))
		gdepth := 2 + hr.intn(7)
		width := []int{100, 100, 2, 3}[hr.intn(4)]
		ee := newEngineEnv(t, nss, false, hr.chance(1, 3), gdepth, width)
		ee.header(out)
		ee.insert(t, egTuples(hr, nss, 6+hr.intn(25), hr.chance(1, 2)))
		ee.table(out)
		// warm up lazily created singletons, then take the goroutine baseline
		wq := egQuery(hr, nss)
		ee.runPlan(wq, 0, &storagePlan{}, 20*time.Second)
		time.Sleep(100 * time.Millisecond)
		base := runtime.NumGoroutine()
		for i := 0; i < 6 && cases < cfg.n; i++ {
			termOne(ee, out, egQuery(hr, nss), 0, base, hr.chance(1, 2), &cases)
		}
		ee.e.close()
	}
}

var termHung bool

// termOne: one check, plain, cancelled at several storage operations, with a storage failure at the same positions,
// and with an already cancelled context
func termOne(ee *engineEnv, out *sink, q *ketoapi.RelationTuple, rd int, base int, persistent bool, casesp *int) {
	cases := *casesp
	defer func() { *casesp = cases }()
	if termHung {
		return // a check that does not return was already found: that is the violation, further runs only cost time
	}
	p0 := &storagePlan{}
	obs0, lat0, _ := ee.runPlan(q, rd, p0, 20*time.Second)
	n := p0.count()
	emit := func(mode string, k int, obs string, lat time.Duration, prompt bool) {
		g, ok := settleGoroutines(base)
		ret, pr, gr := 1, 1, 1
		if obs == "hang" {
			ret = 0
			termHung = true
		}
		if !prompt {
			pr = 0
		}
		if !ok {
			gr = 0
		}
		out.emit(fmt.Sprintf("eterm %s %d %s %d", fmtTuple(q), rd, mode, k),
			fmt.Sprintf("returned=%d prompt=%d goroutines=%d calls=%d result=%s leftover=%d", ret, pr, gr, n, strings.ReplaceAll(obs, " ", "/"), g-base))
		out.stat("term." + mode + "." + strings.Fields(obs)[0])
		out.w.Flush()
		cases++
	}
	emit("plain", 0, obs0, lat0, true)
	if obs0 == "maperr" || termHung {
		return
	}
	// cancellation: before the first storage operation, between operations, after completion
	ks := []int{1, 2, 3, n / 2, n}
	seen := map[int]bool{}
	for _, k := range ks {
		if k < 1 || k > n || seen[k] {
			continue
		}
		seen[k] = true
		p := &storagePlan{cancelAt: k}
		obs, lat, _ := ee.runPlan(q, rd, p, 20*time.Second)
		emit("cancel", k, obs, lat, lat < lat0+2*time.Second)
		pf := &storagePlan{failAt: k, persistent: persistent}
		obsf, latf, _ := ee.runPlan(q, rd, pf, 20*time.Second)
		emit("fault", k, obsf, latf, true)
	}
	// already cancelled context
	{
		ctx, cancel := context.WithCancel(context.Background())
		cancel()
		its, err := ee.e.reg.ReadOnlyMapper().FromTuple(context.Background(), q)
		if err == nil {
			start := time.Now()
			done := make(chan string, 1)
			go func() {
				res := ee.e.reg.PermissionEngine().CheckRelationTuple(ctx, its[0], rd)
				er := 0
				if res.Err != nil {
					er = 1
				}
				done <- fmt.Sprintf("%s %d", memTok(res.Membership), er)
			}()
			select {
			case o := <-done:
				emit("precancelled", 0, o, time.Since(start), time.Since(start) < 2*time.Second)
			case <-time.After(10 * time.Second):
				emit("precancelled", 0, "hang", 10*time.Second, false)
			}
		}
	}
}

// faultCorpus: structured configurations in which the requested subject IS a member of every operand, so that every
// storage operation matters: nested intersections, negation over an intersection, a union of intersections, a
// tuple-to-subject-set hop into an intersection.  Every storage operation of every check fails once (transient and
// persistent); the oracle is the one of the random part.
func faultCorpus(t *testing.T, out *sink) int {
	n := 0
	and := func(cs ...ast.Child) *ast.SubjectSetRewrite {
		return &ast.SubjectSetRewrite{Operation: ast.OperatorAnd, Children: cs}
	}
	or := func(cs ...ast.Child) *ast.SubjectSetRewrite { return &ast.SubjectSetRewrite{Children: cs} }
	css := func(r string) ast.Child { return &ast.ComputedSubjectSet{Relation: r} }
	not := func(c ast.Child) ast.Child { return &ast.InvertResult{Child: c} }
	ttu := func(r, cr string) ast.Child {
		return &ast.TupleToSubjectSet{Relation: r, ComputedSubjectSetRelation: cr}
	}
	rel := func(name string, rw *ast.SubjectSetRewrite) ast.Relation {
		return ast.Relation{Name: name, SubjectSetRewrite: rw}
	}
	typed := func(name, ns string) ast.Relation {
		return ast.Relation{Name: name, Types: []ast.RelationType{{Namespace: ns}}}
	}
	nss := []*namespace.Namespace{{Name: "U"}, {Name: "Doc", Relations: []ast.Relation{
		typed("owner", "U"), typed("reviewer", "U"), typed("editor", "U"), typed("banned", "U"), typed("parents", "Doc"),
		rel("approve", and(css("owner"), css("reviewer"))),
		rel("publish", and(css("editor"), css("approve"))),
		rel("draft", or(not(css("publish")))),
		rel("either", or(and(css("owner"), css("editor")), css("reviewer"))),
		rel("inherit", and(ttu("parents", "approve"), css("editor"))),
		rel("clean", or(not(and(css("owner"), not(css("banned")))))),
		rel("deep", and(css("publish"), css("either"))),
	}}}
	tuples := []string{"Doc:d#owner@alice", "Doc:d#reviewer@alice", "Doc:d#editor@alice", "Doc:c#parents@Doc:d#", "Doc:c#editor@alice",
		"Doc:d#owner@bob", "Doc:d#banned@bob", "Doc:c#owner@alice", "Doc:c#reviewer@alice"}
	checks := []string{"Doc:d#approve@alice", "Doc:d#publish@alice", "Doc:d#draft@alice", "Doc:d#either@alice", "Doc:c#inherit@alice",
		"Doc:d#clean@alice", "Doc:d#clean@bob", "Doc:d#deep@alice", "Doc:d#publish@bob", "Doc:d#draft@bob", "Doc:c#deep@alice"}
	for _, opl := range []bool{false, true} {
		ee := newEngineEnv(t, nss, false, opl, 40, 100)
		for _, o := range []string{"c", "d", "alice", "bob"} {
			ee.pool.add(o)
		}
		ee.header(out)
		var ts []*ketoapi.RelationTuple
		for _, x := range tuples {
			tu, err := (&ketoapi.RelationTuple{}).FromString(x)
			if err != nil {
				t.Fatal(err)
			}
			ts = append(ts, tu)
		}
		ee.insert(t, ts)
		ee.table(out)
		for _, c := range checks {
			q, _ := (&ketoapi.RelationTuple{}).FromString(c)
			base := &storagePlan{}
			obs0, _, _ := ee.runPlan(q, 0, base, 20*time.Second)
			out.emit(fmt.Sprintf("echeck %s %d", fmtTuple(q), 0), obs0)
			for k := 1; k <= base.count(); k++ {
				for _, persistent := range []bool{false, true} {
					obs, _, _ := ee.runPlan(q, 0, &storagePlan{failAt: k, persistent: persistent, kind: kindOf(k, persistent)}, 20*time.Second)
					mode := "transient"
					if persistent {
						mode = "persistent"
					}
					out.emit(fmt.Sprintf("efault %s %d %d %s", fmtTuple(q), 0, k, mode), obs)
					out.stat("corpus.fault." + strings.Fields(obs)[0])
					n++
				}
			}
		}
		ee.e.close()
	}
	return n
}

// termCorpus: recursive permissions over CYCLIC hierarchies (the random generator keeps hierarchy relations acyclic
// because the engine does not protect tuple-to-subject-set recursion by its visited set: only the depth budget ends
// it).  view = owner || parents.traverse(p => p.permits.view); a 2-cycle, a 3-cycle with a tail, a self loop, and a
// fan-out-2 cycle; negative and positive checks at request depths 0 (global 5), 3, 5 and 8.
func termCorpus(t *testing.T, out *sink, cases *int) {
	or := func(cs ...ast.Child) *ast.SubjectSetRewrite { return &ast.SubjectSetRewrite{Children: cs} }
	and := func(cs ...ast.Child) *ast.SubjectSetRewrite {
		return &ast.SubjectSetRewrite{Operation: ast.OperatorAnd, Children: cs}
	}
	nss := []*namespace.Namespace{{Name: "U"}, {Name: "F", Relations: []ast.Relation{
		{Name: "owner", Types: []ast.RelationType{{Namespace: "U"}}},
		{Name: "parents", Types: []ast.RelationType{{Namespace: "F"}}},
		{Name: "view", SubjectSetRewrite: or(&ast.ComputedSubjectSet{Relation: "owner"}, &ast.TupleToSubjectSet{Relation: "parents", ComputedSubjectSetRelation: "view"})},
		{Name: "strict", SubjectSetRewrite: and(&ast.TupleToSubjectSet{Relation: "parents", ComputedSubjectSetRelation: "view"}, &ast.TupleToSubjectSet{Relation: "parents", ComputedSubjectSetRelation: "strict"})},
		// negations whose operand runs out of depth (answers "unknown") at every distance from the root
		{Name: "blocked", Types: []ast.RelationType{{Namespace: "U"}}},
		{Name: "open", SubjectSetRewrite: or(&ast.TupleToSubjectSet{Relation: "parents", ComputedSubjectSetRelation: "open"}, &ast.InvertResult{Child: &ast.ComputedSubjectSet{Relation: "blocked"}})},
		{Name: "vis", SubjectSetRewrite: and(&ast.ComputedSubjectSet{Relation: "owner"}, &ast.InvertResult{Child: &ast.TupleToSubjectSet{Relation: "parents", ComputedSubjectSetRelation: "blocked"}})},
		{Name: "nn", SubjectSetRewrite: or(&ast.InvertResult{Child: or(&ast.InvertResult{Child: &ast.ComputedSubjectSet{Relation: "view"}})})},
		{Name: "ng", SubjectSetRewrite: or(&ast.InvertResult{Child: &ast.SubjectSetRewrite{Operation: ast.OperatorAnd, Children: ast.Children{&ast.ComputedSubjectSet{Relation: "view"}, &ast.ComputedSubjectSet{Relation: "owner"}}}})},
	}}}
	tuples := []string{"F:a#parents@F:b#", "F:b#parents@F:a#", "F:a#owner@alice",
		"F:c#parents@F:d#", "F:d#parents@F:e#", "F:e#parents@F:c#", "F:e#parents@F:t#", "F:t#owner@bob",
		"F:s#parents@F:s#",
		"F:x#parents@F:y#", "F:x#parents@F:z#", "F:y#parents@F:x#", "F:y#parents@F:z#", "F:z#parents@F:x#", "F:z#parents@F:y#"}
	// a wide hierarchy node: more parents than one storage page (100), the grant behind a parent on the second page
	for i := 0; i < 150; i++ {
		tuples = append(tuples, fmt.Sprintf("F:w#parents@F:q%d#", i))
	}
	tuples = append(tuples, "F:q120#owner@carol")
	checks := []string{"F:a#view@nobody", "F:b#view@alice", "F:c#view@bob", "F:c#view@nobody", "F:s#view@nobody", "F:x#view@nobody", "F:x#strict@nobody", "F:a#strict@alice",
		"F:w#view@nobody", "F:w#view@carol"}
	for _, opl := range []bool{false, true} {
		ee := newEngineEnv(t, nss, false, opl, 5, 100)
		for _, o := range []string{"a", "b", "c", "d", "e", "t", "s", "x", "y", "z", "w", "alice", "bob", "carol", "nobody"} {
			ee.pool.add(o)
		}
		for i := 0; i < 150; i++ {
			ee.pool.add(fmt.Sprintf("q%d", i))
		}
		ee.header(out)
		var ts []*ketoapi.RelationTuple
		for _, x := range tuples {
			tu, err := (&ketoapi.RelationTuple{}).FromString(x)
			if err != nil {
				t.Fatal(err)
			}
			ts = append(ts, tu)
		}
		ee.insert(t, ts)
		ee.table(out)
		wq, _ := (&ketoapi.RelationTuple{}).FromString("F:t#view@bob")
		ee.runPlan(wq, 0, &storagePlan{}, 20*time.Second)
		time.Sleep(100 * time.Millisecond)
		base := runtime.NumGoroutine()
		for _, c := range checks {
			q, _ := (&ketoapi.RelationTuple{}).FromString(c)
			for _, rd := range []int{0, 3, 8, 1000000} { // a huge request depth is capped by the global limit
				termOne(ee, out, q, rd, base, false, cases)
			}
		}
		for _, c := range []string{"F:t#open@bob", "F:c#open@bob", "F:e#open@nobody", "F:t#vis@bob", "F:a#vis@alice", "F:t#nn@bob", "F:c#nn@bob", "F:t#ng@bob", "F:c#ng@nobody"} {
			q, _ := (&ketoapi.RelationTuple{}).FromString(c)
			for _, rd := range []int{1, 2, 3, 4, 5} {
				termOne(ee, out, q, rd, base, false, cases)
			}
		}
		ee.e.close()
	}
	out.stat("corpus")
}
