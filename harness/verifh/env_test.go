//go:build verif

package verifh

import (
	"bytes"
	"context"
	"fmt"
	"io"
	"net"
	"net/http"
	"net/http/httptest"
	"sort"
	"strings"
	"testing"

	"github.com/gofrs/uuid"
	"github.com/sirupsen/logrus"
	"google.golang.org/grpc"
	"google.golang.org/grpc/codes"
	"google.golang.org/grpc/credentials/insecure"
	"google.golang.org/grpc/status"
	"google.golang.org/grpc/test/bufconn"

	"github.com/ory/keto/internal/driver"
	"github.com/ory/keto/internal/namespace"
	ksql "github.com/ory/keto/internal/persistence/sql"
	"github.com/ory/keto/internal/x/dbx"
	rts "github.com/ory/keto/proto/ory/keto/relation_tuples/v1alpha2"
)

type env struct {
	t     testing.TB
	ctx   context.Context
	reg   *driver.RegistryDefault
	read  http.Handler
	write http.Handler
	nid   uuid.UUID

	rconn, wconn *grpc.ClientConn
	stop         []func()
}

func (e *env) close() {
	for _, f := range e.stop {
		f()
	}
}

func serveBuf(s *grpc.Server) (*grpc.ClientConn, func()) {
	lis := bufconn.Listen(1 << 20)
	go func() { _ = s.Serve(lis) }()
	conn, err := grpc.NewClient("passthrough:///bufnet",
		grpc.WithContextDialer(func(ctx context.Context, _ string) (net.Conn, error) { return lis.DialContext(ctx) }),
		grpc.WithTransportCredentials(insecure.NewCredentials()),
		grpc.WithDefaultCallOptions(grpc.MaxCallRecvMsgSize(1<<28), grpc.MaxCallSendMsgSize(1<<28)))
	if err != nil {
		panic(err)
	}
	return conn, func() { conn.Close(); s.Stop() }
}

func nsList(names ...string) []*namespace.Namespace {
	var r []*namespace.Namespace
	for _, n := range names {
		r = append(r, &namespace.Namespace{Name: n})
	}
	return r
}

func newEnv(t testing.TB, opts ...driver.TestRegistryOption) *env {
	return newEnvDSN(t, dbx.GetSqlite(t, dbx.SQLiteMemory), opts...)
}

// scopedTB hands the cleanups that the registry registers (cancelling the context its file watchers live in) to the
// environment instead of the whole test: a long run opens thousands of environments, and every namespace-file watcher
// holds an inotify instance (128 per user here) until its context is cancelled.
type scopedTB struct {
	testing.TB
	fns []func()
}

func (s *scopedTB) Cleanup(f func()) { s.fns = append(s.fns, f) }

func newEnvDSN(t testing.TB, dsn *dbx.DsnT, opts ...driver.TestRegistryOption) *env {
	opts = append([]driver.TestRegistryOption{driver.WithLogLevel("panic")}, opts...)
	st := &scopedTB{TB: t}
	reg := driver.NewTestRegistry(st, dsn, opts...)
	reg.Logger().Logrus().SetOutput(io.Discard)
	reg.Logger().Logrus().SetLevel(logrus.PanicLevel)
	ctx := context.Background()
	e := &env{t: t, ctx: ctx, reg: reg}
	reg.PrometheusManager()
	e.read = reg.ReadRouter(ctx)
	e.write = reg.WriteRouter(ctx)
	e.nid = reg.Persister().NetworkID(ctx)
	var s1, s2 func()
	e.rconn, s1 = serveBuf(reg.ReadGRPCServer(ctx))
	e.wconn, s2 = serveBuf(reg.WriteGRPCServer(ctx))
	e.stop = append(e.stop, s1, s2)
	e.stop = append(e.stop, func() {
		for i := len(st.fns) - 1; i >= 0; i-- {
			st.fns[i]()
		}
	})
	return e
}

// rest performs one request against a router; returns status (0 if the handler panicked) and body
func rest(h http.Handler, method, target string, body []byte) (code int, out []byte) {
	return restCtx(context.Background(), h, method, target, body)
}

// restCtx: the same with a request context (deadline of the caller)
func restCtx(ctx context.Context, h http.Handler, method, target string, body []byte) (code int, out []byte) {
	defer func() {
		if r := recover(); r != nil {
			code, out = 0, []byte(fmt.Sprint(r))
		}
	}()
	var rd io.Reader
	if body != nil {
		rd = bytes.NewReader(body)
	}
	req := httptest.NewRequest(method, target, rd).WithContext(ctx)
	if body != nil {
		req.Header.Set("Content-Type", "application/json")
	}
	w := httptest.NewRecorder()
	h.ServeHTTP(w, req)
	return w.Code, w.Body.Bytes()
}

// grpcCode maps a gRPC result to the HTTP-equivalent status used by the model
func grpcCode(err error) int {
	if err == nil {
		return 200
	}
	switch status.Code(err) {
	case codes.InvalidArgument:
		return 400
	case codes.NotFound:
		return 404
	case codes.Internal:
		if strings.Contains(status.Convert(err).Message(), "nil pointer") || strings.Contains(status.Convert(err).Message(), "runtime error") {
			return 0 // recovered panic
		}
		return 500
	case codes.Unknown:
		return 500
	case codes.PermissionDenied:
		return 403
	case codes.Canceled, codes.DeadlineExceeded:
		return 499
	}
	return 1000 + int(status.Code(err))
}

// ---- database dump, names interned through a pool of known strings ----
type namePool struct {
	nets  map[uuid.UUID]int       // network uuid -> small number
	byID  map[uuid.UUID][2]string // uuid5(net, s) -> (net number, s)
	names []string
}

func newPool() *namePool {
	return &namePool{nets: map[uuid.UUID]int{}, byID: map[uuid.UUID][2]string{}}
}
func (p *namePool) addNet(n uuid.UUID, k int) {
	p.nets[n] = k
	for _, s := range p.names {
		p.byID[uuid.NewV5(n, s)] = [2]string{fmt.Sprint(k), s}
	}
}
func (p *namePool) add(s string) {
	for _, x := range p.names {
		if x == s {
			return
		}
	}
	p.names = append(p.names, s)
	for n, k := range p.nets {
		p.byID[uuid.NewV5(n, s)] = [2]string{fmt.Sprint(k), s}
	}
}
func (p *namePool) uid(u uuid.UUID) string {
	if x, ok := p.byID[u]; ok {
		return x[0] + " " + hx(x[1])
	}
	return "? " + hx(u.String())
}

// dump returns the canonical contents of both tables: sorted rows, sorted mappings
func (e *env) dump(p *namePool) string {
	rs, ms, errs := e.dumpParts(p)
	if errs != "" {
		return errs
	}
	return fmt.Sprintf("D %d %s %d %s", len(rs), strings.Join(rs, " "), len(ms), strings.Join(ms, " "))
}

func (e *env) dumpParts(p *namePool) (rs, ms []string, errs string) {
	conn := e.reg.Persister().Connection(e.ctx)
	var rows []*ksql.RelationTuple
	if err := conn.RawQuery("SELECT * FROM keto_relation_tuples").All(&rows); err != nil {
		return nil, nil, "DUMPERR " + hx(err.Error())
	}
	for _, r := range rows {
		net, ok := p.nets[r.NetworkID]
		if !ok {
			net = -1
		}
		var sub string
		if r.SubjectID.Valid {
			sub = "I " + p.uid(r.SubjectID.UUID)
		} else {
			sub = fmt.Sprintf("S %s %s %s", hx(r.SubjectSetNamespace.String), p.uid(r.SubjectSetObject.UUID), hx(r.SubjectSetRelation.String))
		}
		rs = append(rs, fmt.Sprintf("R %d %s %s %s %s", net, hx(r.Namespace), p.uid(r.Object), hx(r.Relation), sub))
	}
	sort.Strings(rs)
	var maps []*ksql.UUIDMapping
	if err := conn.RawQuery("SELECT * FROM keto_uuid_mappings").All(&maps); err != nil {
		return nil, nil, "DUMPERR " + hx(err.Error())
	}
	for _, m := range maps {
		x, ok := p.byID[m.ID]
		if ok && x[1] == m.StringRepresentation {
			ms = append(ms, fmt.Sprintf("M %s %s", x[0], hx(x[1])))
		} else {
			ms = append(ms, fmt.Sprintf("M? %s %s", hx(m.ID.String()), hx(m.StringRepresentation)))
		}
	}
	sort.Strings(ms)
	return rs, ms, ""
}

var _ = rts.NewSubjectID
