//go:build verif

package verifh

// CONC suite (C14): requests against unchanging data, alone and concurrently.
//
// Per round: a generated configuration and store (the ENGINE generator) on one shared in-memory database;
// registry A answers every request alone; a COLD registry B on the same database (nothing initialised yet)
// answers G shuffled copies of the same request list from G goroutines released together.
//   econf/table/echeck lines have the ENGINE format: the observation is the answer obtained CONCURRENTLY
//     ("diverged" if the G answers differ), so the engine model is compared with concurrent answers;
//   conc <kind> <request> => same | diff ... compares alone with concurrent for REST/gRPC check, batch check,
//     expand, paginated list and namespaces.
// Then a mixed read/write phase on B (answers are not compared; it exists for the race detector).
// With the -race build (VERIFH_EXTRA race=1) the harness log carries the race reports.

import (
	"context"
	"encoding/json"
	"fmt"
	"net/url"
	"sort"
	"strings"
	"sync"
	"testing"

	"github.com/ory/keto/internal/driver"
	"github.com/ory/keto/internal/driver/config"
	"github.com/ory/keto/internal/namespace"
	"github.com/ory/keto/internal/x/dbx"
	"github.com/ory/keto/ketoapi"
	rts "github.com/ory/keto/proto/ory/keto/relation_tuples/v1alpha2"
)

func init() { suites["CONC"] = suiteConc }

type concReq struct {
	kind  string // echeck | rest | grpc | batch | gbatch | expand | list | glist | namespaces
	desc  string
	tuple *ketoapi.RelationTuple
	depth int
	run   func(e *env) string
	alone func(e *env) string // if set: what the request must answer, computed from simpler requests run alone
}

func engineOpts(nss []*namespace.Namespace, strict, useOPL bool, gdepth, width int) []driver.TestRegistryOption {
	opts := []driver.TestRegistryOption{
		driver.WithConfig(config.KeyLimitMaxReadDepth, gdepth),
		driver.WithConfig(config.KeyLimitMaxReadWidth, width),
	}
	if useOPL || strict {
		opts = append(opts, driver.WithOPL(renderOPL(nss)))
		if strict {
			opts = append(opts, driver.WithConfig(config.KeyNamespacesExperimentalStrictMode, true))
		}
	} else {
		opts = append(opts, driver.WithNamespaces(nss))
	}
	return opts
}

func checkVia(e *env, tu *ketoapi.RelationTuple, depth int) string {
	ctx := context.Background()
	its, err := e.reg.ReadOnlyMapper().FromTuple(ctx, tu)
	if err != nil {
		return "maperr"
	}
	res := e.reg.PermissionEngine().CheckRelationTuple(ctx, its[0], depth)
	er := 0
	if res.Err != nil {
		er = 1
	}
	return fmt.Sprintf("%s %d", memTok(res.Membership), er)
}

// stressCheck repeats one check reps times from par goroutines and counts the answers that differ from want:
// an answer that depends on the goroutine schedule shows up as a rare deviation
func stressCheck(e *env, q *ketoapi.RelationTuple, depth int, want string, reps, par int) int {
	var wg sync.WaitGroup
	var mu sync.Mutex
	dev := 0
	for g := 0; g < par; g++ {
		wg.Add(1)
		go func() {
			defer wg.Done()
			for i := 0; i < reps/par; i++ {
				if got := checkVia(e, q, depth); got != want {
					mu.Lock()
					dev++
					mu.Unlock()
				}
			}
		}()
	}
	wg.Wait()
	return dev
}

// diamondStress: concurrent requests whose walks share subject sets.  dA reaches "team" through five groups (the check is
// answered through the first one while the sub-checks for its siblings are still running), dB reaches the same "team"
// through one group only; team -> inner -> user, so membership is found two levels below the shared set.  Whatever one
// request (or a straggling goroutine of a request that is already answered) has visited must never be held against
// another request: every answer is "is".  Returns the number of deviating answers out of reps.
func diamondStress(t *testing.T, ee *engineEnv, target *env, nss []*namespace.Namespace, reps, par int) (int, bool) {
	for _, ns := range nss[1:] {
		for _, rel := range ns.Relations {
			if rel.SubjectSetRewrite != nil {
				continue
			}
			mk := func(o string, sid *string, so string) *ketoapi.RelationTuple {
				tu := &ketoapi.RelationTuple{Namespace: ns.Name, Object: o, Relation: rel.Name, SubjectID: sid}
				if sid == nil {
					tu.SubjectSet = &ketoapi.SubjectSet{Namespace: ns.Name, Object: so, Relation: rel.Name}
				}
				return tu
			}
			u := egUsers[0]
			groups := []string{"gF", "gS", "g3", "g4", "g5"}
			var ts []*ketoapi.RelationTuple
			for _, g := range groups {
				ts = append(ts, mk("dA", nil, g), mk(g, nil, "team"))
			}
			ts = append(ts, mk("dB", nil, "hO"), mk("hO", nil, "team"), mk("team", nil, "inner"), mk("inner", &u, ""))
			for _, x := range append([]string{"dA", "dB", "hO", "team", "inner"}, groups...) {
				ee.pool.add(x)
			}
			ee.insert(t, ts)
			qa, qb := mk("dA", &u, ""), mk("dB", &u, "")
			var wg sync.WaitGroup
			var mu sync.Mutex
			dev := 0
			for g := 0; g < par; g++ {
				wg.Add(1)
				go func(g int) {
					defer wg.Done()
					for i := 0; i < reps/par; i++ {
						q := qa
						if (i+g)%2 == 1 {
							q = qb
						}
						if got := checkVia(target, q, 0); got != "is 0" {
							mu.Lock()
							dev++
							mu.Unlock()
						}
					}
				}(g)
			}
			wg.Wait()
			return dev, true
		}
	}
	return 0, false
}

func listAll(e *env, v url.Values, size int) string {
	var all []string
	tok := ""
	for page := 0; page < 200; page++ {
		q := url.Values{}
		for k, x := range v {
			q[k] = x
		}
		q.Set("page_size", fmt.Sprint(size))
		if tok != "" {
			q.Set("page_token", tok)
		}
		code, body := rest(e.read, "GET", "/relation-tuples?"+q.Encode(), nil)
		if code != 200 {
			return fmt.Sprintf("code%d", code)
		}
		var resp ketoapi.GetResponse
		if err := json.Unmarshal(body, &resp); err != nil {
			return "badjson"
		}
		for _, t := range resp.RelationTuples {
			all = append(all, t.String())
		}
		tok = resp.NextPageToken
		if tok == "" {
			break
		}
	}
	return fmt.Sprintf("%d:%s", len(all), hx(strings.Join(all, "|")))
}

func concRequests(r *rng, nss []*namespace.Namespace, motifQ []*ketoapi.RelationTuple, costly func(*ketoapi.RelationTuple) bool) []*concReq {
	var reqs []*concReq
	var qs []*ketoapi.RelationTuple
	for i := 0; i < 20; i++ {
		q := egQuery(r, nss)
		for try := 0; try < 6 && costly(q); try++ { // see costBudget: exponentially expensive requests are not part of this suite
			q = egQuery(r, nss)
			if try == 5 {
				q.Relation = "nope"
			}
		}
		rd := 0
		if r.chance(1, 4) {
			rd = r.intn(11) - 3
		}
		if i < len(motifQ) && !costly(motifQ[i]) {
			q, rd = motifQ[i], 0
		}
		qs = append(qs, q)
		q2, rd2 := q, rd
		reqs = append(reqs, &concReq{kind: "echeck", desc: fmt.Sprintf("echeck %s %d", fmtTuple(q), rd), tuple: q, depth: rd,
			run: func(e *env) string { return checkVia(e, q2, rd2) }})
	}
	for i := 0; i < 4; i++ {
		q := qs[r.intn(len(qs))]
		body, _ := json.Marshal(q)
		switch r.intn(3) {
		case 0:
			reqs = append(reqs, &concReq{kind: "rest", desc: "conc restcheck " + fmtTuple(q), run: func(e *env) string {
				code, b := rest(e.read, "GET", "/relation-tuples/check/openapi?"+q.ToURLQuery().Encode(), nil)
				return fmt.Sprintf("%d %s", code, hx(strings.TrimSpace(string(b))))
			}})
		case 1:
			reqs = append(reqs, &concReq{kind: "rest", desc: "conc postcheck " + fmtTuple(q), run: func(e *env) string {
				code, b := rest(e.read, "POST", "/relation-tuples/check", body)
				return fmt.Sprintf("%d %s", code, hx(strings.TrimSpace(string(b))))
			}})
		case 2:
			pt := tupleToProto(q)
			reqs = append(reqs, &concReq{kind: "grpc", desc: "conc grpccheck " + fmtTuple(q), run: func(e *env) string {
				resp, err := rts.NewCheckServiceClient(e.rconn).Check(context.Background(), &rts.CheckRequest{Tuple: pt, MaxDepth: 0})
				if err != nil {
					return fmt.Sprintf("%d", grpcCode(err))
				}
				return fmt.Sprintf("200 %v", resp.Allowed)
			}})
		}
	}
	// requests that name namespaces the server does not know (each name new to the server): the not-found path
	for i := 0; i < 4; i++ {
		u := egUsers[r.intn(len(egUsers))]
		q := &ketoapi.RelationTuple{Namespace: fmt.Sprintf("unknown-%d-%d", r.intn(1000000), i), Object: "o", Relation: "r", SubjectID: &u}
		body, _ := json.Marshal(q)
		reqs = append(reqs, &concReq{kind: "rest", desc: "conc unknownns " + fmtTuple(q), run: func(e *env) string {
			code, b := rest(e.read, "POST", "/relation-tuples/check/openapi", body)
			return fmt.Sprintf("%d %s", code, hx(strings.TrimSpace(string(b))))
		}})
		qs = append(qs, q) // so that batches contain unknown namespaces too
	}
	// batch checks over subsets (the per-tuple result slots)
	singles := func(e *env, sub []*ketoapi.RelationTuple) string { // what the entries answer one by one
		var sb strings.Builder
		for _, q := range sub {
			switch o := checkVia(e, q, 0); {
			case o == "is 0":
				sb.WriteString("1;")
			case strings.HasSuffix(o, " 0"):
				sb.WriteString("0;")
			default:
				sb.WriteString("0e;")
			}
		}
		return "200 " + sb.String()
	}
	for i := 0; i < 3; i++ {
		var sub []*ketoapi.RelationTuple
		for j := 0; j < 3+r.intn(8); j++ {
			if i == 0 && len(motifQ) > 0 { // entries that walk the same subject sets
				sub = append(sub, motifQ[r.intn(len(motifQ))])
			} else {
				sub = append(sub, qs[r.intn(len(qs))])
			}
		}
		body, _ := json.Marshal(map[string]interface{}{"tuples": sub})
		sub2 := sub
		reqs = append(reqs, &concReq{kind: "batch", desc: fmt.Sprintf("conc batch %d %s", len(sub), fmtTuple(sub[0])), alone: func(e *env) string { return singles(e, sub2) }, run: func(e *env) string {
			code, b := rest(e.read, "POST", "/relation-tuples/batch/check", body)
			var rb struct {
				Results []struct {
					Allowed bool   `json:"allowed"`
					Error   string `json:"error"`
				} `json:"results"`
			}
			if code != 200 || json.Unmarshal(b, &rb) != nil {
				return fmt.Sprintf("%d", code)
			}
			var sb strings.Builder
			for _, x := range rb.Results {
				switch {
				case x.Error != "":
					sb.WriteString("0e;")
				case x.Allowed:
					sb.WriteString("1;")
				default:
					sb.WriteString("0;")
				}
			}
			return "200 " + sb.String()
		}})
		preq := &rts.BatchCheckRequest{}
		for _, q := range sub {
			preq.Tuples = append(preq.Tuples, tupleToProto(q))
		}
		reqs = append(reqs, &concReq{kind: "gbatch", desc: fmt.Sprintf("conc gbatch %d %s", len(sub), fmtTuple(sub[0])), alone: func(e *env) string { return singles(e, sub2) }, run: func(e *env) string {
			resp, err := rts.NewCheckServiceClient(e.rconn).BatchCheck(context.Background(), preq)
			if err != nil {
				return fmt.Sprintf("%d", grpcCode(err))
			}
			var sb strings.Builder
			for _, x := range resp.Results {
				switch {
				case x.Error != "":
					sb.WriteString("0e;")
				case x.Allowed:
					sb.WriteString("1;")
				default:
					sb.WriteString("0;")
				}
			}
			return "200 " + sb.String()
		}})
	}
	// expand
	for i := 0; i < 3; i++ {
		q := qs[r.intn(len(qs))]
		v := url.Values{"namespace": {q.Namespace}, "object": {q.Object}, "relation": {q.Relation}, "max-depth": {fmt.Sprint(r.intn(5))}}
		reqs = append(reqs, &concReq{kind: "expand", desc: "conc expand " + hx(v.Encode()), run: func(e *env) string {
			code, b := rest(e.read, "GET", "/relation-tuples/expand?"+v.Encode(), nil)
			return fmt.Sprintf("%d %s", code, hx(strings.TrimSpace(string(b))))
		}})
	}
	// paginated lists (cursor state is per request)
	for i := 0; i < 3; i++ {
		v := url.Values{}
		if r.chance(2, 3) {
			v.Set("namespace", nss[1+r.intn(len(nss)-1)].Name)
		}
		size := 1 + r.intn(4)
		reqs = append(reqs, &concReq{kind: "list", desc: fmt.Sprintf("conc list %s %d", hx(v.Encode()), size), run: func(e *env) string { return listAll(e, v, size) }})
	}
	reqs = append(reqs, &concReq{kind: "namespaces", desc: "conc namespaces -", run: func(e *env) string {
		code, b := rest(e.read, "GET", "/namespaces", nil)
		var resp struct {
			Namespaces []struct {
				Name string `json:"name"`
			} `json:"namespaces"`
		}
		_ = json.Unmarshal(b, &resp)
		var names []string
		for _, n := range resp.Namespaces {
			names = append(names, n.Name)
		}
		sort.Strings(names)
		return fmt.Sprintf("%d %s", code, hx(strings.Join(names, ",")))
	}})
	return reqs
}

func suiteConc(t *testing.T, cfg cfgT) {
	out := newSink(cfg, "cases.txt")
	defer out.close(cfg)
	r := newRng(cfg.seed)
	G := 8
	cases := 0
	rounds := 0
	for cases < cfg.n {
		hr := r.fork()
		allowNot := hr.chance(1, 2)
		nss := genConfig(hr, allowNot)
		strict := hr.chance(1, 4)
		useOPL := strict || hr.chance(1, 2)
		opts := engineOpts(nss, strict, useOPL, 60, 100)
		dsn := dbx.GetSqlite(t, dbx.SQLiteMemory)
		a := newEnvDSN(t, dsn, opts...)
		pool := newPool()
		for _, s := range egObjects {
			pool.add(s)
		}
		for _, s := range egUsers {
			pool.add(s)
		}
		for _, x := range []string{"m1", "m2", "l1", "l2", "l3"} {
			pool.add(x)
		}
		pool.addNet(a.nid, 1)
		eeA := &engineEnv{e: a, pool: pool, nss: nss, strict: strict, gdepth: 60, width: 100}
		eeA.header(out)
		eeA.insert(t, egTuples(hr, nss, 6+hr.intn(20), strict || hr.chance(1, 2)))
		var motifQ []*ketoapi.RelationTuple
		if !strict && hr.chance(2, 3) {
			var mt []*ketoapi.RelationTuple
			mt, motifQ = egMotif(hr, nss)
			eeA.insert(t, mt)
		}
		// a depth ladder: the SAME tuple asked with different max-depth gets different answers; concurrent requests for
		// one tuple must not share an answer
		var ladderQ *ketoapi.RelationTuple
		if !strict {
			for _, ns := range nss[1:] {
				for _, rel := range ns.Relations {
					if rel.SubjectSetRewrite == nil && ladderQ == nil {
						mk := func(o string, sid *string, ss *ketoapi.SubjectSet) *ketoapi.RelationTuple {
							return &ketoapi.RelationTuple{Namespace: ns.Name, Object: o, Relation: rel.Name, SubjectID: sid, SubjectSet: ss}
						}
						u := egUsers[0]
						eeA.insert(t, []*ketoapi.RelationTuple{
							mk("l1", nil, &ketoapi.SubjectSet{Namespace: ns.Name, Object: "l2", Relation: rel.Name}),
							mk("l2", nil, &ketoapi.SubjectSet{Namespace: ns.Name, Object: "l3", Relation: rel.Name}),
							mk("l3", &u, nil)})
						ladderQ = mk("l1", &u, nil)
					}
				}
			}
		}
		eeA.table(out)
		reqs := concRequests(hr, nss, motifQ, func(q *ketoapi.RelationTuple) bool { return eeA.costly(q, 0) })
		if ladderQ != nil {
			for _, rd := range []int{1, 2, 3, 4, 0} {
				q, rd := ladderQ, rd
				reqs = append(reqs, &concReq{kind: "echeck", desc: fmt.Sprintf("echeck %s %d", fmtTuple(q), rd), tuple: q, depth: rd,
					run: func(e *env) string { return checkVia(e, q, rd) }})
			}
		}
		// alone, on the warm registry
		alone := make([]string, len(reqs))
		for i, q := range reqs {
			if q.alone != nil {
				alone[i] = q.alone(a)
			} else {
				alone[i] = q.run(a)
			}
		}
		// concurrently, on a cold registry over the same database
		b := newEnvDSN(t, &dbx.DsnT{Name: dsn.Name, Conn: dsn.Conn}, opts...)
		if b.nid != a.nid {
			t.Fatalf("registries serve different networks")
		}
		if !useOPL && rounds%2 == 0 {
			// a configuration reload just before the requests arrive (same namespaces): the namespace manager is dropped
			// and rebuilt lazily by whichever request comes first
			if err := b.reg.Config(context.Background()).Set(config.KeyNamespaces, nss); err != nil {
				t.Fatalf("reload: %v", err)
			}
			out.stat("rounds.reloaded")
		}
		results := make([][]string, G)
		orders := make([][]int, G)
		for g := 0; g < G; g++ {
			results[g] = make([]string, len(reqs))
			o := make([]int, len(reqs))
			for i := range o {
				o[i] = i
			}
			for i := len(o) - 1; i > 0; i-- {
				j := hr.intn(i + 1)
				o[i], o[j] = o[j], o[i]
			}
			orders[g] = o
		}
		var wg sync.WaitGroup
		start := make(chan struct{})
		for g := 0; g < G; g++ {
			wg.Add(1)
			go func(g int) {
				defer wg.Done()
				<-start
				for _, i := range orders[g] {
					results[g][i] = reqs[i].run(b)
				}
			}(g)
		}
		close(start)
		wg.Wait()
		for i, q := range reqs {
			conc := results[0][i]
			same := true
			for g := 0; g < G; g++ {
				if results[g][i] != alone[i] {
					same = false
					conc = results[g][i]
				}
			}
			if q.kind == "echeck" {
				obs := alone[i]
				if !same {
					obs = "diverged alone=" + strings.ReplaceAll(alone[i], " ", "_") + " concurrent=" + strings.ReplaceAll(conc, " ", "_")
				}
				out.emit(q.desc, obs)
			} else if same {
				out.emit(q.desc, "same")
			} else {
				out.emit(q.desc, fmt.Sprintf("diff alone=%s concurrent=%s", hx(alone[i]), hx(conc)))
			}
			out.stat("req." + q.kind)
			if !same {
				out.stat("diverged")
			}
			cases++
		}
		// schedule stress: a few checks (positive ones first) repeated thousands of times from several goroutines
		if rounds < 1 {
			picked := 0
			for pass := 0; pass < 2 && picked < 5; pass++ {
				for i, q := range reqs {
					if q.kind != "echeck" || picked >= 5 {
						continue
					}
					if (pass == 0) != (alone[i] == "is 0") {
						continue
					}
					if alone[i] != "is 0" && alone[i] != "not 0" {
						continue
					}
					dev := stressCheck(b, q.tuple, q.depth, alone[i], 1200, 8)
					verdict := "same"
					if dev > 0 {
						verdict = fmt.Sprintf("diff %d-of-1200-repetitions-answered-differently-from-%s", dev, strings.ReplaceAll(alone[i], " ", "_"))
					}
					out.emit(fmt.Sprintf("conc stress %s %d", fmtTuple(q.tuple), q.depth), verdict)
					out.stat("stress")
					picked++
					cases++
				}
			}
		}
		if rounds < 2 && !strict {
			if dev, ok := diamondStress(t, eeA, b, nss, 4800, 16); ok {
				verdict := "same"
				if dev > 0 {
					verdict = fmt.Sprintf("diff %d-of-4800-checks-on-shared-subject-sets-answered-not-allowed", dev)
				}
				out.emit("conc diamond-stress -", verdict)
				out.stat("stress.diamond")
				cases++
			}
		}
		rounds++
		// mixed read/write phase (for the race detector; SQLite may refuse concurrent writers, answers are not compared)
		var wg2 sync.WaitGroup
		for g := 0; g < 6; g++ {
			wg2.Add(1)
			gr := hr.fork()
			go func(g int) {
				defer wg2.Done()
				for k := 0; k < 12; k++ {
					switch {
					case g < 2: // writers
						tu := egTuples(gr, nss, 1, true)
						if len(tu) == 0 {
							continue
						}
						body, _ := json.Marshal(tu[0])
						switch gr.intn(3) {
						case 0:
							rest(b.write, "PUT", "/admin/relation-tuples", body)
						case 1:
							rest(b.write, "DELETE", "/admin/relation-tuples?"+tu[0].ToURLQuery().Encode(), nil)
						case 2:
							rest(b.write, "PATCH", "/admin/relation-tuples", []byte(`[{"action":"insert","relation_tuple":`+string(body)+`}]`))
						}
					default:
						reqs[gr.intn(len(reqs))].run(b)
					}
				}
			}(g)
		}
		wg2.Wait()
		out.emit(fmt.Sprintf("conc mixed %d", cases), "same")
		out.w.Flush()
		b.close()
		a.close()
	}
}
