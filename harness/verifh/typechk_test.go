//go:build verif

package verifh

import (
	"time"
	"path/filepath"
	"os"
	"context"
	"fmt"
	"github.com/ory/keto/internal/driver"
	"github.com/ory/keto/internal/driver/config"
	"sort"
	"strings"
	"testing"

	"github.com/ory/keto/internal/namespace"
	"github.com/ory/keto/internal/namespace/ast"
	"github.com/ory/keto/internal/schema"
	"github.com/ory/keto/ketoapi"
)

func init() { suites["TYPECHK"] = suiteTypechk }

const marker = "Zundeclared"

func cloneNss(nss []*namespace.Namespace) []*namespace.Namespace {
	var out []*namespace.Namespace
	for _, ns := range nss {
		c := &namespace.Namespace{Name: ns.Name}
		for _, r := range ns.Relations {
			rc := ast.Relation{Name: r.Name, Types: append([]ast.RelationType{}, r.Types...)}
			if r.SubjectSetRewrite != nil {
				rc.SubjectSetRewrite = cloneChild(r.SubjectSetRewrite).(*ast.SubjectSetRewrite)
			}
			c.Relations = append(c.Relations, rc)
		}
		out = append(out, c)
	}
	return out
}
func cloneChild(c ast.Child) ast.Child {
	switch c := c.(type) {
	case *ast.ComputedSubjectSet:
		x := *c
		return &x
	case *ast.TupleToSubjectSet:
		x := *c
		return &x
	case *ast.InvertResult:
		return &ast.InvertResult{Child: cloneChild(c.Child)}
	case *ast.SubjectSetRewrite:
		x := &ast.SubjectSetRewrite{Operation: c.Operation}
		for _, ch := range c.Children {
			x.Children = append(x.Children, cloneChild(ch))
		}
		return x
	}
	panic("child")
}

// collect pointers to every reference of each kind
type refSite struct {
	kind string
	set  func(string)
}

func refSites(nss []*namespace.Namespace) []refSite {
	var sites []refSite
	var walk func(c ast.Child)
	walk = func(c ast.Child) {
		switch c := c.(type) {
		case *ast.ComputedSubjectSet:
			if strings.HasPrefix(c.Relation, "p") {
				sites = append(sites, refSite{"permits", func(s string) { c.Relation = "p" + s }})
			} else {
				sites = append(sites, refSite{"includes", func(s string) { c.Relation = s }})
			}
		case *ast.TupleToSubjectSet:
			sites = append(sites, refSite{"traverse-relation", func(s string) { c.Relation = s }})
			if strings.HasPrefix(c.ComputedSubjectSetRelation, "p") {
				sites = append(sites, refSite{"traverse-target", func(s string) { c.ComputedSubjectSetRelation = "p" + s }})
			} else {
				sites = append(sites, refSite{"traverse-target", func(s string) { c.ComputedSubjectSetRelation = s }})
			}
		case *ast.InvertResult:
			walk(c.Child)
		case *ast.SubjectSetRewrite:
			for _, ch := range c.Children {
				walk(ch)
			}
		}
	}
	for _, ns := range nss {
		for ri := range ns.Relations {
			r := &ns.Relations[ri]
			for ti := range r.Types {
				t := &r.Types[ti]
				if t.Relation == "" {
					sites = append(sites, refSite{"type-namespace", func(s string) { t.Namespace = s }})
				} else {
					sites = append(sites, refSite{"subjectset-namespace", func(s string) { t.Namespace = s }})
					sites = append(sites, refSite{"subjectset-relation", func(s string) { t.Relation = s }})
				}
			}
			if r.SubjectSetRewrite != nil {
				walk(r.SubjectSetRewrite)
			}
		}
	}
	return sites
}

func suiteTypechk(t *testing.T, cfg cfgT) {
	out := newSink(cfg, "cases.txt")
	defer out.close(cfg)
	r := newRng(cfg.seed)
	cases := 0
	{ // corpus: known finding D18 (the error for an undeclared traverse target points at the traversed relation)
		msrc := "class U implements Namespace {}\nclass N0 implements Namespace {\n  related: { r0: N0[] }\n  permits = { p0: (ctx) => this.related.r0.traverse((x) => x.related." + marker + ".includes(ctx.subject)) }\n}\n"
		idx := strings.Index(msrc, marker)
		_, errs := schema.Parse(msrc)
		obs := fmt.Sprintf("E %d", len(errs))
		for _, e := range errs {
			a, b := e.VerifItemRange()
			obs += fmt.Sprintf(" %d %d", a, b)
		}
		out.emit(fmt.Sprintf("tcmutant %s %d %d SRC %s", "traverse-target", idx, idx+len(marker), hx(msrc)), obs)
		out.stat("corpus.d18")
	}
	// corpus: hand-written documents in which the namespaces declare DIFFERENT relations (the generator gives every
	// namespace the same relation names), served with conforming relationships: no check on a declared relation may
	// carry a schema error
	for _, doc := range tcDocs {
		for _, strict := range []bool{false, true} {
			opts := []driver.TestRegistryOption{driver.WithOPL(doc.src), driver.WithConfig(config.KeyLimitMaxReadDepth, 12), driver.WithConfig(config.KeyLimitMaxReadWidth, 100)}
			if strict {
				opts = append(opts, driver.WithConfig(config.KeyNamespacesExperimentalStrictMode, true))
			}
			e := newEnv(t, opts...)
			pool := newPool()
			for _, x := range doc.names {
				pool.add(x)
			}
			pool.addNet(e.nid, 1)
			nm, _ := e.reg.Config(context.Background()).NamespaceManager()
			loaded, _ := nm.Namespaces(context.Background())
			sort.Slice(loaded, func(i, j int) bool { return loaded[i].Name < loaded[j].Name })
			ee := &engineEnv{e: e, pool: pool, nss: loaded, strict: strict, gdepth: 12, width: 100}
			ee.header(out)
			var ts []*ketoapi.RelationTuple
			for _, x := range doc.tuples {
				tu, err := (&ketoapi.RelationTuple{}).FromString(x)
				if err != nil {
					t.Fatal(err)
				}
				ts = append(ts, tu)
			}
			ee.insert(t, ts)
			ee.table(out)
			for _, c := range doc.checks {
				q, _ := (&ketoapi.RelationTuple{}).FromString(c)
				out.emit(fmt.Sprintf("tcheck %s %d", fmtTuple(q), 0), ee.check(q, 0))
				cases++
			}
			e.close()
			out.stat("corpus.docs")
		}
	}
	// corpus: a hot reload.  The watched OPL file is replaced by another accepted document (a permission renamed, a relation
	// added) while the server runs and after the first document has been used by checks (also for a relation only the
	// second one declares); what the second document declares must then be checkable without a schema error
	for _, strict := range []bool{false, true} {
		v1 := `class User implements Namespace {}
class Folder implements Namespace {
  related: { viewers: User[] }
  permits = { view: (ctx: Context): boolean => this.related.viewers.includes(ctx.subject) }
}
class Doc implements Namespace {
  related: { parents: Folder[] }
  permits = { view: (ctx: Context): boolean => this.related.parents.traverse((p) => p.permits.view(ctx)) }
}`
		v2 := `class User implements Namespace {}
class Folder implements Namespace {
  related: { viewers: User[] }
  permits = { read: (ctx: Context): boolean => this.related.viewers.includes(ctx.subject) }
}
class Doc implements Namespace {
  related: { parents: Folder[]; owners: User[] }
  permits = { view: (ctx: Context): boolean => this.related.parents.traverse((p) => p.permits.read(ctx)) }
}
class Reloaded implements Namespace {}`
		dir := t.TempDir()
		file := filepath.Join(dir, "namespaces.ts")
		if err := os.WriteFile(file, []byte(v1), 0o600); err != nil {
			t.Fatal(err)
		}
		opts := []driver.TestRegistryOption{driver.WithConfig(config.KeyNamespaces+".location", "file://"+file),
			driver.WithConfig(config.KeyLimitMaxReadDepth, 12), driver.WithConfig(config.KeyLimitMaxReadWidth, 100)}
		if strict {
			opts = append(opts, driver.WithConfig(config.KeyNamespacesExperimentalStrictMode, true))
		}
		e := newEnv(t, opts...)
		pool := newPool()
		for _, x := range []string{"readme", "f", "alice", "bob"} {
			pool.add(x)
		}
		pool.addNet(e.nid, 1)
		bg := context.Background()
		load := func() []*namespace.Namespace {
			nm, _ := e.reg.Config(bg).NamespaceManager()
			l, _ := nm.Namespaces(bg)
			sort.Slice(l, func(i, j int) bool { return l[i].Name < l[j].Name })
			return l
		}
		mkT := func(xs ...string) (ts []*ketoapi.RelationTuple) {
			for _, x := range xs {
				tu, err := (&ketoapi.RelationTuple{}).FromString(x)
				if err != nil {
					t.Fatal(err)
				}
				ts = append(ts, tu)
			}
			return
		}
		ee := &engineEnv{e: e, pool: pool, nss: load(), strict: strict, gdepth: 12, width: 100}
		ee.header(out)
		ee.insert(t, mkT("Doc:readme#parents@Folder:f#", "Folder:f#viewers@User:alice#"))
		ee.table(out)
		for _, q := range mkT("Doc:readme#view@User:alice#", "Folder:f#view@User:alice#", "Doc:readme#view@User:bob#") {
			out.emit(fmt.Sprintf("tcheck %s %d", fmtTuple(q), 0), ee.check(q, 0))
			cases++
		}
		ee.check(mkT("Doc:readme#owners@User:bob#")[0], 0) // not declared yet: a legitimate error, asked on purpose
		ee.check(mkT("Folder:f#read@User:alice#")[0], 0)
		reloaded := false
		for try := 0; try < 5 && !reloaded; try++ {
			if err := os.WriteFile(file, []byte(v2+strings.Repeat("\n", try)), 0o600); err != nil {
				t.Fatal(err)
			}
			for w := 0; w < 40 && !reloaded; w++ {
				time.Sleep(50 * time.Millisecond)
				for _, n := range load() {
					reloaded = reloaded || n.Name == "Reloaded"
				}
			}
		}
		if !reloaded {
			t.Fatalf("the watched OPL file was replaced by an accepted document but the new namespaces never became visible")
		}
		ee.nss = load()
		ee.header(out)
		ee.insert(t, mkT("Doc:readme#owners@User:bob#"))
		ee.table(out)
		for _, q := range mkT("Doc:readme#view@User:alice#", "Doc:readme#owners@User:bob#", "Folder:f#read@User:alice#", "Doc:readme#view@User:bob#", "Doc:readme#owners@User:alice#") {
			out.emit(fmt.Sprintf("tcheck %s %d", fmtTuple(q), 0), ee.check(q, 0))
			cases++
		}
		e.close()
		out.stat("corpus.reload")
	}
	for cases < cfg.n {
		hr := r.fork()
		nss := genConfig(hr, hr.chance(1, 2))
		src := renderOPLVariant(hr, nss)
		// (a) accepted, and the accepted AST is well-typed
		out.emit("tcaccept "+cfgTok(nss)+" SRC "+hx(src), parseObs(src))
		cases++
		// (b) checks over conforming relationships never fail with a schema error, in both modes
		strict := hr.chance(1, 2)
		ee := newEngineEnv(t, nss, strict, true, 12, 100)
		ee.header(out)
		ee.insert(t, egTuples(hr, nss, 5+hr.intn(20), true))
		ee.table(out)
		for i := 0; i < 12; i++ {
			ns := nss[1+hr.intn(len(nss)-1)]
			rel := ns.Relations[hr.intn(len(ns.Relations))].Name
			var q *ketoapi.RelationTuple
			if hr.chance(3, 4) {
				s := hr.pick(egUsers)
				q = &ketoapi.RelationTuple{Namespace: ns.Name, Object: hr.pick(egObjects), Relation: rel, SubjectID: &s}
			} else {
				n2 := nss[1+hr.intn(len(nss)-1)]
				q = &ketoapi.RelationTuple{Namespace: ns.Name, Object: hr.pick(egObjects), Relation: rel,
					SubjectSet: &ketoapi.SubjectSet{Namespace: n2.Name, Object: hr.pick(egObjects), Relation: n2.Relations[hr.intn(len(n2.Relations))].Name}}
			}
			out.emit(fmt.Sprintf("tcheck %s %d", fmtTuple(q), 0), ee.check(q, 0))
			cases++
		}
		ee.e.close()
		// (c) one reference replaced by an undeclared name: rejected, with an error at the offending token
		for m := 0; m < 6; m++ {
			mut := cloneNss(nss)
			sites := refSites(mut)
			if len(sites) == 0 {
				break
			}
			site := sites[hr.intn(len(sites))]
			site.set(marker)
			msrc := renderOPL(mut)
			tok := marker
			if i := strings.Index(msrc, "p"+marker); i >= 0 {
				tok = "p" + marker
			}
			idx := strings.Index(msrc, tok)
			_, errs := schema.Parse(msrc)
			obs := fmt.Sprintf("E %d", len(errs))
			for _, e := range errs {
				a, b := e.VerifItemRange()
				obs += fmt.Sprintf(" %d %d", a, b)
			}
			out.emit(fmt.Sprintf("tcmutant %s %d %d SRC %s", site.kind, idx, idx+len(tok), hx(msrc)), obs)
			out.stat("mutant." + site.kind)
			cases++
		}
	}
}

type tcDoc struct {
	src    string
	names  []string
	tuples []string
	checks []string
}

var tcDocs = []tcDoc{
	{ // traversal through SubjectSet<Group,"members">: the engine evaluates the target on Group, never on the members' namespace
		src: `class User implements Namespace { related: { manager: User[] } }
class Group implements Namespace {
  related: { members: User[]; viewers: User[] }
  permits = { view: (ctx: Context): boolean => this.related.viewers.includes(ctx.subject) }
}
class Doc implements Namespace {
  related: { parents: SubjectSet<Group, "members">[] }
  permits = { view: (ctx: Context): boolean => this.related.parents.traverse((p) => p.permits.view(ctx)) }
}`,
		names:  []string{"readme", "dev", "alice", "bob", "nobody"},
		tuples: []string{"Doc:readme#parents@Group:dev#members", "Group:dev#members@User:alice#", "Group:dev#viewers@User:bob#", "User:alice#manager@User:bob#"},
		checks: []string{"Doc:readme#view@User:bob#", "Doc:readme#view@User:alice#", "Doc:readme#view@User:nobody#", "Group:dev#view@User:bob#", "Doc:readme#parents@User:alice#"},
	},
	{ // a union type whose members declare different relations; includes over a subject-set typed relation
		src: `class User implements Namespace {}
class Team implements Namespace { related: { members: (User | SubjectSet<Team, "members">)[]; leads: User[] } }
class Org implements Namespace { related: { admins: (User | SubjectSet<Team, "leads">)[]; parents: Org[] }
  permits = { manage: (ctx: Context): boolean => this.related.admins.includes(ctx.subject) || this.related.parents.traverse((o) => o.permits.manage(ctx)) } }
class Repo implements Namespace { related: { owners: (SubjectSet<Team, "members"> | SubjectSet<Org, "admins">)[]; org: Org[] }
  permits = { push: (ctx: Context): boolean => this.related.owners.includes(ctx.subject) || this.related.org.traverse((o) => o.permits.manage(ctx)),
              read: (ctx: Context): boolean => this.permits.push(ctx) || !this.related.owners.includes(ctx.subject) } }`,
		names: []string{"core", "web", "acme", "root", "r1", "ann", "ben", "cy"},
		tuples: []string{"Team:core#members@User:ann#", "Team:web#members@Team:core#members", "Team:web#leads@User:ben#", "Org:acme#admins@Team:web#leads", "Org:acme#parents@Org:root#",
			"Org:root#admins@User:cy#", "Repo:r1#owners@Team:web#members", "Repo:r1#owners@Org:acme#admins", "Repo:r1#org@Org:acme#"},
		checks: []string{"Repo:r1#push@User:ann#", "Repo:r1#push@User:ben#", "Repo:r1#push@User:cy#", "Repo:r1#read@User:ann#", "Org:acme#manage@User:cy#", "Org:acme#manage@User:ann#", "Team:web#members@User:ann#", "Repo:r1#owners@User:ben#"},
	},
	{ // two namespaces use the same relation name and the same object id; a traversal stays in ITS namespace: the target
		// relation is only declared where the type checker looked for it
		src: `class User implements Namespace {}
class Org implements Namespace { related: { owners: User[] } }
class Folder implements Namespace {
  related: { viewers: User[] }
  permits = { view: (ctx: Context): boolean => this.related.viewers.includes(ctx.subject) }
}
class Group implements Namespace { related: { parents: Org[]; viewers: Org[] } }
class File implements Namespace {
  related: { parents: Folder[]; viewers: User[] }
  permits = { view: (ctx: Context): boolean => this.related.viewers.includes(ctx.subject) || this.related.parents.traverse((p) => p.permits.view(ctx)) }
}`,
		names:  []string{"shared", "docs", "acme", "alice", "bob", "carol"},
		tuples: []string{"File:shared#parents@Folder:docs#", "Folder:docs#viewers@User:alice#", "Group:shared#parents@Org:acme#", "Group:shared#viewers@Org:acme#", "Org:acme#owners@User:carol#"},
		checks: []string{"File:shared#view@User:alice#", "File:shared#view@User:bob#", "File:shared#view@User:carol#", "Folder:docs#view@User:alice#", "Group:shared#parents@Org:acme#"},
	},
}
