//go:build verif

package verifh

import (
	"context"
	"encoding/json"
	"fmt"
	"net/url"
	"strings"
	"testing"

	"github.com/ory/keto/ketoapi"
	opl "github.com/ory/keto/proto/ory/keto/opl/v1alpha1"
	rts "github.com/ory/keto/proto/ory/keto/relation_tuples/v1alpha2"
)

func init() { suites["READ"] = suiteRead }

// suiteRead: arbitrary read / syntax API requests, with names the server has never seen, must leave both tables unchanged (C17)
func suiteRead(t *testing.T, cfg cfgT) {
	out := newSink(cfg, "cases.txt")
	defer out.close(cfg)
	r := newRng(cfg.seed)
	ctx := context.Background()
	steps := 0
	fresh := 0
	for steps < cfg.n {
		hr := r.fork()
		s := newStoreRunner(t, out)
		e := s.e
		oplRouter := e.reg.OPLSyntaxRouter(ctx)
		oconn, stop := serveBuf(e.reg.OplGRPCServer(ctx))
		// some stored data first (these are writes and are modelled as such)
		for i := 0; i < 6; i++ {
			s.step(hr, 0)
			steps++
		}
		name := func() string {
			if hr.chance(1, 2) {
				fresh++
				return fmt.Sprintf("never-seen-%d", fresh)
			}
			return hr.pick(stObjects)
		}
		for i := 0; i < 25; i++ {
			ns := stNs(hr, 20)
			tu := &ketoapi.RelationTuple{Namespace: ns, Object: name(), Relation: hr.pick(stRelations)}
			if hr.chance(1, 2) {
				x := name()
				tu.SubjectID = &x
			} else {
				tu.SubjectSet = &ketoapi.SubjectSet{Namespace: stNs(hr, 20), Object: name(), Relation: hr.pick(stRelations)}
			}
			if hr.chance(1, 12) {
				tu.SubjectID, tu.SubjectSet = nil, nil
			}
			q := tu.ToURLQuery().Encode()
			body, _ := json.Marshal(tu)
			pt := tupleToProto(tu)
			var code int
			var desc string
			switch k := hr.intn(23); k {
			case 21: // the write service called on the SYNTAX gRPC server (insert of a fresh relationship)
				_, err := rts.NewWriteServiceClient(oconn).TransactRelationTuples(ctx, &rts.TransactRelationTuplesRequest{RelationTupleDeltas: []*rts.RelationTupleDelta{{Action: rts.RelationTupleDelta_ACTION_INSERT, RelationTuple: pt}}})
				code, desc = grpcCode(err), "grpc Transact on syntax server"
			case 22: // ... and a delete-by-query that would remove stored relationships
				_, err := rts.NewWriteServiceClient(oconn).DeleteRelationTuples(ctx, &rts.DeleteRelationTuplesRequest{RelationQuery: &rts.RelationQuery{Namespace: &tu.Namespace}})
				if err != nil && hr.chance(1, 2) {
					_, err = rts.NewWriteServiceClient(e.rconn).DeleteRelationTuples(ctx, &rts.DeleteRelationTuplesRequest{RelationQuery: &rts.RelationQuery{Namespace: &tu.Namespace}})
				}
				code, desc = grpcCode(err), "grpc Delete on syntax or read server"
			case 16: // write-shaped requests sent to the READ API: whatever the answer, nothing may be stored
				code, _ = rest(e.read, "PUT", "/admin/relation-tuples", body)
				desc = "PUT on read API"
			case 17:
				code, _ = rest(e.read, "DELETE", "/admin/relation-tuples?"+q, nil)
				desc = "DELETE on read API"
			case 18:
				code, _ = rest(e.read, "PATCH", "/admin/relation-tuples", []byte(`[{"action":"insert","relation_tuple":`+string(body)+`},{"action":"delete","relation_tuple":`+string(body)+`}]`))
				desc = "PATCH on read API"
			case 19:
				code, _ = rest(oplRouter, r.pick([]string{"PUT", "DELETE", "PATCH"}), "/admin/relation-tuples?"+q, body)
				desc = "write on syntax API"
			case 20: // the write service called on the read gRPC server
				_, err := rts.NewWriteServiceClient(e.rconn).TransactRelationTuples(ctx, &rts.TransactRelationTuplesRequest{RelationTupleDeltas: []*rts.RelationTupleDelta{{Action: rts.RelationTupleDelta_ACTION_INSERT, RelationTuple: pt}}})
				code, desc = grpcCode(err), "grpc Transact on read server"
			case 0:
				code, _ = rest(e.read, "GET", "/relation-tuples/check?"+q, nil)
				desc = "GET check"
			case 1:
				code, _ = rest(e.read, "GET", "/relation-tuples/check/openapi?"+q+"&max-depth=3", nil)
				desc = "GET check/openapi"
			case 2:
				code, _ = rest(e.read, "POST", "/relation-tuples/check", body)
				desc = "POST check"
			case 3:
				code, _ = rest(e.read, "POST", "/relation-tuples/check/openapi", body)
				desc = "POST check/openapi"
			case 4:
				b2 := fmt.Sprintf(`{"tuples":[%s,%s]}`, body, body)
				code, _ = rest(e.read, "POST", "/relation-tuples/batch/check", []byte(b2))
				desc = "POST batch/check"
			case 5:
				v := url.Values{"namespace": {tu.Namespace}, "object": {tu.Object}, "relation": {tu.Relation}}
				code, _ = rest(e.read, "GET", "/relation-tuples/expand?"+v.Encode(), nil)
				desc = "GET expand"
			case 6:
				code, _ = rest(e.read, "GET", "/relation-tuples?"+q, nil)
				desc = "GET list"
			case 7:
				code, _ = rest(e.read, "GET", "/namespaces", nil)
				desc = "GET namespaces"
			case 8:
				_, err := rts.NewCheckServiceClient(e.rconn).Check(ctx, &rts.CheckRequest{Tuple: pt})
				code, desc = grpcCode(err), "grpc Check"
			case 9:
				_, err := rts.NewCheckServiceClient(e.rconn).BatchCheck(ctx, &rts.BatchCheckRequest{Tuples: []*rts.RelationTuple{pt, pt}})
				code, desc = grpcCode(err), "grpc BatchCheck"
			case 10:
				_, err := rts.NewExpandServiceClient(e.rconn).Expand(ctx, &rts.ExpandRequest{Subject: rts.NewSubjectSet(tu.Namespace, tu.Object, tu.Relation)})
				code, desc = grpcCode(err), "grpc Expand"
			case 11:
				o := tu.Object
				_, err := rts.NewReadServiceClient(e.rconn).ListRelationTuples(ctx, &rts.ListRelationTuplesRequest{RelationQuery: &rts.RelationQuery{Namespace: &tu.Namespace, Object: &o, Subject: pt.Subject}})
				code, desc = grpcCode(err), "grpc List"
			case 12:
				_, err := rts.NewNamespacesServiceClient(e.rconn).ListNamespaces(ctx, &rts.ListNamespacesRequest{})
				code, desc = grpcCode(err), "grpc ListNamespaces"
			case 13:
				code, _ = rest(oplRouter, "POST", "/opl/syntax/check", []byte("class "+name()+" implements Namespace { related: { x: "+name()+"[] } }"))
				desc = "POST opl/syntax/check"
			case 14:
				_, err := opl.NewSyntaxServiceClient(oconn).Check(ctx, &opl.CheckRequest{Content: []byte("class " + name() + " implements Namespace {}")})
				code, desc = grpcCode(err), "grpc Syntax.Check"
			case 15:
				code, _ = rest(e.read, "GET", "/relation-tuples/check?"+q+"&max-depth=zz", nil)
				desc = "GET check bad depth"
			}
			out.emit("ro "+hx(desc)+" "+fmtTuple(tu), fmt.Sprintf("%s", e.dump(s.pool)))
			out.stat("ro." + strings.ReplaceAll(desc, " ", "_") + fmt.Sprintf(".%d", code))
			steps++
		}
		stop()
		e.close()
	}
}
