//go:build verif

package verifh

import (
	"context"
	"encoding/json"
	"fmt"
	"net/url"
	"sort"
	"strconv"
	"strings"
	"testing"

	"github.com/ory/keto/internal/driver"
	"github.com/ory/keto/ketoapi"
	rts "github.com/ory/keto/proto/ory/keto/relation_tuples/v1alpha2"
)

func init() { suites["STORE"] = suiteStore }

var (
	stNamespaces = []string{"n", "m"}
	stBadNs      = []string{"zz", "", "N"}
	// names are opaque strings: also ones that look like something else (a UUID in several notations)
	stObjects    = []string{"o1", "o2", "", "o:#@", "世界", "u1", "6ba7b810-9dad-11d1-80b4-00c04fd430c8", "6BA7B810-9DAD-11D1-80B4-00C04FD430C8", "{6ba7b810-9dad-11d1-80b4-00c04fd430c8}"}
	stRelations  = []string{"r", "s", ""}
	stSubjects   = []string{"u1", "u2", "o1", "", "a b"}
	stMotif      = []string{"o1", "o2", ""}
)

func stNs(r *rng, bad int) string {
	if r.chance(bad, 100) {
		return r.pick(stBadNs)
	}
	return r.pick(stNamespaces)
}
func stTuple(r *rng, bad int) *ketoapi.RelationTuple {
	t := &ketoapi.RelationTuple{Namespace: stNs(r, bad), Object: r.pick(stObjects), Relation: r.pick(stRelations)}
	switch k := r.intn(100); {
	case k < bad/2: // no subject
	case k < bad: // both
		s := r.pick(stSubjects)
		t.SubjectID = &s
		t.SubjectSet = &ketoapi.SubjectSet{Namespace: stNs(r, bad), Object: r.pick(stObjects), Relation: r.pick(stRelations)}
	case k < 60:
		s := r.pick(stSubjects)
		t.SubjectID = &s
	default:
		t.SubjectSet = &ketoapi.SubjectSet{Namespace: stNs(r, bad), Object: r.pick(stObjects), Relation: r.pick(stRelations)}
		if r.chance(1, 3) {
			// motif for queries that name an object AND a subject set (C16-i): few names, so that such queries match rows
			// and their confusable twins (subject-set object equal to / different from the object) exist side by side
			t.Namespace, t.Object, t.Relation = "n", r.pick(stMotif), "r"
			t.SubjectSet = &ketoapi.SubjectSet{Namespace: "n", Object: r.pick(stMotif), Relation: "r"}
		}
	}
	return t
}
func stQueryPairs(r *rng, bad int) [][2]string {
	var p [][2]string
	if r.chance(1, 8) {
		// object AND subject set, nothing else (see stMotif)
		return [][2]string{{"object", r.pick(stMotif)}, {"subject_set.namespace", "n"}, {"subject_set.object", r.pick(stMotif)}, {"subject_set.relation", "r"}}
	}
	if r.chance(85, 100) {
		p = append(p, [2]string{"namespace", stNs(r, bad)})
	}
	if r.chance(1, 3) {
		p = append(p, [2]string{"object", r.pick(stObjects)})
	}
	if r.chance(1, 3) {
		p = append(p, [2]string{"relation", r.pick(stRelations)})
	}
	switch r.intn(6) {
	case 0:
		p = append(p, [2]string{"subject_id", r.pick(stSubjects)})
	case 1:
		p = append(p, [2]string{"subject_set.namespace", stNs(r, bad)}, [2]string{"subject_set.object", r.pick(stObjects)}, [2]string{"subject_set.relation", r.pick(stRelations)})
	case 2:
		if r.chance(bad, 50) {
			p = append(p, [2]string{"subject_set.namespace", stNs(r, bad)})
		}
	}
	if r.chance(bad, 200) {
		p = append(p, [2]string{r.pick([]string{"subject", "foo", "max-depth"}), "x"})
	}
	return p
}
func encodePairs(p [][2]string) string {
	v := url.Values{}
	for _, kv := range p {
		v.Add(kv[0], kv[1])
	}
	return v.Encode()
}
func stPQuery(r *rng, bad int) *rts.RelationQuery {
	q := &rts.RelationQuery{}
	if r.chance(1, 8) {
		o := r.pick(stMotif)
		q.Object = &o
		q.Subject = rts.NewSubjectSet("n", r.pick(stMotif), "r")
		return q
	}
	if r.chance(2, 3) {
		s := stNs(r, bad)
		q.Namespace = &s
	}
	if r.chance(1, 3) {
		s := r.pick(stObjects)
		q.Object = &s
	}
	if r.chance(1, 3) {
		s := r.pick(stRelations)
		q.Relation = &s
	}
	switch r.intn(6) {
	case 0:
		q.Subject = rts.NewSubjectID(r.pick(stSubjects))
	case 1:
		q.Subject = rts.NewSubjectSet(stNs(r, bad), r.pick(stObjects), r.pick(stRelations))
	case 2:
		if r.chance(1, 3) {
			q.Subject = &rts.Subject{}
		}
	}
	return q
}
func fmtPQuery(q *rts.RelationQuery) string {
	if q == nil {
		return "-"
	}
	return fmt.Sprintf("PQ %s %s %s %s", hxo(q.Namespace), hxo(q.Object), hxo(q.Relation), fmtPSub(q.Subject))
}
func tupleToProto(t *ketoapi.RelationTuple) *rts.RelationTuple {
	p := &rts.RelationTuple{Namespace: t.Namespace, Object: t.Object, Relation: t.Relation}
	if t.SubjectID != nil {
		p.Subject = rts.NewSubjectID(*t.SubjectID)
	} else if t.SubjectSet != nil {
		p.Subject = rts.NewSubjectSet(t.SubjectSet.Namespace, t.SubjectSet.Object, t.SubjectSet.Relation)
	}
	return p
}
func fmtPTuple(pt *rts.RelationTuple) string {
	return fmt.Sprintf("P %s %s %s %s", hx(pt.Namespace), hx(pt.Object), hx(pt.Relation), fmtPSub(pt.Subject))
}

func fmtList(ts []*ketoapi.RelationTuple, tokEmpty bool) string {
	var ss []string
	for _, t := range ts {
		ss = append(ss, fmtTuple(t))
	}
	sort.Strings(ss)
	te := 0
	if tokEmpty {
		te = 1
	}
	return fmt.Sprintf("L %d %s %d", len(ss), strings.Join(ss, " "), te)
}

type storeRunner struct {
	e    *env
	pool *namePool
	out  *sink
}

func (s *storeRunner) obs(code int, list string) string {
	if list == "" {
		return fmt.Sprintf("%d %s", code, s.e.dump(s.pool))
	}
	return fmt.Sprintf("%d %s %s", code, list, s.e.dump(s.pool))
}

const bigPage = 10000

func (s *storeRunner) listREST(pairs [][2]string, size string, tok string) (int, string) {
	q := encodePairs(pairs)
	if size != "" {
		q += "&page_size=" + url.QueryEscape(size)
	}
	if tok != "" {
		q += "&page_token=" + url.QueryEscape(tok)
	}
	code, body := rest(s.e.read, "GET", "/relation-tuples?"+q, nil)
	if code != 200 {
		return code, ""
	}
	var resp ketoapi.GetResponse
	if err := json.Unmarshal(body, &resp); err != nil {
		return -1, ""
	}
	return code, fmtList(resp.RelationTuples, resp.NextPageToken == "")
}

func (s *storeRunner) step(r *rng, bad int) {
	e := s.e
	ctx := context.Background()
	switch k := r.intn(100); {
	case k < 30: // REST create
		t := stTuple(r, bad)
		body, _ := json.Marshal(t)
		code, _ := rest(e.write, "PUT", "/admin/relation-tuples", body)
		s.out.emit("create "+fmtTuple(t), s.obs(code, ""))
		s.out.stat(fmt.Sprintf("create.%d", code))
	case k < 42: // REST delete by query
		p := stQueryPairs(r, bad)
		var body []byte
		be := 1
		if r.chance(bad, 300) {
			body = []byte("x")
			be = 0
		}
		code, _ := rest(e.write, "DELETE", "/admin/relation-tuples?"+encodePairs(p), body)
		s.out.emit(fmt.Sprintf("delrest %s %d", fmtPairs(p), be), s.obs(code, ""))
		s.out.stat(fmt.Sprintf("delrest.%d", code))
	case k < 60: // REST patch
		n := r.intn(5)
		var items []string
		var parts []string
		var lastT *ketoapi.RelationTuple
		for i := 0; i < n; i++ {
			act := "insert"
			if r.chance(2, 5) {
				act = "delete"
			}
			if r.chance(bad, 300) {
				act = r.pick([]string{"upsert", "INSERT", "Delete", "Insert", "DELETE", "insert ", ""}) // actions are exact, lower-case words
			}
			switch {
			case r.chance(bad, 600):
				items = append(items, "null")
				parts = append(parts, "null")
			case r.chance(bad, 300):
				items = append(items, "A "+hx(act)+" -")
				parts = append(parts, fmt.Sprintf(`{"action":%q}`, act))
			default:
				t := stTuple(r, bad)
				if lastT != nil && r.chance(1, 4) { // the very same relationship again in one request: rows are a multiset
					t = lastT
				}
				lastT = t
				tb, _ := json.Marshal(t)
				items = append(items, "A "+hx(act)+" "+fmtTuple(t))
				parts = append(parts, fmt.Sprintf(`{"action":%q,"relation_tuple":%s}`, act, tb))
			}
		}
		code, _ := rest(e.write, "PATCH", "/admin/relation-tuples", []byte("["+strings.Join(parts, ",")+"]"))
		s.out.emit(fmt.Sprintf("patch %d %s", n, strings.Join(items, " ")), s.obs(code, ""))
		s.out.stat(fmt.Sprintf("patch.%d", code))
	case k < 75: // gRPC transact
		n := r.intn(5)
		req := &rts.TransactRelationTuplesRequest{}
		var items []string
		var lastG *ketoapi.RelationTuple
		for i := 0; i < n; i++ {
			act := rts.RelationTupleDelta_ACTION_INSERT
			as := "insert"
			if r.chance(2, 5) {
				act, as = rts.RelationTupleDelta_ACTION_DELETE, "delete"
			}
			if r.chance(bad, 300) {
				act, as = rts.RelationTupleDelta_ACTION_UNSPECIFIED, "other"
			}
			t := stTuple(r, bad)
			if lastG != nil && r.chance(1, 4) {
				t = lastG
			}
			lastG = t
			pt := tupleToProto(t)
			if r.chance(bad, 300) {
				pt.Subject = &rts.Subject{}
			}
			req.RelationTupleDeltas = append(req.RelationTupleDeltas, &rts.RelationTupleDelta{Action: act, RelationTuple: pt})
			items = append(items, "A "+hx(as)+" "+fmtPTuple(pt))
		}
		_, err := rts.NewWriteServiceClient(e.wconn).TransactRelationTuples(ctx, req)
		code := grpcCode(err)
		s.out.emit(fmt.Sprintf("transact %d %s", n, strings.Join(items, " ")), s.obs(code, ""))
		s.out.stat(fmt.Sprintf("transact.%d", code))
	case k < 83: // gRPC delete by query
		var q *rts.RelationQuery
		if !r.chance(bad, 300) {
			q = stPQuery(r, bad)
		}
		_, err := rts.NewWriteServiceClient(e.wconn).DeleteRelationTuples(ctx, &rts.DeleteRelationTuplesRequest{RelationQuery: q})
		code := grpcCode(err)
		s.out.emit("delgrpc "+fmtPQuery(q), s.obs(code, ""))
		s.out.stat(fmt.Sprintf("delgrpc.%d", code))
	case k < 93: // REST list (one big page), incl. malformed size / token
		p := stQueryPairs(r, bad)
		size, sizeTok := strconv.Itoa(bigPage), strconv.Itoa(bigPage)
		tok, tokTok := "", "-"
		if r.chance(bad, 200) {
			size, sizeTok = r.pick([]string{"abc", "1.5", "99999999999999999999"}), "bad"
		} else if r.chance(bad, 200) { // negative page size (D19)
			size = r.pick([]string{"-1", "-2", "-100"})
			sizeTok = size
		}
		if r.chance(bad, 200) {
			tok, tokTok = r.pick([]string{"zzz", "123", "not-a-uuid", "6df0ce80-8b1d-460e-851b-889db595b00z", "not-a-uuid-but-36-characters-long-xx", "zzzzzzzz-zzzz-zzzz-zzzz-zzzzzzzzzzzz", "6df0ce808b1d460e851b889db595b00z"}), "bad"
		}
		code, list := s.listREST(p, size, tok)
		s.out.emit(fmt.Sprintf("listrest %s %s %s", fmtPairs(p), sizeTok, tokTok), s.obs(code, list))
		s.out.stat(fmt.Sprintf("listrest.%d", code))
	default: // gRPC list
		var q *rts.RelationQuery
		if !r.chance(bad, 300) {
			q = stPQuery(r, bad)
		}
		tok, tokTok := "", "-"
		if r.chance(bad, 200) {
			tok, tokTok = "zzz", "bad"
		}
		psize := int32(bigPage)
		if r.chance(bad, 200) {
			psize = []int32{-1, -2, -2147483648}[r.intn(3)]
		}
		resp, err := rts.NewReadServiceClient(e.rconn).ListRelationTuples(ctx, &rts.ListRelationTuplesRequest{RelationQuery: q, PageSize: psize, PageToken: tok})
		code := grpcCode(err)
		list := ""
		if err == nil {
			var ts []*ketoapi.RelationTuple
			for _, pt := range resp.RelationTuples {
				ts = append(ts, (&ketoapi.RelationTuple{}).FromProto(pt))
			}
			list = fmtList(ts, resp.NextPageToken == "")
		}
		s.out.emit(fmt.Sprintf("listgrpc %s %d %s", fmtPQuery(q), psize, tokTok), s.obs(code, list))
		s.out.stat(fmt.Sprintf("listgrpc.%d", code))
	}
}

func newStoreRunner(t *testing.T, out *sink) *storeRunner {
	e := newEnv(t, driver.WithNamespaces(nsList(stNamespaces...)))
	pool := newPool()
	for _, l := range [][]string{stObjects, stSubjects} {
		for _, s := range l {
			pool.add(s)
		}
	}
	pool.addNet(e.nid, 1)
	var names []string
	for _, n := range stNamespaces {
		names = append(names, hx(n))
	}
	out.emit("reset 1 "+strings.Join(names, " ")+" .", "-")
	return &storeRunner{e: e, pool: pool, out: out}
}

func suiteStore(t *testing.T, cfg cfgT) {
	out := newSink(cfg, "cases.txt")
	defer out.close(cfg)
	r := newRng(cfg.seed)
	steps := 0
	for steps < cfg.n {
		hr := r.fork()
		s := newStoreRunner(t, out)
		bad := []int{0, 10, 25}[hr.intn(3)]
		n := 6 + hr.intn(16)
		for i := 0; i < n; i++ {
			s.step(hr, bad)
			steps++
			if i == n/2 && hr.chance(1, 6) { // bulk patches: more than one chunk of inserts / deletes in one request
				k := 101 + hr.intn(60)
				var ins, del, insItems, delItems []string
				for j := 0; j < k; j++ {
					name := fmt.Sprintf("bulk%d", j)
					s.pool.add(name)
					u := "u1"
					tu := &ketoapi.RelationTuple{Namespace: stNamespaces[0], Object: name, Relation: "r", SubjectID: &u}
					tb, _ := json.Marshal(tu)
					ins = append(ins, fmt.Sprintf(`{"action":"insert","relation_tuple":%s}`, tb))
					insItems = append(insItems, "A "+hx("insert")+" "+fmtTuple(tu))
					if j >= 2 {
						del = append(del, fmt.Sprintf(`{"action":"delete","relation_tuple":%s}`, tb))
						delItems = append(delItems, "A "+hx("delete")+" "+fmtTuple(tu))
					}
				}
				code, _ := rest(s.e.write, "PATCH", "/admin/relation-tuples", []byte("["+strings.Join(ins, ",")+"]"))
				out.emit(fmt.Sprintf("patch %d %s", len(ins), strings.Join(insItems, " ")), s.obs(code, ""))
				// list what was written in one page: more than 100 relationships that share one subject (and one namespace):
				// every one of them comes back with the strings it was written with
				lp := [][2]string{{"namespace", stNamespaces[0]}}
				lcode, llist := s.listREST(lp, strconv.Itoa(bigPage), "")
				out.emit(fmt.Sprintf("listrest %s %d -", fmtPairs(lp), bigPage), s.obs(lcode, llist))
				steps++
				code, _ = rest(s.e.write, "PATCH", "/admin/relation-tuples", []byte("["+strings.Join(del, ",")+"]"))
				out.emit(fmt.Sprintf("patch %d %s", len(del), strings.Join(delItems, " ")), s.obs(code, ""))
				out.stat("bulk")
				steps += 2
			}
		}
		s.e.close()
		out.stat("histories")
		out.stat(fmt.Sprintf("history.bad%d", bad))
	}
}
