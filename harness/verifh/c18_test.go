//go:build verif

package verifh

import (
	"bytes"
	"encoding/json"
	"errors"
	"fmt"
	"net/url"
	"sort"
	"strings"
	"testing"
	"unicode"
	"unicode/utf8"

	"github.com/ory/herodot"
	"google.golang.org/protobuf/proto"

	cliparse "github.com/ory/keto/cmd/relationtuple"
	"github.com/ory/keto/internal/relationtuple"
	"github.com/ory/keto/ketoapi"
	rts "github.com/ory/keto/proto/ory/keto/relation_tuples/v1alpha2"
)

func init() { suites["C18"] = suiteC18 }

// ---- canonical printing ----
func fmtSSet(s *ketoapi.SubjectSet) string {
	if s == nil {
		return "-"
	}
	return fmt.Sprintf("S %s %s %s", hx(s.Namespace), hx(s.Object), hx(s.Relation))
}
func fmtTuple(t *ketoapi.RelationTuple) string {
	return fmt.Sprintf("T %s %s %s %s %s", hx(t.Namespace), hx(t.Object), hx(t.Relation), hxo(t.SubjectID), fmtSSet(t.SubjectSet))
}
func fmtQuery(q *ketoapi.RelationQuery) string {
	return fmt.Sprintf("Q %s %s %s %s %s", hxo(q.Namespace), hxo(q.Object), hxo(q.Relation), hxo(q.SubjectID), fmtSSet(q.SubjectSet))
}

func errClass(err error) int {
	var de *herodot.DefaultError
	if errors.As(err, &de) {
		same := func(s *herodot.DefaultError) bool { return de.Error() == s.Error() }
		switch {
		case same(ketoapi.ErrMalformedInput):
			return 1
		case same(ketoapi.ErrDuplicateSubject):
			return 3
		case same(ketoapi.ErrIncompleteSubject):
			return 4
		case same(ketoapi.ErrNilSubject):
			return 5
		case same(ketoapi.ErrIncompleteTuple):
			return 6
		case de.Debug() == ketoapi.ErrDroppedSubjectKey.Debug():
			return 2
		}
		return 90
	}
	var ute *json.UnmarshalTypeError
	if errors.As(err, &ute) {
		return 7
	}
	return 99
}

func outcome(f func() (string, error)) (res string) {
	defer func() {
		if r := recover(); r != nil {
			res = "panic"
		}
	}()
	s, err := f()
	if err != nil {
		return fmt.Sprintf("err %d", errClass(err))
	}
	return "ok " + s
}

// ---- generators ----
var c18Alphabet = []string{":", "#", "@", "(", ")", "a", "b", "n", "o", "r", "", " ", "é", "\x00", "%", "&", "=", "+", "/", "世"}

func genStr(r *rng, special int) string {
	n := r.intn(5)
	if r.chance(1, 12) {
		n = r.intn(12)
	}
	var sb strings.Builder
	for i := 0; i < n; i++ {
		if r.chance(special, 10) {
			sb.WriteString(c18Alphabet[r.intn(5)])
		} else {
			sb.WriteString(c18Alphabet[5+r.intn(len(c18Alphabet)-5)])
		}
	}
	return sb.String()
}
func genBytesStr(r *rng) string { // arbitrary bytes, incl. invalid UTF-8
	n := r.intn(6)
	b := make([]byte, n)
	for i := range b {
		b[i] = byte(r.intn(256))
	}
	return string(b)
}
func genField(r *rng, special int) string {
	if r.chance(1, 10) {
		return genBytesStr(r)
	}
	return genStr(r, special)
}
func genSSet(r *rng, special int) *ketoapi.SubjectSet {
	return &ketoapi.SubjectSet{Namespace: genField(r, special), Object: genField(r, special), Relation: genField(r, special)}
}
func genTuple(r *rng, special int, allowBad bool) *ketoapi.RelationTuple {
	t := &ketoapi.RelationTuple{Namespace: genField(r, special), Object: genField(r, special), Relation: genField(r, special)}
	k := r.intn(20)
	switch {
	case allowBad && k == 0: // no subject
	case allowBad && k == 1: // both
		s := genField(r, special)
		t.SubjectID = &s
		t.SubjectSet = genSSet(r, special)
	case k%2 == 0:
		s := genField(r, special)
		t.SubjectID = &s
	default:
		t.SubjectSet = genSSet(r, special)
	}
	return t
}
func genOpt(r *rng, special int) *string {
	if r.chance(1, 3) {
		return nil
	}
	s := genField(r, special)
	return &s
}
func genQuery(r *rng, special int, allowBad bool) *ketoapi.RelationQuery {
	q := &ketoapi.RelationQuery{Namespace: genOpt(r, special), Object: genOpt(r, special), Relation: genOpt(r, special)}
	k := r.intn(20)
	switch {
	case k < 5:
	case allowBad && k == 5:
		s := genField(r, special)
		q.SubjectID = &s
		q.SubjectSet = genSSet(r, special)
	case k%2 == 0:
		s := genField(r, special)
		q.SubjectID = &s
	default:
		q.SubjectSet = genSSet(r, special)
	}
	return q
}

// a raw string biased towards the tuple syntax
func genTupleText(r *rng) string {
	if r.chance(1, 4) {
		return genStr(r, 5) + genStr(r, 5)
	}
	parts := []string{genStr(r, 2), ":", genStr(r, 2), "#", genStr(r, 2), "@"}
	sub := genStr(r, 2)
	if r.chance(1, 2) {
		sub = genStr(r, 2) + ":" + genStr(r, 2)
		if r.chance(2, 3) {
			sub += "#" + genStr(r, 2)
		}
	}
	if r.chance(1, 3) {
		sub = "(" + sub + ")"
	}
	if r.chance(1, 6) {
		sub = sub + c18Alphabet[r.intn(5)]
	}
	if r.chance(1, 6) {
		sub = c18Alphabet[r.intn(5)] + sub
	}
	parts = append(parts, sub)
	if r.chance(1, 8) { // drop one part
		i := r.intn(len(parts))
		parts = append(parts[:i], parts[i+1:]...)
	}
	return strings.Join(parts, "")
}

var urlKeys = []string{"namespace", "object", "relation", "subject_id", "subject_set.namespace", "subject_set.object", "subject_set.relation", "subject", "Namespace", "x", ""}

func genValues(r *rng) [][2]string {
	var res [][2]string
	// start from a plausible shape
	switch r.intn(4) {
	case 0:
		for _, k := range urlKeys[:4] {
			if r.chance(4, 5) {
				res = append(res, [2]string{k, genField(r, 2)})
			}
		}
	case 1:
		for _, k := range []string{"namespace", "object", "relation", "subject_set.namespace", "subject_set.object", "subject_set.relation"} {
			if r.chance(5, 6) {
				res = append(res, [2]string{k, genField(r, 2)})
			}
		}
	default:
		n := r.intn(8)
		for i := 0; i < n; i++ {
			res = append(res, [2]string{urlKeys[r.intn(len(urlKeys))], genField(r, 2)})
		}
	}
	if r.chance(1, 5) && len(res) > 0 { // duplicate a key
		res = append(res, [2]string{res[r.intn(len(res))][0], genField(r, 2)})
	}
	return res
}
func fmtPairs(p [][2]string) string {
	var sb strings.Builder
	sb.WriteString("V")
	for _, kv := range p {
		sb.WriteString(" " + hx(kv[0]) + " " + hx(kv[1]))
	}
	sb.WriteString(" .")
	return sb.String()
}

// canonical form of url.Values: keys sorted, values in order
func fmtValues(v url.Values) string {
	keys := make([]string, 0, len(v))
	for k := range v {
		keys = append(keys, k)
	}
	sort.Strings(keys)
	var p [][2]string
	for _, k := range keys {
		for _, x := range v[k] {
			p = append(p, [2]string{k, x})
		}
	}
	return fmtPairs(p)
}
func wireValues(p [][2]string) (url.Values, error) {
	v := url.Values{}
	for _, kv := range p {
		v.Add(kv[0], kv[1])
	}
	return url.ParseQuery(v.Encode()) // across the wire
}

// ---- JSON value generator ----
type jval struct {
	kind   int // 0 null 1 str 2 other 3 obj
	s      string
	other  string
	fields [][2]interface{} // key string, *jval
}

func (j *jval) tok() string {
	switch j.kind {
	case 0:
		return "N"
	case 1:
		return "s" + hx(j.s)[1:]
	case 2:
		return "O"
	}
	var sb strings.Builder
	sb.WriteString("{")
	for _, f := range j.fields {
		sb.WriteString(" " + hx(f[0].(string)) + " " + f[1].(*jval).tok())
	}
	sb.WriteString(" }")
	return sb.String()
}
func (j *jval) text() string {
	switch j.kind {
	case 0:
		return "null"
	case 1:
		b, _ := json.Marshal(j.s)
		return string(b)
	case 2:
		return j.other
	}
	var parts []string
	for _, f := range j.fields {
		k, _ := json.Marshal(f[0].(string))
		parts = append(parts, string(k)+":"+f[1].(*jval).text())
	}
	return "{" + strings.Join(parts, ",") + "}"
}

var jsonKeys = []string{"namespace", "object", "relation", "subject_id", "subject_set", "Namespace", "SUBJECT_ID", "Subject_Set", "x", "subject"}

func genJStr(r *rng) string { // valid UTF-8 only: encoding/json replaces invalid bytes (documented)
	return strings.ToValidUTF8(genStr(r, 2), "?")
}
func genJLeaf(r *rng) *jval {
	switch r.intn(10) {
	case 0:
		return &jval{kind: 0}
	case 1:
		return &jval{kind: 2, other: []string{"1", "true", "[]", "[\"a\"]", "1.5e3", "false"}[r.intn(6)]}
	}
	return &jval{kind: 1, s: genJStr(r)}
}
func genJSSet(r *rng) *jval {
	if r.chance(1, 8) {
		return genJLeaf(r)
	}
	j := &jval{kind: 3}
	for _, k := range []string{"namespace", "object", "relation"} {
		if r.chance(5, 6) {
			j.fields = append(j.fields, [2]interface{}{k, genJLeaf(r)})
		}
	}
	if r.chance(1, 5) {
		j.fields = append(j.fields, [2]interface{}{jsonKeys[r.intn(len(jsonKeys))], genJLeaf(r)})
	}
	return j
}
func genJTuple(r *rng) *jval {
	if r.chance(1, 15) {
		return genJLeaf(r)
	}
	j := &jval{kind: 3}
	n := 3 + r.intn(4)
	for i := 0; i < n; i++ {
		k := jsonKeys[r.intn(len(jsonKeys))]
		if i < 3 && r.chance(3, 4) {
			k = jsonKeys[i]
		}
		if strings.EqualFold(k, "subject_set") {
			j.fields = append(j.fields, [2]interface{}{k, genJSSet(r)})
		} else {
			j.fields = append(j.fields, [2]interface{}{k, genJLeaf(r)})
		}
	}
	return j
}

func utf8Tuple(t *ketoapi.RelationTuple) {
	f := func(s *string) { *s = strings.ToValidUTF8(*s, "?") }
	f(&t.Namespace)
	f(&t.Object)
	f(&t.Relation)
	if t.SubjectID != nil {
		f(t.SubjectID)
	}
	if t.SubjectSet != nil {
		f(&t.SubjectSet.Namespace)
		f(&t.SubjectSet.Object)
		f(&t.SubjectSet.Relation)
	}
}
func utf8Query(q *ketoapi.RelationQuery) {
	f := func(s *string) {
		if s != nil {
			*s = strings.ToValidUTF8(*s, "?")
		}
	}
	f(q.Namespace)
	f(q.Object)
	f(q.Relation)
	f(q.SubjectID)
	if q.SubjectSet != nil {
		f(&q.SubjectSet.Namespace)
		f(&q.SubjectSet.Object)
		f(&q.SubjectSet.Relation)
	}
}

func fmtPSub(s *rts.Subject) string {
	if s == nil {
		return "-"
	}
	switch x := s.Ref.(type) {
	case *rts.Subject_Id:
		return "I " + hx(x.Id)
	case *rts.Subject_Set:
		return fmt.Sprintf("S %s %s %s", hx(x.Set.Namespace), hx(x.Set.Object), hx(x.Set.Relation))
	}
	return "0"
}

func c18Case(op string, arg string, r *rng) (input, obs string) {
	switch op {
	case "fs": // FromString on raw text, then print and re-parse
		s := arg
		var t1 *ketoapi.RelationTuple
		o1 := outcome(func() (string, error) {
			t, err := (&ketoapi.RelationTuple{}).FromString(s)
			if err != nil {
				return "", err
			}
			t1 = t
			return fmtTuple(t), nil
		})
		rest := "- -"
		if t1 != nil {
			p := t1.String()
			o2 := outcome(func() (string, error) {
				t, err := (&ketoapi.RelationTuple{}).FromString(p)
				if err != nil {
					return "", err
				}
				return fmtTuple(t), nil
			})
			rest = hx(p) + " " + o2
		}
		return "fs " + hx(s), o1 + " ; " + rest
	case "pf": // the CLI: keto relation-tuple parse - (a text file of relationships on stdin), JSON output
		cmd := cliparse.NewParseCmd()
		var stdout, stderr bytes.Buffer
		cmd.SetIn(strings.NewReader(arg))
		cmd.SetOut(&stdout)
		cmd.SetErr(&stderr)
		cmd.SetArgs([]string{"-", "--format", "json"})
		o := outcome(func() (string, error) {
			if err := cmd.Execute(); err != nil {
				return "", ketoapi.ErrMalformedInput
			}
			var many []*ketoapi.RelationTuple
			var one ketoapi.RelationTuple
			b := bytes.TrimSpace(stdout.Bytes())
			if len(b) > 0 && b[0] == '[' {
				if err := json.Unmarshal(b, &many); err != nil {
					return "", err
				}
			} else if len(b) > 0 && string(b) != "null" {
				if err := json.Unmarshal(b, &one); err != nil {
					return "", err
				}
				many = []*ketoapi.RelationTuple{&one}
			}
			var parts []string
			for _, t := range many {
				parts = append(parts, fmtTuple(t))
			}
			return fmt.Sprintf("%d %s", len(many), strings.Join(parts, " ")), nil
		})
		return "pf " + hx(arg), o
	}
	panic("unknown op " + op)
}

// text files as the documentation writes them: relationships, blank lines, comments, stray white space, and
// slashes / comment markers INSIDE relationships
func genFileText(r *rng) string {
	var sb strings.Builder
	n := r.intn(5)
	for i := 0; i < n; i++ {
		switch r.intn(10) {
		case 0:
			sb.WriteString("// a comment " + genStr(r, 2))
		case 1:
			sb.WriteString("")
		case 2:
			sb.WriteString("  \t ")
		case 3: // a relationship with slashes in it
			sb.WriteString(r.pick([]string{"files:srv//share/readme#viewer@alice", "files:readme#viewer@corp//alice", "n:o#r@(g:eng//backend#member)", "n:o#r@u // trailing", "//n:o#r@u", " //x", "n://o#r@u"}))
		case 4:
			sb.WriteString(genTupleText(r))
		default:
			tu := genTuple(r, 0, true)
			pre, post := "", ""
			if r.chance(1, 4) {
				pre = r.pick([]string{" ", "\t", "  "})
			}
			if r.chance(1, 4) {
				post = r.pick([]string{" ", "\r", "\t "})
			}
			sb.WriteString(pre + tu.String() + post)
		}
		if i < n-1 || r.chance(2, 3) {
			sb.WriteString("\n")
		}
	}
	return asciiWS(sb.String())
}

// the model trims ASCII white space; keep Unicode white space (U+0085, U+00A0, U+2000.., U+3000) out of the files
func asciiWS(s string) string {
	var sb strings.Builder
	for _, c := range s {
		if c > 127 && unicode.IsSpace(c) {
			sb.WriteRune('_')
		} else if c == utf8.RuneError {
			sb.WriteRune('?')
		} else {
			sb.WriteRune(c)
		}
	}
	return sb.String()
}

func suiteC18(t *testing.T, cfg cfgT) {
	out := newSink(cfg, "cases.txt")
	defer out.close(cfg)
	r := newRng(cfg.seed)

	for _, l := range readCorpus(cfg) {
		op, arg, _ := strings.Cut(l, " ")
		if op == "fs" {
			in, obs := c18Case("fs", unhx(arg), r)
			out.emit(in, obs)
			out.stat("corpus")
		}
	}

	for i := 0; i < cfg.n; i++ {
		switch k := i % 10; k {
		case 1: // a text file through the CLI parser
			if r.chance(1, 2) {
				in, obs := c18Case("pf", genFileText(r), r)
				out.emit(in, obs)
				out.stat("op.pf")
				out.stat("pf." + strings.Fields(obs)[0])
			} else { // round trip: printed relationships, one per line, read back by the CLI
				var ts []*ketoapi.RelationTuple
				var lines, toks []string
				for j := 0; j <= r.intn(4); j++ {
					tu := genTuple(r, 0, true)
					// the CLI prints JSON: encoding/json replaces invalid UTF-8, which is the JSON layer, not the file parser;
					// Unicode white space at a line end would be trimmed by TrimSpace (the model trims ASCII white space)
					v := func(x string) string { return asciiWS(strings.ToValidUTF8(x, "?")) }
					tu.Namespace, tu.Object, tu.Relation = v(tu.Namespace), v(tu.Object), v(tu.Relation)
					if tu.SubjectID != nil {
						x := v(*tu.SubjectID)
						tu.SubjectID = &x
					}
					if tu.SubjectSet != nil {
						tu.SubjectSet = &ketoapi.SubjectSet{Namespace: v(tu.SubjectSet.Namespace), Object: v(tu.SubjectSet.Object), Relation: v(tu.SubjectSet.Relation)}
					}
					if r.chance(1, 3) {
						tu.Object = r.pick([]string{"srv//share/readme", "a//b", "x/y", "//lead", "t//"})
					}
					if r.chance(1, 4) && tu.SubjectID != nil {
						sid := r.pick([]string{"corp//alice", "u//", "/u"})
						tu.SubjectID = &sid
					}
					ts = append(ts, tu)
					lines = append(lines, tu.String())
					toks = append(toks, fmtTuple(tu))
				}
				_, obs := c18Case("pf", strings.Join(lines, "\n")+"\n", r)
				out.emit(fmt.Sprintf("pfr %d %s", len(ts), strings.Join(toks, " ")), obs)
				out.stat("op.pfr")
			}
		case 0: // raw text
			s := genTupleText(r)
			in, obs := c18Case("fs", s, r)
			out.emit(in, obs)
			out.stat("op.fs")
			if strings.HasPrefix(obs, "ok") {
				out.stat("fs.accepted")
			} else {
				out.stat("fs.rejected")
			}
		case 2: // structured tuple -> String -> FromString
			special := 1
			if r.chance(1, 3) {
				special = 0
			}
			tu := genTuple(r, special, true)
			s := tu.String()
			o := outcome(func() (string, error) {
				t2, err := (&ketoapi.RelationTuple{}).FromString(s)
				if err != nil {
					return "", err
				}
				return fmtTuple(t2), nil
			})
			out.emit("rts "+fmtTuple(tu), hx(s)+" "+o)
			out.stat("op.rts")
		case 3: // arbitrary url values -> query / tuple
			p := genValues(r)
			v, err := wireValues(p)
			if err != nil {
				t.Fatalf("net/url did not round-trip: %v", err)
			}
			oq := outcome(func() (string, error) {
				q, err := (&ketoapi.RelationQuery{}).FromURLQuery(v)
				if err != nil {
					return "", err
				}
				return fmtQuery(q), nil
			})
			ot := outcome(func() (string, error) {
				tu, err := (&ketoapi.RelationTuple{}).FromURLQuery(v)
				if err != nil {
					return "", err
				}
				return fmtTuple(tu), nil
			})
			out.emit("url "+fmtPairs(p), oq+" ; "+ot)
			out.stat("op.url")
			out.stat("url." + strings.Fields(oq)[0] + "/" + strings.Fields(ot)[0])
		case 4: // query -> url -> query
			q := genQuery(r, 3, true)
			in := "rtuq " + fmtQuery(q)
			v := q.ToURLQuery()
			v2, err := url.ParseQuery(v.Encode())
			if err != nil {
				t.Fatal(err)
			}
			o := outcome(func() (string, error) {
				q2, err := (&ketoapi.RelationQuery{}).FromURLQuery(v2)
				if err != nil {
					return "", err
				}
				return fmtQuery(q2), nil
			})
			out.emit(in, fmtValues(v)+" "+o)
			out.stat("op.rtuq")
		case 5: // tuple -> url -> tuple
			tu := genTuple(r, 3, true)
			in := "rtut " + fmtTuple(tu)
			v := tu.ToURLQuery()
			v2, err := url.ParseQuery(v.Encode())
			if err != nil {
				t.Fatal(err)
			}
			o := outcome(func() (string, error) {
				t2, err := (&ketoapi.RelationTuple{}).FromURLQuery(v2)
				if err != nil {
					return "", err
				}
				return fmtTuple(t2), nil
			})
			out.emit(in, fmtValues(v)+" "+o)
			out.stat("op.rtut")
		case 6: // tuple -> proto -> wire -> proto -> tuple (both decoders)
			tu := genTuple(r, 3, true)
			utf8Tuple(tu) // proto3 strings are UTF-8 by specification
			in := "rtpt " + fmtTuple(tu)
			var pt *rts.RelationTuple
			o1 := outcome(func() (string, error) {
				pt = tu.ToProto()
				return fmt.Sprintf("P %s %s %s %s", hx(pt.Namespace), hx(pt.Object), hx(pt.Relation), fmtPSub(pt.Subject)), nil
			})
			o2, o3 := "-", "-"
			if pt != nil {
				b, err := proto.Marshal(pt)
				if err != nil {
					t.Fatal(err)
				}
				var pt2 rts.RelationTuple
				if err := proto.Unmarshal(b, &pt2); err != nil {
					t.Fatal(err)
				}
				o2 = outcome(func() (string, error) { return fmtTuple((&ketoapi.RelationTuple{}).FromProto(&pt2)), nil })
				o3 = outcome(func() (string, error) {
					t3, err := (&ketoapi.RelationTuple{}).FromDataProvider(&pt2)
					if err != nil {
						return "", err
					}
					return fmtTuple(t3), nil
				})
			}
			out.emit(in, o1+" ; "+o2+" ; "+o3)
			out.stat("op.rtpt")
		case 7: // arbitrary proto tuple (absent subject, absent ref) -> both decoders
			pt := &rts.RelationTuple{Namespace: genJStr(r), Object: genJStr(r), Relation: genJStr(r)}
			switch r.intn(6) {
			case 0:
			case 1:
				pt.Subject = &rts.Subject{}
			case 2, 3:
				pt.Subject = rts.NewSubjectID(genJStr(r))
			default:
				pt.Subject = rts.NewSubjectSet(genJStr(r), genJStr(r), genJStr(r))
			}
			in := fmt.Sprintf("pfrom P %s %s %s %s", hx(pt.Namespace), hx(pt.Object), hx(pt.Relation), fmtPSub(pt.Subject))
			b, _ := proto.Marshal(pt)
			var pt2 rts.RelationTuple
			if err := proto.Unmarshal(b, &pt2); err != nil {
				t.Fatal(err)
			}
			o2 := outcome(func() (string, error) { return fmtTuple((&ketoapi.RelationTuple{}).FromProto(&pt2)), nil })
			o3 := outcome(func() (string, error) {
				t3, err := (&ketoapi.RelationTuple{}).FromDataProvider(&pt2)
				if err != nil {
					return "", err
				}
				return fmtTuple(t3), nil
			})
			out.emit(in, o2+" ; "+o3)
			out.stat("op.pfrom")
			out.stat("pfrom." + strings.Fields(o2)[0])
		case 8: // query -> proto -> query ; tuple/query -> JSON -> back
			if r.chance(1, 2) {
				q := genQuery(r, 3, true)
				utf8Query(q)
				in := "rtpq " + fmtQuery(q)
				pq := q.ToProto()
				b, _ := proto.Marshal(pq)
				var pq2 rts.RelationQuery
				if err := proto.Unmarshal(b, &pq2); err != nil {
					t.Fatal(err)
				}
				q2 := (&ketoapi.RelationQuery{}).FromDataProvider(relationtuple.VerifQueryWrapper(&pq2))
				out.emit(in, fmtQuery(q2))
				out.stat("op.rtpq")
			} else if r.chance(1, 2) {
				tu := genTuple(r, 3, true)
				utf8Tuple(tu)
				b, err := json.Marshal(tu)
				if err != nil {
					t.Fatal(err)
				}
				o := outcome(func() (string, error) {
					var t2 ketoapi.RelationTuple
					if err := json.Unmarshal(b, &t2); err != nil {
						return "", err
					}
					return fmtTuple(&t2), nil
				})
				out.emit("rtjt "+fmtTuple(tu), o)
				out.stat("op.rtjt")
			} else {
				q := genQuery(r, 3, true)
				utf8Query(q)
				b, err := json.Marshal(q)
				if err != nil {
					t.Fatal(err)
				}
				o := outcome(func() (string, error) {
					var q2 ketoapi.RelationQuery
					if err := json.Unmarshal(b, &q2); err != nil {
						return "", err
					}
					return fmtQuery(&q2), nil
				})
				out.emit("rtjq "+fmtQuery(q), o)
				out.stat("op.rtjq")
			}
		case 9: // arbitrary JSON document -> tuple
			j := genJTuple(r)
			txt := j.text()
			o := outcome(func() (string, error) {
				var t2 ketoapi.RelationTuple
				if err := json.Unmarshal([]byte(txt), &t2); err != nil {
					return "", err
				}
				return fmtTuple(&t2), nil
			})
			out.emit("jt "+j.tok(), o)
			out.stat("op.jt")
			out.stat("jt." + strings.Fields(o)[0])
		}
	}
}
