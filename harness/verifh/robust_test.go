//go:build verif

package verifh

// ROBUST suite (C13): requests generated from the REST/gRPC schemas and then mutated, against the read, write
// and syntax APIs of one registry.  One case per request:
//
//	<kind> m=<0|1> <route> <hex request> => <status> <changed 0|1> <wellformed 0|1>
//
// status 0 = the handler panicked (REST) / a recovered panic was reported (gRPC); m=1 marks requests the generator
// made invalid in a way the API documents as a client error.  The process dying (a panic in a worker goroutine)
// aborts the harness; every line is flushed, and current.txt names the request in flight.

import (
	"context"
	"crypto/sha256"
	"encoding/hex"
	"encoding/json"
	"fmt"
	"net/url"
	"os"
	"path/filepath"
	"sort"
	"strings"
	"testing"

	"net/http"

	"google.golang.org/grpc"
	"google.golang.org/protobuf/encoding/prototext"
	"google.golang.org/protobuf/proto"

	"github.com/ory/keto/internal/driver"
	opl "github.com/ory/keto/proto/ory/keto/opl/v1alpha1"
	rts "github.com/ory/keto/proto/ory/keto/relation_tuples/v1alpha2"
)

func init() { suites["ROBUST"] = suiteRobust }

const robustOPL = `
import { Namespace, Context, SubjectSet } from "@ory/keto-namespace-types"
class User implements Namespace {}
class Group implements Namespace {
  related: { members: (User | SubjectSet<Group, "members">)[] }
}
class Doc implements Namespace {
  related: {
    owners: (User | SubjectSet<Group, "members">)[]
    parents: Doc[]
    banned: User[]
  }
  permits = {
    view: (ctx: Context): boolean =>
      this.related.owners.includes(ctx.subject) || this.related.parents.traverse((p) => p.permits.view(ctx)),
    edit: (ctx: Context): boolean =>
      this.related.owners.includes(ctx.subject) && !this.related.banned.includes(ctx.subject),
  }
}
`

var (
	rbNamespaces = []string{"User", "Group", "Doc"}
	rbObjects    = []string{"a", "b", "c", "readme", "x y", "ü", ""}
	rbRelations  = []string{"members", "owners", "parents", "banned", "view", "edit", "nope", ""}
	rbSubjects   = []string{"alice", "bob", "carol", "", "Group:a#members"}
	rbWeird      = []string{"", " ", "\x00", "%", "%zz", "../..", "null", "-1", "0", "99999999999999999999", "1e400", "true", "{}", "[]", "'", "\"", "\\", "ÿ", "\xff\xfe", strings.Repeat("A", 70000), "nüll", "Doc:x#y", "#", ":", "@", "()", "(("}
)

type rbRunner struct {
	e      *env
	ctx    context.Context
	oplR   http.Handler
	oconn  *grpc.ClientConn
	out    *sink
	cur    string
	digest string
	stop   func()
}


func (rb *rbRunner) dbDigest() string {
	conn := rb.e.reg.Persister().Connection(rb.ctx)
	h := sha256.New()
	for _, q := range []string{
		"SELECT shard_id || '|' || nid || '|' || namespace || '|' || object || '|' || relation || '|' || coalesce(subject_id,'') || '|' || coalesce(subject_set_namespace,'') || '|' || coalesce(subject_set_object,'') || '|' || coalesce(subject_set_relation,'') FROM keto_relation_tuples",
		"SELECT id || '|' || string_representation FROM keto_uuid_mappings"} {
		var rows []string
		if err := conn.RawQuery(q).All(&rows); err != nil {
			return "ERR " + err.Error()
		}
		sort.Strings(rows)
		for _, r := range rows {
			h.Write([]byte(r))
			h.Write([]byte{0})
		}
		h.Write([]byte{1})
	}
	return hex.EncodeToString(h.Sum(nil)[:8])
}

// ---- JSON mutation ----
func rbWeirdJSON(r *rng) interface{} {
	switch r.intn(14) {
	case 0:
		return nil
	case 1:
		return true
	case 2:
		return 0
	case 3:
		return -1
	case 4:
		return json.Number("99999999999999999999999")
	case 5:
		return json.Number("1e400")
	case 6:
		return ""
	case 7:
		return strings.Repeat("z", 1+r.intn(3)*40000)
	case 8:
		return []interface{}{}
	case 9:
		return map[string]interface{}{}
	case 10:
		return []interface{}{nil, nil}
	case 11:
		return map[string]interface{}{"namespace": nil, "object": 1}
	case 12:
		return 1.5
	}
	return r.pick(rbWeird)
}

// mutate one random node of a decoded JSON value; returns the new value
func rbMutateJSON(r *rng, v interface{}, depth int) interface{} {
	switch x := v.(type) {
	case map[string]interface{}:
		keys := make([]string, 0, len(x))
		for k := range x {
			keys = append(keys, k)
		}
		sort.Strings(keys)
		if len(keys) == 0 || r.chance(1, 5+depth) {
			switch r.intn(3) {
			case 0:
				return rbWeirdJSON(r)
			case 1:
				x["unknown_"+fmt.Sprint(r.intn(9))] = rbWeirdJSON(r)
				return x
			default:
				if len(keys) > 0 {
					delete(x, keys[r.intn(len(keys))])
				}
				return x
			}
		}
		k := keys[r.intn(len(keys))]
		x[k] = rbMutateJSON(r, x[k], depth+1)
		return x
	case []interface{}:
		if len(x) == 0 || r.chance(1, 4) {
			switch r.intn(4) {
			case 0:
				return rbWeirdJSON(r)
			case 1:
				return append(x, nil)
			case 2:
				return append(x, rbWeirdJSON(r))
			default:
				if len(x) > 0 {
					return x[:len(x)-1]
				}
				return x
			}
		}
		i := r.intn(len(x))
		x[i] = rbMutateJSON(r, x[i], depth+1)
		return x
	default:
		return rbWeirdJSON(r)
	}
}

func rbRawMutate(r *rng, b []byte) ([]byte, bool) {
	switch r.intn(7) {
	case 0:
		if len(b) > 1 {
			return b[:1+r.intn(len(b)-1)], true // truncated: invalid JSON
		}
		return []byte("{"), true
	case 1:
		return append(b, []byte("}}garbage")...), false // decoder reads the first value only
	case 2:
		return []byte{}, true
	case 3:
		return []byte("\xff\xfe\x00{"), true
	case 4:
		return []byte(strings.Repeat("[", 20000)), true
	case 5:
		return []byte("nul"), true
	}
	return []byte(`{"namespace":` + strings.Repeat(`{"a":`, 3000) + `1` + strings.Repeat(`}`, 3000) + `}`), false // valid JSON; whether it is a valid request depends on the route
}

// ---- base requests ----
func rbTupleJSON(r *rng) map[string]interface{} {
	m := map[string]interface{}{"namespace": r.pick(rbNamespaces[1:]), "object": r.pick(rbObjects[:4]), "relation": r.pick(rbRelations[:6])}
	if r.chance(1, 2) {
		m["subject_id"] = r.pick(rbSubjects[:3])
	} else {
		m["subject_set"] = map[string]interface{}{"namespace": "Group", "object": r.pick(rbObjects[:3]), "relation": "members"}
	}
	return m
}

func rbTupleQuery(r *rng) url.Values {
	v := url.Values{"namespace": {r.pick(rbNamespaces[1:])}, "object": {r.pick(rbObjects[:4])}, "relation": {r.pick(rbRelations[:6])}}
	if r.chance(1, 2) {
		v.Set("subject_id", r.pick(rbSubjects[:3]))
	} else {
		v.Set("subject_set.namespace", "Group")
		v.Set("subject_set.object", r.pick(rbObjects[:3]))
		v.Set("subject_set.relation", "members")
	}
	return v
}

func rbMutateQuery(r *rng, v url.Values) {
	keys := make([]string, 0, len(v))
	for k := range v {
		keys = append(keys, k)
	}
	sort.Strings(keys)
	switch r.intn(6) {
	case 0:
		if len(keys) > 0 {
			v.Del(keys[r.intn(len(keys))])
		}
	case 1:
		if len(keys) > 0 {
			v.Set(keys[r.intn(len(keys))], r.pick(rbWeird))
		}
	case 2:
		if len(keys) > 0 {
			v.Add(keys[r.intn(len(keys))], r.pick(rbWeird))
		}
	case 3:
		v.Set(r.pick([]string{"max-depth", "page_size", "page_token", "subject", "subject_id", "subject_set.namespace", "unknown", "namespace"}), r.pick(rbWeird))
	case 4:
		v.Set("max-depth", r.pick([]string{"-5", "0", "1", "7", "1000000", "2147483647", "2147483648", "-2147483649", "9223372036854775807", "-9223372036854775808", "abc", "1.5", ""}))
	case 5:
		v.Set("page_size", r.pick([]string{"-1", "-100", "0", "1", "1000000", "2147483647", "2147483648", "4611686018427387904", "9223372036854775806", "9223372036854775807", "9223372036854775808", "-9223372036854775808", "0x7ffffffffffffff0", "abc", "0x10", ""}))
	}
}

type rbCase struct {
	kind   string // R or G
	route  string
	method string
	target string
	body   []byte
	rd     bool // read router
	syntax bool
	mal    bool
	write  bool
	grpc   func() (proto.Message, error)
	desc   string
}

func (rb *rbRunner) genREST(r *rng) rbCase {
	c := rbCase{kind: "R"}
	mut := r.intn(10) // 0..2: unmutated
	jsonBody := func(v interface{}) []byte {
		if mut >= 3 && mut <= 6 {
			for i := 0; i <= r.intn(3); i++ {
				v = rbMutateJSON(r, v, 0)
			}
		}
		b, _ := json.Marshal(v)
		if mut == 7 {
			var inv bool
			b, inv = rbRawMutate(r, b)
			c.mal = c.mal || inv
		}
		return b
	}
	query := func(v url.Values) string {
		if mut >= 8 || (mut >= 3 && r.chance(1, 4)) {
			for i := 0; i <= r.intn(2); i++ {
				rbMutateQuery(r, v)
			}
		}
		return v.Encode()
	}
	switch k := r.intn(16); k {
	case 0, 1:
		c.route, c.method, c.write = "put", "PUT", true
		c.target = "/admin/relation-tuples"
		c.body = jsonBody(rbTupleJSON(r))
	case 2:
		c.route, c.method, c.write = "delete", "DELETE", true
		c.target = "/admin/relation-tuples?" + query(rbTupleQuery(r))
	case 3, 4:
		c.route, c.method, c.write = "patch", "PATCH", true
		c.target = "/admin/relation-tuples"
		var ds []interface{}
		for i := 0; i <= r.intn(3); i++ {
			ds = append(ds, map[string]interface{}{"action": r.pick([]string{"insert", "delete"}), "relation_tuple": rbTupleJSON(r)})
		}
		c.body = jsonBody(ds)
	case 5:
		c.route, c.method, c.rd = "list", "GET", true
		v := rbTupleQuery(r)
		if r.chance(1, 2) {
			v = url.Values{"namespace": {r.pick(rbNamespaces)}}
		}
		if r.chance(1, 3) {
			v.Set("page_size", r.pick([]string{"1", "2", "100", "1000000", "4611686018427387904", "9223372036854775806", "9223372036854775807", "2147483647"}))
		}
		c.target = "/relation-tuples?" + query(v)
	case 6:
		c.route, c.method, c.rd = "check", "GET", true
		c.target = r.pick([]string{"/relation-tuples/check", "/relation-tuples/check/openapi"}) + "?" + query(rbTupleQuery(r))
	case 7, 8:
		c.route, c.method, c.rd = "postcheck", "POST", true
		c.target = r.pick([]string{"/relation-tuples/check", "/relation-tuples/check/openapi"})
		if r.chance(1, 3) {
			c.target += "?" + query(url.Values{"max-depth": {"5"}})
		}
		c.body = jsonBody(rbTupleJSON(r))
	case 9, 10:
		c.route, c.method, c.rd = "batch", "POST", true
		c.target = "/relation-tuples/batch/check"
		if r.chance(1, 3) {
			c.target += "?" + query(url.Values{"max-depth": {"5"}})
		}
		var ts []interface{}
		for i := 0; i <= r.intn(4); i++ {
			ts = append(ts, rbTupleJSON(r))
		}
		c.body = jsonBody(map[string]interface{}{"tuples": ts})
	case 11:
		c.route, c.method, c.rd = "expand", "GET", true
		c.target = "/relation-tuples/expand?" + query(url.Values{"namespace": {r.pick(rbNamespaces[1:])}, "object": {r.pick(rbObjects[:4])}, "relation": {r.pick(rbRelations[:6])}, "max-depth": {fmt.Sprint(r.intn(6))}})
	case 12:
		c.route, c.method, c.rd = "namespaces", "GET", true
		c.target = "/namespaces?" + query(url.Values{})
	case 13:
		c.route, c.method, c.syntax = "syntax", "POST", true
		c.target = "/opl/syntax/check"
		src := robustOPL
		if mut >= 3 {
			b := []byte(src)
			for i := 0; i <= r.intn(4); i++ {
				p := r.intn(len(b))
				switch r.intn(4) {
				case 0:
					b = b[:p]
				case 1:
					b = append(b[:p:p], append([]byte(r.pick(rbWeird)), b[p:]...)...)
				case 2:
					b[p] = byte(r.intn(256))
				case 3:
					b = append(b[:p:p], b[min(len(b), p+r.intn(40)):]...)
				}
				if len(b) == 0 {
					b = []byte("c")
				}
			}
			src = string(b)
		}
		c.body = []byte(src)
	case 14: // wrong method / unknown path
		c.route = "misc"
		c.method = r.pick([]string{"GET", "POST", "PUT", "DELETE", "PATCH", "HEAD", "OPTIONS", "TRACE"})
		c.target = r.pick([]string{"/relation-tuples", "/admin/relation-tuples", "/relation-tuples/check", "/relation-tuples/batch/check", "/relation-tuples/expand", "/namespaces", "/opl/syntax/check", "/", "/nope", "/relation-tuples/../admin", "/health/alive", "/version"})
		c.rd = r.chance(1, 2)
		c.syntax = !c.rd && r.chance(1, 3)
		c.body = jsonBody(rbTupleJSON(r))
		c.mal = false                  // whether the body matters depends on the method/path picked
		c.write = !c.rd && !c.syntax // may hit a real write route
		if c.write {
			c.route = "miscw"
		}
	case 15: // known-invalid requests: the documented client errors
		c.mal = true
		switch r.intn(9) {
		case 0:
			c.route, c.method, c.write, c.target = "put", "PUT", true, "/admin/relation-tuples"
			m := rbTupleJSON(r)
			m["namespace"] = "Unknown" + fmt.Sprint(r.intn(5))
			c.body, _ = json.Marshal(m)
		case 1:
			c.route, c.method, c.write, c.target = "put", "PUT", true, "/admin/relation-tuples"
			m := rbTupleJSON(r)
			delete(m, "subject_id")
			delete(m, "subject_set")
			c.body, _ = json.Marshal(m)
		case 2:
			c.route, c.method, c.write, c.target = "patch", "PATCH", true, "/admin/relation-tuples"
			c.body = []byte(r.pick([]string{`[null]`, `[{"action":"insert"}]`, `[{"action":"frobnicate","relation_tuple":{"namespace":"Doc","object":"a","relation":"owners","subject_id":"u"}}]`, `[{"action":"insert","relation_tuple":null}]`, `{"action":"insert"}`, `[[]]`}))
		case 3:
			c.route, c.method, c.rd = "list", "GET", true
			c.target = "/relation-tuples?namespace=Doc&page_size=" + r.pick([]string{"-1", "-7", "abc", "1.5"})
		case 4:
			c.route, c.method, c.rd = "list", "GET", true
			c.target = "/relation-tuples?namespace=Doc&page_token=" + r.pick([]string{"zzz", "12", "%00"})
		case 5:
			c.route, c.method, c.rd = "check", "GET", true
			c.target = "/relation-tuples/check?namespace=Doc&object=a&relation=view&subject_id=alice&max-depth=" + r.pick([]string{"abc", "1.5", "99999999999999999999"})
		case 6:
			c.route, c.method, c.rd = "postcheck", "POST", true
			c.target = "/relation-tuples/check"
			c.body = []byte(r.pick([]string{`{"namespace":5}`, `{"namespace":"Doc","object":"a","relation":"view"}`, `[]`, `"x"`, `{"subject_set":"Group:a#members"}`}))
		case 7:
			c.route, c.method, c.rd = "expand", "GET", true
			c.target = "/relation-tuples/expand?" + r.pick([]string{"namespace=Doc&object=a&relation=view&max-depth=abc", "namespace=Nope&object=a&relation=view", "object=a"})
		case 8:
			c.route, c.method, c.write = "delete", "DELETE", true
			c.target = "/admin/relation-tuples?" + r.pick([]string{"namespace=Nope", "object=a", "namespace=Doc&subject_id=a&subject_set.namespace=Group&subject_set.object=a&subject_set.relation=members", "namespace=Doc&subject=alice"})
		}
	}
	c.desc = fmt.Sprintf("%s %s %s", c.method, hx(c.target), hx(string(c.body)))
	return c
}

// ---- gRPC ----
// proto3 strings must be valid UTF-8 (the client library refuses to send anything else)
var rbWeirdU = func() []string {
	var out []string
	for _, w := range rbWeird {
		out = append(out, strings.ToValidUTF8(w, "?"))
	}
	return out
}()

func rbStr(r *rng, pool []string) string {
	if r.chance(1, 6) {
		return r.pick(rbWeirdU)
	}
	return r.pick(pool)
}
func rbSubject(r *rng, mut bool) *rts.Subject {
	if mut {
		switch r.intn(5) {
		case 0:
			return nil
		case 1:
			return &rts.Subject{}
		case 2:
			return &rts.Subject{Ref: &rts.Subject_Set{}}
		case 3:
			return &rts.Subject{Ref: &rts.Subject_Id{Id: r.pick(rbWeirdU)}}
		}
		return rts.NewSubjectSet(r.pick(rbWeirdU), r.pick(rbWeirdU), r.pick(rbWeirdU))
	}
	if r.chance(1, 2) {
		return rts.NewSubjectID(r.pick(rbSubjects[:3]))
	}
	return rts.NewSubjectSet("Group", r.pick(rbObjects[:3]), "members")
}
func rbPTuple(r *rng, mut bool) *rts.RelationTuple {
	t := &rts.RelationTuple{Namespace: r.pick(rbNamespaces[1:]), Object: r.pick(rbObjects[:4]), Relation: r.pick(rbRelations[:6]), Subject: rbSubject(r, false)}
	if mut {
		switch r.intn(5) {
		case 0:
			t.Namespace = rbStr(r, rbWeirdU)
		case 1:
			t.Object = r.pick(rbWeirdU)
		case 2:
			t.Relation = r.pick(rbWeirdU)
		case 3:
			t.Subject = rbSubject(r, true)
		case 4:
			return &rts.RelationTuple{}
		}
	}
	return t
}
func rbPQuery(r *rng, mut bool) *rts.RelationQuery {
	q := &rts.RelationQuery{}
	if r.chance(2, 3) {
		s := r.pick(rbNamespaces)
		q.Namespace = &s
	}
	if r.chance(1, 2) {
		s := r.pick(rbObjects[:4])
		q.Object = &s
	}
	if r.chance(1, 2) {
		s := r.pick(rbRelations[:6])
		q.Relation = &s
	}
	if r.chance(1, 3) {
		q.Subject = rbSubject(r, false)
	}
	if mut {
		switch r.intn(5) {
		case 0:
			s := r.pick(rbWeirdU)
			q.Namespace = &s
		case 1:
			s := r.pick(rbWeirdU)
			q.Object = &s
		case 2:
			q.Subject = rbSubject(r, true)
		case 3:
			return nil
		case 4:
			s := ""
			q.Namespace, q.Object, q.Relation = &s, &s, &s
		}
	}
	return q
}
func rbInt32(r *rng) int32 {
	return []int32{-1, -2147483648, 2147483647, 0, 1, 1000000, -7}[r.intn(7)]
}

func (rb *rbRunner) genGRPC(r *rng) rbCase {
	c := rbCase{kind: "G"}
	mut := r.chance(2, 3)
	e, ctx := rb.e, rb.ctx
	var msg proto.Message
	switch r.intn(9) {
	case 0:
		req := &rts.CheckRequest{Tuple: rbPTuple(r, mut), MaxDepth: 5}
		if mut && r.chance(1, 3) {
			req.Tuple = nil
			if r.chance(1, 2) { // deprecated flat fields
				req.Namespace, req.Object, req.Relation, req.Subject = "Doc", "a", "view", rbSubject(r, r.chance(1, 2))
			}
		}
		if mut && r.chance(1, 3) {
			req.MaxDepth = rbInt32(r)
		}
		c.route, msg = "Check", req
		c.grpc = func() (proto.Message, error) { return rts.NewCheckServiceClient(e.rconn).Check(ctx, req) }
	case 1:
		req := &rts.BatchCheckRequest{MaxDepth: 5}
		for i := 0; i < r.intn(5); i++ {
			req.Tuples = append(req.Tuples, rbPTuple(r, mut && r.chance(1, 2)))
		}
		if mut && r.chance(1, 4) {
			req.MaxDepth = rbInt32(r)
		}
		if mut && r.chance(1, 10) {
			for i := 0; i < 1200; i++ {
				req.Tuples = append(req.Tuples, rbPTuple(r, false))
			}
		}
		c.route, msg = "BatchCheck", req
		c.grpc = func() (proto.Message, error) { return rts.NewCheckServiceClient(e.rconn).BatchCheck(ctx, req) }
	case 2:
		req := &rts.ExpandRequest{Subject: rts.NewSubjectSet(r.pick(rbNamespaces[1:]), r.pick(rbObjects[:4]), r.pick(rbRelations[:6])), MaxDepth: int32(r.intn(6))}
		if mut {
			req.Subject = rbSubject(r, true)
			if r.chance(1, 3) {
				req.MaxDepth = rbInt32(r)
			}
			if req.Subject == nil || req.Subject.Ref == nil {
				c.mal = true
			}
		}
		c.route, msg = "Expand", req
		c.grpc = func() (proto.Message, error) { return rts.NewExpandServiceClient(e.rconn).Expand(ctx, req) }
	case 3:
		req := &rts.ListRelationTuplesRequest{RelationQuery: rbPQuery(r, mut), PageSize: int32(r.intn(5))}
		if mut {
			switch r.intn(4) {
			case 0:
				req.PageSize = rbInt32(r)
				if req.PageSize < 0 {
					c.mal = true
				}
			case 1:
				req.PageToken = r.pick(rbWeirdU[1:])
				c.mal = true
			case 2:
				ns := "Doc"
				req.RelationQuery = nil
				req.Query = &rts.ListRelationTuplesRequest_Query{Namespace: ns, Subject: rbSubject(r, true)}
			}
		}
		if req.RelationQuery == nil && req.Query == nil {
			c.mal = true
		}
		c.route, msg = "List", req
		c.grpc = func() (proto.Message, error) { return rts.NewReadServiceClient(e.rconn).ListRelationTuples(ctx, req) }
	case 4:
		req := &rts.ListNamespacesRequest{}
		c.route, msg = "ListNamespaces", req
		c.grpc = func() (proto.Message, error) { return rts.NewNamespacesServiceClient(e.rconn).ListNamespaces(ctx, req) }
	case 5, 6:
		req := &rts.TransactRelationTuplesRequest{}
		for i := 0; i <= r.intn(3); i++ {
			d := &rts.RelationTupleDelta{Action: rts.RelationTupleDelta_Action(1 + r.intn(2)), RelationTuple: rbPTuple(r, false)}
			if mut && r.chance(1, 2) {
				switch r.intn(4) {
				case 0:
					d.RelationTuple = nil
				case 1:
					d.Action = rts.RelationTupleDelta_Action(r.intn(9) - 2)
				case 2:
					d.RelationTuple = rbPTuple(r, true)
				case 3:
					d.RelationTuple.Subject = nil
					c.mal = true
				}
			}
			req.RelationTupleDeltas = append(req.RelationTupleDeltas, d)
		}
		c.route, msg, c.write = "Transact", req, true
		c.grpc = func() (proto.Message, error) {
			return rts.NewWriteServiceClient(e.wconn).TransactRelationTuples(ctx, req)
		}
	case 7:
		req := &rts.DeleteRelationTuplesRequest{RelationQuery: rbPQuery(r, mut)}
		if mut && r.chance(1, 4) {
			req.RelationQuery = nil
			req.Query = &rts.DeleteRelationTuplesRequest_Query{Namespace: "Doc", Subject: rbSubject(r, true)}
		}
		if req.RelationQuery == nil && req.Query == nil {
			c.mal = true
		}
		c.route, msg, c.write = "Delete", req, true
		c.grpc = func() (proto.Message, error) {
			return rts.NewWriteServiceClient(e.wconn).DeleteRelationTuples(ctx, req)
		}
	case 8:
		src := robustOPL
		if mut {
			b := []byte(src)
			for i := 0; i <= r.intn(4); i++ {
				p := r.intn(len(b))
				if r.chance(1, 2) {
					b[p] = byte(r.intn(256))
				} else {
					b = b[:p+1]
				}
			}
			src = string(b)
		}
		req := &opl.CheckRequest{Content: []byte(src)}
		c.route, msg, c.syntax = "SyntaxCheck", req, true
		c.grpc = func() (proto.Message, error) { return opl.NewSyntaxServiceClient(rb.oconn).Check(ctx, req) }
	}
	b, _ := prototext.MarshalOptions{Multiline: false}.Marshal(msg)
	s := string(b)
	if len(s) > 4000 {
		s = s[:4000] + "..."
	}
	c.desc = hx(s)
	return c
}

func (rb *rbRunner) run(c rbCase) {
	input := fmt.Sprintf("%s m=%d %s %s", c.kind, b2i(c.mal), c.route, c.desc)
	_ = os.WriteFile(rb.cur, []byte(input+"\n"), 0o644)
	var code int
	wf := true
	if c.kind == "R" {
		h := rb.e.write
		if c.rd {
			h = rb.e.read
		} else if c.syntax {
			h = rb.oplR
		}
		var body []byte
		code, body = rest(h, c.method, c.target, c.body)
		if code != 0 && code != 204 && code != 404 && code != 405 && c.method != "HEAD" && c.method != "OPTIONS" && len(body) > 0 {
			wf = json.Valid(body)
		}
	} else {
		resp, err := c.grpc()
		code = grpcCode(err)
		wf = (err == nil) == (resp != nil && !isNilMsg(resp))
	}
	after := rb.dbDigest()
	changed := after != rb.digest
	rb.digest = after
	rb.out.emit(input, fmt.Sprintf("%d %d %d", code, b2i(changed), b2i(wf)))
	rb.out.w.Flush()
	cls := "2xx"
	switch {
	case code == 0:
		cls = "panic"
	case code >= 500:
		cls = "5xx"
	case code >= 400:
		cls = "4xx"
	}
	rb.out.stat(fmt.Sprintf("%s.%s.%s", c.kind, c.route, cls))
	if c.mal {
		rb.out.stat("marked-invalid")
	}
}

func isNilMsg(m proto.Message) bool { return m == nil || !m.ProtoReflect().IsValid() }
func b2i(b bool) int {
	if b {
		return 1
	}
	return 0
}

func newRbRunner(t *testing.T, out *sink, cfg cfgT) *rbRunner {
	e := newEnv(t, driver.WithOPL(robustOPL))
	ctx := context.Background()
	rb := &rbRunner{e: e, ctx: ctx, out: out, cur: filepath.Join(cfg.out, "current.txt")}
	rb.oplR = e.reg.OPLSyntaxRouter(ctx)
	rb.oconn, rb.stop = serveBuf(e.reg.OplGRPCServer(ctx))
	// some stored data, so that list / check / expand / delete have something to work on
	seedTuples := []string{
		`{"namespace":"Group","object":"a","relation":"members","subject_id":"alice"}`,
		`{"namespace":"Group","object":"b","relation":"members","subject_set":{"namespace":"Group","object":"a","relation":"members"}}`,
		`{"namespace":"Doc","object":"a","relation":"owners","subject_set":{"namespace":"Group","object":"b","relation":"members"}}`,
		`{"namespace":"Doc","object":"b","relation":"parents","subject_set":{"namespace":"Doc","object":"a","relation":""}}`,
		`{"namespace":"Doc","object":"readme","relation":"owners","subject_id":"bob"}`,
		`{"namespace":"Doc","object":"readme","relation":"banned","subject_id":"bob"}`,
	}
	for _, s := range seedTuples {
		if code, b := rest(e.write, "PUT", "/admin/relation-tuples", []byte(s)); code != 201 {
			t.Fatalf("seed tuple: %d %s", code, b)
		}
	}
	rb.digest = rb.dbDigest()
	return rb
}

func suiteRobust(t *testing.T, cfg cfgT) {
	out := newSink(cfg, "cases.txt")
	defer out.close(cfg)
	r := newRng(cfg.seed)
	steps := 0
	for steps < cfg.n {
		hr := r.fork()
		rb := newRbRunner(t, out, cfg)
		for i := 0; i < 400 && steps < cfg.n; i++ {
			var c rbCase
			if hr.chance(3, 5) {
				c = rb.genREST(hr)
			} else {
				c = rb.genGRPC(hr)
			}
			rb.run(c)
			steps++
		}
		rb.stop()
		rb.e.close()
	}
}
