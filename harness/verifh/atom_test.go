//go:build verif

package verifh

import (
	"context"
	"crypto/md5"
	"encoding/hex"
	"encoding/json"
	"fmt"
	"strings"
	"testing"

	"github.com/ory/keto/internal/driver"
	ksql "github.com/ory/keto/internal/persistence/sql"
	"github.com/ory/keto/ketoapi"
	rts "github.com/ory/keto/proto/ory/keto/relation_tuples/v1alpha2"
)

func init() { suites["ATOM"] = suiteAtom }

func md5lines(l []string) string {
	h := md5.Sum([]byte(strings.Join(l, "\n")))
	return hex.EncodeToString(h[:])
}

// dumpDigest: same canonical content as dump(), reported as counts + MD5 (batches have thousands of rows)
func (e *env) dumpDigest(p *namePool) string {
	rs, ms, errs := e.dumpParts(p)
	if errs != "" {
		return "X? " + errs
	}
	return fmt.Sprintf("X %d %s %d %s", len(rs), md5lines(rs), len(ms), md5lines(ms))
}

const (
	poisonIns = "__fail_ins"
	poisonDel = "__fail_del"
	poisonMap = "__fail_map"
)

func suiteAtom(t *testing.T, cfg cfgT) {
	out := newSink(cfg, "cases.txt")
	defer out.close(cfg)
	r := newRng(cfg.seed)
	ctx := context.Background()
	sizes := []int{1, 2, 3, 99, 100, 101, 250}
	big := []int{2999, 3000, 3001, 6001}
	steps := 0
	round := 0
	for steps < cfg.n {
		hr := r.fork()
		e := newEnv(t, driver.WithNamespaces(nsList(stNamespaces...)))
		pool := newPool()
		for i := 0; i < 40; i++ {
			pool.add(fmt.Sprintf("o%d", i))
			pool.add(fmt.Sprintf("u%d", i))
		}
		pool.add("poison")
		pool.add(poisonMap)
		pool.addNet(e.nid, 1)
		conn := e.reg.Persister().Connection(ctx)
		for _, q := range []string{
			"CREATE TRIGGER verif_fail_ins BEFORE INSERT ON keto_relation_tuples WHEN NEW.relation = '" + poisonIns + "' BEGIN SELECT RAISE(ABORT, 'injected statement failure'); END",
			"CREATE TRIGGER verif_fail_del BEFORE DELETE ON keto_relation_tuples WHEN OLD.relation = '" + poisonDel + "' BEGIN SELECT RAISE(ABORT, 'injected statement failure'); END",
			"CREATE TRIGGER verif_fail_map BEFORE INSERT ON keto_uuid_mappings WHEN NEW.string_representation = '" + poisonMap + "' BEGIN SELECT RAISE(ABORT, 'injected statement failure'); END",
		} {
			if err := conn.RawQuery(q).Exec(); err != nil {
				t.Fatalf("trigger: %v", err)
			}
		}
		out.emit("reset 1 "+hx("n")+" "+hx("m")+" .", "-")
		out.emit("mode digest", "-")
		sr := &storeRunner{e: e, pool: pool, out: out}
		mk := func(i int) *ketoapi.RelationTuple {
			tu := &ketoapi.RelationTuple{Namespace: hr.pick(stNamespaces), Object: fmt.Sprintf("o%d", hr.intn(40)), Relation: hr.pick([]string{"r", "s"})}
			if hr.chance(2, 3) {
				s := fmt.Sprintf("u%d", hr.intn(40))
				tu.SubjectID = &s
			} else {
				tu.SubjectSet = &ketoapi.SubjectSet{Namespace: hr.pick(stNamespaces), Object: fmt.Sprintf("o%d", hr.intn(40)), Relation: "r"}
			}
			return tu
		}
		// the row whose deletion fails, and some ordinary rows
		setup := []*ketoapi.RelationTuple{{Namespace: "n", Object: "poison", Relation: poisonDel, SubjectID: strp("u1")}}
		for i := 0; i < 150; i++ {
			setup = append(setup, mk(i))
		}
		badCase := -1 // index of the delta whose action is spelled in another case (REST only): the whole request is refused
		emitPatch := func(ins, del []*ketoapi.RelationTuple, grpc bool) {
			var items, parts []string
			req := &rts.TransactRelationTuplesRequest{}
			add := func(act string, tu *ketoapi.RelationTuple) {
				if !grpc && badCase == len(parts) {
					act = map[string]string{"insert": "INSERT", "delete": "Delete"}[act]
				}
				tb, _ := json.Marshal(tu)
				parts = append(parts, fmt.Sprintf(`{"action":%q,"relation_tuple":%s}`, act, tb))
				if grpc {
					a := rts.RelationTupleDelta_ACTION_INSERT
					if act == "delete" {
						a = rts.RelationTupleDelta_ACTION_DELETE
					}
					pt := tupleToProto(tu)
					req.RelationTupleDeltas = append(req.RelationTupleDeltas, &rts.RelationTupleDelta{Action: a, RelationTuple: pt})
					items = append(items, "A "+hx(act)+" "+fmtPTuple(pt))
				} else {
					items = append(items, "A "+hx(act)+" "+fmtTuple(tu))
				}
			}
			for _, tu := range ins {
				add("insert", tu)
			}
			for _, tu := range del {
				add("delete", tu)
			}
			var code int
			if grpc {
				_, err := rts.NewWriteServiceClient(e.wconn).TransactRelationTuples(ctx, req)
				code = grpcCode(err)
				out.emit(fmt.Sprintf("transact %d %s", len(items), strings.Join(items, " ")), fmt.Sprintf("%d %s", code, e.dumpDigest(pool)))
			} else {
				code, _ = rest(e.write, "PATCH", "/admin/relation-tuples", []byte("["+strings.Join(parts, ",")+"]"))
				out.emit(fmt.Sprintf("patch %d %s", len(items), strings.Join(items, " ")), fmt.Sprintf("%d %s", code, e.dumpDigest(pool)))
			}
			out.stat(fmt.Sprintf("request.%d", code))
			steps++
		}
		emitPatch(setup, nil, true)
		_ = sr

		nreq := 12
		for i := 0; i < nreq && steps < cfg.n; i++ {
			ni := sizes[hr.intn(len(sizes))]
			nd := []int{0, 1, 99, 100, 101, 150}[hr.intn(6)]
			if round%4 == 0 && i == 3 { // one big batch per fourth environment
				ni = big[(round/4)%len(big)]
				out.stat(fmt.Sprintf("big.%d", ni))
			}
			if hr.chance(1, 5) {
				ni = 0
			}
			var ins, del []*ketoapi.RelationTuple
			for k := 0; k < ni; k++ {
				ins = append(ins, mk(k))
			}
			// deletes target existing rows (from setup) and some absent ones
			for k := 0; k < nd; k++ {
				if hr.chance(3, 4) {
					del = append(del, setup[1+hr.intn(len(setup)-1)])
				} else {
					del = append(del, mk(k))
				}
			}
			kind := hr.intn(8)
			switch kind {
			case 0: // poison insert at a random position (any chunk)
				if ni > 0 {
					p := hr.intn(ni)
					if hr.chance(1, 3) {
						p = ni - 1
					}
					ins[p] = &ketoapi.RelationTuple{Namespace: "n", Object: "o1", Relation: poisonIns, SubjectID: strp("u1")}
					out.stat("fault.insert_statement")
				}
			case 1: // poison delete at a random position (any chunk)
				if nd > 0 {
					p := hr.intn(nd)
					if hr.chance(1, 3) {
						p = nd - 1
					}
					del[p] = setup[0]
					out.stat("fault.delete_statement")
				}
			case 2: // mapping insert fails
				if ni > 0 {
					ins[hr.intn(ni)] = &ketoapi.RelationTuple{Namespace: "n", Object: poisonMap, Relation: "r", SubjectID: strp("u1")}
					out.stat("fault.mapping_statement")
				}
			case 3: // unknown namespace / missing subject at first, middle or last position
				all := append(append([]*ketoapi.RelationTuple{}, ins...), del...)
				if len(all) > 0 {
					p := []int{0, len(all) / 2, len(all) - 1}[hr.intn(3)]
					bad := &ketoapi.RelationTuple{Namespace: "zz", Object: "o1", Relation: "r", SubjectID: strp("u1")}
					if hr.chance(1, 3) {
						bad = &ketoapi.RelationTuple{Namespace: "n", Object: "o1", Relation: "r"}
					}
					if p < len(ins) {
						ins[p] = bad
					} else {
						del[p-len(ins)] = bad
					}
					out.stat("fault.invalid_tuple")
				}
			case 4: // an action spelled in another case somewhere in a REST request
				if ni+nd > 1 {
					badCase = hr.intn(ni + nd)
					out.stat("fault.action_case")
				}
			default:
				out.stat("fault.none")
			}
			emitPatch(ins, del, badCase < 0 && hr.chance(1, 2))
			badCase = -1
		}
		// Manager level, with NO enclosing transaction (what an embedder of the registry calls; the handlers wrap their calls
		// in one): a multi-tuple delete of more than one internal batch whose LAST batch fails must delete nothing
		mgrDelete := func(del []*ketoapi.RelationTuple) {
			var items []string
			for _, tu := range del {
				items = append(items, "A "+hx("delete")+" "+fmtTuple(tu))
			}
			code := 204
			its, err := e.reg.ReadOnlyMapper().FromTuple(ctx, del...)
			if err == nil {
				err = e.reg.RelationTupleManager().DeleteRelationTuples(ctx, its...)
			}
			if err != nil {
				code = 500
			}
			out.emit(fmt.Sprintf("patch %d %s", len(items), strings.Join(items, " ")), fmt.Sprintf("%d %s", code, e.dumpDigest(pool)))
			out.stat(fmt.Sprintf("manager_delete.%d", code))
			steps++
		}
		// (fresh rows first, so that the first batch really has something to delete)
		var fresh []*ketoapi.RelationTuple
		for k := 0; k < 130; k++ {
			fresh = append(fresh, mk(k))
		}
		emitPatch(fresh, nil, false)
		mgrDelete(append(append([]*ketoapi.RelationTuple{}, fresh[:120]...), setup[0]))
		mgrDelete(fresh[:115])
		// requests larger than any plausible internal batch, failing at the very end: a request is ONE unit however the
		// server slices it (sizes 1001..2100 cross slices of 1000; the storage batches of 100 / 3000 are covered above)
		for bi, nbig := range []int{1001, 2100} {
			var ins []*ketoapi.RelationTuple
			for k := 0; k < nbig; k++ {
				ins = append(ins, mk(k))
			}
			if (round+bi)%2 == 0 {
				ins[nbig-1] = &ketoapi.RelationTuple{Namespace: "zz", Object: "o1", Relation: "r", SubjectID: strp("u1")}
				out.stat("fault.big_invalid_last")
			} else {
				ins[nbig-1] = &ketoapi.RelationTuple{Namespace: "n", Object: "o1", Relation: poisonIns, SubjectID: strp("u1")}
				out.stat("fault.big_statement_last")
			}
			emitPatch(ins, nil, (round+bi)%4 >= 2)
		}
		// delete-by-query that hits the poison row: must fail and delete nothing
		code, _ := rest(e.write, "DELETE", "/admin/relation-tuples?namespace=n&relation="+poisonDel, nil)
		out.emit(fmt.Sprintf("delrest %s 1", fmtPairs([][2]string{{"namespace", "n"}, {"relation", poisonDel}})), fmt.Sprintf("%d %s", code, e.dumpDigest(pool)))
		steps++
		e.close()
		round++
	}
}

func strp(s string) *string { return &s }

var _ = ksql.Migrations
