//go:build verif

package verifh

import (
	"fmt"
	"strings"
	"testing"
	"time"

	"github.com/ory/keto/internal/namespace"
	"github.com/ory/keto/internal/namespace/ast"
	"github.com/ory/keto/internal/schema"
)

func init() { suites["OPL"] = suiteOPL }

// bigDoc: large documents of one repeated construct; parse time must grow linearly with the input (C12)
func bigDoc(shape, k int) string {
	var sb strings.Builder
	switch shape {
	case 0: // one class, k relations to an undeclared namespace: k type errors
		sb.WriteString("class A implements Namespace {\n  related: {\n")
		for i := 0; i < k; i++ {
			fmt.Fprintf(&sb, "    r%06d: Missing[]\n", i)
		}
		sb.WriteString("  }\n}\n")
	case 1: // k classes, each refers to the previous one
		sb.WriteString("class C0 implements Namespace {}\n")
		for i := 1; i < k; i++ {
			fmt.Fprintf(&sb, "class C%d implements Namespace { related: { p: C%d[] } }\n", i, i-1)
		}
	case 2: // one permission, a k-term || chain
		sb.WriteString("class U implements Namespace {}\nclass A implements Namespace {\n  related: { r: U[] }\n  permits = { p: (ctx) => ")
		for i := 0; i < k; i++ {
			if i > 0 {
				sb.WriteString(" || ")
			}
			sb.WriteString("this.related.r.includes(ctx.subject)")
		}
		sb.WriteString(" }\n}\n")
	case 3: // k permissions that refer to an undeclared relation
		sb.WriteString("class A implements Namespace {\n  related: { r: A[] }\n  permits = {\n")
		for i := 0; i < k; i++ {
			fmt.Fprintf(&sb, "    p%06d: (ctx) => this.related.nope.includes(ctx.subject),\n", i)
		}
		sb.WriteString("  }\n}\n")
	case 4: // k relations with union types
		sb.WriteString("class U implements Namespace {}\nclass A implements Namespace {\n  related: {\n")
		for i := 0; i < k; i++ {
			fmt.Fprintf(&sb, "    r%06d: (U | SubjectSet<A, \"r000000\">)[]\n", i)
		}
		sb.WriteString("  }\n}\n")
	case 5: // k traversals
		sb.WriteString("class A implements Namespace {\n  related: { r: A[] }\n  permits = {\n    q: (ctx) => this.related.r.includes(ctx.subject),\n")
		for i := 0; i < k; i++ {
			fmt.Fprintf(&sb, "    p%06d: (ctx) => this.related.r.traverse((x) => x.permits.q(ctx)),\n", i)
		}
		sb.WriteString("  }\n}\n")
	case 6: // a long && chain
		sb.WriteString("class U implements Namespace {}\nclass A implements Namespace {\n  related: { r: U[] }\n  permits = { p: (ctx) => ")
		for i := 0; i < k; i++ {
			if i > 0 {
				sb.WriteString(" && ")
			}
			sb.WriteString("this.related.r.includes(ctx.subject)")
		}
		sb.WriteString(" }\n}\n")
	case 7: // k comment lines and blank lines before one class
		for i := 0; i < k; i++ {
			fmt.Fprintf(&sb, "// comment line %d\n\n", i)
		}
		sb.WriteString("class A implements Namespace {}\n")
	}
	return sb.String()
}

func bigTime(src string) time.Duration {
	best := time.Duration(0)
	for i := 0; i < 2; i++ { // the better of two runs
		start := time.Now()
		_, errs := schema.Parse(src)
		for _, e := range errs[:min(len(errs), 50)] {
			_ = e.ToAPI()
		}
		dt := time.Since(start)
		if i == 0 || dt < best {
			best = dt
		}
		if dt > 5*time.Second {
			break
		}
	}
	return best
}

// ---- spelling variants of a configuration (C10) ----
func quoteName(r *rng, s string) string {
	switch r.intn(6) {
	case 0:
		return "\"" + s + "\""
	case 1:
		return "'" + s + "'"
	}
	return s
}
func propAccess(r *rng, name string) string {
	if r.chance(1, 3) {
		if r.chance(1, 2) {
			return "[\"" + name + "\"]"
		}
		return "['" + name + "']"
	}
	return "." + name
}
func ws(r *rng) string {
	switch r.intn(12) {
	case 0:
		return "\n"
	case 1:
		return "  "
	case 2:
		return "\t"
	case 3:
		// block comments in every shape: stars before the terminator (odd and even runs), nothing but stars, a slash right
		// after the opener, line-comment markers and quotes inside, several lines
		return " " + r.pick([]string{"/* c */", "/* c */", "/** doc **/", "/***/", "/****/", "/**/", "/* a ** b **/", "/* a * b */", "/*/ x */",
			"/* // not a line comment */", "/* \"quoted\" 'too' */", "/* two\n lines ***/", "/** x */"}) + " "
	case 4:
		return " " + r.pick([]string{"// line", "// line", "//", "/// three", "// has /* inside", "// ends with */"}) + "\n"
	}
	return " "
}

// precedence-aware rendering: 0 = top / inside parens, 1 = operand of ||, 2 = operand of &&, 3 = operand of !
// nestNeed: the nesting budget the parser needs for c rendered in a context of precedence prec with only the
// parentheses the precedences demand ('(' costs 1, '!' costs 1, an atom needs 1)
func nestNeed(c ast.Child, prec int) int {
	switch c := c.(type) {
	case *ast.InvertResult:
		if _, ok := c.Child.(*ast.SubjectSetRewrite); ok {
			return 2 + nestNeed(c.Child, 0)
		}
		return 1 + nestNeed(c.Child, 3)
	case *ast.SubjectSetRewrite:
		p := 1
		if c.Operation == ast.OperatorAnd {
			p = 2
		}
		if len(c.Children) == 1 {
			p = 3
		}
		inner := 1
		for _, ch := range c.Children {
			pp := p
			if len(c.Children) == 1 {
				pp = map[bool]int{true: 2, false: 1}[c.Operation == ast.OperatorAnd]
			}
			if n := nestNeed(ch, pp); n > inner {
				inner = n
			}
		}
		if p < prec {
			return 1 + inner
		}
		return inner
	}
	return 1
}

// renderExprV: used = nesting budget already spent on the way to this node; redundant parentheses are only added while
// the whole expression stays within the parser's nesting limit (a deeper one is legitimately rejected)
func renderExprV(r *rng, c ast.Child, prec int, usedOpt ...int) string {
	used := 0
	if len(usedOpt) > 0 {
		used = usedOpt[0]
	}
	paren := func(s string) string { return "(" + ws(r) + s + ws(r) + ")" }
	var s string
	myPrec := 3
	switch c := c.(type) {
	case *ast.ComputedSubjectSet:
		if strings.HasPrefix(c.Relation, "p") {
			s = "this" + ws(r) + "." + ws(r) + "permits" + propAccess(r, c.Relation) + "(ctx)"
		} else {
			s = "this.related" + propAccess(r, c.Relation) + ".includes(ctx.subject)"
		}
	case *ast.TupleToSubjectSet:
		v := r.pick([]string{"x", "p", "parent"})
		arg := v
		if r.chance(1, 2) {
			arg = "(" + v + ")"
		}
		trail := ""
		if r.chance(1, 4) {
			trail = ","
		}
		if strings.HasPrefix(c.ComputedSubjectSetRelation, "p") {
			s = "this.related" + propAccess(r, c.Relation) + ".traverse(" + arg + " =>" + ws(r) + v + ".permits" + propAccess(r, c.ComputedSubjectSetRelation) + "(ctx))"
		} else {
			s = "this.related" + propAccess(r, c.Relation) + ".traverse(" + arg + " => " + v + ".related" + propAccess(r, c.ComputedSubjectSetRelation) + ".includes(ctx.subject" + trail + ")" + trail + ")"
		}
	case *ast.InvertResult:
		if _, ok := c.Child.(*ast.SubjectSetRewrite); ok {
			s = "!" + paren(renderExprV(r, c.Child, 0, used+2))
		} else {
			s = "!" + renderExprV(r, c.Child, 3, used+1)
		}
	case *ast.SubjectSetRewrite:
		op, p := " || ", 1
		if c.Operation == ast.OperatorAnd {
			op, p = " && ", 2
		}
		myPrec = p
		if len(c.Children) == 1 {
			myPrec = 3
		}
		// decide about the parentheses around this node BEFORE rendering the children, so that they know what is spent
		wrap := myPrec < prec
		if !wrap && r.chance(1, 8) && used+1+nestNeed(c, 0) <= 10 {
			wrap = true
		}
		inner := used
		if wrap {
			inner++
		}
		var parts []string
		for _, ch := range c.Children {
			parts = append(parts, renderExprV(r, ch, p, inner))
		}
		s = strings.Join(parts, ws(r)+strings.TrimSpace(op)+ws(r))
		if wrap {
			return paren(s)
		}
		return s
	}
	if r.chance(1, 8) && used+1+nestNeed(c, 0) <= 10 {
		return paren(s)
	}
	return s
}
func renderTypesV(r *rng, ts []ast.RelationType) string {
	var parts []string
	for _, t := range ts {
		if t.Relation == "" {
			parts = append(parts, t.Namespace)
		} else {
			q := r.pick([]string{"\"", "'"})
			parts = append(parts, fmt.Sprintf("SubjectSet<%s,%s%s%s%s>", t.Namespace, ws(r), q, t.Relation, q))
		}
	}
	u := strings.Join(parts, ws(r)+"|"+ws(r))
	switch {
	case r.chance(1, 4):
		return "Array<" + u + ">"
	case len(parts) == 1 && r.chance(1, 2):
		return u + "[]"
	}
	return "(" + u + ")[]"
}
func renderOPLVariant(r *rng, nss []*namespace.Namespace) string {
	var sb strings.Builder
	if r.chance(1, 2) {
		sb.WriteString("import { Namespace, SubjectSet, Context } from \"@ory/keto-namespace-types\"\n")
	}
	for _, ns := range nss {
		fmt.Fprintf(&sb, "class%s%s implements Namespace {%s", ws(r), ns.Name, ws(r))
		var rel, perm []ast.Relation
		for _, x := range ns.Relations {
			if x.SubjectSetRewrite != nil {
				perm = append(perm, x)
			} else {
				rel = append(rel, x)
			}
		}
		if len(rel) > 0 {
			sb.WriteString("related:" + ws(r) + "{\n")
			for _, x := range rel {
				ty := renderTypesV(r, x.Types)
				// (a ',' after Array<T> was rejected before fix D22; it stays in the generator as the regression witness)
				sep := r.pick([]string{"\n", ",\n", ";\n", ", "})
				sb.WriteString("  " + quoteName(r, x.Name) + ":" + ws(r) + ty + sep)
			}
			sb.WriteString("}" + r.pick([]string{"\n", ";\n", ""}))
		}
		if len(perm) > 0 {
			sb.WriteString(" permits = {\n")
			for i, x := range perm {
				ctx := r.pick([]string{"ctx", "ctx: Context"})
				ret := r.pick([]string{"", ": boolean"})
				sep := ",\n"
				if i == len(perm)-1 && r.chance(1, 2) {
					sep = "\n"
				}
				sb.WriteString("  " + quoteName(r, x.Name) + ": (" + ctx + ")" + ret + " =>" + ws(r) + renderExprV(r, x.SubjectSetRewrite, 0) + sep)
			}
			sb.WriteString("}" + r.pick([]string{"\n", ";\n", ""}))
		}
		sb.WriteString("}\n")
	}
	return sb.String()
}

// ---- observation of the real parser ----
func parseObs(input string) string {
	type res struct{ s string }
	ch := make(chan res, 1)
	go func() {
		defer func() {
			if r := recover(); r != nil {
				ch <- res{"panic"}
			}
		}()
		nss, errs := schema.Parse(input)
		var es []string
		lines := strings.Count(input, "\n") + 1
		bad := ""
		for _, e := range errs {
			a, b := e.VerifItemRange()
			api := e.ToAPI()
			_ = e.Error()
			// REST (ToAPI) and gRPC (ToProto) must report the same message and the same positions
			if pe := e.ToProto(); pe == nil || pe.Start == nil || pe.End == nil || pe.Message != api.Message ||
				int(pe.Start.Line) != api.Start.Line || int(pe.Start.Column) != api.Start.Col ||
				int(pe.End.Line) != api.End.Line || int(pe.End.Column) != api.End.Col {
				bad = " BADPOS"
			}
			es = append(es, fmt.Sprintf("%d %d %d:%d-%d:%d", a, b, api.Start.Line, api.Start.Col, api.End.Line, api.End.Col))
			if !(1 <= api.Start.Line && api.Start.Line <= api.End.Line && api.End.Line <= lines+1) {
				bad = " BADPOS"
			}
		}
		if len(errs) == 0 && nss == nil {
			nss = []namespace.Namespace{}
		}
		var ptrs []*namespace.Namespace
		for i := range nss {
			ptrs = append(ptrs, &nss[i])
		}
		nsTok := "-"
		if len(errs) == 0 {
			nsTok = cfgTok(ptrs)
		}
		ch <- res{fmt.Sprintf("ok E %d %s ; NS %s%s", len(errs), strings.Join(es, " "), nsTok, bad)}
	}()
	select {
	case r := <-ch:
		return r.s
	case <-time.After(10 * time.Second):
		return "timeout"
	}
}

func lexObs(input string) string {
	var parts []string
	for _, it := range schema.VerifLex(input) {
		v := hx(it.Val)
		if it.Typ == 0 {
			v = "h" // error text is not compared
		}
		parts = append(parts, fmt.Sprintf("%d %d %d %s", it.Typ, it.Start, it.End, v))
	}
	return fmt.Sprintf("%d %s", len(parts), strings.Join(parts, " "))
}

func mutate(r *rng, s string) string {
	b := []byte(s)
	n := 1 + r.intn(3)
	for i := 0; i < n && len(b) > 0; i++ {
		p := r.intn(len(b))
		switch r.intn(6) {
		case 0: // delete a span
			q := p + 1 + r.intn(6)
			if q > len(b) {
				q = len(b)
			}
			b = append(b[:p], b[q:]...)
		case 1: // insert a token
			tok := r.pick([]string{"(", ")", "{", "}", "||", "&&", "!", ",", ";", "=>", "this", "ctx", "class", "[", "]", "<", ">", "|", ".", ":", "\"", "'", "/*", "//", "x", " "})
			b = append(b[:p], append([]byte(tok), b[p:]...)...)
		case 2: // random byte (possibly invalid UTF-8)
			b[p] = byte(r.intn(256))
		case 3: // duplicate a span
			q := p + 1 + r.intn(10)
			if q > len(b) {
				q = len(b)
			}
			b = append(b[:q], append(append([]byte{}, b[p:q]...), b[q:]...)...)
		case 4: // truncate
			b = b[:p]
		case 5: // multi-byte rune
			b = append(b[:p], append([]byte("é世\xf0\x9f\x98\x80"), b[p:]...)...)
		}
	}
	return string(b)
}

func suiteOPL(t *testing.T, cfg cfgT) {
	out := newSink(cfg, "cases.txt")
	defer out.close(cfg)
	r := newRng(cfg.seed)
	// parse time must be linear in the input: eight kinds of large document, at k and 4k repetitions
	for shape := 0; shape < 8 && cfg.extra["big"] == "1"; shape++ {
		k := 6000
		t1 := bigTime(bigDoc(shape, k))
		d2 := bigDoc(shape, 4*k)
		t2 := bigTime(d2)
		out.emit(fmt.Sprintf("oplbig %d %d", shape, k), fmt.Sprintf("%d %d %d", t1.Microseconds(), t2.Microseconds(), len(d2)))
		out.stat(fmt.Sprintf("big.shape%d", shape))
	}
	for _, l := range readCorpus(cfg) {
		op, arg, _ := strings.Cut(l, " ")
		if op == "parse" {
			s := unhx(arg)
			out.emit("parse "+hx(s), parseObs(s))
			out.emit("lex "+hx(s), lexObs(s))
			out.stat("corpus")
		}
	}
	// nesting ladders: every way of nesting ("(", "!(", "!", alternating, inside a traversal-free && chain) at every depth
	// around the parser's limit and far beyond it: accepted up to the limit, one error beyond it, never a crash
	atom := "this.related.r0.includes(ctx.subject)"
	for _, d := range []int{1, 2, 3, 4, 5, 6, 7, 8, 9, 10, 11, 12, 13, 14, 30, 200} {
		var exprs []string
		exprs = append(exprs, strings.Repeat("(", d)+atom+strings.Repeat(")", d))
		exprs = append(exprs, strings.Repeat("!(", d)+atom+strings.Repeat(")", d))
		exprs = append(exprs, strings.Repeat("!", d)+atom)
		alt := ""
		for i := 0; i < d; i++ {
			alt += []string{"(", "!("}[i%2]
		}
		exprs = append(exprs, alt+atom+strings.Repeat(")", d))
		exprs = append(exprs, atom+" && "+strings.Repeat("!(", d)+atom+" || "+atom+strings.Repeat(")", d))
		exprs = append(exprs, strings.Repeat("(", d)+atom+" && !"+atom+strings.Repeat(")", d)+" || "+atom)
		for _, e := range exprs {
			src := "class U implements Namespace {}\nclass N0 implements Namespace { related: { r0: U[] } permits = { p0: (ctx) => " + e + " } }"
			out.emit("parse "+hx(src), parseObs(src))
			out.stat("corpus.nesting")
		}
	}
	// line terminators: only "\n" ends a line in a reported position (and in the excerpt Error() prints); the same erroneous
	// document with LF, CRLF, CR, and with U+2028 / U+2029 / U+0085 / form feed / vertical tab inside comments and
	// between tokens must report positions inside the input
	{
		base := "// c1 X\n// c2\nclass U implements Namespace {}\n/* c3 X\n c3b */\nclass N0 implements Namespace {\n  related: { r0: U[] }\n  permits = {X p0: (ctx) => this.related.r0.includes(ctx.subject) && }\n}\n"
		unterminated := "class U implements Namespace {}\n// c X\nclass N0 implements Namespace {\n  related: { \"r0: U[] }\n}\n"
		for _, doc := range []string{base, unterminated} {
			for _, sp := range []string{"", "\u2028", "\u2029", "\u0085", "\f", "\v", "\r", "\u2028\u2029\u2028\u2029\u2028\u2029"} {
				for _, nl := range []string{"\n", "\r\n", "\r"} {
					src := strings.ReplaceAll(strings.ReplaceAll(doc, "X", sp), "\n", nl)
					out.emit("parse "+hx(src), parseObs(src))
					out.emit("lex "+hx(src), lexObs(src))
					out.stat("corpus.line_terminators")
				}
			}
		}
	}
	for i := 0; i < cfg.n; i++ {
		hr := r.fork()
		nss := genConfig(hr, hr.chance(2, 3))
		switch k := i % 10; {
		case k < 4: // a valid program in a random spelling: must be accepted and denote the source AST
			src := renderOPLVariant(hr, nss)
			out.emit("render "+cfgTok(nss)+" SRC "+hx(src), parseObs(src))
			out.stat("op.render")
		case k < 8: // mutated program
			src := mutate(hr, renderOPLVariant(hr, nss))
			out.emit("parse "+hx(src), parseObs(src))
			out.emit("lex "+hx(src), lexObs(src))
			out.stat("op.mutant")
		case k == 8: // raw bytes
			n := hr.intn(40)
			b := make([]byte, n)
			for j := range b {
				if hr.chance(1, 2) {
					b[j] = byte(hr.intn(256))
				} else {
					const alpha = "class{}()[]<>|&!=.,;:'\"/* \n\tthisctxab"
					b[j] = alpha[hr.intn(len(alpha))]
				}
			}
			out.emit("parse "+hx(string(b)), parseObs(string(b)))
			out.emit("lex "+hx(string(b)), lexObs(string(b)))
			out.stat("op.raw")
		default: // deep nesting and long inputs
			depth := 1 + hr.intn(14)
			expr := strings.Repeat("(", depth) + "this.related.r0.includes(ctx.subject)" + strings.Repeat(")", depth)
			if hr.chance(1, 2) {
				expr = strings.Repeat("!", depth) + "this.related.r0.includes(ctx.subject)"
			}
			src := "class U implements Namespace {}\nclass N0 implements Namespace { related: { r0: U[] } permits = { p0: (ctx) => " + expr + " } }"
			out.emit("parse "+hx(src), parseObs(src))
			out.stat("op.nesting")
		}
	}
}
