//go:build verif

package verifh

import (
	"context"
	"fmt"
	"sort"
	"strings"
	"testing"
	"time"

	"github.com/ory/keto/internal/check"
	"github.com/ory/keto/internal/check/checkgroup"
	"github.com/ory/keto/internal/driver"
	"github.com/ory/keto/internal/driver/config"
	"github.com/ory/keto/internal/namespace"
	"github.com/ory/keto/internal/namespace/ast"
	"github.com/ory/keto/internal/x/dbx"
	"github.com/ory/keto/ketoapi"
	rts "github.com/ory/keto/proto/ory/keto/relation_tuples/v1alpha2"
	"github.com/ory/x/networkx"
)

func init() { suites["ENGINE"] = suiteEngine; suites["NETENG"] = suiteEngine }

// ---------- configuration generator ----------
type genCfg struct {
	nss    []*namespace.Namespace
	strict bool
	opl    bool
}

var egObjects = []string{"a", "b", "c", "d", "e"}
var egUsers = []string{"u0", "u1", "u2"}

func genExpr(r *rng, related, permits []string, travOver []string, targets []string, depth int, allowNot bool, self string) ast.Child {
	leaf := func() ast.Child {
		switch k := r.intn(10); {
		case k < 4 && len(related) > 0:
			return &ast.ComputedSubjectSet{Relation: r.pick(related)}
		case k < 7 && len(permits) > 0:
			// permissions refer to EARLIER permissions only: recursion through computed subject sets is exponential in max-depth
			var earlier []string
			for _, p := range permits {
				if p < self {
					earlier = append(earlier, p)
				}
			}
			if len(earlier) == 0 {
				if len(related) > 0 {
					return &ast.ComputedSubjectSet{Relation: r.pick(related)}
				}
				return &ast.ComputedSubjectSet{Relation: self}
			}
			return &ast.ComputedSubjectSet{Relation: r.pick(earlier)}
		case len(travOver) > 0:
			// traversal targets: relations, earlier permissions, or the permission itself (folder hierarchies)
			var tg []string
			for _, x := range targets {
				if !strings.HasPrefix(x, "p") || x <= self {
					tg = append(tg, x)
				}
			}
			return &ast.TupleToSubjectSet{Relation: r.pick(travOver), ComputedSubjectSetRelation: r.pick(tg)}
		case len(related) > 0:
			return &ast.ComputedSubjectSet{Relation: r.pick(related)}
		}
		return &ast.ComputedSubjectSet{Relation: self}
	}
	if depth <= 0 || r.chance(2, 5) {
		c := leaf()
		if allowNot && r.chance(1, 6) {
			return &ast.InvertResult{Child: c}
		}
		return c
	}
	op := ast.OperatorOr
	if r.chance(2, 5) {
		op = ast.OperatorAnd
	}
	n := 2 + r.intn(2)
	rw := &ast.SubjectSetRewrite{Operation: op}
	for i := 0; i < n; i++ {
		c := genExpr(r, related, permits, travOver, targets, depth-1, allowNot, self)
		// keep the shape the parser produces: nested rewrites of the same operator are flattened
		if sub, ok := c.(*ast.SubjectSetRewrite); ok && sub.Operation == op {
			rw.Children = append(rw.Children, sub.Children...)
		} else {
			rw.Children = append(rw.Children, c)
		}
	}
	if allowNot && r.chance(1, 8) {
		return &ast.InvertResult{Child: rw}
	}
	return rw
}

// genConfig: typed namespaces N0..Nk (+ U without relations). Every Ni declares relations r0,r1[,r2] and permissions p0,p1[,p2],
// so that any traverse target exists in every namespace (the documented typing rule).
func genConfig(r *rng, allowNot bool) []*namespace.Namespace {
	k := 1 + r.intn(3)
	var names []string
	for i := 0; i < k; i++ {
		names = append(names, fmt.Sprintf("N%d", i))
	}
	nss := []*namespace.Namespace{{Name: "U"}}
	nrel := 2 + r.intn(2)
	nperm := 1 + r.intn(3)
	var related, permits []string
	for i := 0; i < nrel; i++ {
		related = append(related, fmt.Sprintf("r%d", i))
	}
	for i := 0; i < nperm; i++ {
		permits = append(permits, fmt.Sprintf("p%d", i))
	}
	targets := append(append([]string{}, related...), permits...)
	for _, n := range names {
		ns := &namespace.Namespace{Name: n}
		var travOver []string
		for _, rel := range related {
			var types []ast.RelationType
			kind := r.intn(4)
			if kind == 0 { // objects of other namespaces only: may be traversed
				for _, m := range names {
					if r.chance(1, 2) {
						types = append(types, ast.RelationType{Namespace: m})
					}
				}
				if len(types) == 0 {
					types = append(types, ast.RelationType{Namespace: r.pick(names)})
				}
				if r.chance(1, 3) { // traversal through SubjectSet<T, R> types: the stored subject sets carry a relation
					for i := range types {
						types[i].Relation = r.pick(related)
					}
				}
				travOver = append(travOver, rel)
			} else {
				types = append(types, ast.RelationType{Namespace: "U"})
				if r.chance(2, 3) {
					types = append(types, ast.RelationType{Namespace: r.pick(names), Relation: r.pick(related)})
				}
				if r.chance(1, 3) {
					types = append(types, ast.RelationType{Namespace: r.pick(names), Relation: r.pick(related)})
				}
			}
			for i := len(types) - 1; i > 0; i-- { // the order of a type union carries no meaning: any order must behave alike
				j := r.intn(i + 1)
				types[i], types[j] = types[j], types[i]
			}
			ns.Relations = append(ns.Relations, ast.Relation{Name: rel, Types: types})
		}
		for _, p := range permits {
			c := genExpr(r, related, permits, travOver, targets, 2, allowNot, p)
			ns.Relations = append(ns.Relations, ast.Relation{Name: p, SubjectSetRewrite: c.AsRewrite()})
		}
		nss = append(nss, ns)
	}
	return nss
}

// ---------- OPL rendering (canonical spelling; variants are C10's business) ----------
func renderExpr(c ast.Child, top bool) string {
	switch c := c.(type) {
	case *ast.ComputedSubjectSet:
		if strings.HasPrefix(c.Relation, "p") {
			return fmt.Sprintf("this.permits.%s(ctx)", c.Relation)
		}
		return fmt.Sprintf("this.related.%s.includes(ctx.subject)", c.Relation)
	case *ast.TupleToSubjectSet:
		if strings.HasPrefix(c.ComputedSubjectSetRelation, "p") {
			return fmt.Sprintf("this.related.%s.traverse((x) => x.permits.%s(ctx))", c.Relation, c.ComputedSubjectSetRelation)
		}
		return fmt.Sprintf("this.related.%s.traverse((x) => x.related.%s.includes(ctx.subject))", c.Relation, c.ComputedSubjectSetRelation)
	case *ast.InvertResult:
		inner := renderExpr(c.Child, false)
		if _, ok := c.Child.(*ast.SubjectSetRewrite); ok {
			return "!" + inner // already parenthesised
		}
		return "!" + inner
	case *ast.SubjectSetRewrite:
		op := " || "
		if c.Operation == ast.OperatorAnd {
			op = " && "
		}
		var parts []string
		for _, ch := range c.Children {
			parts = append(parts, renderExpr(ch, false))
		}
		s := strings.Join(parts, op)
		if top {
			return s
		}
		return "(" + s + ")"
	}
	panic("unknown child")
}
func renderOPL(nss []*namespace.Namespace) string {
	var sb strings.Builder
	sb.WriteString("import { Namespace, SubjectSet, Context } from \"@ory/keto-namespace-types\"\n")
	for _, ns := range nss {
		fmt.Fprintf(&sb, "class %s implements Namespace {\n", ns.Name)
		var rel, perm []ast.Relation
		for _, r := range ns.Relations {
			if r.SubjectSetRewrite != nil {
				perm = append(perm, r)
			} else {
				rel = append(rel, r)
			}
		}
		if len(rel) > 0 {
			sb.WriteString("  related: {\n")
			for _, r := range rel {
				var ts []string
				for _, t := range r.Types {
					if t.Relation == "" {
						ts = append(ts, t.Namespace)
					} else {
						ts = append(ts, fmt.Sprintf("SubjectSet<%s, %q>", t.Namespace, t.Relation))
					}
				}
				fmt.Fprintf(&sb, "    %s: (%s)[]\n", r.Name, strings.Join(ts, " | "))
			}
			sb.WriteString("  }\n")
		}
		if len(perm) > 0 {
			sb.WriteString("  permits = {\n")
			for _, r := range perm {
				fmt.Fprintf(&sb, "    %s: (ctx: Context): boolean => %s,\n", r.Name, renderExpr(r.SubjectSetRewrite, true))
			}
			sb.WriteString("  }\n")
		}
		sb.WriteString("}\n")
	}
	return sb.String()
}

// ---------- exchange tokens ----------
func childTok(c ast.Child) string {
	switch c := c.(type) {
	case *ast.ComputedSubjectSet:
		return "C " + hx(c.Relation)
	case *ast.TupleToSubjectSet:
		return "T " + hx(c.Relation) + " " + hx(c.ComputedSubjectSetRelation)
	case *ast.InvertResult:
		return "I " + childTok(c.Child)
	case *ast.SubjectSetRewrite:
		op := "or"
		if c.Operation == ast.OperatorAnd {
			op = "and"
		}
		var parts []string
		for _, ch := range c.Children {
			parts = append(parts, childTok(ch))
		}
		return fmt.Sprintf("W %s %d %s", op, len(parts), strings.Join(parts, " "))
	}
	panic("unknown child")
}
func cfgTok(nss []*namespace.Namespace) string {
	var sb strings.Builder
	fmt.Fprintf(&sb, "%d", len(nss))
	for _, ns := range nss {
		fmt.Fprintf(&sb, " N %s %d", hx(ns.Name), len(ns.Relations))
		for _, r := range ns.Relations {
			fmt.Fprintf(&sb, " R %s %d", hx(r.Name), len(r.Types))
			for _, t := range r.Types {
				fmt.Fprintf(&sb, " Y %s %s", hx(t.Namespace), hx(t.Relation))
			}
			if r.SubjectSetRewrite == nil {
				sb.WriteString(" -")
			} else {
				sb.WriteString(" " + childTok(r.SubjectSetRewrite))
			}
		}
	}
	return sb.String()
}

// ---------- tuples ----------
func egSubject(r *rng, nss []*namespace.Namespace, types []ast.RelationType, conform bool) (*string, *ketoapi.SubjectSet) {
	if conform && len(types) > 0 {
		t := types[r.intn(len(types))]
		if t.Namespace == "U" && t.Relation == "" {
			s := r.pick(egUsers)
			return &s, nil
		}
		return nil, &ketoapi.SubjectSet{Namespace: t.Namespace, Object: r.pick(egObjects), Relation: t.Relation}
	}
	if r.chance(1, 2) {
		s := r.pick(egUsers)
		return &s, nil
	}
	ns := nss[1+r.intn(len(nss)-1)]
	rel := ""
	if len(ns.Relations) > 0 && r.chance(4, 5) {
		rel = ns.Relations[r.intn(len(ns.Relations))].Name
	}
	return nil, &ketoapi.SubjectSet{Namespace: ns.Name, Object: r.pick(egObjects), Relation: rel}
}
func isTraversed(rel ast.Relation) bool {
	if rel.SubjectSetRewrite != nil || len(rel.Types) == 0 {
		return false
	}
	// a hierarchy relation: every type is an object of a namespace (plain, or all SubjectSet<T,R>), never a user
	withRel := 0
	for _, t := range rel.Types {
		if t.Namespace == "U" {
			return false
		}
		if t.Relation != "" {
			withRel++
		}
	}
	return withRel == 0 || withRel == len(rel.Types)
}

func egTuples(r *rng, nss []*namespace.Namespace, n int, conform bool) []*ketoapi.RelationTuple {
	var ts []*ketoapi.RelationTuple
	for i := 0; i < n; i++ {
		ns := nss[1+r.intn(len(nss)-1)]
		var cands []ast.Relation
		for _, rel := range ns.Relations {
			if !conform || rel.SubjectSetRewrite == nil {
				cands = append(cands, rel)
			}
		}
		if len(cands) == 0 {
			continue
		}
		rel := cands[r.intn(len(cands))]
		sid, sset := egSubject(r, nss, rel.Types, conform || r.chance(2, 3))
		obj := r.pick(egObjects)
		if isTraversed(rel) {
			// hierarchy relations (all types are plain namespaces) form a DAG: a -> b -> c ...; the engine does not
			// protect tuple-to-subject-set recursion by its visited set, cyclic hierarchies cost fanout^max-depth
			oi := r.intn(len(egObjects) - 1)
			obj = egObjects[oi]
			t := rel.Types[r.intn(len(rel.Types))]
			sid, sset = nil, &ketoapi.SubjectSet{Namespace: t.Namespace, Object: egObjects[oi+1+r.intn(len(egObjects)-oi-1)], Relation: t.Relation}
		}
		ts = append(ts, &ketoapi.RelationTuple{Namespace: ns.Name, Object: obj, Relation: rel.Name, SubjectID: sid, SubjectSet: sset})
	}
	return ts
}

// egMotif plants a "near-collision" structure: one subject-set relation x:X#r0 with TWO subject sets that differ in
// exactly one component (relation, object or namespace), each leading over one more hop to its own user.  Any engine
// state keyed too coarsely (visited sets, caches) answers one of the two users wrongly, whatever the storage order.
func egMotif(r *rng, nss []*namespace.Namespace) (ts []*ketoapi.RelationTuple, qs []*ketoapi.RelationTuple) {
	plain := func(ns *namespace.Namespace) []string {
		var out []string
		for _, rel := range ns.Relations {
			if rel.SubjectSetRewrite == nil {
				out = append(out, rel.Name)
			}
		}
		return out
	}
	var cand []*namespace.Namespace
	for _, ns := range nss[1:] {
		if len(plain(ns)) > 0 {
			cand = append(cand, ns)
		}
	}
	if len(cand) == 0 {
		return nil, nil
	}
	nx := cand[r.intn(len(cand))]
	r0 := r.pick(plain(nx))
	na := cand[r.intn(len(cand))]
	nb := cand[r.intn(len(cand))]
	ra := r.pick(plain(na))
	x := r.pick(egObjects)
	a1 := ketoapi.SubjectSet{Namespace: na.Name, Object: r.pick(egObjects), Relation: ra}
	a2 := a1
	switch k := r.intn(3); {
	case k == 0 && len(plain(na)) > 1: // differ in the relation only
		for a2.Relation == a1.Relation {
			a2.Relation = r.pick(plain(na))
		}
	case k == 1 && len(cand) > 1: // differ in the namespace only
		for a2.Namespace == a1.Namespace {
			a2.Namespace = cand[r.intn(len(cand))].Name
		}
		if r.chance(1, 2) {
			a2.Relation = a1.Relation // may be undeclared there: allowed outside strict mode
		}
	default: // differ in the object only
		for a2.Object == a1.Object {
			a2.Object = r.pick(egObjects)
		}
	}
	rc := r.pick(plain(nb))
	q1 := ketoapi.SubjectSet{Namespace: nb.Name, Object: "m1", Relation: rc}
	q2 := ketoapi.SubjectSet{Namespace: nb.Name, Object: "m2", Relation: rc}
	u0, u1, u2 := egUsers[0], egUsers[1], egUsers[2]
	mk := func(ns, obj, rel string, sid *string, ss *ketoapi.SubjectSet) *ketoapi.RelationTuple {
		return &ketoapi.RelationTuple{Namespace: ns, Object: obj, Relation: rel, SubjectID: sid, SubjectSet: ss}
	}
	ts = []*ketoapi.RelationTuple{
		mk(nx.Name, x, r0, nil, &a1), mk(nx.Name, x, r0, nil, &a2),
		mk(a1.Namespace, a1.Object, a1.Relation, nil, &q1), mk(a2.Namespace, a2.Object, a2.Relation, nil, &q2),
		mk(q1.Namespace, q1.Object, q1.Relation, &u0, nil), mk(q2.Namespace, q2.Object, q2.Relation, &u1, nil),
	}
	if r.chance(1, 2) { // storage order varies with the random shard ids anyway; vary the insertion order too
		ts[0], ts[1] = ts[1], ts[0]
	}
	for _, u := range []string{u0, u1, u2} {
		u := u
		qs = append(qs, mk(nx.Name, x, r0, &u, nil))
	}
	return ts, qs
}

func memTok(m checkgroup.Membership) string {
	switch m {
	case checkgroup.IsMember:
		return "is"
	case checkgroup.NotMember:
		return "not"
	}
	return "unknown"
}

type engineEnv struct {
	e      *env
	pool   *namePool
	nss    []*namespace.Namespace
	strict bool
	gdepth int
	width  int
	dsn    *dbx.DsnT
	opts   []driver.TestRegistryOption
}

func newEngineEnv(t *testing.T, nss []*namespace.Namespace, strict bool, useOPL bool, gdepth, width int) *engineEnv {
	opts := []driver.TestRegistryOption{
		driver.WithConfig(config.KeyLimitMaxReadDepth, gdepth),
		driver.WithConfig(config.KeyLimitMaxReadWidth, width),
	}
	if useOPL || strict {
		opts = append(opts, driver.WithOPL(renderOPL(nss)))
		if strict {
			opts = append(opts, driver.WithConfig(config.KeyNamespacesExperimentalStrictMode, true))
		}
	} else {
		opts = append(opts, driver.WithNamespaces(nss))
	}
	dsn := dbx.GetSqlite(t, dbx.SQLiteMemory)
	e := newEnvDSN(t, dsn, opts...)
	pool := newPool()
	for _, s := range egObjects {
		pool.add(s)
	}
	for _, s := range egUsers {
		pool.add(s)
	}
	pool.add("m1")
	pool.add("m2")
	pool.addNet(e.nid, 1)
	return &engineEnv{e: e, pool: pool, nss: nss, strict: strict, gdepth: gdepth, width: width, dsn: dsn, opts: opts}
}

// shadowNetwork writes relationships into ANOTHER network of the same database, using the very UUIDs network A uses
// (possible at the Manager level, where ids are given, not derived): for every subject set that occurs in A it adds
// direct members, and some random rows.  Nothing of this may influence any answer in A (C06).
func (ee *engineEnv) shadowNetwork(t *testing.T, r *rng, aTuples []*ketoapi.RelationTuple) *env {
	ctx := context.Background()
	n2 := networkx.NewNetwork()
	if err := ee.e.reg.Persister().Connection(ctx).Create(n2); err != nil {
		t.Fatalf("create network: %v", err)
	}
	b := newEnvDSN(t, &dbx.DsnT{Name: ee.dsn.Name, Conn: ee.dsn.Conn}, append(append([]driver.TestRegistryOption{}, ee.opts...), driver.VerifWithContextualizer(&fixedNet{id: n2.ID}))...)
	if b.nid == ee.e.nid {
		t.Fatalf("shadow network has the same id")
	}
	var sh []*ketoapi.RelationTuple
	for _, tu := range aTuples {
		if tu.SubjectSet != nil {
			for _, u := range egUsers {
				u := u
				sh = append(sh, &ketoapi.RelationTuple{Namespace: tu.SubjectSet.Namespace, Object: tu.SubjectSet.Object, Relation: tu.SubjectSet.Relation, SubjectID: &u})
			}
		}
		if tu.SubjectID != nil && r.chance(1, 2) { // the same direct grant for another user
			u := r.pick(egUsers)
			sh = append(sh, &ketoapi.RelationTuple{Namespace: tu.Namespace, Object: tu.Object, Relation: tu.Relation, SubjectID: &u})
		}
	}
	sh = append(sh, egTuples(r, ee.nss, 8, false)...)
	var valid []*ketoapi.RelationTuple
	for _, tu := range sh {
		if tu.SubjectID != nil || tu.SubjectSet != nil {
			valid = append(valid, tu)
		}
	}
	its, err := ee.e.reg.ReadOnlyMapper().FromTuple(ctx, valid...) // A's UUIDs
	if err != nil {
		t.Fatalf("shadow mapping: %v", err)
	}
	if err := b.reg.RelationTupleManager().WriteRelationTuples(ctx, its...); err != nil {
		t.Fatalf("shadow write: %v", err)
	}
	return b
}

func (ee *engineEnv) header(out *sink) {
	st := 0
	if ee.strict {
		st = 1
	}
	out.emit(fmt.Sprintf("econf %d %d %d %s", st, ee.width, ee.gdepth, cfgTok(ee.loaded())), "-")
}

// loaded returns the configuration AS THE SERVER HOLDS IT (for OPL: what its parser made of the rendered text, whose
// tree shape - and with it the depth accounting of nested rewrites - may differ from the generator's tree), in the
// generator's namespace order
func (ee *engineEnv) loaded() []*namespace.Namespace {
	nm, err := ee.e.reg.Config(context.Background()).NamespaceManager()
	if err != nil {
		return ee.nss
	}
	all, err := nm.Namespaces(context.Background())
	if err != nil || len(all) != len(ee.nss) {
		return ee.nss
	}
	by := map[string]*namespace.Namespace{}
	for _, n := range all {
		by[n.Name] = n
	}
	var out []*namespace.Namespace
	for _, g := range ee.nss {
		n, ok := by[g.Name]
		if !ok {
			return ee.nss
		}
		out = append(out, n)
	}
	return out
}
func (ee *engineEnv) insert(t *testing.T, ts []*ketoapi.RelationTuple) {
	if len(ts) == 0 {
		return
	}
	req := &rts.TransactRelationTuplesRequest{}
	for _, tu := range ts {
		req.RelationTupleDeltas = append(req.RelationTupleDeltas, &rts.RelationTupleDelta{Action: rts.RelationTupleDelta_ACTION_INSERT, RelationTuple: tupleToProto(tu)})
	}
	if _, err := rts.NewWriteServiceClient(ee.e.wconn).TransactRelationTuples(context.Background(), req); err != nil {
		t.Fatalf("insert: %v", err)
	}
}
func (ee *engineEnv) table(out *sink) {
	rows, _ := ee.e.rowsInOrder(ee.pool)
	out.emit(fmt.Sprintf("table %d %s", len(rows), strings.Join(rows, " ")), "-")
}

var engineHung bool

// costBudget: a check that issues more storage operations than this is not evaluated.  Recursive permissions over cyclic
// relationships cost a number of sub-checks exponential in the depth limit (bounded, as C15 demands, but 2^30 under the
// limit 60 these environments use); neither the implementation nor the model is run to the end on such a request.
// Decided by COUNTING operations on a wrapped engine that is cancelled at the budget, not by a clock.
const costBudget = 20000

func (ee *engineEnv) costly(tu *ketoapi.RelationTuple, depth int) bool {
	return ee.costlyN(tu, depth, costBudget)
}

// costlyN: the same probe with a smaller budget, for suites that repeat every request many times (TRANSPORT asks each one
// through six transports) and are not about deep evaluation
func (ee *engineEnv) costlyN(tu *ketoapi.RelationTuple, depth int, budget int) bool {
	ctx, cancel := context.WithCancel(context.Background())
	defer cancel()
	its, err := ee.e.reg.ReadOnlyMapper().FromTuple(ctx, tu)
	if err != nil {
		return false
	}
	p := &storagePlan{cancelAt: budget, cancel: cancel}
	eng := ee.faultyEngine(p)
	done := make(chan struct{})
	go func() { eng.CheckRelationTuple(ctx, its[0], depth); close(done) }()
	select {
	case <-done:
		return p.count() >= budget
	case <-time.After(5 * time.Second):
		// not back after 5 s (ordinary checks take milliseconds): either hundreds of thousands of sub-check goroutines are
		// queueing for the same locks (expensive: still issuing storage operations, slowly) or the check is stuck (no
		// operation any more: not "costly" - the caller runs it under its own guard and reports the hang)
		n1 := p.count()
		time.Sleep(1500 * time.Millisecond)
		return n1 >= budget || p.count() > n1
	}
}

// check runs the real engine on one tuple; a check that has not returned after 20 s is reported as "hang" (and the
// suite stops issuing further checks: every one of them would cost the same 20 s)
func (ee *engineEnv) check(tu *ketoapi.RelationTuple, depth int) string {
	if engineHung {
		return "hang"
	}
	if ee.costly(tu, depth) {
		return "costly"
	}
	ctx, cancel := context.WithCancel(context.Background())
	defer cancel()
	its, err := ee.e.reg.ReadOnlyMapper().FromTuple(ctx, tu)
	if err != nil {
		return "maperr"
	}
	done := make(chan string, 1)
	go func() {
		res := ee.e.reg.PermissionEngine().CheckRelationTuple(ctx, its[0], depth)
		er := 0
		if res.Err != nil {
			er = 1
		}
		done <- fmt.Sprintf("%s %d", memTok(res.Membership), er)
	}()
	select {
	case o := <-done:
		return o
	case <-time.After(20 * time.Second):
		// the cost of a check depends on the goroutine schedule (see costBudget): the probe was cheap, this evaluation was
		// not.  Probe once more: still issuing storage operations = expensive; none any more = stuck
		if ee.costlyN(tu, depth, costBudget) {
			return "costly"
		}
		engineHung = true
		return "hang"
	}
}

func egQuery(r *rng, nss []*namespace.Namespace) *ketoapi.RelationTuple {
	ns := nss[1+r.intn(len(nss)-1)]
	rel := ""
	switch k := r.intn(20); {
	case k == 0:
		rel = "nope"
	case k == 1:
	default:
		if len(ns.Relations) > 0 {
			rel = ns.Relations[r.intn(len(ns.Relations))].Name
		}
	}
	sid, sset := egSubject(r, nss, nil, false)
	if r.chance(4, 5) {
		s := r.pick(egUsers)
		sid, sset = &s, nil
	}
	return &ketoapi.RelationTuple{Namespace: ns.Name, Object: r.pick(egObjects), Relation: rel, SubjectID: sid, SubjectSet: sset}
}

func suiteEngine(t *testing.T, cfg cfgT) {
	out := newSink(cfg, "cases.txt")
	defer out.close(cfg)
	r := newRng(cfg.seed)
	cases := 0
	// corpus: fixed scenarios (regression witnesses) first
	if cfg.suite == "ENGINE" {
		cases += engineCorpus(t, out)
	}
	envNo := 0
	engineHung = false
	for cases < cfg.n && !engineHung {
		hr := r.fork()
		allowNot := hr.chance(1, 2)
		nss := genConfig(hr, allowNot)
		strict := hr.chance(1, 4)
		useOPL := strict || hr.chance(1, 3)
		gdepth, width := 60, 100
		binding := hr.chance(1, 3)
		if binding {
			gdepth = 1 + hr.intn(8)
			if hr.chance(1, 2) {
				width = 1 + hr.intn(3)
			}
		}
		ee := newEngineEnv(t, nss, strict, useOPL, gdepth, width)
		ee.header(out)
		ntup := 4 + hr.intn(22)
		aTuples := egTuples(hr, nss, ntup, strict || hr.chance(1, 2))
		if hr.chance(2, 3) {
			// relationships stored directly ON a permission (the write API accepts them): outside strict mode they count like
			// any relationship, in strict mode a permission is its expression only - wherever it is referenced
			for k := 0; k < 3; k++ {
				ns := nss[1+hr.intn(len(nss)-1)]
				var perms []string
				for _, rel := range ns.Relations {
					if rel.SubjectSetRewrite != nil {
						perms = append(perms, rel.Name)
					}
				}
				if len(perms) > 0 {
					u := hr.pick(egUsers)
					aTuples = append(aTuples, &ketoapi.RelationTuple{Namespace: ns.Name, Object: hr.pick(egObjects), Relation: hr.pick(perms), SubjectID: &u})
				}
			}
		}
		ee.insert(t, aTuples)
		var motifQs []*ketoapi.RelationTuple
		if !strict && !binding && hr.chance(1, 2) {
			var mt []*ketoapi.RelationTuple
			mt, motifQs = egMotif(hr, nss)
			ee.insert(t, mt)
			aTuples = append(aTuples, mt...)
			out.stat("envs.motif")
		}
		var shadow *env
		if cfg.suite == "NETENG" {
			shadow = ee.shadowNetwork(t, hr, aTuples)
			out.stat("envs.shadow_network")
		}
		ee.table(out)
		out.stat("envs")
		if strict {
			out.stat("envs.strict")
		}
		if allowNot {
			out.stat("envs.with_not")
		}
		if binding {
			out.stat("envs.binding_limits")
		}
		nq := 25
		var stressQs []*ketoapi.RelationTuple
		var stressRd []int
		var stressObs []string
		for i := 0; i < nq; i++ {
			q := egQuery(hr, nss)
			rd := 0
			if hr.chance(1, 4) {
				rd = hr.intn(11) - 3
			}
			if i < len(motifQs) {
				q, rd = motifQs[i], 0
			}
			obs := ee.check(q, rd)
			stressQs, stressRd, stressObs = append(stressQs, q), append(stressRd, rd), append(stressObs, obs)
			// effective-depth pair: the same request against limit eff(r,g) with request depth 0 is compared by the oracle via 'eff'
			out.emit(fmt.Sprintf("echeck %s %d", fmtTuple(q), rd), obs)
			out.stat("result." + strings.Fields(obs)[0])
			cases++
		}
		if envNo < 2 && cfg.suite == "ENGINE" && cfg.extra["stress"] == "1" { // schedule stress: the answer of a check must not depend on goroutine scheduling
			picked := 0
			for _, want := range []string{"is 0", "not 0"} {
				for i := 0; i < len(stressQs) && picked < 4; i++ {
					if stressObs[i] != want {
						continue
					}
					dev := stressCheck(ee.e, stressQs[i], stressRd[i], want, 2400, 16)
					v := "same"
					if dev > 0 {
						v = fmt.Sprintf("diff %d-of-2400", dev)
					}
					out.emit(fmt.Sprintf("estress %s %d", fmtTuple(stressQs[i]), stressRd[i]), v)
					out.stat("stress")
					picked++
					cases++
				}
			}
		}
		if shadow != nil { // C06: one registry, two networks, the network taken from the request context
			c := newEnvDSN(t, &dbx.DsnT{Name: ee.dsn.Name, Conn: ee.dsn.Conn}, append(append([]driver.TestRegistryOption{}, ee.opts...), driver.VerifWithContextualizer(ctxNet{}))...)
			bg := context.Background()
			res := func(r checkgroup.Result) string {
				er := 0
				if r.Err != nil {
					er = 1
				}
				return fmt.Sprintf("%s/%d", memTok(r.Membership), er)
			}
			for i := 0; i < len(stressQs) && i < 14; i++ {
				if stressObs[i] == "costly" || stressObs[i] == "hang" || stressObs[i] == "maperr" {
					continue
				}
				its, err := ee.e.reg.ReadOnlyMapper().FromTuple(bg, stressQs[i]) // A's ids: the shadow rows were written with them
				if err != nil {
					continue
				}
				nets := []*env{ee.e, shadow}
				if i%2 == 1 {
					nets = []*env{shadow, ee.e}
				}
				// (both runs carry the operation budget, see costBudget: the rows of the other network can make a request
				// exponentially expensive that is cheap in this one)
				run := func(e *env, ctx context.Context) (string, bool) {
					p := &storagePlan{cancelAt: costBudget}
					cctx, cancel := context.WithCancel(ctx)
					defer cancel()
					p.cancel = cancel
					eng := check.NewEngine(&fDeps{RegistryDefault: e.reg, m: &fManager{Manager: e.reg.RelationTupleManager(), p: p}, t: &fTraverser{Traverser: e.reg.Traverser(), p: p}})
					r := res(eng.CheckRelationTuple(cctx, its[0], stressRd[i]))
					return r, p.count() >= costBudget
				}
				for _, own := range nets {
					got, c1 := run(c, context.WithValue(bg, netKey{}, own.nid))
					want, c2 := run(own, bg)
					if c1 || c2 {
						out.stat("enet.costly")
						continue
					}
					v := "same"
					if got != want {
						v = fmt.Sprintf("diff shared-registry=%s own-registry=%s", got, want)
					}
					k := 1
					if own == shadow {
						k = 2
					}
					out.emit(fmt.Sprintf("enet %d %s %d", k, fmtTuple(stressQs[i]), stressRd[i]), v)
					out.stat("enet")
					cases++
				}
			}
			c.close()
		}
		if cfg.extra["probe_env"] == fmt.Sprint(envNo) { // debugging aid: every goal of this environment at small depths
			for _, ns := range nss[1:] {
				for _, o := range egObjects {
					for _, rel := range ns.Relations {
						for _, u := range egUsers {
							for _, rd := range []int{1, 2, 3, 4} {
								u := u
								q := &ketoapi.RelationTuple{Namespace: ns.Name, Object: o, Relation: rel.Name, SubjectID: &u}
								out.emit(fmt.Sprintf("echeck %s %d", fmtTuple(q), rd), ee.check(q, rd))
							}
						}
					}
				}
			}
		}
		envNo++
		if shadow != nil {
			shadow.close()
		}
		ee.e.close()
	}
}

// engineCorpus: hand-written scenarios, among them the witnesses of the defects that were fixed
func engineCorpus(t *testing.T, out *sink) int {
	n := 0
	type sc struct {
		nss    []*namespace.Namespace
		tuples []string
		checks []string
		depth  int
		gdepth int
		width  int // 0 = 100
		strict bool
	}
	doc := func(rels ...ast.Relation) []*namespace.Namespace {
		return []*namespace.Namespace{{Name: "U"}, {Name: "Doc", Relations: rels}, {Name: "G", Relations: []ast.Relation{{Name: "m"}}}, {Name: "H", Relations: []ast.Relation{{Name: "m"}}}}
	}
	and := func(cs ...ast.Child) *ast.SubjectSetRewrite {
		return &ast.SubjectSetRewrite{Operation: ast.OperatorAnd, Children: cs}
	}
	or := func(cs ...ast.Child) *ast.SubjectSetRewrite { return &ast.SubjectSetRewrite{Children: cs} }
	css := func(r string) ast.Child { return &ast.ComputedSubjectSet{Relation: r} }
	scs := []sc{
		{ // D1
			nss:    doc(ast.Relation{Name: "v"}, ast.Relation{Name: "a"}, ast.Relation{Name: "b"}, ast.Relation{Name: "acc", SubjectSetRewrite: and(css("a"), css("b"))}),
			tuples: []string{"Doc:x#v@Doc:y#acc", "Doc:y#a@G:g#m", "Doc:y#b@G:g#m", "G:g#m@H:h#m", "H:h#m@alice"},
			checks: []string{"Doc:y#acc@alice", "Doc:x#v@alice", "Doc:x#v@bob"}, gdepth: 100,
		},
		{ // D2 (known finding): depth cut under '!'
			nss:    doc(ast.Relation{Name: "a"}, ast.Relation{Name: "nota", SubjectSetRewrite: or(&ast.InvertResult{Child: css("a")})}),
			tuples: []string{"Doc:z#a@bob"},
			checks: []string{"Doc:z#nota@bob", "Doc:z#nota@carol"}, depth: 2, gdepth: 100,
		},
		{ // D6: self-recursive permission
			nss:    doc(ast.Relation{Name: "x"}, ast.Relation{Name: "p", SubjectSetRewrite: and(css("x"), css("p"))}),
			tuples: []string{"Doc:z#x@bob"},
			checks: []string{"Doc:z#p@bob"}, gdepth: 6,
		},
	}
	// relationships stored directly ON a permission: they count outside strict mode; in strict mode a permission is its
	// expression wherever it is referenced - alone, through this.permits, next to an includes() in a union (where the
	// engine asks the database for all computed subject sets of the union in one query)
	for _, strict := range []bool{false, true} {
		uT := []ast.RelationType{{Namespace: "U"}}
		scs = append(scs, sc{
			nss: []*namespace.Namespace{{Name: "U"}, {Name: "Doc", Relations: []ast.Relation{
				{Name: "viewers", Types: uT}, {Name: "editors", Types: uT},
				{Name: "pedit", SubjectSetRewrite: or(css("editors"))},
				{Name: "pvia", SubjectSetRewrite: or(css("pedit"))},
				{Name: "pview", SubjectSetRewrite: or(css("viewers"), css("pedit"))},
				{Name: "pboth", SubjectSetRewrite: and(css("viewers"), css("pedit"))},
				{Name: "pnot", SubjectSetRewrite: and(css("viewers"), &ast.InvertResult{Child: css("pedit")})},
				// D23 (known finding): whoever may edit x views y; in strict mode the relationship stored on pedit is ignored when
				// pedit is asked, but the "found" shortcut of the subject-set traversal honours it
				{Name: "sviewers", Types: []ast.RelationType{{Namespace: "U"}, {Namespace: "Doc", Relation: "pedit"}}}}}},
			tuples: []string{"Doc:y#sviewers@Doc:x#pedit", "Doc:x#pedit@mallory", "Doc:x#pedit@dave", "Doc:x#editors@alice", "Doc:x#viewers@bob", "Doc:x#viewers@mallory", "Doc:x#pview@carol"},
			checks: []string{"Doc:x#pedit@mallory", "Doc:x#pvia@mallory", "Doc:x#pview@mallory", "Doc:x#pboth@mallory", "Doc:x#pnot@mallory",
				"Doc:x#pedit@dave", "Doc:x#pvia@dave", "Doc:x#pview@dave", "Doc:x#pboth@dave", "Doc:x#pnot@dave",
				"Doc:y#sviewers@alice", "Doc:y#sviewers@dave", "Doc:y#sviewers@bob",
				"Doc:x#pview@alice", "Doc:x#pview@bob", "Doc:x#pview@carol", "Doc:x#pedit@alice", "Doc:x#pboth@bob", "Doc:x#pnot@bob"},
			gdepth: 50, strict: strict,
		})
	}
	// the SAME object name in two namespaces as parents of one object (a union-typed relation): a traversal looks at both
	tt := func(r, cr string) ast.Child { return &ast.TupleToSubjectSet{Relation: r, ComputedSubjectSetRelation: cr} }
	scs = append(scs, sc{
		nss:    doc(ast.Relation{Name: "par"}, ast.Relation{Name: "view", SubjectSetRewrite: or(tt("par", "m"))}, ast.Relation{Name: "both", SubjectSetRewrite: and(tt("par", "m"), tt("par", "m"))}),
		tuples: []string{"Doc:d#par@G:x#", "Doc:d#par@H:x#", "Doc:d#par@G:y#", "G:x#m@bob", "H:x#m@alice", "G:y#m@carol", "Doc:e#par@H:x#", "Doc:e#par@H:x#"},
		checks: []string{"Doc:d#view@alice", "Doc:d#view@bob", "Doc:d#view@carol", "Doc:d#view@dave", "Doc:e#view@alice", "Doc:e#view@bob", "Doc:d#both@alice", "Doc:d#both@bob"},
		gdepth: 50,
	})
	// visited-set hygiene (the D1 family): two operands of one rewrite that must BOTH walk the same subject set, the
	// subject being a member of it only indirectly, for every operand kind (computed, traversal, nested union, negation)
	// under && and ||, asked directly and through a subject-set tuple (below an enclosing expansion, where a visited set
	// already lives in the context).  Whatever one operand visited must not be held against its sibling.
	ttuc := func(r, cr string) ast.Child { return &ast.TupleToSubjectSet{Relation: r, ComputedSubjectSetRelation: cr} }
	orc := func(cs ...ast.Child) ast.Child { return &ast.SubjectSetRewrite{Children: cs} }
	andc := func(cs ...ast.Child) ast.Child { return &ast.SubjectSetRewrite{Operation: ast.OperatorAnd, Children: cs} }
	notc := func(c ast.Child) ast.Child { return &ast.InvertResult{Child: c} }
	hyg := map[string]*ast.SubjectSetRewrite{
		"accC": and(css("v"), css("e")),
		"accT": and(ttuc("par", "v"), ttuc("par", "e")),
		"accU": and(orc(css("v"), css("none")), orc(css("e"), css("none"))),
		"accM": and(css("v"), ttuc("par", "e")),
		"accN": and(notc(css("none")), css("v"), notc(ttuc("par", "none"))),
		"accX": or(andc(ttuc("par", "v"), ttuc("par", "e")), css("none")),
		"accY": or(notc(andc(ttuc("par", "v"), ttuc("par", "e")))),
		"accZ": and(orc(ttuc("par", "v")), orc(ttuc("par", "v")), css("e")),
		"accO": or(ttuc("par", "none"), ttuc("par", "e"), css("none")),
	}
	hygNames := []string{"accC", "accT", "accU", "accM", "accN", "accX", "accY", "accZ", "accO"}
	hygRels := []ast.Relation{{Name: "v"}, {Name: "e"}, {Name: "par"}, {Name: "share"}, {Name: "none"}}
	hygTuples := []string{"Doc:f#v@G:g#m", "Doc:f#e@G:g#m", "Doc:d#v@G:g#m", "Doc:d#e@G:g#m", "G:g#m@H:h#m", "H:h#m@alice", "Doc:d#par@Doc:f#", "Doc:d#par@Doc:f2#", "Doc:f2#v@G:g#m"}
	var hygChecks []string
	for _, n := range hygNames {
		hygRels = append(hygRels, ast.Relation{Name: n, SubjectSetRewrite: hyg[n]})
		hygTuples = append(hygTuples, "Doc:p"+n+"#share@Doc:d#"+n, "Doc:q"+n+"#share@Doc:p"+n+"#share")
		hygChecks = append(hygChecks, "Doc:d#"+n+"@alice", "Doc:p"+n+"#share@alice", "Doc:q"+n+"#share@alice", "Doc:p"+n+"#share@bob")
	}
	scs = append(scs, sc{nss: doc(hygRels...), tuples: hygTuples, checks: hygChecks, gdepth: 100})
	// depth ladders: what one hop of each kind costs.  A chain of traversals / subject sets / computed subject sets
	// with the grant at the far end, asked at every request depth around the boundary; the model predicts each answer.
	ttu := func(r, cr string) ast.Child { return &ast.TupleToSubjectSet{Relation: r, ComputedSubjectSetRelation: cr} }
	for depth := 1; depth <= 7; depth++ {
		scs = append(scs, sc{
			nss: doc(ast.Relation{Name: "own"}, ast.Relation{Name: "par"}, ast.Relation{Name: "grp"},
				ast.Relation{Name: "view", SubjectSetRewrite: or(css("own"), ttu("par", "view"))},
				ast.Relation{Name: "edit", SubjectSetRewrite: or(css("view"))},
				ast.Relation{Name: "both", SubjectSetRewrite: and(css("edit"), ttu("par", "view"))}),
			tuples: []string{"Doc:x#par@Doc:y#", "Doc:y#par@Doc:z#", "Doc:z#par@Doc:g#", "Doc:g#own@alice",
				"Doc:x#grp@Doc:y#grp", "Doc:y#grp@Doc:z#grp", "Doc:z#grp@Doc:g#grp", "Doc:g#grp@alice"},
			checks: []string{"Doc:x#view@alice", "Doc:y#view@alice", "Doc:z#view@alice", "Doc:g#view@alice", "Doc:x#edit@alice", "Doc:y#edit@alice",
				"Doc:x#both@alice", "Doc:y#both@alice", "Doc:x#grp@alice", "Doc:y#grp@alice", "Doc:z#grp@alice", "Doc:x#view@bob"},
			depth: depth, gdepth: 100,
		})
	}
	// negation ladders: what a '!' answers when its operand runs out of depth at every distance (directly, below a traversal,
	// inside an intersection); "unknown" below a '!' stays unknown, it is never inverted
	for depth := 1; depth <= 5; depth++ {
		scs = append(scs, sc{
			nss: doc(ast.Relation{Name: "owner"}, ast.Relation{Name: "blocked"}, ast.Relation{Name: "par"},
				ast.Relation{Name: "view", SubjectSetRewrite: or(css("owner"), &ast.InvertResult{Child: css("blocked")})},
				ast.Relation{Name: "fview", SubjectSetRewrite: or(ttu("par", "view"))},
				ast.Relation{Name: "both", SubjectSetRewrite: and(css("owner"), &ast.InvertResult{Child: css("blocked")})},
				ast.Relation{Name: "nn", SubjectSetRewrite: or(&ast.InvertResult{Child: &ast.SubjectSetRewrite{Children: ast.Children{&ast.InvertResult{Child: css("blocked")}}}})}),
			tuples: []string{"Doc:f#blocked@mallory", "Doc:f#owner@alice", "Doc:x#par@Doc:f#", "Doc:f#blocked@G:g#m", "G:g#m@carol"},
			checks: []string{"Doc:f#view@mallory", "Doc:f#view@alice", "Doc:f#view@bob", "Doc:f#view@carol", "Doc:x#fview@mallory", "Doc:x#fview@bob",
				"Doc:f#both@alice", "Doc:f#both@mallory", "Doc:f#nn@mallory", "Doc:f#nn@bob"},
			depth: depth, gdepth: 100,
		})
	}
	// the global limit caps the request depth: the same ladders under global depth 3 with request depths above it
	for _, depth := range []int{3, 4, 5, 9, 1000} {
		scs = append(scs, sc{
			nss: doc(ast.Relation{Name: "own"}, ast.Relation{Name: "par"}, ast.Relation{Name: "grp"},
				ast.Relation{Name: "view", SubjectSetRewrite: or(css("own"), ttu("par", "view"))}),
			tuples: []string{"Doc:x#par@Doc:y#", "Doc:y#par@Doc:z#", "Doc:z#par@Doc:g#", "Doc:g#own@alice",
				"Doc:x#grp@Doc:y#grp", "Doc:y#grp@Doc:z#grp", "Doc:z#grp@Doc:g#grp", "Doc:g#grp@alice"},
			checks: []string{"Doc:x#view@alice", "Doc:y#view@alice", "Doc:z#view@alice", "Doc:g#view@alice", "Doc:x#grp@alice", "Doc:y#grp@alice", "Doc:z#grp@alice"},
			depth:  depth, gdepth: 3,
		})
	}
	// width ladders: a node with five subject sets, each leading to its own user, under max-width 3 (and 2): which of
	// them survive the truncation, at the root and one level down, with and without a request depth
	for _, w := range []int{2, 3} {
		for _, depth := range []int{0, 2, 3, 4, 9} {
			scs = append(scs, sc{
				nss: doc(ast.Relation{Name: "v"}, ast.Relation{Name: "top"}),
				tuples: []string{"Doc:x#v@G:g1#m", "Doc:x#v@G:g2#m", "Doc:x#v@G:g3#m", "Doc:x#v@G:g4#m", "Doc:x#v@G:g5#m",
					"G:g1#m@H:g1#m", "G:g2#m@H:g2#m", "G:g3#m@H:g3#m", "G:g4#m@H:g4#m", "G:g5#m@H:g5#m",
					"H:g1#m@alice", "H:g2#m@bob", "H:g3#m@carol", "H:g4#m@dave", "H:g5#m@erin", "Doc:y#top@Doc:x#v"},
				checks: []string{"Doc:x#v@alice", "Doc:x#v@bob", "Doc:x#v@carol", "Doc:x#v@dave", "Doc:x#v@erin",
					"Doc:y#top@alice", "Doc:y#top@carol", "Doc:y#top@erin"},
				depth: depth, gdepth: 5, width: w,
			})
		}
	}
	// a wide traversal: 150 parents (two storage pages of the tuple-to-subject-set listing), grants behind parents of
	// the first and of the second page
	{
		wide := sc{
			nss: doc(ast.Relation{Name: "own"}, ast.Relation{Name: "par"},
				ast.Relation{Name: "view", SubjectSetRewrite: or(css("own"), ttu("par", "view"))}),
			checks: []string{"Doc:w#view@alice", "Doc:w#view@bob", "Doc:w#view@carol"}, gdepth: 5,
		}
		for i := 0; i < 150; i++ {
			wide.tuples = append(wide.tuples, fmt.Sprintf("Doc:w#par@Doc:q%d#", i))
		}
		wide.tuples = append(wide.tuples, "Doc:q3#own@alice", "Doc:q120#own@bob")
		scs = append(scs, wide)
	}
	// D16: a-b:o#c and a:o#b-c had the same visited id; repeated so that both storage orders occur
	for i := 0; i < 6; i++ {
		scs = append(scs, sc{
			nss:    []*namespace.Namespace{{Name: "U"}, {Name: "doc"}, {Name: "a-b"}, {Name: "a"}},
			tuples: []string{"doc:x#v@a-b:o#c", "doc:x#v@a:o#b-c", "a-b:o#c@a-b:deep#m", "a:o#b-c@a:grp#m", "a:grp#m@alice"},
			checks: []string{"doc:x#v@alice", "doc:x#v@bob"}, gdepth: 50,
		})
	}
	for _, s := range scs {
		if s.width == 0 {
			s.width = 100
		}
		ee := newEngineEnv(t, s.nss, s.strict, s.strict, s.gdepth, s.width)
		for _, o := range []string{"x", "y", "z", "g", "h", "o", "w", "deep", "grp", "g1", "g2", "g3", "g4", "g5", "alice", "bob", "carol", "dave", "erin"} {
			ee.pool.add(o)
		}
		for i := 0; i < 150; i++ {
			ee.pool.add(fmt.Sprintf("q%d", i))
		}
		ee.header(out)
		var ts []*ketoapi.RelationTuple
		for _, x := range s.tuples {
			tu, err := (&ketoapi.RelationTuple{}).FromString(x)
			if err != nil {
				t.Fatal(err)
			}
			ts = append(ts, tu)
			ee.pool.add(tu.Object)
			if tu.SubjectID != nil {
				ee.pool.add(*tu.SubjectID)
			} else if tu.SubjectSet != nil {
				ee.pool.add(tu.SubjectSet.Object)
			}
		}
		ee.insert(t, ts)
		ee.table(out)
		for _, c := range s.checks {
			q, _ := (&ketoapi.RelationTuple{}).FromString(c)
			out.emit(fmt.Sprintf("echeck %s %d", fmtTuple(q), s.depth), ee.check(q, s.depth))
			n++
		}
		// C02, second half, on the SAME stored state: a request depth r under global g answers what a server with global
		// eff(r,g) answers to a request without depth
		if s.depth > 0 && s.depth != s.gdepth {
			cfgc := ee.e.reg.Config(context.Background())
			eff := s.depth
			if eff > s.gdepth {
				eff = s.gdepth
			}
			for _, c := range s.checks {
				q, _ := (&ketoapi.RelationTuple{}).FromString(c)
				a := ee.check(q, s.depth)
				_ = cfgc.Set(config.KeyLimitMaxReadDepth, eff)
				b := ee.check(q, 0)
				_ = cfgc.Set(config.KeyLimitMaxReadDepth, s.gdepth)
				out.emit(fmt.Sprintf("eeff %s %d %d", fmtTuple(q), s.depth, s.gdepth), strings.ReplaceAll(a, " ", "/")+" "+strings.ReplaceAll(b, " ", "/"))
				n++
			}
		}
		ee.e.close()
	}
	out.stat("corpus")
	return n
}

var _ = sort.Strings
