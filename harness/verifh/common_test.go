//go:build verif

// Package verifh is the correspondence harness of /verif. It lives only under
// /verif/harness and is compiled into /repo's module through `go test -c -overlay`.
package verifh

import (
	"bufio"
	"encoding/hex"
	"fmt"
	"os"
	"path/filepath"
	"sort"
	"strconv"
	"strings"
	"testing"
)

// ---- deterministic PRNG (splitmix64), independent of Go's math/rand version ----
type rng struct{ s uint64 }

func newRng(seed uint64) *rng { return &rng{s: seed*0x9E3779B97F4A7C15 + 0x1234567} }
func (r *rng) next() uint64 {
	r.s += 0x9E3779B97F4A7C15
	z := r.s
	z = (z ^ (z >> 30)) * 0xBF58476D1CE4E5B9
	z = (z ^ (z >> 27)) * 0x94D049BB133111EB
	return z ^ (z >> 31)
}
func (r *rng) intn(n int) int {
	if n <= 0 {
		return 0
	}
	return int(r.next() % uint64(n))
}
func (r *rng) chance(num, den int) bool { return r.intn(den) < num }
func (r *rng) pick(xs []string) string  { return xs[r.intn(len(xs))] }
func (r *rng) fork() *rng               { return newRng(r.next()) }

// ---- exchange format ----
func hx(s string) string { return "h" + hex.EncodeToString([]byte(s)) }
func hxo(s *string) string {
	if s == nil {
		return "-"
	}
	return hx(*s)
}
func unhx(tok string) string {
	b, err := hex.DecodeString(strings.TrimPrefix(tok, "h"))
	if err != nil {
		panic(err)
	}
	return string(b)
}

type cfgT struct {
	suite string
	seed  uint64
	n     int
	out   string
	tier  string
	extra map[string]string
}

type sink struct {
	f     *os.File
	w     *bufio.Writer
	count int
	stats map[string]int
}

func newSink(cfg cfgT, name string) *sink {
	f, err := os.Create(filepath.Join(cfg.out, name))
	if err != nil {
		panic(err)
	}
	return &sink{f: f, w: bufio.NewWriterSize(f, 1<<20), stats: map[string]int{}}
}

// emit writes one case line: "<input> => <impl observation>"
func (s *sink) emit(input, obs string) {
	if strings.ContainsAny(input, "\n") || strings.ContainsAny(obs, "\n") {
		panic("newline in case")
	}
	fmt.Fprintf(s.w, "%s => %s\n", input, obs)
	s.count++
}
func (s *sink) stat(k string) { s.stats[k]++ }
func (s *sink) close(cfg cfgT) {
	s.w.Flush()
	s.f.Close()
	keys := make([]string, 0, len(s.stats))
	for k := range s.stats {
		keys = append(keys, k)
	}
	sort.Strings(keys)
	var sb strings.Builder
	for _, k := range keys {
		fmt.Fprintf(&sb, "%s %d\n", k, s.stats[k])
	}
	_ = os.WriteFile(filepath.Join(cfg.out, "stats.txt"), []byte(sb.String()), 0o644)
}

var suites = map[string]func(t *testing.T, cfg cfgT){}

func TestVerif(t *testing.T) {
	suite := os.Getenv("VERIFH_SUITE")
	if suite == "" {
		t.Skip("VERIFH_SUITE not set")
	}
	seed, _ := strconv.ParseUint(os.Getenv("VERIFH_SEED"), 10, 64)
	n, _ := strconv.Atoi(os.Getenv("VERIFH_N"))
	cfg := cfgT{suite: suite, seed: seed, n: n, out: os.Getenv("VERIFH_OUT"), tier: os.Getenv("VERIFH_TIER"), extra: map[string]string{}}
	for _, kv := range strings.Split(os.Getenv("VERIFH_EXTRA"), ",") {
		if k, v, ok := strings.Cut(kv, "="); ok {
			cfg.extra[k] = v
		}
	}
	if cfg.out == "" {
		t.Fatal("VERIFH_OUT not set")
	}
	f, ok := suites[suite]
	if !ok {
		t.Fatalf("unknown suite %q", suite)
	}
	f(t, cfg)
}

// corpus lines: each suite may read <out>/corpus.txt (lines of suite-specific inputs) that run first.
func readCorpus(cfg cfgT) []string {
	b, err := os.ReadFile(filepath.Join(cfg.out, "corpus.txt"))
	if err != nil {
		return nil
	}
	var res []string
	for _, l := range strings.Split(string(b), "\n") {
		l = strings.TrimSpace(l)
		if l != "" && !strings.HasPrefix(l, "//") {
			res = append(res, l)
		}
	}
	return res
}
