//go:build verif

package verifh

import (
	"errors"
	"context"
	"fmt"
	"strings"
	"testing"

	"github.com/gofrs/uuid"

	"github.com/ory/keto/internal/driver"
	"github.com/ory/keto/internal/relationtuple"
	"github.com/ory/keto/ketoapi"
)

func init() { suites["MAP"] = suiteMap }

func mapErrClass(err error) int {
	c := errClass(err)
	if c == 90 || c == 99 {
		if strings.Contains(err.Error(), "could not be found") || strings.Contains(strings.ToLower(err.Error()), "not found") {
			return 404
		}
	}
	if c == 5 {
		return 400
	}
	return c
}

// suiteMap: batches through the real Mapper (FromTuple, then ToTuple on the result) with adversarial names (C16)
func suiteMap(t *testing.T, cfg cfgT) {
	out := newSink(cfg, "cases.txt")
	defer out.close(cfg)
	r := newRng(cfg.seed)
	ctx := context.Background()
	long := strings.Repeat("x", 65536)
	longUsed := 0
	adversarial := []string{"", "a", "é", "𝄞", "\xff\xfe", "a\x00b", " ", "o1", long, "%s", "'; DROP TABLE keto_uuid_mappings; --", "‮", "a:b#c@d", "6ba7b810-9dad-11d1-80b4-00c04fd430c8", "6BA7B810-9DAD-11D1-80B4-00C04FD430C8", "urn:uuid:6ba7b810-9dad-11d1-80b4-00c04fd430c8", "00000000-0000-0000-0000-000000000000"}
	sizes := []int{1, 2, 3, 50, 99, 100, 101, 150, 201, 350}
	cases := 0
	for cases < cfg.n {
		hr := r.fork()
		e := newEnv(t, driver.WithNamespaces(nsList(stNamespaces...)))
		out.emit("reset 1 "+hx("n")+" "+hx("m")+" .", "-")
		counter := 0
		longUsed = 0
		name := func() string {
			switch k := hr.intn(10); {
			case k < 3:
				a := adversarial[hr.intn(len(adversarial))]
				if a == long {
					longUsed++
					if longUsed > 3 {
						return "short"
					}
				}
				return a
			case k < 6:
				return fmt.Sprintf("name-%d", hr.intn(8)) // heavy repeats
			default:
				counter++
				return fmt.Sprintf("distinct-%d", counter)
			}
		}
		for b := 0; b < 6 && cases < cfg.n; b++ {
			n := sizes[hr.intn(len(sizes))]
			var ts []*ketoapi.RelationTuple
			for i := 0; i < n; i++ {
				tu := &ketoapi.RelationTuple{Namespace: hr.pick(stNamespaces), Object: name(), Relation: hr.pick(stRelations)}
				if hr.chance(1, 2) {
					s := name()
					if hr.chance(1, 4) {
						s = tu.Object // the same string as object and as subject
					}
					tu.SubjectID = &s
				} else {
					tu.SubjectSet = &ketoapi.SubjectSet{Namespace: hr.pick(stNamespaces), Object: name(), Relation: hr.pick(stRelations)}
				}
				ts = append(ts, tu)
			}
			if hr.chance(1, 8) {
				p := hr.intn(n)
				if hr.chance(1, 2) {
					ts[p].Namespace = "zz"
				} else {
					ts[p].SubjectID, ts[p].SubjectSet = nil, nil
				}
				out.stat("batch.invalid")
			}
			var in []string
			for _, tu := range ts {
				in = append(in, fmtTuple(tu))
			}
			rolledBack := hr.chance(1, 3)
			if rolledBack {
				out.stat("batch.after_rollback")
			}
			obs := func() (res string) {
				defer func() {
					if rc := recover(); rc != nil {
						res = "panic"
					}
				}()
				if rolledBack {
					// the same names were first mapped inside a transaction that is rolled back (a failed write request, then
					// the client retries): nothing of that attempt may survive, in the database or in the process
					_ = e.reg.Transactor().Transaction(ctx, func(ctx context.Context) error {
						_, _ = e.reg.Mapper().FromTuple(ctx, ts...)
						return errors.New("rolled back on purpose")
					})
				}
				its, err := e.reg.Mapper().FromTuple(ctx, ts...)
				if err != nil {
					return fmt.Sprintf("err %d", mapErrClass(err))
				}
				back, err := e.reg.ReadOnlyMapper().ToTuple(ctx, its...)
				if err != nil {
					return fmt.Sprintf("err %d", mapErrClass(err))
				}
				// aliasing: two positions denote the same id iff they carry the same string
				type pos struct {
					id uuid.UUID
					s  string
				}
				var ps []pos
				for i, it := range its {
					ps = append(ps, pos{it.Object, ts[i].Object})
					switch s := it.Subject.(type) {
					case *relationtuple.SubjectID:
						ps = append(ps, pos{s.ID, *ts[i].SubjectID})
					case *relationtuple.SubjectSet:
						ps = append(ps, pos{s.Object, ts[i].SubjectSet.Object})
					}
				}
				byID, byS := map[uuid.UUID]string{}, map[string]uuid.UUID{}
				alias := 1
				for _, p := range ps {
					if s, ok := byID[p.id]; ok && s != p.s {
						alias = 0
					}
					if id, ok := byS[p.s]; ok && id != p.id {
						alias = 0
					}
					byID[p.id], byS[p.s] = p.s, p.id
				}
				var o []string
				for _, tu := range back {
					o = append(o, fmtTuple(tu))
				}
				return fmt.Sprintf("ok %d %s alias=%d", len(o), strings.Join(o, " "), alias)
			}()
			out.emit(fmt.Sprintf("maprt %d %s", n, strings.Join(in, " ")), obs)
			out.stat(fmt.Sprintf("batch.n%d", n))
			out.stat("result." + strings.Fields(obs)[0])
			cases++
		}
		e.close()
	}
}
