//go:build verif

package verifh

import (
	"errors"
	"context"
	"fmt"
	"strings"
	"testing"

	"github.com/gofrs/uuid"

	"github.com/ory/keto/internal/driver"
	"github.com/ory/keto/internal/relationtuple"
	"github.com/ory/keto/ketoapi"
)

func init() { suites["MAP"] = suiteMap }

func mapErrClass(err error) int {
	c := errClass(err)
	if c == 90 || c == 99 {
		if strings.Contains(err.Error(), "could not be found") || strings.Contains(strings.ToLower(err.Error()), "not found") {
			return 404
		}
	}
	if c == 5 {
		return 400
	}
	return c
}


// ---- Mapper.ToTree (C16): random trees over names that the batch just mapped (and a few it did not) ----
var mapTreeTypes = []ketoapi.TreeNodeType{ketoapi.TreeNodeUnion, ketoapi.TreeNodeExclusion, ketoapi.TreeNodeIntersection, ketoapi.TreeNodeLeaf, ketoapi.TreeNodeTupleToSubjectSet, ketoapi.TreeNodeComputedSubjectSet, ketoapi.TreeNodeNot, ketoapi.TreeNodeUnspecified}

func mapTreeTypeIdx(ty ketoapi.TreeNodeType) int {
	for i, x := range mapTreeTypes {
		if x == ty {
			return i
		}
	}
	return 99
}

// genMapTree returns the internal tree and its rendering in names ("T <type> <subject> <children> ...")
func genMapTree(ctx context.Context, e *env, hr *rng, pool []string, depth int, unknownNs bool) (*relationtuple.Tree, string) {
	id := func(s string) uuid.UUID {
		u, err := e.reg.MappingManager().MapStringsToUUIDsReadOnly(ctx, s)
		if err != nil || len(u) != 1 {
			panic("MapStringsToUUIDsReadOnly")
		}
		return u[0]
	}
	ty := hr.intn(len(mapTreeTypes))
	tr := &relationtuple.Tree{Type: mapTreeTypes[ty]}
	var sub string
	switch k := hr.intn(10); {
	case k < 5:
		s := pool[hr.intn(len(pool))]
		tr.Subject = &relationtuple.SubjectID{ID: id(s)}
		sub = "I " + hx(s)
	case k < 9:
		n, o, r := hr.pick(stNamespaces), pool[hr.intn(len(pool))], hr.pick(stRelations)
		if unknownNs && hr.chance(1, 3) {
			n = "zz"
		}
		tr.Subject = &relationtuple.SubjectSet{Namespace: n, Object: id(o), Relation: r}
		sub = "S " + hx(n) + " " + hx(o) + " " + hx(r)
	default:
		sub = "-"
	}
	nc := 0
	if depth > 0 {
		nc = hr.intn(4)
	}
	parts := []string{fmt.Sprintf("T %d %s %d", ty, sub, nc)}
	for i := 0; i < nc; i++ {
		c, s := genMapTree(ctx, e, hr, pool, depth-1, unknownNs)
		tr.Children = append(tr.Children, c)
		parts = append(parts, s)
	}
	return tr, strings.Join(parts, " ")
}

func fmtAPITree(t *ketoapi.Tree[*ketoapi.RelationTuple]) string {
	if t == nil {
		return "nil"
	}
	sub := "-"
	if t.Tuple != nil {
		switch {
		case t.Tuple.SubjectSet != nil && t.Tuple.SubjectID != nil:
			sub = "both"
		case t.Tuple.SubjectSet != nil:
			sub = "S " + hx(t.Tuple.SubjectSet.Namespace) + " " + hx(t.Tuple.SubjectSet.Object) + " " + hx(t.Tuple.SubjectSet.Relation)
		case t.Tuple.SubjectID != nil:
			sub = "I " + hx(*t.Tuple.SubjectID)
		}
		if t.Tuple.Namespace != "" || t.Tuple.Object != "" || t.Tuple.Relation != "" {
			sub += "+fields"
		}
	}
	parts := []string{fmt.Sprintf("T %d %s %d", mapTreeTypeIdx(t.Type), sub, len(t.Children))}
	for _, c := range t.Children {
		parts = append(parts, fmtAPITree(c))
	}
	return strings.Join(parts, " ")
}

// suiteMap: batches through the real Mapper (FromTuple, then ToTuple on the result) with adversarial names (C16)
func suiteMap(t *testing.T, cfg cfgT) {
	out := newSink(cfg, "cases.txt")
	defer out.close(cfg)
	r := newRng(cfg.seed)
	ctx := context.Background()
	long := strings.Repeat("x", 65536)
	longUsed := 0
	adversarial := []string{"", "a", "é", "𝄞", "\xff\xfe", "a\x00b", " ", "o1", long, "%s", "'; DROP TABLE keto_uuid_mappings; --", "‮", "a:b#c@d", "6ba7b810-9dad-11d1-80b4-00c04fd430c8", "6BA7B810-9DAD-11D1-80B4-00C04FD430C8", "urn:uuid:6ba7b810-9dad-11d1-80b4-00c04fd430c8", "00000000-0000-0000-0000-000000000000"}
	sizes := []int{1, 2, 3, 50, 99, 100, 101, 150, 201, 350}
	cases := 0
	for cases < cfg.n {
		hr := r.fork()
		e := newEnv(t, driver.WithNamespaces(nsList(stNamespaces...)))
		out.emit("reset 1 "+hx("n")+" "+hx("m")+" .", "-")
		counter := 0
		longUsed = 0
		name := func() string {
			switch k := hr.intn(10); {
			case k < 3:
				a := adversarial[hr.intn(len(adversarial))]
				if a == long {
					longUsed++
					if longUsed > 3 {
						return "short"
					}
				}
				return a
			case k < 6:
				return fmt.Sprintf("name-%d", hr.intn(8)) // heavy repeats
			default:
				counter++
				return fmt.Sprintf("distinct-%d", counter)
			}
		}
		for b := 0; b < 6 && cases < cfg.n; b++ {
			n := sizes[hr.intn(len(sizes))]
			var ts []*ketoapi.RelationTuple
			for i := 0; i < n; i++ {
				tu := &ketoapi.RelationTuple{Namespace: hr.pick(stNamespaces), Object: name(), Relation: hr.pick(stRelations)}
				if hr.chance(1, 2) {
					s := name()
					if hr.chance(1, 4) {
						s = tu.Object // the same string as object and as subject
					}
					tu.SubjectID = &s
				} else {
					tu.SubjectSet = &ketoapi.SubjectSet{Namespace: hr.pick(stNamespaces), Object: name(), Relation: hr.pick(stRelations)}
				}
				ts = append(ts, tu)
			}
			if hr.chance(1, 8) {
				p := hr.intn(n)
				if hr.chance(1, 2) {
					ts[p].Namespace = "zz"
				} else {
					ts[p].SubjectID, ts[p].SubjectSet = nil, nil
				}
				out.stat("batch.invalid")
			}
			var in []string
			for _, tu := range ts {
				in = append(in, fmtTuple(tu))
			}
			rolledBack := hr.chance(1, 3)
			if rolledBack {
				out.stat("batch.after_rollback")
			}
			obs := func() (res string) {
				defer func() {
					if rc := recover(); rc != nil {
						res = "panic"
					}
				}()
				if rolledBack {
					// the same names were first mapped inside a transaction that is rolled back (a failed write request, then
					// the client retries): nothing of that attempt may survive, in the database or in the process
					_ = e.reg.Transactor().Transaction(ctx, func(ctx context.Context) error {
						_, _ = e.reg.Mapper().FromTuple(ctx, ts...)
						return errors.New("rolled back on purpose")
					})
				}
				its, err := e.reg.Mapper().FromTuple(ctx, ts...)
				if err != nil {
					return fmt.Sprintf("err %d", mapErrClass(err))
				}
				back, err := e.reg.ReadOnlyMapper().ToTuple(ctx, its...)
				if err != nil {
					return fmt.Sprintf("err %d", mapErrClass(err))
				}
				// aliasing: two positions denote the same id iff they carry the same string
				type pos struct {
					id uuid.UUID
					s  string
				}
				var ps []pos
				for i, it := range its {
					ps = append(ps, pos{it.Object, ts[i].Object})
					switch s := it.Subject.(type) {
					case *relationtuple.SubjectID:
						ps = append(ps, pos{s.ID, *ts[i].SubjectID})
					case *relationtuple.SubjectSet:
						ps = append(ps, pos{s.Object, ts[i].SubjectSet.Object})
					}
				}
				byID, byS := map[uuid.UUID]string{}, map[string]uuid.UUID{}
				alias := 1
				for _, p := range ps {
					if s, ok := byID[p.id]; ok && s != p.s {
						alias = 0
					}
					if id, ok := byS[p.s]; ok && id != p.id {
						alias = 0
					}
					byID[p.id], byS[p.s] = p.s, p.id
				}
				var o []string
				for _, tu := range back {
					o = append(o, fmtTuple(tu))
				}
				return fmt.Sprintf("ok %d %s alias=%d", len(o), strings.Join(o, " "), alias)
			}()
			out.emit(fmt.Sprintf("maprt %d %s", n, strings.Join(in, " ")), obs)
			out.stat(fmt.Sprintf("batch.n%d", n))
			out.stat("result." + strings.Fields(obs)[0])
			cases++
			if strings.HasPrefix(obs, "ok") && cases < cfg.n {
				// the names of this batch are mapped now: trees over them (and over a name nobody wrote) through ToTree
				pool := []string{"never-written-" + fmt.Sprint(cases)}
				for _, tu := range ts {
					pool = append(pool, tu.Object)
					if tu.SubjectID != nil {
						pool = append(pool, *tu.SubjectID)
					} else {
						pool = append(pool, tu.SubjectSet.Object)
					}
				}
				if hr.chance(3, 4) {
					pool = pool[1:]
				}
				if hr.chance(1, 3) && len(pool) > 2 {
					// siblings that carry the same subject but differ in type and subtree (C16-h)
					a := hr.intn(len(pool) - 1)
					pool = pool[a : a+2]
					out.stat("tree.tiny_pool")
				}
				unknownNs := hr.chance(1, 6)
				tr, in := genMapTree(ctx, e, hr, pool, 1+hr.intn(4), unknownNs)
				tobs := func() (res string) {
					defer func() {
						if rc := recover(); rc != nil {
							res = "panic"
						}
					}()
					at, err := e.reg.ReadOnlyMapper().ToTree(ctx, tr)
					if err != nil {
						return fmt.Sprintf("err %d", mapErrClass(err))
					}
					return "ok " + fmtAPITree(at)
				}()
				out.emit("maptree "+in, tobs)
				out.stat("tree.nodes" + fmt.Sprint(min(strings.Count(in, "T "), 20)/5*5))
				out.stat("treeresult." + strings.Fields(tobs)[0])
				cases++
			}
		}
		e.close()
	}
}
