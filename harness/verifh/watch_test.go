//go:build verif

package verifh

import (
	"context"
	"fmt"
	"github.com/spf13/pflag"
	"io"
	"os"
	"path/filepath"
	"sort"
	"strings"
	"sync"
	"testing"
	"time"

	"github.com/ory/x/configx"
	"github.com/ory/x/logrusx"
	"github.com/sirupsen/logrus"

	"github.com/ory/keto/internal/driver/config"
	"github.com/ory/keto/internal/namespace"
)

func init() { suites["WATCH"] = suiteWatch }

var watchContent bool

func nsNames(m namespace.Manager) string {
	nn, err := m.Namespaces(context.Background())
	if err != nil {
		return "ERR"
	}
	var out []string
	for _, n := range nn {
		if watchContent { // OPL rounds: a version is identified by the content of its namespaces, not only by their names
			out = append(out, hx(strings.TrimPrefix(cfgTok([]*namespace.Namespace{n}), "1 ")))
		} else {
			out = append(out, hx(n.Name))
		}
	}
	sort.Strings(out)
	if len(out) == 0 {
		return "{}"
	}
	return strings.Join(out, ",")
}

// atomic replacement of a file: write next to the watched directory, then rename into place
func putFile(dir, stage, name string, content []byte) {
	tmp := filepath.Join(stage, name+".tmp")
	if err := os.WriteFile(tmp, content, 0o600); err != nil {
		panic(err)
	}
	if err := os.Rename(tmp, filepath.Join(dir, name)); err != nil {
		panic(err)
	}
}

// dynMgr goes through Config.NamespaceManager() on every call, the way the handlers do: a configuration reload may
// replace the manager underneath
type dynMgr struct{ p *config.Config }

func (d dynMgr) cur() (namespace.Manager, error) { return d.p.NamespaceManager() }
func (d dynMgr) GetNamespaceByName(ctx context.Context, name string) (*namespace.Namespace, error) {
	m, err := d.cur()
	if err != nil {
		return nil, err
	}
	return m.GetNamespaceByName(ctx, name)
}
func (d dynMgr) GetNamespaceByConfigID(ctx context.Context, id int32) (*namespace.Namespace, error) {
	m, err := d.cur()
	if err != nil {
		return nil, err
	}
	return m.GetNamespaceByConfigID(ctx, id)
}
func (d dynMgr) Namespaces(ctx context.Context) ([]*namespace.Namespace, error) {
	m, err := d.cur()
	if err != nil {
		return nil, err
	}
	return m.Namespaces(ctx)
}
func (d dynMgr) ShouldReload(v interface{}) bool { return false }

type sampler struct {
	mu   sync.Mutex
	seen map[string]bool
	stop chan struct{}
	done chan struct{}
}

func startSampler(m namespace.Manager) *sampler {
	s := &sampler{seen: map[string]bool{}, stop: make(chan struct{}), done: make(chan struct{})}
	go func() {
		defer close(s.done)
		for {
			select {
			case <-s.stop:
				return
			default:
			}
			v := nsNames(m)
			s.mu.Lock()
			s.seen[v] = true
			s.mu.Unlock()
			time.Sleep(200 * time.Microsecond)
		}
	}()
	return s
}
func (s *sampler) take() []string {
	s.mu.Lock()
	defer s.mu.Unlock()
	var out []string
	for k := range s.seen {
		out = append(out, k)
	}
	s.seen = map[string]bool{}
	sort.Strings(out)
	return out
}

func suiteWatch(t *testing.T, cfg cfgT) {
	out := newSink(cfg, "cases.txt")
	defer out.close(cfg)
	r := newRng(cfg.seed)
	l := logrusx.New("", "")
	l.Logrus().SetOutput(io.Discard)
	l.Logrus().SetLevel(logrus.PanicLevel)
	events := 0
	round := 0
	for events < cfg.n {
		hr := r.fork()
		opl := hr.chance(1, 2)
		// the first three rounds are scripted: one legacy file per format, valid and invalid versions alternating, the
		// invalid ones running through every kind (garbage, truncated, complete document + trailing data)
		scripted := round < 3
		round++
		invIdx := 0
		if scripted {
			opl = false
		}
		// every third random round goes through the configuration provider with a real main configuration file, and
		// also edits that file in ways that do not concern the namespaces
		viaConfig := !scripted && round%3 == 1
		base := t.TempDir()
		dir, stage := filepath.Join(base, "watched"), filepath.Join(base, "stage")
		_ = os.Mkdir(dir, 0o700)
		_ = os.Mkdir(stage, 0o700)
		files := []string{"a", "b", "c"}
		ext := ".ts"
		if !opl {
			ext = hr.pick([]string{".json", ".yml", ".toml"})
		}
		if scripted {
			ext = []string{".json", ".yml", ".toml"}[round-1]
			files = []string{"a"}
		}
		pickInv := func(opts []string) string {
			if scripted {
				invIdx++
				return opts[(invIdx-1)%len(opts)]
			}
			return hr.pick(opts)
		}
		version := 0
		// content generator: valid or invalid version of one file
		gen := func(f string) (content string, valid bool, names []string) {
			version++
			valid = hr.chance(2, 3)
			if scripted {
				valid = version%2 == 1
			}
			if opl {
				n1 := fmt.Sprintf("%s%dx", strings.ToUpper(f), version)
				n2 := fmt.Sprintf("%s%dy", strings.ToUpper(f), version)
				if valid && hr.chance(1, 3) {
					// the SAME names, relation names and types in every version of this file; only a permission body (and the
					// second namespace's relations) changes: the new version must be served whole
					k1, k2 := strings.ToUpper(f)+"K", strings.ToUpper(f)+"L"
					body := []string{"this.related.r.includes(ctx.subject)", "this.related.r.includes(ctx.subject) || this.related.s.includes(ctx.subject)",
						"this.related.r.includes(ctx.subject) && !this.related.s.includes(ctx.subject)"}[version%3]
					extra := []string{"", " t: " + k1 + "[]"}[version%2]
					return fmt.Sprintf("class %s implements Namespace { related: { r: %s[]; s: %s[] } permits = { p: (ctx) => %s } }\nclass %s implements Namespace { related: { u: %s[];%s } }",
						k1, k1, k1, body, k2, k1, extra), true, []string{k1, k2}
				}
				if valid && hr.chance(1, 6) {
					// a LARGE valid document (more than 64 KiB, most of it a comment): all of it counts, wherever the bulk sits
					pad := "/* " + strings.Repeat("padding ", 9000) + "*/\n"
					a := fmt.Sprintf("class %s implements Namespace {}\n", n1)
					b := fmt.Sprintf("class %s implements Namespace { related: { r: %s[] } }\n", n2, n1)
					doc := []string{pad + a + b, a + pad + b, a + b + pad}[version%3]
					return doc, true, []string{n1, n2}
				}
				switch {
				case valid && hr.chance(1, 3):
					return fmt.Sprintf("class %s implements Namespace {}\nclass %s implements Namespace { related: { r: %s[] } }", n1, n2, n1), true, []string{n1, n2}
				case valid:
					return fmt.Sprintf("class %s implements Namespace {}", n1), true, []string{n1}
				case hr.chance(1, 2):
					return fmt.Sprintf("class %s implements Namespace { related: { r: Undeclared[] } }", n1), false, nil // type error
				default:
					return fmt.Sprintf("class %s implements Namespace {", n1), false, nil // syntax error
				}
			}
			n := fmt.Sprintf("%s%d", f, version)
			if valid {
				switch ext {
				case ".json":
					return fmt.Sprintf(`{"name": %q, "id": %d}`, n, version), true, []string{n}
				case ".yml":
					return fmt.Sprintf("name: %s\nid: %d\n", n, version), true, []string{n}
				default:
					return fmt.Sprintf("name = %q\nid = %d\n", n, version), true, []string{n}
				}
			}
			// invalid versions: garbage, a truncated document, and a complete document followed by trailing data
			// (a file in the middle of being overwritten looks like that)
			switch ext {
			case ".json":
				// (the empty string: a file truncated to zero bytes, what a non-atomic rewrite looks like half-way)
				return pickInv([]string{"{{{ not valid [", "", fmt.Sprintf(`{"name": %q, "id"`, n), fmt.Sprintf(`{"name": %q, "id": %d}}`, n, version),
					fmt.Sprintf(`{"name": %q, "id": %d}{"name": "tail"}`, n, version), fmt.Sprintf(`{"name": %q, "id": %d} trailing`, n, version)}), false, nil
			case ".yml":
				return pickInv([]string{"{{{ not valid [", fmt.Sprintf("name: %s\nid: [%d\n", n, version), fmt.Sprintf("name: %s\n  id: %d\n bad:\n- x\n", n, version)}), false, nil
			default:
				return pickInv([]string{"{{{ not valid [", fmt.Sprintf("name = %q\nid = \n", n), fmt.Sprintf("name = %q\nid = %d\n[[[\n", n, version)}), false, nil
			}
		}
		// initial files (loaded by the watcher's initial dispatch)
		type ev struct {
			kind, file, content string
			valid               bool
			names               []string
		}
		var initial []ev
		ninit := 1 + hr.intn(3)
		if ninit > len(files) {
			ninit = len(files)
		}
		for _, f := range files[:ninit] {
			c, v, n := gen(f)
			putFile(dir, stage, f+ext, []byte(c))
			initial = append(initial, ev{"change", f + ext, c, v, n})
		}
		ctx, cancel := context.WithCancel(context.Background())
		var m namespace.Manager
		var err error
		cfgFile := filepath.Join(base, "keto.yaml")
		cfgDepth := 5
		var prov *config.Config
		writeCfg := func() {
			nsCfg := "namespaces: file://" + dir
			if opl {
				nsCfg = "namespaces:\n  location: file://" + dir
			}
			body := fmt.Sprintf("dsn: memory\n%s\nlimit:\n  max_read_depth: %d\n", nsCfg, cfgDepth)
			tmp := filepath.Join(stage, "keto.yaml.tmp")
			_ = os.WriteFile(tmp, []byte(body), 0o600)
			_ = os.Rename(tmp, cfgFile)
		}
		if viaConfig {
			writeCfg()
			prov, err = config.NewDefault(ctx, pflag.NewFlagSet("verif", pflag.ContinueOnError), l, configx.WithConfigFiles(cfgFile))
			if err == nil {
				m = dynMgr{p: prov}
				_, err = prov.NamespaceManager()
			}
		} else if opl {
			c, e2 := config.NewDefault(ctx, nil, l, configx.SkipValidation())
			if e2 != nil {
				t.Fatal(e2)
			}
			m, err = config.VerifNewOPLWatcher(ctx, c, "file://"+dir)
		} else {
			m, err = config.NewNamespaceWatcher(ctx, l, "file://"+dir)
		}
		if err != nil {
			t.Fatalf("watcher: %v", err)
		}
		kind := "legacy"
		if opl {
			kind = "opl"
		}
		watchContent = opl
		out.emit("wreset "+kind, "-")
		emit := func(e ev, seen []string) {
			// the initial directory scan delivers the files in directory order; the model takes them in name order (files are independent)
			arg := "-"
			if e.kind == "change" {
				if opl {
					arg = hx(e.content)
				} else if e.valid {
					arg = "valid " + hx(e.names[0])
				} else {
					arg = "invalid"
				}
			}
			out.emit(fmt.Sprintf("w%s %s %s", e.kind, hx(e.file), arg), strings.TrimSpace(fmt.Sprintf("%s ; seen %s", nsNames(m), strings.Join(seen, " | "))))
			events++
		}
		sort.Slice(initial, func(i, j int) bool { return initial[i].file < initial[j].file })
		for i, e := range initial {
			if i < len(initial)-1 {
				out.emit(fmt.Sprintf("wchange %s %s", hx(e.file), map[bool]string{true: hx(e.content), false: func() string {
					if e.valid {
						return "valid " + hx(e.names[0])
					}
					return "invalid"
				}()}[opl]), "SKIPOBS")
				continue
			}
			emit(e, nil)
		}
		smp := startSampler(m)
		n := 6 + hr.intn(8)
		if scripted {
			n = 11
		}
		for i := 0; i < n && events < cfg.n; i++ {
			f := hr.pick(files)
			before := nsNames(m)
			var e ev
			if viaConfig && hr.chance(1, 4) { // an edit of the main configuration file that does not concern the namespaces
				cfgDepth = 3 + (cfgDepth+1)%7
				writeCfg()
				dl := time.Now().Add(3 * time.Second)
				for time.Now().Before(dl) && prov.MaxReadDepth() != cfgDepth {
					time.Sleep(5 * time.Millisecond)
				}
				time.Sleep(150 * time.Millisecond)
				out.emit("wtouch - -", strings.TrimSpace(fmt.Sprintf("%s ; seen %s", nsNames(m), strings.Join(smp.take(), " | "))))
				out.stat("touch")
				events++
				continue
			}
			if !scripted && hr.chance(1, 8) {
				// something the watcher can only report as an error: a dangling symlink appears in the watched directory.
				// Nothing visible changes - and the watcher must still be alive for the events that follow
				_ = os.Symlink(filepath.Join(dir, "does-not-exist"), filepath.Join(dir, fmt.Sprintf("zz_dangling_%d%s", i, ext)))
				time.Sleep(250 * time.Millisecond)
				out.emit("wtouch - -", strings.TrimSpace(fmt.Sprintf("%s ; seen %s", nsNames(m), strings.Join(smp.take(), " | "))))
				out.stat("watcher_error_event")
				events++
				continue
			}
			if !scripted && hr.chance(1, 6) {
				_ = os.Remove(filepath.Join(dir, f+ext))
				e = ev{kind: "remove", file: f + ext}
			} else {
				c, v, nm := gen(f)
				putFile(dir, stage, f+ext, []byte(c))
				e = ev{"change", f + ext, c, v, nm}
			}
			// wait until the change is visible (or, for changes without visible effect, a settle time)
			deadline := time.Now().Add(2 * time.Second)
			for time.Now().Before(deadline) {
				if nsNames(m) != before {
					break
				}
				if !(e.kind == "change" && e.valid) && time.Now().After(deadline.Add(-1850*time.Millisecond)) {
					break
				}
				time.Sleep(2 * time.Millisecond)
			}
			time.Sleep(20 * time.Millisecond)
			emit(e, smp.take())
		}
		close(smp.stop)
		<-smp.done
		cancel()
		out.stat("histories." + kind)
	}
}
