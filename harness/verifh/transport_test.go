//go:build verif

package verifh

import (
	"time"
	"context"
	"encoding/json"
	"errors"
	"fmt"
	"strings"
	"testing"

	"github.com/ory/herodot"

	"github.com/ory/keto/ketoapi"
	rts "github.com/ory/keto/proto/ory/keto/relation_tuples/v1alpha2"
)

func init() { suites["TRANSPORT"] = suiteTransport }

// engine-side classification of one tuple: E=<unknownns|nosubject|is/0|not/0|unknown/0|<mem>/1b|<mem>/1i>
func (ee *engineEnv) engineObs(tu *ketoapi.RelationTuple, depth int) string {
	return ee.engineObsCtx(context.Background(), tu, depth)
}

func (ee *engineEnv) engineObsCtx(ctx context.Context, tu *ketoapi.RelationTuple, depth int) string {
	its, err := ee.e.reg.ReadOnlyMapper().FromTuple(ctx, tu)
	if err != nil {
		if errors.Is(err, herodot.ErrNotFound) {
			return "unknownns"
		}
		return "nosubject"
	}
	res := ee.e.reg.PermissionEngine().CheckRelationTuple(ctx, its[0], depth)
	if res.Err != nil {
		cls := "i"
		var de *herodot.DefaultError
		if errors.As(res.Err, &de) && de.StatusCode() == 400 {
			cls = "b"
		}
		return memTok(res.Membership) + "/1" + cls
	}
	return memTok(res.Membership) + "/0"
}

func allowedFromBody(body []byte) string {
	var v struct {
		Allowed *bool `json:"allowed"`
	}
	if json.Unmarshal(body, &v) != nil || v.Allowed == nil {
		return "-"
	}
	if *v.Allowed {
		return "1"
	}
	return "0"
}

func suiteTransport(t *testing.T, cfg cfgT) {
	out := newSink(cfg, "cases.txt")
	defer out.close(cfg)
	r := newRng(cfg.seed)
	_ = context.Background
	cases := 0
	for cases < cfg.n {
		hr := r.fork()
		nss := genConfig(hr, hr.chance(1, 2))
		ee := newEngineEnv(t, nss, false, hr.chance(1, 3), 30, 100)
		ee.header(out)
		ee.insert(t, egTuples(hr, nss, 6+hr.intn(20), hr.chance(1, 2)))
		// entries of one batch that walk the SAME subject sets (per-entry state must not be shared)
		motifT, motifQ := egMotif(hr, nss)
		ee.insert(t, motifT)
		// a depth ladder: one tuple whose answer changes with max-depth (l1 -> l2 -> l3 -> user); every transport must hand
		// the request depth to the engine, not drop or replace it
		var ladderQ *ketoapi.RelationTuple
		for _, ns := range nss[1:] {
			for _, rel := range ns.Relations {
				if rel.SubjectSetRewrite == nil && ladderQ == nil {
					mk := func(o string, sid *string, ss *ketoapi.SubjectSet) *ketoapi.RelationTuple {
						return &ketoapi.RelationTuple{Namespace: ns.Name, Object: o, Relation: rel.Name, SubjectID: sid, SubjectSet: ss}
					}
					u := egUsers[0]
					for _, x := range []string{"l1", "l2", "l3"} {
						ee.pool.add(x)
					}
					ee.insert(t, []*ketoapi.RelationTuple{
						mk("l1", nil, &ketoapi.SubjectSet{Namespace: ns.Name, Object: "l2", Relation: rel.Name}),
						mk("l2", nil, &ketoapi.SubjectSet{Namespace: ns.Name, Object: "l3", Relation: rel.Name}),
						mk("l3", &u, nil)})
					ladderQ = mk("l1", &u, nil)
				}
			}
		}
		ladderDepths := []int{1, 2, 3, 4, 0}
		ee.table(out)
		mkq := func() *ketoapi.RelationTuple {
			q := egQuery(hr, nss)
			switch hr.intn(12) {
			case 0:
				q.Namespace = "zz"
			case 1:
				q.SubjectID, q.SubjectSet = nil, nil
			case 2:
				if q.SubjectSet != nil {
					q.SubjectSet.Namespace = "zz"
				}
			case 3: // a stored relationship: allowed
				rows, _ := ee.e.rowsInOrder(ee.pool)
				if len(rows) > 0 {
					w := strings.Fields(rows[hr.intn(len(rows))])
					var tu ketoapi.RelationTuple
					tu.Namespace, tu.Object, tu.Relation = unhx(w[2]), unhx(w[3]), unhx(w[4])
					if w[5] != "-" {
						s := unhx(w[5])
						tu.SubjectID = &s
					} else {
						tu.SubjectSet = &ketoapi.SubjectSet{Namespace: unhx(w[7]), Object: unhx(w[8]), Relation: unhx(w[9])}
					}
					return &tu
				}
			}
			return q
		}
		client := rts.NewCheckServiceClient(ee.e.rconn)
		for i := 0; i < 20 && cases < cfg.n; i++ {
			q := mkq()
			depth := []int{0, 0, 0, 3, -2, 1000}[hr.intn(6)]
			if ladderQ != nil && i < len(ladderDepths) {
				q, depth = ladderQ, ladderDepths[i]
			}
			if ee.costlyN(q, depth, 2500) { // see costBudget
				out.stat("costly")
				continue
			}
			var E string
			var obs []string
			// every evaluation of this case runs under one deadline: the cost of a check depends on the goroutine schedule (an
			// expensive sibling is cancelled only if a cheap one answers first), so a probe cannot promise that the next
			// evaluation is cheap too; a case that runs into the deadline is dropped, not reported (see costBudget)
			var tctx context.Context
			var tcancel context.CancelFunc
			tslow := false
			askSingle := func() {
			tctx, tcancel = context.WithTimeout(context.Background(), 10*time.Second)
			defer func() { tslow = tctx.Err() == context.DeadlineExceeded; tcancel() }()
			ctx := tctx
			E = ee.engineObsCtx(ctx, q, depth)
			obs = nil
			dq := fmt.Sprintf("max-depth=%d", depth)
			body, _ := json.Marshal(q)
			hasSubject := q.SubjectID != nil || q.SubjectSet != nil
			if hasSubject {
				qs := q.ToURLQuery().Encode() + "&" + dq
				code, b := restCtx(ctx, ee.e.read, "GET", "/relation-tuples/check?"+qs, nil)
				obs = append(obs, fmt.Sprintf("G1=%d/%s", code, allowedFromBody(b)))
				code, b = restCtx(ctx, ee.e.read, "GET", "/relation-tuples/check/openapi?"+qs, nil)
				obs = append(obs, fmt.Sprintf("G2=%d/%s", code, allowedFromBody(b)))
			} else {
				obs = append(obs, "G1=skip", "G2=skip") // a query string cannot express "no subject"; FromURLQuery answers 400 (C18)
			}
			code, b := restCtx(ctx, ee.e.read, "POST", "/relation-tuples/check?"+dq, body)
			obs = append(obs, fmt.Sprintf("P1=%d/%s", code, allowedFromBody(b)))
			code, b = restCtx(ctx, ee.e.read, "POST", "/relation-tuples/check/openapi?"+dq, body)
			obs = append(obs, fmt.Sprintf("P2=%d/%s", code, allowedFromBody(b)))
			resp, err := client.Check(ctx, &rts.CheckRequest{Tuple: tupleToProto(q), MaxDepth: int32(depth)})
			a := "-"
			if err == nil {
				a = "0"
				if resp.Allowed {
					a = "1"
				}
			}
			obs = append(obs, fmt.Sprintf("C=%d/%s", grpcCode(err), a))
			}
			// confirm by retry: a disagreement that does not persist is counted (stat transient_disagreement) but not reported -
			// the decision of the engine itself was seen to flip, very rarely, under heavy machine load (DESIGN 8.4)
			slow := false
			for try := 0; try < 3; try++ {
				askSingle()
				if tslow {
					slow = true
					break
				}
				if singleAgrees(E, obs) {
					break
				}
				if try < 2 {
					out.stat("transient_disagreement_candidates")
				}
			}
			if slow {
				out.stat("slow_skipped")
				cases++
				continue
			}
			out.emit(fmt.Sprintf("etrans %s %d", fmtTuple(q), depth), "E="+E+" "+strings.Join(obs, " "))
			out.stat("single.E=" + E)
			cases++
		}
		// batches: shuffled valid / invalid / duplicate entries; results must come back in request order, one per tuple
		for bi := 0; bi < 4 && cases < cfg.n; bi++ {
			n := []int{0, 1, 2, 5, 9, 10}[hr.intn(6)]
			depth := []int{0, 0, 4}[hr.intn(3)]
			var qs []*ketoapi.RelationTuple
			if bi == 1 && ladderQ != nil { // the batch depth applies to every entry
				depth = 1 + hr.intn(3)
				qs = append(qs, ladderQ, ladderQ)
				n = 2 + hr.intn(4)
			}
			if bi == 0 && len(motifQ) > 0 {
				n = 6 + hr.intn(4)
				for i := 0; i < n; i++ {
					qs = append(qs, motifQ[hr.intn(len(motifQ))])
				}
			}
			for i := len(qs); i < n; i++ {
				if i > 0 && hr.chance(1, 5) {
					qs = append(qs, qs[hr.intn(len(qs))])
				} else {
					q := mkq()
					for try := 0; try < 4 && ee.costlyN(q, depth, 2500); try++ {
						q = mkq()
					}
					qs = append(qs, q)
				}
			}
			// look-alikes: a subject id that is spelled like a subject set of the same batch (and the other way round)
			// is a DIFFERENT subject; entries must not be confused by any textual key
			for _, q := range append([]*ketoapi.RelationTuple{}, qs...) {
				if len(qs) >= 10 || !hr.chance(1, 2) { // 10 = the default batch size limit
					continue
				}
				twin := *q
				if q.SubjectSet != nil {
					sidStr := q.SubjectSet.String()
					twin.SubjectID, twin.SubjectSet = &sidStr, nil
				} else if q.SubjectID != nil {
					if ss, err := (&ketoapi.SubjectSet{}).FromString(*q.SubjectID); err == nil {
						twin.SubjectID, twin.SubjectSet = nil, ss
					} else {
						continue
					}
				} else {
					continue
				}
				qs = append(qs, &twin)
			}
			for i, q := range qs { // see costBudget: twins, motif and repeated entries are probed as well
				if ee.costlyN(q, depth, 2500) {
					cheap := *q
					cheap.Relation = "nope"
					qs[i] = &cheap
					out.stat("costly")
				}
			}
			n = len(qs)
			var es, parts []string
			var restObs, gObs string
			var bctx context.Context
			var bcancel context.CancelFunc
			bslowNow := false
			askBatch := func() {
			bctx, bcancel = context.WithTimeout(context.Background(), 15*time.Second)
			defer func() { bslowNow = bctx.Err() == context.DeadlineExceeded; bcancel() }()
			ctx := bctx
			es, parts = nil, nil
			req := &rts.BatchCheckRequest{MaxDepth: int32(depth)}
			for _, q := range qs {
				es = append(es, ee.engineObsCtx(ctx, q, depth))
				bb, _ := json.Marshal(q)
				parts = append(parts, string(bb))
				req.Tuples = append(req.Tuples, tupleToProto(q))
			}
			code, b := restCtx(ctx, ee.e.read, "POST", fmt.Sprintf("/relation-tuples/batch/check?max-depth=%d", depth), []byte(`{"tuples":[`+strings.Join(parts, ",")+`]}`))
			var rb struct {
				Results []struct {
					Allowed bool   `json:"allowed"`
					Error   string `json:"error"`
				} `json:"results"`
			}
			restObs = fmt.Sprintf("RB=%d", code)
			if code == 200 && json.Unmarshal(b, &rb) == nil {
				for _, x := range rb.Results {
					restObs += fmt.Sprintf(" %s/%s", b01(x.Allowed), b01(x.Error != ""))
				}
			}
			gresp, err := client.BatchCheck(ctx, req)
			gObs = fmt.Sprintf("GB=%d", grpcCode(err))
			if err == nil {
				for _, x := range gresp.Results {
					gObs += fmt.Sprintf(" %s/%s", b01(x.Allowed), b01(x.Error != ""))
				}
			}
			}
			bslow := false
			for try := 0; try < 3; try++ {
				askBatch()
				if bslowNow {
					bslow = true
					break
				}
				if batchAgrees(es, restObs) && batchAgrees(es, gObs) {
					break
				}
				if try < 2 {
					out.stat("transient_disagreement_candidates")
				}
			}
			if bslow {
				out.stat("slow_skipped")
				cases++
				continue
			}
			out.emit(fmt.Sprintf("ebatch %d %s", n, strings.Join(es, " ")), restObs+" ; "+gObs)
			out.stat(fmt.Sprintf("batch.n%d", n))
			cases++
		}
		ee.e.close()
	}
}

func b01(b bool) string {
	if b {
		return "1"
	}
	return "0"
}

// singleAgrees / batchAgrees: does every transport report the engine's decision?  Only used to decide whether to ask again;
// the verdict is the model driver's.
func wantOf(e string) string {
	switch {
	case strings.HasPrefix(e, "is/0"):
		return "1"
	case strings.HasPrefix(e, "not/0"), strings.HasPrefix(e, "unknown/0"):
		return "0"
	}
	return ""
}
func singleAgrees(E string, obs []string) bool {
	w := wantOf(E)
	if w == "" {
		return true
	}
	for _, o := range obs {
		if i := strings.LastIndex(o, "/"); i >= 0 {
			if a := o[i+1:]; (a == "0" || a == "1") && a != w {
				return false
			}
		}
	}
	return true
}
func batchAgrees(es []string, obs string) bool {
	f := strings.Fields(obs)
	if len(f) != len(es)+1 {
		return true // the status line alone: nothing to compare entry by entry
	}
	for i, e := range es {
		w := wantOf(e)
		if w == "" {
			continue
		}
		if a := strings.SplitN(f[i+1], "/", 2)[0]; a != w {
			return false
		}
	}
	return true
}
