//go:build verif

package verifh

import (
	"github.com/ory/keto/internal/driver/config"
	"context"
	"encoding/json"
	"fmt"
	"net/url"
	"strings"
	"testing"

	"github.com/ory/keto/internal/namespace"
	"github.com/ory/keto/internal/namespace/ast"
	"github.com/ory/keto/ketoapi"
	rts "github.com/ory/keto/proto/ory/keto/relation_tuples/v1alpha2"
)

func init() { suites["EXPAND"] = suiteExpand }

func treeTokAPI(t *ketoapi.Tree[*ketoapi.RelationTuple]) string {
	if t == nil {
		return "nil"
	}
	var sub string
	if t.Tuple == nil {
		sub = "?"
	} else if t.Tuple.SubjectID != nil {
		sub = "I " + hx(*t.Tuple.SubjectID)
	} else if t.Tuple.SubjectSet != nil {
		sub = fmt.Sprintf("S %s %s %s", hx(t.Tuple.SubjectSet.Namespace), hx(t.Tuple.SubjectSet.Object), hx(t.Tuple.SubjectSet.Relation))
	} else {
		sub = "?"
	}
	if t.Type == ketoapi.TreeNodeLeaf {
		return "L " + sub
	}
	parts := []string{fmt.Sprintf("%s %s %d", strings.ToUpper(string(t.Type))[:1], sub, len(t.Children))}
	for _, c := range t.Children {
		parts = append(parts, treeTokAPI(c))
	}
	return strings.Join(parts, " ")
}

func suiteExpand(t *testing.T, cfg cfgT) {
	out := newSink(cfg, "cases.txt")
	defer out.close(cfg)
	r := newRng(cfg.seed)
	ctx := context.Background()
	cases := 0
	nss := []*namespace.Namespace{{Name: "U"}, {Name: "G", Relations: []ast.Relation{{Name: "m"}, {Name: "o"}}}, {Name: "H"}}
	// corpus: the D7 witness (known finding). Shard ids are random, so build the store until 'a' is listed before 's'.
	for try := 0; try < 16; try++ {
		ee := newEngineEnv(t, nss, false, false, 3, 100)
		for _, o := range []string{"r", "a", "s"} {
			ee.pool.add(o)
		}
		ss := func(o string) *ketoapi.SubjectSet { return &ketoapi.SubjectSet{Namespace: "G", Object: o, Relation: "m"} }
		ee.insert(t, []*ketoapi.RelationTuple{
			{Namespace: "G", Object: "r", Relation: "m", SubjectSet: ss("a")}, {Namespace: "G", Object: "r", Relation: "m", SubjectSet: ss("s")},
			{Namespace: "G", Object: "a", Relation: "m", SubjectSet: ss("s")}, {Namespace: "G", Object: "s", Relation: "m", SubjectID: strp("u1")}})
		rows, _ := ee.e.rowsInOrder(ee.pool)
		ia, is := -1, -1
		for i, row := range rows {
			if strings.Contains(row, "T "+hx("G")+" "+hx("r")+" ") {
				if strings.HasSuffix(row, hx("a")+" "+hx("m")) {
					ia = i
				} else {
					is = i
				}
			}
		}
		if ia >= 0 && ia < is {
			ee.header(out)
			ee.table(out)
			v := url.Values{"namespace": {"G"}, "object": {"r"}, "relation": {"m"}, "max-depth": {"3"}}
			code, body := rest(ee.e.read, "GET", "/relation-tuples/expand?"+v.Encode(), nil)
			var tr ketoapi.Tree[*ketoapi.RelationTuple]
			_ = json.Unmarshal(body, &tr)
			tok := treeTokAPI(&tr)
			out.emit(fmt.Sprintf("expand S %s %s %s %d", hx("G"), hx("r"), hx("m"), 3), fmt.Sprintf("%d %s ; %d %s", code, tok, 200, tok))
			out.stat("corpus.d7")
			ee.e.close()
			break
		}
		ee.e.close()
	}
	for cases < cfg.n {
		hr := r.fork()
		gdepth := []int{30, 30, 1, 2, 3, 4, 5, 6}[hr.intn(8)]
		ee := newEngineEnv(t, nss, false, false, gdepth, 100)
		objs := []string{"a", "b", "c", "d", "e", "f"}
		for _, o := range objs {
			ee.pool.add(o)
		}
		for i := 0; i < 130; i++ {
			ee.pool.add(fmt.Sprintf("w%d", i))
		}
		ee.header(out)
		var ts []*ketoapi.RelationTuple
		shape := hr.intn(6)
		add := func(ns, o, rel string, sid *string, ss *ketoapi.SubjectSet) {
			ts = append(ts, &ketoapi.RelationTuple{Namespace: ns, Object: o, Relation: rel, SubjectID: sid, SubjectSet: ss})
		}
		switch shape {
		case 0: // random graph with cycles and duplicates
			n := 5 + hr.intn(20)
			for i := 0; i < n; i++ {
				o := hr.pick(objs)
				if hr.chance(1, 3) {
					add("G", o, "m", strp(hr.pick(egUsers)), nil)
				} else {
					add("G", o, "m", nil, &ketoapi.SubjectSet{Namespace: "G", Object: hr.pick(objs), Relation: "m"})
				}
			}
		case 1: // chain a -> b -> c -> d -> e -> f -> user
			for i := 0; i+1 < len(objs); i++ {
				add("G", objs[i], "m", nil, &ketoapi.SubjectSet{Namespace: "G", Object: objs[i+1], Relation: "m"})
			}
			add("G", "f", "m", strp("u0"), nil)
			add("G", "c", "m", strp("u1"), nil)
		case 2: // diamonds: a -> {b, c} -> d -> user ; the D7 pattern r -> {a, s}, a -> s
			add("G", "a", "m", nil, &ketoapi.SubjectSet{Namespace: "G", Object: "b", Relation: "m"})
			add("G", "a", "m", nil, &ketoapi.SubjectSet{Namespace: "G", Object: "c", Relation: "m"})
			add("G", "b", "m", nil, &ketoapi.SubjectSet{Namespace: "G", Object: "c", Relation: "m"})
			add("G", "b", "m", nil, &ketoapi.SubjectSet{Namespace: "G", Object: "d", Relation: "m"})
			add("G", "c", "m", nil, &ketoapi.SubjectSet{Namespace: "G", Object: "d", Relation: "m"})
			add("G", "c", "m", strp("u1"), nil)
			add("G", "d", "m", strp("u0"), nil)
		case 5: // the same STRING in different roles: one object under two relations, the same object name in two
			// namespaces, a subject id spelled like an object; every node must keep its own namespace, relation and kind
			add("G", "a", "m", nil, &ketoapi.SubjectSet{Namespace: "G", Object: "a", Relation: "o"})
			add("G", "a", "m", strp("a"), nil)
			add("G", "a", "o", nil, &ketoapi.SubjectSet{Namespace: "H", Object: "a", Relation: "m"})
			add("G", "a", "o", strp("b"), nil)
			add("H", "a", "m", strp("a"), nil)
			add("H", "a", "m", strp("u1"), nil)
			add("H", "a", "m", nil, &ketoapi.SubjectSet{Namespace: "G", Object: "b", Relation: "m"})
			add("G", "b", "m", strp("b"), nil)
		case 3: // a wide node: more than one page of children
			k := 101 + hr.intn(25)
			for i := 0; i < k; i++ {
				add("G", "a", "m", strp(fmt.Sprintf("w%d", i)), nil)
			}
			add("G", "a", "m", nil, &ketoapi.SubjectSet{Namespace: "G", Object: "b", Relation: "m"})
			add("G", "b", "m", strp("u0"), nil)
		case 4: // a cycle with tails, two relations, an empty-relation subject set
			add("G", "a", "m", nil, &ketoapi.SubjectSet{Namespace: "G", Object: "b", Relation: "m"})
			add("G", "b", "m", nil, &ketoapi.SubjectSet{Namespace: "G", Object: "a", Relation: "m"})
			add("G", "b", "m", nil, &ketoapi.SubjectSet{Namespace: "G", Object: "c", Relation: "o"})
			add("G", "c", "o", strp("u2"), nil)
			add("G", "a", "m", nil, &ketoapi.SubjectSet{Namespace: "H", Object: "d", Relation: ""})
			add("H", "d", "", strp("u1"), nil)
			add("H", "d", "o", strp("u0"), nil) // another relation of the same object: not part of H:d#""
			add("G", "a", "m", nil, &ketoapi.SubjectSet{Namespace: "G", Object: "a", Relation: "m"})
		}
		// shuffle insertion has no influence on shard order (random ids); insert twice in two calls to vary it anyway
		ee.insert(t, ts)
		ee.table(out)
		out.stat(fmt.Sprintf("shape.%d", shape))
		for i := 0; i < 10 && cases < cfg.n; i++ {
			ns, obj, rel := "G", hr.pick(objs), hr.pick([]string{"m", "m", "m", "o"})
			if hr.chance(1, 12) {
				ns = "zz"
			}
			if hr.chance(1, 10) {
				ns, obj, rel = "H", "d", ""
			}
			rd := []int{0, 0, -1, 1, 2, 3, 4, 5, 7}[hr.intn(9)]
			v := url.Values{"namespace": {ns}, "object": {obj}, "relation": {rel}, "max-depth": {fmt.Sprint(rd)}}
			code, body := rest(ee.e.read, "GET", "/relation-tuples/expand?"+v.Encode(), nil)
			restTree := "-"
			if code == 200 {
				var tr ketoapi.Tree[*ketoapi.RelationTuple]
				if err := json.Unmarshal(body, &tr); err == nil && tr.Type != "" {
					restTree = treeTokAPI(&tr)
				} else {
					restTree = "nil"
				}
			}
			resp, err := rts.NewExpandServiceClient(ee.e.rconn).Expand(ctx, &rts.ExpandRequest{Subject: rts.NewSubjectSet(ns, obj, rel), MaxDepth: int32(rd)})
			gcode := grpcCode(err)
			gTree := "-"
			if err == nil {
				if resp.Tree == nil {
					gTree = "nil"
				} else {
					gTree = treeTokAPI(ketoapi.TreeFromProto[*ketoapi.RelationTuple](resp.Tree))
				}
			}
			out.emit(fmt.Sprintf("expand S %s %s %s %d", hx(ns), hx(obj), hx(rel), rd), fmt.Sprintf("%d %s ; %d %s", code, restTree, gcode, gTree))
			out.stat(fmt.Sprintf("expand.%d", code))
			cases++
			if i == 4 { // the global limit changes while the server runs (configuration reload): the next expands follow it
				g2 := []int{30, 1, 2, 3, 5, 8}[hr.intn(6)]
				if g2 != ee.gdepth {
					_ = ee.e.reg.Config(ctx).Set(config.KeyLimitMaxReadDepth, g2)
					ee.gdepth = g2
					ee.header(out)
					ee.table(out)
					out.stat("depth_changed")
				}
			}
		}
		ee.e.close()
	}
}
