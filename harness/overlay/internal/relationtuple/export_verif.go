//go:build verif

package relationtuple

import (
	rts "github.com/ory/keto/proto/ory/keto/relation_tuples/v1alpha2"
)

// VerifQueryWrapper exposes the adapter the gRPC list/delete handlers use to decode a RelationQuery.
func VerifQueryWrapper(q *rts.RelationQuery) *queryWrapper { return &queryWrapper{q} }
