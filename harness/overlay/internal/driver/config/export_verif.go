//go:build verif

package config

import (
	"context"

	"github.com/ory/keto/internal/namespace"
)

// VerifNewOPLWatcher builds the OPL file watcher for a file or directory target.
func VerifNewOPLWatcher(ctx context.Context, c *Config, target string) (namespace.Manager, error) {
	return newOPLConfigWatcher(ctx, c, target)
}
