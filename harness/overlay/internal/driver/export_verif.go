//go:build verif

package driver

import (
	"testing"

	"github.com/ory/keto/ketoctx"
)

// VerifWithContextualizer lets the harness run a registry under another network id (multi-tenancy),
// which production embedders do through ketoctx.WithContextualizer.
func VerifWithContextualizer(c ketoctx.Contextualizer) TestRegistryOption {
	return func(_ testing.TB, r *RegistryDefault) { r.ctxer = c }
}
