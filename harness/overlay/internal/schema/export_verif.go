//go:build verif

package schema

// VerifItem is one lexer item as the parser sees it.
type VerifItem struct {
	Typ        int
	Val        string
	Start, End int
}

// VerifLex runs the lexer to its end (EOF or error item).
func VerifLex(input string) []VerifItem {
	l := Lex("input", input)
	var out []VerifItem
	for i := 0; i < len(input)+3; i++ {
		it := l.nextItem()
		out = append(out, VerifItem{int(it.Typ), it.Val, it.Start, it.End})
		if it.Typ == itemEOF || it.Typ == itemError {
			break
		}
	}
	return out
}

// VerifItemRange exposes the byte range an error points at.
func (e *ParseError) VerifItemRange() (int, int) { return e.item.Start, e.item.End }
